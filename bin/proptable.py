"""Per-property configuration shared by bin/check and bin/mkmanifest."""

KERNEL = "Lean 4.33 kernel (theorems re-checked by `lake build`; thorough tier re-checks the .olean files with leanchecker)"
AXIOMS = "axioms per theorem as printed by #print axioms on this run; only propext, Classical.choice, Quot.sound are accepted; no sorry/admit/native_decide/bv_decide/implemented_by/unsafe (grepped)"
TGEN = "/verif/gen/go2lean (Go AST -> Lean translator, ~600 lines, tiny subset, fails closed) and the bridge lemmas Generated.f = Model.f"
TDIFF = "/verif/harness (Go, built with -tags verif against /repo) + the compiled Lean driver bsxmodel + the hex line protocol and canonicalisation code"
HOOKS = "/repo/verif_hooks_on.go wrappers (build tag verif) call the package internals unchanged"

PROPS = {}


def prop(pid, **kw):
    kw.setdefault("level", "proof")
    kw.setdefault("harness", pid)
    kw.setdefault("timeout", {"quick": 900, "thorough": 3000})
    PROPS[pid] = kw


prop(
    "C04",
    lean_modules=["BloomVerif.Bridge.Leaf", "BloomVerif.Lemmas.NumVal", "BloomVerif.Props.C04"],
    technique="Lean 4 proof (range-cover theorem over Rat/±inf, monotone lift through AND/OR trees) + regenerated Go->Lean leaf evaluators with bridge lemmas + differential correspondence",
    design_ref="DESIGN.md section 4 C04",
    text="Machine-checked proof that a block whose metadata covers a row is kept by every prefilter tree the row's exact values satisfy "
         "(all operators, operands, saturation states, integers beyond int64, fractional values, ±inf, every AND/OR/nil/unknown tree). "
         "The minmax/numeric/string evaluators, UpdateMinMaxIndex and the unsigned clamp are re-translated from /repo's Go source on every run and proved equal to the model; "
         "float conversion, tree evaluation and the end-to-end path are tied by differential testing.",
    trusted_base=[KERNEL, AXIOMS, TGEN, TDIFF, HOOKS,
                  "modelled, not verified: math.Floor/Ceil and float->int conversion (hand model over Rat, tied by T-diff on >=20000 values of every numeric kind); "
                  "evaluatePrefilterExpression/Condition tree walk (hand model, T-diff on random trees incl. nil/empty/unknown nodes); encoding/json of numeric values"],
    assumptions=["an empty partition ID means 'no partition ID' (strict prefilter semantics, DESIGN.md section 3)",
                 "NaN is excluded (documented as not indexed)",
                 "numeric condition operands are int64 (true of every Go value of the type)"],
)

CONTENT_TB = [KERNEL, AXIOMS, TGEN + " (prefilter leaf evaluators; Unicode IsSpace/ToLower tables regenerated from the Go toolchain by /verif/gen/unitables)", TDIFF, HOOKS,
              "modelled, not verified: encoding/json Marshal (rows enter the model as the JSON tree encoding/json's own token stream reads back from the marshaled bytes); "
              "gjson's parser (cross-checked on every row: the production walker's emissions must equal the Lean walk of the encoding/json tree); Go regexp (oracle table per case); "
              "bits-and-blooms (assumed: every inserted string tests positive, also after WriteTo/ReadFrom — hypothesis SoundBuild); snappy/zstd round trip; "
              "the compiled single-walk matcher's early exit / lazy regex phase is not modelled separately: its verdicts are compared with the documented semantics on every (query,row) case; "
              "the query pipeline's goroutines and chunked region reader (covered by the end-to-end comparison and by C19-C24)"]
CONTENT_ASSUME = ["rows are JSON objects whose strings are valid UTF-8 (what json.Marshal emits for Go strings; invalid UTF-8 via json.RawMessage is outside the model)",
                  "bloom filters are sound for inserted entries (SoundBuild); they may have any false-positive behaviour",
                  "regex semantics for CONDITION nodes without a condition: dropped from their parent (what the engine's compile step does)",
                  "a MetaStore yields every referenced file with at least the blocks that satisfy the prefilter (true of both shipped stores)"]

prop(
    "C01",
    lean_modules=["BloomVerif.Lemmas.Guard", "BloomVerif.Lemmas.Tokenizer", "BloomVerif.Lemmas.Content", "BloomVerif.Props.C04", "BloomVerif.Props.C01"],
    technique="Lean 4 proof (walker prefix-closure lemma, regex-guard soundness, monotone filter domination, C04 lift; for every JSON tree, tokenizer, expression tree and file/block split) + regenerated Unicode tables + three-granularity differential correspondence",
    design_ref="DESIGN.md section 4 C01",
    text="Machine-checked theorem C01_no_false_negatives: for index-covered files (established for flush and merge output by C18's theorems), every stored row that matches the bloom and regex trees under the documented "
         "semantics and whose own partition ID / indexed values satisfy the prefilter is in the query result - for every JSON tree, every tokenizer function, every AND/OR tree with nil/empty/unknown nodes, "
         "every split into files and blocks, every sound filter. Supporting theorems: every delimiter-bounded prefix of an emitted path is emitted (so a true regex condition implies its Field guard), "
         "direct (path,token) match implies the joined key, the fast tokenizer equals Fields∘ToLower on the regenerated Unicode tables (kernel-evaluated over the whole table). "
         "Tied to the code per row (walker, entries, tokenizer), per (query,row) (compiled matcher) and end to end over random ingest/flush/merge/reopen/external-writer histories.",
    trusted_base=CONTENT_TB,
    assumptions=CONTENT_ASSUME,
)

prop(
    "C02",
    lean_modules=["BloomVerif.Lemmas.Content", "BloomVerif.Lemmas.Exact", "BloomVerif.Props.C02"],
    technique="Lean 4 proof (query = filter of selected blocks' rows, as list equality; sublist for multiplicity) + differential correspondence per (query,row) and end to end with block-level layout read back",
    design_ref="DESIGN.md section 4 C02",
    text="Machine-checked theorems: every returned row is stored and satisfies the documented semantics whatever the filters answer (query_sound); the answer is a sublist of the stored rows (multiplicity); "
         "without a prefilter it equals exactly the matching stored rows; with a prefilter it equals the matching rows of exactly the blocks whose metadata satisfies the tree under strict leaves "
         "(a leaf on missing partition/minmax metadata is false). Tied to the code by comparing every query answer of random histories with the model's per-row and per-block verdicts over the layout read back through the public helpers.",
    trusted_base=CONTENT_TB,
    assumptions=CONTENT_ASSUME,
)

# Properties not claimed, with the reason (kept current; see DESIGN.md).
NOT_CLAIMED = {}
