"""Per-property configuration shared by bin/check and bin/mkmanifest."""

KERNEL = "Lean 4.33 kernel (theorems re-checked by `lake build`; thorough tier re-checks the .olean files with leanchecker)"
AXIOMS = "axioms per theorem as printed by #print axioms on this run; only propext, Classical.choice, Quot.sound are accepted; no sorry/admit/native_decide/bv_decide/implemented_by/unsafe (grepped)"
TGEN = "/verif/gen/go2lean (Go AST -> Lean translator, ~600 lines, tiny subset, fails closed) and the bridge lemmas Generated.f = Model.f"
TDIFF = "/verif/harness (Go, built with -tags verif against /repo) + the compiled Lean driver bsxmodel + the hex line protocol and canonicalisation code"
HOOKS = "/repo/verif_hooks_on.go wrappers (build tag verif) call the package internals unchanged"

PROPS = {}


def prop(pid, **kw):
    kw.setdefault("level", "proof")
    kw.setdefault("harness", pid)
    kw.setdefault("timeout", {"quick": 900, "thorough": 3000})
    PROPS[pid] = kw


prop(
    "C04",
    lean_modules=["BloomVerif.Bridge.Leaf", "BloomVerif.Bridge.PreCond", "BloomVerif.Bridge.TreePre", "BloomVerif.Lemmas.NumVal", "BloomVerif.Props.C04"],
    technique="Lean 4 proof (range-cover theorem over Rat/±inf, monotone lift through AND/OR trees) + regenerated Go->Lean leaf evaluators with bridge lemmas + differential correspondence",
    design_ref="DESIGN.md section 4 C04",
    text="Machine-checked proof that a block whose metadata covers a row is kept by every prefilter tree the row's exact values satisfy "
         "(all operators, operands, saturation states, integers beyond int64, fractional values, ±inf, every AND/OR/nil/unknown tree). "
         "The minmax/numeric/string evaluators, UpdateMinMaxIndex and the unsigned clamp are re-translated from /repo's Go source on every run and proved equal to the model; "
         "float conversion, tree evaluation and the end-to-end path are tied by differential testing.",
    trusted_base=[KERNEL, AXIOMS, TGEN, TDIFF, HOOKS,
                  "modelled, not verified: math.Floor/Ceil and float->int conversion (hand model over Rat, tied by T-diff on >=20000 values of every numeric kind); "
                  "evaluatePrefilterExpression/Condition tree walk (hand model, T-diff on random trees incl. nil/empty/unknown nodes); encoding/json of numeric values"],
    assumptions=["an empty partition ID means 'no partition ID' (strict prefilter semantics, DESIGN.md section 3)",
                 "NaN is excluded (documented as not indexed)",
                 "numeric condition operands are int64 (true of every Go value of the type)"],
)

CONTENT_TB = [KERNEL, AXIOMS, TGEN + " (prefilter leaf evaluators; Unicode IsSpace/ToLower tables regenerated from the Go toolchain by /verif/gen/unitables)", TDIFF, HOOKS,
              "modelled, not verified: encoding/json Marshal (rows enter the model as the JSON tree encoding/json's own token stream reads back from the marshaled bytes); "
              "gjson's parser (cross-checked on every row: the production walker's emissions must equal the Lean walk of the encoding/json tree); Go regexp (oracle table per case); "
              "bits-and-blooms (assumed: every inserted string tests positive, also after WriteTo/ReadFrom — hypothesis SoundBuild); snappy/zstd round trip; "
              "the compiled single-walk matcher's early exit / lazy regex phase is not modelled separately: its verdicts are compared with the documented semantics on every (query,row) case; "
              "the query pipeline's goroutines and chunked region reader (covered by the end-to-end comparison and by C19-C24)"]
CONTENT_ASSUME = ["rows are JSON objects whose strings are valid UTF-8 (what json.Marshal emits for Go strings; invalid UTF-8 via json.RawMessage is outside the model)",
                  "bloom filters are sound for inserted entries (SoundBuild); they may have any false-positive behaviour",
                  "regex semantics for CONDITION nodes without a condition: dropped from their parent (what the engine's compile step does)",
                  "a MetaStore yields every referenced file with at least the blocks that satisfy the prefilter (true of both shipped stores)"]

prop(
    "C01",
    lean_modules=["BloomVerif.Lemmas.Guard", "BloomVerif.Lemmas.Tokenizer", "BloomVerif.Lemmas.Content", "BloomVerif.Bridge.TreeBloom", "BloomVerif.Bridge.Guard", "BloomVerif.Props.C04", "BloomVerif.Props.C01"],
    technique="Lean 4 proof (walker prefix-closure lemma, regex-guard soundness, monotone filter domination, C04 lift; for every JSON tree, tokenizer, expression tree and file/block split) + regenerated Unicode tables + three-granularity differential correspondence",
    design_ref="DESIGN.md section 4 C01",
    text="Machine-checked theorem C01_no_false_negatives: for index-covered files (established for flush and merge output by C18's theorems), every stored row that matches the bloom and regex trees under the documented "
         "semantics and whose own partition ID / indexed values satisfy the prefilter is in the query result - for every JSON tree, every tokenizer function, every AND/OR tree with nil/empty/unknown nodes, "
         "every split into files and blocks, every sound filter. Supporting theorems: every delimiter-bounded prefix of an emitted path is emitted (so a true regex condition implies its Field guard), "
         "direct (path,token) match implies the joined key, the fast tokenizer equals Fields∘ToLower on the regenerated Unicode tables (kernel-evaluated over the whole table). "
         "Tied to the code per row (walker, entries, tokenizer), per (query,row) (compiled matcher) and end to end over random ingest/flush/merge/reopen/external-writer histories.",
    trusted_base=CONTENT_TB,
    assumptions=CONTENT_ASSUME,
)

prop(
    "C02",
    lean_modules=["BloomVerif.Bridge.PreCond", "BloomVerif.Bridge.TreePre", "BloomVerif.Bridge.TreeBloom", "BloomVerif.Lemmas.Content", "BloomVerif.Lemmas.Exact", "BloomVerif.Props.C02"],
    technique="Lean 4 proof (query = filter of selected blocks' rows, as list equality; sublist for multiplicity) + differential correspondence per (query,row) and end to end with block-level layout read back",
    design_ref="DESIGN.md section 4 C02",
    text="Machine-checked theorems: every returned row is stored and satisfies the documented semantics whatever the filters answer (query_sound); the answer is a sublist of the stored rows (multiplicity); "
         "without a prefilter it equals exactly the matching stored rows; with a prefilter it equals the matching rows of exactly the blocks whose metadata satisfies the tree under strict leaves "
         "(a leaf on missing partition/minmax metadata is false). Tied to the code by comparing every query answer of random histories with the model's per-row and per-block verdicts over the layout read back through the public helpers.",
    trusted_base=CONTENT_TB,
    assumptions=CONTENT_ASSUME,
)

prop(
    "C11",
    lean_modules=["BloomVerif.Lemmas.Build", "BloomVerif.Bridge.MergeMM", "BloomVerif.Props.C02", "BloomVerif.Props.C11", "BloomVerif.Props.C11Gen"],
    technique="Lean 4 proof over any valid grouping (rows preserved as a list, coverage preserved, query equality / superset via C02 and minmax monotonicity), with mergeMinMaxIndexes regenerated from merge.go and proved equal to the model's union of minmax maps (Bridge/MergeMM) + differential checks of real merges",
    design_ref="DESIGN.md section 4 C11",
    text="Machine-checked theorems, for any grouping of the source blocks into non-empty groups sharing partition ID and minmax key set (so independent of the greedy order): the stored row list is unchanged; every row stays in a "
         "block with its partition ID whose ranges cover it; a query without prefilter returns exactly the matching rows of the unchanged row list; a prefiltered query keeps every row of its pre-merge answer and returns only matching rows. "
         "Real merges of random populations are compared before/after (multiset, coverage, 12 queries each) and their observed grouping is checked to be a valid grouping.",
    trusted_base=CONTENT_TB,
    assumptions=CONTENT_ASSUME + ["stored minmax ranges are int64 and ordered (true of every range the engine builds)"],
)

prop(
    "C12",
    lean_modules=["BloomVerif.Lemmas.MergePlan", "BloomVerif.Lemmas.MergeKey", "BloomVerif.Props.C12"],
    technique="Lean 4 proof (loop invariants over the greedy block grouping and file grouping folds) + regenerated blocksWithinMergeLimits + exact differential comparison of groupings",
    design_ref="DESIGN.md section 4 C12",
    text="Machine-checked invariants of the greedy folds for every block/file population and limit setting: a combined block stays within MaxRowGroupRows/MaxRowGroupBytes (cumulative, not only pairwise) and has one merge key; "
         "groups partition the blocks; one merge groups at most MaxFilesToMergePerOperation files, each group has >= 2 files and totals at most MaxFileSize (metadata on-disk sizes). "
         "identifyFileMergeGroups is compared exactly with the model on metadata-only populations (candidate order is an input: the Go sort is unstable), and the block grouping observed in real merges is compared with the model whenever the order is determined. "
         "The bucket key itself (blockMergeKey: uvarint-length-prefixed partition id and sorted minmax key names) is modelled byte for byte and proved to identify exactly (partition, key-name set) "
         "(merge_key_exact, via prefix-freeness of uvarint); the implementation's key bytes are compared with the model's on adversarial name families (prefixes/concatenations of one another, "
         "names of 127/128/16384 bytes, empty names, separator-like bytes) and the same families are driven through real merges.",
    trusted_base=[KERNEL, AXIOMS, TGEN, TDIFF, HOOKS, "modelled, not verified: sort.Slice (order taken as input and re-derived only when no two candidates tie); Go map iteration over partitions (groups compared as sets)"],
    assumptions=["size = the sum of the source blocks' on-disk sizes recorded in metadata (DESIGN.md section 3)", "row counts and sizes do not overflow int64 when summed"],
)

FORMAT_TB = [KERNEL, AXIOMS, TGEN + " (FileMetadata.validate and validateFilterSection are re-translated with Go's wrapping int64 arithmetic)", TDIFF, HOOKS,
             "modelled, not verified: encoding/json of the metadata payload, snappy/zstd, CRC32C (assumed to detect the corruptions it is asked to detect), bits-and-blooms WriteTo/ReadFrom; "
             "planBlockFilterReads, heldSection and readChunkFrom are hand-modelled and tied by differential testing (not by the translator)"]

prop(
    "C17",
    lean_modules=["BloomVerif.Lemmas.Format", "BloomVerif.Props.C17"],
    technique="Lean 4 proof (row-section encode/scan inverse both ways, layout prefix sums, written layout passes the regenerated validation) + read-back comparison of every written file",
    design_ref="DESIGN.md section 4 C17",
    text="Machine-checked: scanning a written row section returns exactly the rows and determines the section; block offsets are the prefix sums from 0 and the filter region follows with sections in block order; such a layout passes the "
         "validation function regenerated from the Go source. Every file random histories produce (flush and merge, all compressions) is parsed with ReadFileMetadata and compared with the metastore copy, the Lean layout, and with row count, "
         "uncompressed size, CRC32C, compression and distinct entry counts recomputed from its row data using the Lean entries.",
    trusted_base=FORMAT_TB,
    assumptions=["rows are shorter than 2^32 bytes (the engine rejects longer ones)", "blocks an external writer produced (also when copied verbatim by a merge) carry that writer's metadata and are outside this property"],
)

prop(
    "C18",
    lean_modules=["BloomVerif.Lemmas.Build", "BloomVerif.Props.C18"],
    technique="Lean 4 proof (flush and merge establish index coverage at block and file level; minmax key set exact) + probing every model entry in the filters read back from disk",
    design_ref="DESIGN.md section 4 C18",
    text="Machine-checked: blocks and files built by flush, and merged and copied blocks of any valid merge grouping, are index-covered (filters contain every field path, token and field::token pair of every row; file filters contain every "
         "block's entries; minmax ranges cover every indexed value and list exactly the provided keys; partition ID is each row's). For every written file of random histories, every entry the Lean model derives for every row is probed "
         "in the block and file filters read back from disk, and ranges/keys/partition IDs are compared with the model.",
    trusted_base=CONTENT_TB,
    assumptions=CONTENT_ASSUME,
)

prop(
    "C19",
    lean_modules=["BloomVerif.Lemmas.Format", "BloomVerif.Bridge.PlanReads", "BloomVerif.Bridge.Scanner", "BloomVerif.Bridge.ScannerList", "BloomVerif.Bridge.Held", "BloomVerif.Bridge.Chunk", "BloomVerif.Props.C19"],
    technique="Lean 4 proof over all int64 framing values (regenerated wrapping validation = exact model, acceptance implies in-bounds, chunk and slice bounds, scanner bounds) + differential validators + mutation fuzz",
    design_ref="DESIGN.md section 4 C19",
    text="Machine-checked for every int64 value of the framing fields: the validation regenerated from the Go source never overflows and equals the exact-arithmetic model; accepted metadata keeps the region, every row-data extent and "
         "every filter section inside the data area; a chunk read starts at its section, covers it, stays in the region and is bounded by the chunk target; a held section is sliced inside the buffer; the row scanner never over-reads. "
         "Partial: 'never a wrong row' rests on CRC32C; supporting evidence is a fuzz of byte-level mutants and CRC-consistent re-footers of engine-written files under recover with an allocation meter, and queries over mutants.",
    trusted_base=FORMAT_TB,
    assumptions=["UncompressedSize is not a framing field (an arbitrary value bounds an allocation by itself only; observation in DESIGN.md)", "mutants are taken of engine-written files (the property's quantifier)"],
)

prop(
    "C25",
    lean_modules=["BloomVerif.Bridge.TreePre", "BloomVerif.Bridge.TreeBloom", "BloomVerif.Bridge.Guard", "BloomVerif.Lemmas.Content", "BloomVerif.Lemmas.ExprJson", "BloomVerif.Props.C25"],
    technique="Lean 4 proof (And/Or flattening, builder fold, JSON decode∘encode = id for all trees of the three kinds) + differential comparison of constructors, builder, json.Marshal and json.Unmarshal with the model",
    design_ref="DESIGN.md section 4 C25",
    text="Machine-checked for all trees including empty, nil-condition and unknown nodes: And/Or (with flattening) evaluate to the conjunction/disjunction of their arguments; every builder call sequence evaluates as the fold "
         "'simple calls conjoin, Match assigns'; the engine's regex compile step preserves the meaning of constructor-built trees; decoding the JSON encoding returns the original tree for bloom, regex and prefilter expressions. "
         "Go's constructors, builder, json.Marshal and json.Unmarshal are compared with the model on random trees and call sequences, and round-tripped queries must return identical results.",
    trusted_base=[KERNEL, AXIOMS, TDIFF, HOOKS, "modelled, not verified: encoding/json's reflection rules (struct tags, omitempty) are hand-modelled; the tie is the exact comparison of json.Marshal output and json.Unmarshal results with the model on every case"],
    assumptions=["expression strings are valid UTF-8 (the excluded point is the recorded finding invalid-utf8-expression-string)",
                 "builder reading: Field/Token/FieldToken/FieldRegex conjoin onto the current expression, Match/MatchRegex/MatchPrefilter assign it (DESIGN.md section 3)"],
)

prop(
    "C26",
    level="other",
    lean_modules=["BloomVerif.Props.C26"],
    technique="Lean 4 theorems on the sizing discipline (filters built from exactly the covered rows' distinct entries) + exact (m,k) comparison of every written filter + measured false-positive rates",
    design_ref="DESIGN.md section 4 C26",
    text="Partial by nature: the rate is a statement about hashing statistics, which no model of this code decides. What is decided: (1) theorems that every block/file/merge-output filter is built from exactly the distinct entries of "
         "the rows it covers; (2) for every filter written in random histories and in single-block volumes up to 5,000 (thorough: 120,000) entries, (m,k) read from disk equals EstimateParameters(max(|S|,1), p) with |S| computed by the Lean "
         "entries; (3) measured false-positive rates on 20,000 absent probes per filter, judged only for n >= 100 (tiny filters are dominated by discretisation) and reported for all.",
    trusted_base=[KERNEL, AXIOMS, TDIFF, HOOKS, "bits-and-blooms EstimateParameters / hashing (the statistical claim rests on it)"],
    assumptions=["statistical tolerance: measured rate <= 1.6 p + 6 sigma + 0.002 for n >= 100"],
)

PIPE_TB = [KERNEL, AXIOMS, TDIFF, HOOKS + "; the verifEv hook call sites (add-only lines in ingest.go/flush.go/engine.go) report each internal step: a send/intent is logged before it happens or inside the lock that orders it, a receive after it happened",
           "the trace normaliser in /verif/harness/pipeline.go (re-orders only what real happens-before permits: a completed send logged after the matching receive; Stop's hidden deadline/AfterFunc steps are made explicit)",
           "modelled, not verified: Go channels, sync.RWMutex, context cancellation and the runtime scheduler (the LTS quantifies over every interleaving of its events; the harness validates that recorded runs of the real engine are runs of the LTS)"]
PIPE_ASSUME = ["MaxBufferedRows > 0 (config validation rejects 0)", "liveness clauses ('the caller keeps receiving', wall-clock bounds) are monitored on the implementation with slack, not proved",
               "store behaviour is arbitrary: a stalled store is a flushDone event that never comes, a failing store is flushDone false"]

prop(
    "C05",
    lean_modules=["BloomVerif.Lemmas.Pipeline", "BloomVerif.Bridge.ChanHelpers", "BloomVerif.Props.C05", "BloomVerif.Props.C05Gen"],
    technique="Lean 4 proof (inductive invariants over all event sequences of the pipeline LTS: conservation, at-most-once, graceful stop), with the acknowledgement senders of chan_helpers.go regenerated and proved to send at most once, truthfully, to every waiter (Bridge/ChanHelpers) + trace validation of recorded engine runs against the LTS + implementation monitors",
    design_ref="DESIGN.md section 4 C05",
    text="Machine-checked over every event sequence of the pipeline LTS (any interleaving of callers, actor, flush worker, store outcomes, Start, Stop with or without deadline, never-started engines): every accepted batch is answered or sits in exactly one pipeline stage "
         "(conservation), none is answered twice, and once Stop has returned nil every accepted batch has been answered. The safety part is a proof; 'the caller keeps receiving' is liveness and is monitored. Recorded hook-event traces of randomised and "
         "scripted schedules of the real engine must be runs of the LTS, and monitors count the values each done channel received.",
    trusted_base=PIPE_TB, assumptions=PIPE_ASSUME,
)

prop(
    "C07",
    lean_modules=["BloomVerif.Lemmas.Pipeline", "BloomVerif.Props.C07"],
    technique="Lean 4 proof (FIFO chain invariant: the unanswered batches in acceptance order are exactly worker ++ flushChan ++ parked ++ buffer ++ ingestChan) + trace validation + happens-before order monitor",
    design_ref="DESIGN.md section 4 C07",
    text="Machine-checked: in every reachable state the request being written holds the oldest unanswered batches, so when the flush worker delivers its verdict every batch accepted before any of its waiters is answered by the end of that step "
         "(waiters of one request in acceptance order); Flush is one such waiter, hence a barrier. Tied by trace validation and by a monitor that, on every nil it observes, checks all batches whose IngestRows had returned before the nil's batch was submitted.",
    trusted_base=PIPE_TB, assumptions=PIPE_ASSUME + ["'accepted earlier' for concurrent callers = IngestRows had returned before the later call began (DESIGN.md section 3); empty batches are exempt (acknowledged immediately by design)"],
)

prop(
    "C08",
    lean_modules=["BloomVerif.Lemmas.Pipeline", "BloomVerif.Props.C08", "BloomVerif.Props.C08Gen"],
    technique="Lean 4 proof (stopped is permanent and disables accept; Stop nil ⇒ drained; Stop error ⇒ flush context cancelled ⇒ flushBegin never enabled again), with the acceptance paths of IngestRows / Flush regenerated from ingest.go (refusal once stopped, flag and send under the state lock: Props/C08Gen) + trace validation incl. a context with late AfterFunc + timing monitors with slack",
    design_ref="DESIGN.md section 4 C08",
    text="Machine-checked on the LTS: after Stop has set stopped no request is accepted, ever; Stop returns nil only when nothing accepted is unanswered; in every state where Stop has returned the deadline error the flush context is cancelled and in every continuation no flush begins store work. "
         "Partial: 'returns by roughly the deadline' is wall-clock behaviour, monitored (4x deadline + 200 ms). Scripted schedules wedge the store, abandon unbuffered channels and use a Context whose AfterFunc callbacks run late.",
    trusted_base=PIPE_TB, assumptions=PIPE_ASSUME + ["'no further store work' = no flush request begins store work after Stop returned the error (a store call already in progress is not further work)"],
)

prop(
    "C09",
    lean_modules=["BloomVerif.Lemmas.Pipeline", "BloomVerif.Props.C09", "BloomVerif.Props.C08Gen"],
    technique="Lean 4 proof (size invariant of every pipeline stage ⇒ backlog ≤ IngestBufferSize + 4·MaxBufferedRows in every reachable state), with IngestRows regenerated from ingest.go (nil returned iff the request was queued: Props/C08Gen) + trace validation + measured backlog under stalled stores",
    design_ref="DESIGN.md section 4 C09",
    text="Machine-checked: in every reachable state the accepted-but-unanswered batches number at most IngestBufferSize + 4*MaxBufferedRows, whatever the stores do; a full ingest channel disables acceptance. The measured maximum backlog of recorded runs with stalled stores and several producers is compared with the bound.",
    trusted_base=PIPE_TB, assumptions=PIPE_ASSUME + ["every non-empty batch carries at least one row, and the actor flushes as soon as MaxBufferedRows rows are buffered (tied by the C10 actor correspondence)"],
)

PROTO_TB = [KERNEL, AXIOMS, TDIFF, HOOKS, "the instrumented in-memory DataStore / MetaStore wrappers of the harness (call log, k-th-call fault injection)",
            "modelled, not verified: the protocols are hand-written from handleFlush / merge / executeMergeGroup; the tie is the exact comparison of the store-call log, acknowledgement / return value, MetaStore content and query visibility at every fault position"]

prop(
    "C06",
    lean_modules=["BloomVerif.Lemmas.Proto", "BloomVerif.Lemmas.Actor", "BloomVerif.Props.C06", "BloomVerif.Props.C10"],
    technique="Lean 4 proof over an arbitrary fault predicate on call positions (nil ⇔ committed ⇔ the four essential calls succeeded; error ⇒ nothing committed and cleanup issued) + exhaustive fault-position differential check with visibility on this and a fresh engine",
    design_ref="DESIGN.md section 4 C06",
    text="Machine-checked for every set of failing call positions, any number of blocks, with and without an Abort-capable writer: the acknowledgement is nil exactly when CreateFile, every Write, Close and Update succeeded, exactly then the file is committed "
         "(and its rows become visible exactly once: allRows/query append lemmas); an error means nothing was committed and whatever was created was tombstoned; a batch with an unmarshalable row leaves the actor state untouched. "
         "Every single fault position (all pairs in the thorough tier) of flushes of 1-3 blocks is injected into the real engine; the store-call log and acknowledgements must equal the model and the rows must be visible / absent on this engine and on a fresh engine.",
    trusted_base=PROTO_TB,
    assumptions=["MetaStore.Update is atomic (as the property states); a single flush worker (proved FIFO in C07)"],
)

prop(
    "C10",
    lean_modules=["BloomVerif.Lemmas.Actor", "BloomVerif.Bridge.Trigger", "BloomVerif.Props.C10", "BloomVerif.Props.C10Gen"],
    technique="Lean 4 proof about the actor step function (under-limits invariant over all message sequences, immediate flush of all buffered data when a limit is reached, time trigger, row conservation), with the flush decisions of processIngestRequest / ingestWorker regenerated from ingest.go and proved equal to the model's (Bridge/Trigger) + exact differential check of the files written",
    design_ref="DESIGN.md section 4 C10",
    text="Machine-checked for every message sequence: between messages all four limits hold strictly; a batch that makes buffered rows, bytes or a touched partition's rows/bytes reach its limit hands all buffered data and every waiter to the flush worker in that step; "
         "a tick at or after start + MaxBufferedTime flushes a non-empty buffer (which always has a start time); no row is lost or duplicated on the way. Partial: the 100 ms ticker allowance is wall clock, monitored with slack. "
         "Deterministic message sequences are driven through the real engine and the files it wrote, in creation order, must equal the flush requests the Lean actor predicts (partitions, row ids, bytes, waiters).",
    trusted_base=PROTO_TB + ["Go map iteration order over partitions (flush contents compared per partition)"],
    assumptions=["limits are positive (config validation)", "row size = marshaled length + 4"],
)

prop(
    "C13",
    lean_modules=["BloomVerif.Lemmas.Proto", "BloomVerif.Props.C13"],
    technique="Lean 4 proof over an arbitrary fault predicate on the call positions of a multi-group merge (committed xor unchanged; nil iff committed and clean; ErrPostCommitCleanup iff committed and a source tombstone failed) + exhaustive fault-position differential check",
    design_ref="DESIGN.md section 4 C13",
    text="Machine-checked for every merge plan and every set of failing call positions: either the merge committed (no output tombstoned, every source tombstone issued after the commit) or the MetaStore is unchanged and no source was touched; nil iff committed and every source tombstone succeeded; "
         "ErrPostCommitCleanup iff committed and one failed; orphan outputs are tombstoned. A failure is injected at every call position of real multi-group merges (iterator, CreateFile, OpenFile, Read, Write, Close, Update, TombstoneFile) and return value, MetaStore content, "
         "tombstone order and a match-all query are compared with the model; a concurrent Merge must return ErrMergeInProgress.",
    trusted_base=PROTO_TB + ["Go map iteration order over partitions inside a group (the plan handed to the model is read off each run's own call log)"],
    assumptions=["MetaStore.Update is atomic"],
)

prop(
    "C03",
    lean_modules=["BloomVerif.Lemmas.Value", "BloomVerif.Props.C03"],
    technique="Lean 4 proof (delivered value = JSON round trip for rows without duplicated keys; proved counterexample for the unguarded statement; scan-protocol order over pooled buffers) + differential comparison of every returned row + poisoned-pool concurrency run",
    design_ref="DESIGN.md section 4 C03",
    text="Partial. Value part: machine-checked that the delivered value (gjson: first binding of a key wins) equals the reference JSON round trip (encoding/json: last wins) for every row in which no object repeats a key, and that the unguarded statement is false "
         "(witness with a duplicated key, replayed on the implementation and recorded as a known finding). Independence part: only protocol order is modelled (no view or copy after the buffer returned to the pool; deliveries come from copies); aliasing is a memory "
         "property - the check runs 8 concurrent queries with every scan buffer overwritten on release (verif hook), deep-mutates every returned row and re-reads all rows.",
    trusted_base=[KERNEL, AXIOMS, TDIFF, HOOKS + " (verifPoison in putScanBuffer)", "modelled, not verified: gjson Value(), encoding/json, strconv.ParseFloat (same parse on both sides), sync.Pool; invalid UTF-8 inside raw JSON is outside the model"],
    assumptions=["rows whose marshaled form encoding/json can decode", "strings are valid UTF-8"],
)

prop(
    "C27",
    lean_modules=["BloomVerif.Props.C27"],
    technique="Lean 4 proof by kernel evaluation over the regenerated table of stdout/stderr-capable call sites (finite quantifier) + nil-logger-discards fact + runtime capture of file descriptors 1 and 2 over failure histories",
    design_ref="DESIGN.md section 4 C27",
    text="Partial (third-party code is observed, not modelled). The table of every call in the package's non-test sources that can reach stdout/stderr (fmt.Print*, print/println, log.*, package-level slog.*, os.Stdout/os.Stderr) and the fact that a nil Logger "
         "becomes the discard handler are regenerated from /repo on every run; the theorem `silent` states that every history writes nothing, proved by evaluating the table in the kernel. The harness runs histories with store failures, corrupt files, "
         "files without filters, invalid regexes and Stop deadlines with fd 1/2 redirected to a capture file, which also covers the dependencies.",
    trusted_base=[KERNEL, AXIOMS, "/verif/gen/go2lean writeSinks (go/ast scan; the list of sink forms is the trusted part)", TDIFF],
    assumptions=["only the listed syntactic forms reach stdout/stderr from the package's own code (no reflection / unsafe tricks); dependencies are covered by the runtime capture only on the histories explored"],
)

FS_TB = [KERNEL, AXIOMS, TDIFF, HOOKS, "the operating system's directory semantics (O_EXCL create, rename replaces, unlink keeps an open inode alive) are modelled by lean/BloomVerif/Model/FSStore.lean and checked against a real temporary directory on every run",
         "modelled, not verified: os.ReadDir ordering, file permissions, disk-full and I/O errors of the real filesystem"]

prop(
    "C16",
    lean_modules=["BloomVerif.Lemmas.FSStore", "BloomVerif.Props.C16"],
    technique="Lean 4 refinement proof (directory-with-inodes model of FileSystemDataStore refines a per-pointer specification for every disciplined call sequence) + proved counterexample for the full statement + call-by-call differential against the real store on a temporary directory with a scripted name draw",
    design_ref="DESIGN.md section 4 C16",
    text="Partial, with a known finding. Machine-checked: for every sequence of CreateFile (any name-draw script, collisions included), Write, Close, Abort, TombstoneFile, OpenFile in which a pointer is tombstoned only after its writer was closed or aborted and Abort is not repeated on an unpublished writer that already finished (Abort after a successful Close is allowed and a no-op), the directory refines the specification "
         "(per step and, by C16_refinement_history_partial, after any allowed sequence from the empty directory: a scan lists exactly the published, untombstoned pointers with exactly their bytes; CreateFile never changes another pointer's files; TombstoneFile leaves neither .dat nor .tmp). The full statement is false of the unchanged code: tombstoning a pointer whose writer is still open frees the name, "
         "a later CreateFile can draw it again, and the first writer's Close then renames over the second writer's file (theorem C16_counterexample; reproduced on the real store by the check; known finding). "
         "The real store is driven through random sequences (disciplined and not) and must equal the model in every call result and in the final raw directory content.",
    trusted_base=FS_TB,
    assumptions=["single-threaded call sequences (calls of different writers interleave, but each call is atomic): the store's methods contain no shared mutable state beyond the directory"],
)

prop(
    "C15",
    lean_modules=["BloomVerif.Lemmas.Crash", "BloomVerif.Lemmas.CrashHistory", "BloomVerif.Props.C15"],
    technique="Lean 4 proof over a crash model (current view + durable view + per-inode synced length; process crash and power loss as relations) for every mutation boundary of the flush / failed-flush protocols + proved counterexamples for merges + crash-point enumeration on the real store (verifFS hook, every boundary reopened by a fresh engine) + strace syscall-shape conformance",
    design_ref="DESIGN.md section 4 C15",
    text="Partial, with a known finding. Machine-checked for any number and size of writes and any starting directory: at every mutation boundary of a flush, after a process crash or any power-loss state, the pointer's final name is absent, the empty reservation, or the complete file; after Close returned (before the acknowledgement) "
         "every crash state holds the complete file; a failed flush (Abort then TombstoneFile) never leaves content; and over whole histories of successful and failed flushes with distinct names, at every mutation boundary every flush completed so far is durably bound to its complete content in every crash state (C15_history_survives_crash) while failed ones stay invisible. The statement is false for merges with FileSystemDataStore as MetaStore: the sources are removed one by one after the output is published and the removals are not fsynced "
         "(theorems C15_merge_counterexample / C15_merge_power_loss_counterexample; reproduced on the real store; known finding). "
         "The check records every filesystem mutation of random flush / failed-flush / merge histories, compares the model's current view with the real directory at every boundary, materialises every process-crash and power-loss state and queries it with a fresh engine; "
         "a child process under strace must issue exactly the syscall sequence (O_EXCL creates, writes, fsync, rename, directory fsync, unlinks) of the model's protocols.",
    trusted_base=FS_TB + ["strace's rendering of the syscall stream; the power-loss relation (per path: current or last directory-fsynced binding; per inode: any prefix at least as long as the fsynced length) is the model of what a POSIX filesystem may keep"],
    assumptions=["the directory is used by one engine; a file's bytes are valid only when complete (the footer is written last; the scan rejects shorter prefixes - exercised by the reopen step, not proved)"],
)

prop(
    "C14",
    lean_modules=["BloomVerif.Lemmas.Snapshot", "BloomVerif.Props.C14"],
    technique="Lean 4 invariant proof over every interleaving of publish / flush commit / atomic merge commit / tombstone events with the steps of a query (MemoryMetaStore discipline) + proved counterexamples for the directory discipline + scheduled interleavings on the real engine whose recorded store-call traces are replayed on the model + free-running stress with the result monitor",
    design_ref="DESIGN.md section 4 C14",
    text="Machine-checked for MemoryMetaStore: for every event sequence accepted by the model (files immutable once published; a flush commits new rows; a merge commit atomically swaps committed sources for live outputs holding the same rows - C11/C13; only uncommitted files are tombstoned), "
         "a query that completes with no error returns no row twice, every matching row acknowledged before it began, and only acknowledged matching rows; a tombstoned file the snapshot still needed makes the query fail. "
         "For FileSystemDataStore used as MetaStore the statement is false of the unchanged code - the directory listing is not atomic with the per-file reads and a merge removes sources after publishing the output: silent omission and silent duplication "
         "(theorems C14_directory_omission / C14_directory_duplication, both schedules driven on the real store on every run; known findings); proved for it: no omission in histories without removals. "
         "Partial: goroutine scheduling is explored (park points at the snapshot, every OpenFile and Read position, free-running stress), not proved; the model's guards are validated by trace acceptance on every schedule.",
    trusted_base=[KERNEL, AXIOMS, TDIFF, HOOKS, "the recording in-memory DataStore / logging MetaStore wrapper of the harness (its call log is the linearisation the model replays); modelled, not verified: the query pipeline's goroutines, the RWMutex of MemoryMetaStore, os.ReadDir"],
    assumptions=["rows are identified by a unique _id; a handle opened before its file is tombstoned keeps reading (POSIX unlink semantics, mirrored by the in-memory store)"],
)

QUERY_TB = [KERNEL, AXIOMS, TDIFF, HOOKS, "the auditing in-memory DataStore of the harness (per-handle open/seek/read/close log, use-after-close / concurrent-use / double-close detection, concurrent-read gauge, k-th-call faults)",
            "modelled, not verified: goroutine scheduling, channels, sync primitives and context of the query pipeline; the Lean models are hand-written and tied by differential / schedule exploration, not by the translator"]

prop(
    "C20",
    lean_modules=["BloomVerif.Lemmas.Cursor", "BloomVerif.Props.C20"],
    technique="Lean 4 proof on the cursor LTS (Next false is stable, a decided terminal state is immutable, Err is correct at the deciding step, Close idempotent) + schedule exploration of Next/Close/cancel/failures on the real cursor",
    design_ref="DESIGN.md section 4 C20",
    text="Machine-checked over every event sequence of the cursor LTS: once Next has returned false no row is produced again; a decided terminal state never changes (Close after the end, repeated Close); at the step that decides it, Err is nil only if nothing failed, "
         "is the context error if the Query context was canceled when Close or the terminating Next ran, and otherwise carries every recorded failure (none can be recorded later: the pipeline has exited); a Next that begins after the Query context has ended never decides 'complete', even while the cancellation has not yet reached the cursor's derived context (C20_canceled_before_next; asynchronous propagation is part of the model). Partial: 'Next eventually returns false' is liveness, monitored. "
         "Schedules with cancel / deadline expiry (through a non-standard Context type) / Close at every position (also concurrently with Next), stalls, OpenFile/Read/iterator failures and never-started/started/stopped engines are run on the real cursor.",
    trusted_base=QUERY_TB,
    assumptions=["'canceled' = the Query context was done before the deciding call began (a cancellation racing with a clean completion may report either)"],
)

prop(
    "C21",
    lean_modules=["BloomVerif.Lemmas.Cursor", "BloomVerif.Props.C21"],
    technique="Lean 4 proof on the handle-pool model (exclusive lending, a lent handle is never closed by others, every handle closed exactly once after teardown) + exact differential driving of the real pool + resource audit after every query schedule",
    design_ref="DESIGN.md section 4 C21",
    text="Machine-checked for every operation sequence obeying the reader discipline: acquire only returns an idle or a new handle, a lent handle keeps its status until its holder hands it back, and after closeAll with nothing lent every opened handle is closed exactly once. "
         "Partial: goroutine exit, iterator return and the semaphore are runtime facts - after every schedule the harness checks zero open handles, no use-after-close / concurrent use / double close, the goroutine count back at its baseline and no semaphore slot taken. "
         "The real fileHandlePool is driven through random operation sequences and compared handle-for-handle with the model.",
    trusted_base=QUERY_TB, assumptions=["readers hand back only handles they hold (true of evaluateBlockFilters / processDataBlock by inspection; breaches show up as MISUSE entries of the auditing store)"],
)

prop(
    "C22",
    lean_modules=["BloomVerif.Lemmas.Cursor", "BloomVerif.Bridge.Slot", "BloomVerif.Props.C22", "BloomVerif.Props.C22Gen"],
    technique="Lean 4 proof on the slot LTS (reads only while a slot is held; held slots never exceed the capacity; a blocked worker holds none), with querySlot.acquire/release and the script of Results.deliver regenerated from query_results.go (token conservation, deliver blocks only unheld: Bridge/Slot) + measured concurrent reads across concurrent queries with a stalled consumer",
    design_ref="DESIGN.md section 4 C22",
    text="Machine-checked for any number of workers of any number of queries: reads in progress <= slots held <= MaxQueryConcurrency in every reachable state, and a worker blocked on delivery or dispatch holds no slot. "
         "Partial: 'other queries complete' is liveness, sampled: with capacities 1, 2, 3, several concurrent queries and one consumer that stops reading, the others must finish and the auditing store's maximum of concurrent reads must stay within the cap.",
    trusted_base=QUERY_TB, assumptions=["the worker programs toggle their slot as modelled (acquire before the filter pass / scan, release before blocking sends): tied only by the measured read gauge"],
)

prop(
    "C23",
    lean_modules=["BloomVerif.Lemmas.Stats", "BloomVerif.Bridge.StatsLoop", "BloomVerif.Props.C23"],
    technique="Lean 4 proof on the read-plan model (at most once, all-or-none per file, skipped blocks are not read) and on the accounting model (skipped blocks report zero, processed blocks report all their rows, every returned row's block is listed as processed, totals are the per-block sums in any completion order, RowsMatched = rows returned) + exact comparison of Results.Stats with the plan computed from model/filter verdicts, with failures injected",
    design_ref="DESIGN.md section 4 C23",
    text="Machine-checked for the failure-free plan: each evaluated block is listed at most once, a file lists all or none of its prefilter-surviving blocks, a skipped block is not among the row reads; and for the accounting model (Model/Stats): a skipped entry reports zero rows and bytes, a processed entry its block's row count and uncompressed bytes, every returned row comes from a block listed as processed, the totals equal the per-block sums and do not depend on the order in which workers finished, RowsMatched equals the number of rows returned. On clean completion the entries and sums of every file are compared with that model. On real layouts the harness computes prefilter verdicts with the Lean model and filter verdicts "
         "with the files' own filters, and compares BlockStats (skipped/processed per block), rows processed, totals and RowsMatched on clean completion; with OpenFile/Read/iterator failures it checks at-most-once, all-or-none, zero for skipped and that every returned row's block is listed.",
    trusted_base=QUERY_TB, assumptions=["'all or none' is judged for queries that were not canceled or closed early (DESIGN.md section 3)"],
)

prop(
    "C24",
    lean_modules=["BloomVerif.Bridge.PreCond", "BloomVerif.Bridge.TreePre", "BloomVerif.Bridge.TreeBloom", "BloomVerif.Bridge.Guard", "BloomVerif.Bridge.PlanReads", "BloomVerif.Props.C24"],
    technique="Lean 4 proof on the read-plan model (open requires surviving blocks and a passing file filter; a row read requires prefilter and block-filter pass; no region read without conditions) + comparison of every read extent of the auditing store with the plan",
    design_ref="DESIGN.md section 4 C24",
    text="Machine-checked for the plan; on real layouts every OpenFile and every successful read extent [offset, length) logged by the auditing DataStore during fault-free, uncancelled queries must be explained by the plan: only planned files are opened, row data is read only of blocks the plan scans, "
         "the block filter region is read only when the query has bloom/regex conditions and a candidate block has a section, and every extent lies inside a declared row-data extent or the filter region. The chunk bounds themselves are proved under C19. The expectations are computed from the Lean pruneBloom (compared with the implementation's prune query); planBlockFilterReads (its hasSections latch), evaluatePrefilterCondition and the two tree walks evaluatePrefilterExpression / evaluateBloomExpression are regenerated from the Go source on every run and proved equal to the model (Bridge/PlanReads, Bridge/PreCond, Bridge/TreePre, Bridge/TreeBloom; the regex field guard regexExpressionToBloomFieldExpression likewise: Bridge/Guard). Directed layouts: ranges starting/ending exactly on the prefilter's bound, one-sided saturated ranges, files mixing sectioned and sectionless blocks, regex trees over files lacking some of their fields.",
    trusted_base=QUERY_TB, assumptions=["'no bloom or regex conditions' = both expressions absent (DESIGN.md section 3)"],
)

# Properties not claimed, with the reason (kept current; see DESIGN.md).
NOT_CLAIMED = {}
