"""Per-property configuration shared by bin/check and bin/mkmanifest."""

KERNEL = "Lean 4.33 kernel (theorems re-checked by `lake build`; thorough tier re-checks the .olean files with leanchecker)"
AXIOMS = "axioms per theorem as printed by #print axioms on this run; only propext, Classical.choice, Quot.sound are accepted; no sorry/admit/native_decide/bv_decide/implemented_by/unsafe (grepped)"
TGEN = "/verif/gen/go2lean (Go AST -> Lean translator, ~600 lines, tiny subset, fails closed) and the bridge lemmas Generated.f = Model.f"
TDIFF = "/verif/harness (Go, built with -tags verif against /repo) + the compiled Lean driver bsxmodel + the hex line protocol and canonicalisation code"
HOOKS = "/repo/verif_hooks_on.go wrappers (build tag verif) call the package internals unchanged"

PROPS = {}


def prop(pid, **kw):
    kw.setdefault("level", "proof")
    kw.setdefault("harness", pid)
    kw.setdefault("timeout", {"quick": 900, "thorough": 3000})
    PROPS[pid] = kw


prop(
    "C04",
    lean_modules=["BloomVerif.Bridge.Leaf", "BloomVerif.Lemmas.NumVal", "BloomVerif.Props.C04"],
    technique="Lean 4 proof (range-cover theorem over Rat/±inf, monotone lift through AND/OR trees) + regenerated Go->Lean leaf evaluators with bridge lemmas + differential correspondence",
    design_ref="DESIGN.md section 4 C04",
    text="Machine-checked proof that a block whose metadata covers a row is kept by every prefilter tree the row's exact values satisfy "
         "(all operators, operands, saturation states, integers beyond int64, fractional values, ±inf, every AND/OR/nil/unknown tree). "
         "The minmax/numeric/string evaluators, UpdateMinMaxIndex and the unsigned clamp are re-translated from /repo's Go source on every run and proved equal to the model; "
         "float conversion, tree evaluation and the end-to-end path are tied by differential testing.",
    trusted_base=[KERNEL, AXIOMS, TGEN, TDIFF, HOOKS,
                  "modelled, not verified: math.Floor/Ceil and float->int conversion (hand model over Rat, tied by T-diff on >=20000 values of every numeric kind); "
                  "evaluatePrefilterExpression/Condition tree walk (hand model, T-diff on random trees incl. nil/empty/unknown nodes); encoding/json of numeric values"],
    assumptions=["an empty partition ID means 'no partition ID' (strict prefilter semantics, DESIGN.md section 3)",
                 "NaN is excluded (documented as not indexed)",
                 "numeric condition operands are int64 (true of every Go value of the type)"],
)

# Properties not claimed, with the reason (kept current; see DESIGN.md).
NOT_CLAIMED = {}
