module verif/gen

go 1.23
