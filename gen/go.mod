module verif/gen

go 1.26.0
