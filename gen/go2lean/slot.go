package main

// querySlot.acquire / querySlot.release (query_results.go): one worker's occupancy of the global query
// semaphore, regenerated as step functions over (held, tokens this slot has put into the semaphore) (T-gen).
// A send on s.sem adds a token, a receive from s.sem removes one; a `select` becomes a match on which case
// fires (the send, or the query context ending). Anything else in these methods is outside the subset.

import (
	"fmt"
	"go/ast"
	"go/token"
	"os"
	"path/filepath"
	"strings"
)

type slotTr struct {
	t    *tr
	key  string
	recv string
}

func (g *slotTr) bad(n ast.Node, what string) { die("%s: shape: %s at %s", g.key, what, g.t.pos(n)) }

func (g *slotTr) isField(e ast.Expr, f string) bool { return isSel(e, g.recv, f) }

func (g *slotTr) cond(e ast.Expr) string {
	switch v := e.(type) {
	case *ast.ParenExpr:
		return "(" + g.cond(v.X) + ")"
	case *ast.UnaryExpr:
		if v.Op == token.NOT {
			return "(!" + g.cond(v.X) + ")"
		}
	case *ast.SelectorExpr:
		if g.isField(v, "held") {
			return "held"
		}
	case *ast.Ident:
		if v.Name == "true" || v.Name == "false" {
			return v.Name
		}
	}
	g.bad(e, fmt.Sprintf("condition %T", e))
	return ""
}

// comm classifies a channel operation: +1 (send on sem), -1 (receive from sem), 0 with ctx=true (receive from ctx.Done()).
func (g *slotTr) comm(st ast.Stmt) (delta int, ctx bool) {
	switch v := st.(type) {
	case *ast.SendStmt:
		if g.isField(v.Chan, "sem") {
			return 1, false
		}
	case *ast.ExprStmt:
		if u, ok := v.X.(*ast.UnaryExpr); ok && u.Op == token.ARROW {
			if g.isField(u.X, "sem") {
				return -1, false
			}
			if c, ok := u.X.(*ast.CallExpr); ok {
				if sel, ok := c.Fun.(*ast.SelectorExpr); ok && sel.Sel.Name == "Done" && g.isField(sel.X, "ctx") {
					return 0, true
				}
			}
		}
	}
	g.bad(st, "channel operation")
	return 0, false
}

// stmts translates a statement list followed by `rest` (the statements after the enclosing construct) into an
// expression of type Bool × Int × Bool: (held, tokens, result).
func (g *slotTr) stmts(list []ast.Stmt, rest []ast.Stmt) string {
	if len(list) == 0 {
		if len(rest) == 0 {
			return "(held, tokens, true)"
		}
		return g.stmts(rest, nil)
	}
	st, tail := list[0], list[1:]
	switch v := st.(type) {
	case *ast.ReturnStmt:
		switch len(v.Results) {
		case 0:
			return "(held, tokens, true)"
		case 1:
			return "(held, tokens, " + g.cond(v.Results[0]) + ")"
		}
		g.bad(v, "return")
	case *ast.IfStmt:
		if v.Init != nil {
			g.bad(v, "if-init")
		}
		after := append(append([]ast.Stmt{}, tail...), rest...)
		thenE := g.stmts(v.Body.List, after)
		elseE := ""
		switch e := v.Else.(type) {
		case nil:
			elseE = g.stmts(after, nil)
		case *ast.BlockStmt:
			elseE = g.stmts(e.List, after)
		default:
			g.bad(v, "else-if")
		}
		return fmt.Sprintf("if %s then\n%s\nelse\n%s", g.cond(v.Cond), indent(thenE), indent(elseE))
	case *ast.AssignStmt:
		if len(v.Lhs) == 1 && len(v.Rhs) == 1 && v.Tok == token.ASSIGN && g.isField(v.Lhs[0], "held") {
			return fmt.Sprintf("let held := %s\n%s", g.cond(v.Rhs[0]), g.stmts(tail, rest))
		}
		g.bad(v, "assignment")
	case *ast.SendStmt, *ast.ExprStmt:
		d, ctx := g.comm(st)
		if ctx {
			// a bare wait for the context changes nothing
			return g.stmts(tail, rest)
		}
		return fmt.Sprintf("let tokens := tokens + (%d : Int)\n%s", d, g.stmts(tail, rest))
	case *ast.SelectStmt:
		after := append(append([]ast.Stmt{}, tail...), rest...)
		arms := map[string]string{}
		for _, c := range v.Body.List {
			cc := c.(*ast.CommClause)
			if cc.Comm == nil {
				g.bad(cc, "select with a default case (the operation would not wait)")
			}
			d, ctx := g.comm(cc.Comm)
			name, pre := "", ""
			switch {
			case ctx:
				name = "ctxDone"
			case d == 1:
				name, pre = "send", "let tokens := tokens + (1 : Int)\n"
			default:
				g.bad(cc, "select case receiving from the semaphore")
			}
			if _, dup := arms[name]; dup {
				g.bad(cc, "duplicate select case")
			}
			arms[name] = pre + g.stmts(cc.Body, after)
		}
		for _, n := range []string{"send", "ctxDone"} {
			if _, ok := arms[n]; !ok {
				g.bad(v, "select without a "+n+" case")
			}
		}
		return fmt.Sprintf("match c with\n| .send =>\n%s\n| .ctxDone =>\n%s", indent(arms["send"]), indent(arms["ctxDone"]))
	}
	g.bad(st, fmt.Sprintf("statement %T", st))
	return ""
}

func (t *tr) slotDef(key, lean string) string {
	fd := t.funcs[key]
	if fd == nil {
		die("function %s not found in the repository", key)
	}
	t.cur = key
	g := &slotTr{t: t, key: key, recv: fd.Recv.List[0].Names[0].Name}
	if st, ok := fd.Recv.List[0].Type.(*ast.StarExpr); !ok || typeString(st.X) != "querySlot" {
		g.bad(fd, "receiver is not *querySlot")
	}
	// the struct must be exactly {sem, ctx, held}: another field could carry occupancy the step functions do not see
	fields := t.structs["querySlot"]
	if len(fields) != 3 || fields["sem"] == "" || fields["ctx"] == "" || fields["held"] != "bool" {
		g.bad(fd, fmt.Sprintf("querySlot fields are %v", fields))
	}
	body := g.stmts(fd.Body.List, nil)
	return fmt.Sprintf("/-- `%s` (%s): (held, tokens this slot has in the semaphore) before -> (held, tokens, result) after;\n    `c` is the select case that fires when the method has to wait -/\ndef %s (held : Bool) (tokens : Int) (c : SelCase) : Bool × Int × Bool :=\n%s\n",
		key, filepath.Base(t.fset.Position(fd.Pos()).Filename), lean, indent(body))
}

// deliverScript: Results.deliver as the sequence of slot-relevant actions it performs on its slow path (the fast
// path is the first action succeeding): a non-blocking send, slot.release(), a blocking send, slot.acquire().
func (t *tr) deliverScript() string {
	const key = "Results.deliver"
	fd := t.funcs[key]
	if fd == nil {
		die("function %s not found in the repository", key)
	}
	t.cur = key
	bad := func(n ast.Node, what string) { die("%s: shape: %s at %s", key, what, t.pos(n)) }
	recv := fd.Recv.List[0].Names[0].Name
	if len(fd.Type.Params.List) < 1 || len(fd.Type.Params.List[0].Names) != 1 {
		bad(fd, "parameters")
	}
	slot := fd.Type.Params.List[0].Names[0].Name
	if st, ok := fd.Type.Params.List[0].Type.(*ast.StarExpr); !ok || typeString(st.X) != "querySlot" {
		bad(fd, "first parameter is not *querySlot")
	}
	isSlotCall := func(e ast.Expr, m string) bool {
		c, ok := e.(*ast.CallExpr)
		if !ok || len(c.Args) != 0 {
			return false
		}
		return isSel(c.Fun, slot, m)
	}
	endsInReturn1 := func(list []ast.Stmt) bool {
		if len(list) == 0 {
			return false
		}
		_, ok := list[len(list)-1].(*ast.ReturnStmt)
		return ok
	}
	var acts []string
	for i, st := range fd.Body.List {
		switch v := st.(type) {
		case *ast.SelectStmt:
			hasDefault, hasSend, hasCtx := false, false, false
			for _, c := range v.Body.List {
				cc := c.(*ast.CommClause)
				switch cm := cc.Comm.(type) {
				case nil:
					hasDefault = true
					if len(cc.Body) != 0 {
						bad(cc, "default case with a body")
					}
				case *ast.SendStmt:
					if !isSel(cm.Chan, recv, "rowChan") {
						bad(cc, "send on something other than the row channel")
					}
					hasSend = true
				case *ast.ExprStmt:
					u, ok := cm.X.(*ast.UnaryExpr)
					if !ok || u.Op != token.ARROW {
						bad(cc, "select case")
					}
					c2, ok := u.X.(*ast.CallExpr)
					if !ok {
						bad(cc, "select case")
					}
					sel, ok := c2.Fun.(*ast.SelectorExpr)
					if !ok || sel.Sel.Name != "Done" || !isSel(sel.X, recv, "ctx") {
						bad(cc, "select case is not the query context")
					}
					if !endsInReturn1(cc.Body) {
						bad(cc, "context case does not return")
					}
					hasCtx = true
				default:
					bad(cc, "select case")
				}
				// no slot operation may hide inside a case body
				for _, b := range cc.Body {
					if mentions(b, slot) {
						bad(b, "slot used inside a select case")
					}
				}
			}
			switch {
			case hasDefault && hasSend && !hasCtx:
				acts = append(acts, ".trySend")
			case !hasDefault && hasSend && hasCtx:
				acts = append(acts, ".blockingSend")
			default:
				bad(v, "select is neither the non-blocking nor the blocking send")
			}
		case *ast.ExprStmt:
			switch {
			case isSlotCall(v.X, "release"):
				acts = append(acts, ".release")
			case mentions(v, slot):
				bad(v, "slot use")
			default:
				// counters (rowsMatched.Add) do not touch the slot
				c, ok := v.X.(*ast.CallExpr)
				if !ok {
					bad(v, "statement")
				}
				if sel, ok := c.Fun.(*ast.SelectorExpr); !ok || sel.Sel.Name != "Add" {
					bad(v, "statement")
				}
			}
		case *ast.IfStmt:
			u, ok := v.Cond.(*ast.UnaryExpr)
			if !ok || u.Op != token.NOT || !isSlotCall(u.X, "acquire") || v.Else != nil || v.Init != nil || !endsInReturn1(v.Body.List) {
				bad(v, "if is not `if !slot.acquire() { return … }`")
			}
			acts = append(acts, ".acquire")
		case *ast.ReturnStmt:
			if i != len(fd.Body.List)-1 {
				bad(v, "return before the end")
			}
		default:
			bad(st, fmt.Sprintf("statement %T", st))
		}
	}
	return fmt.Sprintf("/-- the slot-relevant actions of `%s` (%s), in program order -/\ninductive DAct | trySend | release | blockingSend | acquire\nderiving Repr, DecidableEq\n\ndef deliverScript : List DAct := [%s]\n",
		key, filepath.Base(t.fset.Position(fd.Pos()).Filename), strings.Join(acts, ", "))
}

func writeSlot(t *tr, out string) {
	var b strings.Builder
	b.WriteString("/- GENERATED by /verif/gen/go2lean from /repo's working tree on every check run. Do not edit. -/\n")
	b.WriteString("set_option linter.unusedVariables false\nnamespace BloomVerif.Gen\n\n")
	b.WriteString("/-- which case of a `select` fires: the semaphore accepted the send, or the query context ended -/\ninductive SelCase | send | ctxDone\nderiving Repr, DecidableEq\n\n")
	b.WriteString(guardedDef("querySlot.acquire", func() string { return t.slotDef("querySlot.acquire", "slotAcquire") }))
	b.WriteString("\n")
	b.WriteString(guardedDef("querySlot.release", func() string { return t.slotDef("querySlot.release", "slotRelease") }))
	b.WriteString("\n")
	b.WriteString(guardedDef("Results.deliver", t.deliverScript))
	b.WriteString("\nend BloomVerif.Gen\n")
	if err := os.WriteFile(filepath.Join(out, "Slot.lean"), []byte(b.String()), 0o644); err != nil {
		fmt.Fprintln(os.Stderr, err)
		os.Exit(2)
	}
}
