package main

// Tree evaluators (T-gen): evaluatePrefilterExpression (query.go) and evaluateBloomExpression
// (query_exec.go) walk an expression tree (ExpressionType / Condition / Children). They are regenerated
// as mutually recursive Lean functions over the model's `Expr C`, with the call of the leaf evaluator as
// a parameter. Every semantic choice of the Go text is taken from the AST: the verdict for a nil
// expression, for a CONDITION node without a condition, for an empty child list when the function tests
// for it, the polarity and the verdict of each loop's early return, the verdict after each loop, the
// default verdict, and the string value of each case constant. Anything outside that shape fails closed.

import (
	"fmt"
	"go/ast"
	"go/token"
	"os"
	"path/filepath"
	"strings"
)

type treeSpec struct {
	key  string // Go function
	name string // Lean name
	leaf string // name of the leaf evaluator the CONDITION case must call
}

var treeSpecs = []treeSpec{
	{"evaluatePrefilterExpression", "evaluatePrefilterExpression", "evaluatePrefilterCondition"},
	{"BloomSearchEngine.evaluateBloomExpression", "evaluateBloomExpression", "evaluateBloomCondition"},
}

func boolLit(e ast.Expr) (string, bool) {
	if id, ok := e.(*ast.Ident); ok && (id.Name == "true" || id.Name == "false") {
		return id.Name, true
	}
	return "", false
}

// retBool: a block consisting of exactly `return <bool literal>`.
func retBool(stmts []ast.Stmt) (string, bool) {
	if len(stmts) != 1 {
		return "", false
	}
	r, ok := stmts[0].(*ast.ReturnStmt)
	if !ok || len(r.Results) != 1 {
		return "", false
	}
	return boolLit(r.Results[0])
}

func isSel(e ast.Expr, x, sel string) bool {
	s, ok := e.(*ast.SelectorExpr)
	if !ok || s.Sel.Name != sel {
		return false
	}
	id, ok := s.X.(*ast.Ident)
	return ok && id.Name == x
}

func calleeName(c *ast.CallExpr) string {
	switch f := c.Fun.(type) {
	case *ast.Ident:
		return f.Name
	case *ast.SelectorExpr:
		return f.Sel.Name
	}
	return ""
}

func (t *tr) tree(spec treeSpec) string {
	fd := t.funcs[spec.key]
	if fd == nil {
		die("function %s not found in the repository", spec.key)
	}
	t.cur = spec.key
	bad := func(n ast.Node, what string) {
		die("%s: tree evaluator shape: %s at %s", spec.key, what, t.pos(n))
	}
	var params []string
	for _, f := range fd.Type.Params.List {
		for _, n := range f.Names {
			params = append(params, n.Name)
		}
	}
	if len(params) < 1 {
		bad(fd, "no parameters")
	}
	ex := params[len(params)-1]
	ctxArgs := params[:len(params)-1]
	if fd.Type.Results == nil || len(fd.Type.Results.List) != 1 || typeString(fd.Type.Results.List[0].Type) != "bool" {
		bad(fd, "result is not a single bool")
	}
	passThrough := func(c *ast.CallExpr, last func(ast.Expr) bool) bool {
		if len(c.Args) != len(params) {
			return false
		}
		for i, a := range ctxArgs {
			id, ok := c.Args[i].(*ast.Ident)
			if !ok || id.Name != a {
				return false
			}
		}
		return last(c.Args[len(c.Args)-1])
	}
	body := fd.Body.List
	if len(body) != 2 {
		bad(fd, fmt.Sprintf("body has %d statements, expected the nil test and the switch", len(body)))
	}
	// if expression == nil { return B }
	nilIf, ok := body[0].(*ast.IfStmt)
	if !ok || nilIf.Init != nil || nilIf.Else != nil {
		bad(body[0], "first statement is not the nil test")
	}
	be, ok := nilIf.Cond.(*ast.BinaryExpr)
	if !ok || be.Op != token.EQL {
		bad(nilIf, "nil test")
	}
	if x, ok := be.X.(*ast.Ident); !ok || x.Name != ex {
		bad(nilIf, "nil test")
	}
	if y, ok := be.Y.(*ast.Ident); !ok || y.Name != "nil" {
		bad(nilIf, "nil test")
	}
	nilVerdict, ok := retBool(nilIf.Body.List)
	if !ok {
		bad(nilIf, "nil test does not return a literal")
	}
	sw, ok := body[1].(*ast.SwitchStmt)
	if !ok || sw.Init != nil || !isSel(sw.Tag, ex, "ExpressionType") {
		bad(body[1], "second statement is not `switch expression.ExpressionType`")
	}
	var loops []string
	chain := ""
	defaultVerdict := ""
	seenDefault := false
	for _, cs := range sw.Body.List {
		cc := cs.(*ast.CaseClause)
		if cc.List == nil {
			v, ok := retBool(cc.Body)
			if !ok {
				bad(cc, "default case is not `return <literal>`")
			}
			defaultVerdict, seenDefault = v, true
			continue
		}
		if len(cc.List) != 1 {
			bad(cc, "case with several values")
		}
		id, ok := cc.List[0].(*ast.Ident)
		if !ok {
			bad(cc, "case value is not a constant name")
		}
		cv, ok := t.consts[id.Name]
		if !ok || !strings.HasPrefix(cv, "\"") {
			bad(cc, "case constant "+id.Name+" is not a string constant")
		}
		rhs := ""
		stmts := cc.Body
		switch {
		case len(stmts) == 1:
			v, ok := retBool(stmts)
			if !ok {
				bad(cc, "single-statement case is not `return <literal>`")
			}
			rhs = v
		case len(stmts) == 2 && isCondCase(stmts, ex):
			// if expression.Condition == nil { return B } ; return leaf(ctx..., expression.Condition)
			ci := stmts[0].(*ast.IfStmt)
			noCond, ok := retBool(ci.Body.List)
			if !ok {
				bad(ci, "missing-condition test does not return a literal")
			}
			r := stmts[1].(*ast.ReturnStmt)
			call, ok := r.Results[0].(*ast.CallExpr)
			if !ok || calleeName(call) != spec.leaf || !passThrough(call, func(e ast.Expr) bool { return isSel(e, ex, "Condition") }) {
				bad(r, "CONDITION case does not return "+spec.leaf+"(<context arguments>, expression.Condition)")
			}
			rhs = fmt.Sprintf("(match cond with | none => %s | some c => leaf c)", noCond)
		default:
			// [if len(expression.Children) == 0 { return B }] ; for i := range expression.Children { if [!]self(ctx..., &expression.Children[i]) { return B } } ; return B
			emptyVerdict := ""
			if len(stmts) == 3 {
				ei, ok := stmts[0].(*ast.IfStmt)
				if !ok || ei.Init != nil || ei.Else != nil || !isLenZero(ei.Cond, ex) {
					bad(stmts[0], "expected `if len(expression.Children) == 0`")
				}
				v, ok := retBool(ei.Body.List)
				if !ok {
					bad(ei, "empty-children test does not return a literal")
				}
				emptyVerdict = v
				stmts = stmts[1:]
			}
			if len(stmts) != 2 {
				bad(cc, "case body is neither a condition case nor a loop case")
			}
			rs, ok := stmts[0].(*ast.RangeStmt)
			if !ok || rs.Value != nil || rs.Tok != token.DEFINE || !isSel(rs.X, ex, "Children") {
				bad(stmts[0], "expected `for i := range expression.Children`")
			}
			idx, ok := rs.Key.(*ast.Ident)
			if !ok || len(rs.Body.List) != 1 {
				bad(rs, "loop shape")
			}
			li, ok := rs.Body.List[0].(*ast.IfStmt)
			if !ok || li.Init != nil || li.Else != nil {
				bad(rs, "loop body is not a single if")
			}
			cond := li.Cond
			neg := false
			if u, ok := cond.(*ast.UnaryExpr); ok && u.Op == token.NOT {
				neg, cond = true, u.X
			}
			call, ok := cond.(*ast.CallExpr)
			if !ok || calleeName(call) != fd.Name.Name || !passThrough(call, func(e ast.Expr) bool {
				u, ok := e.(*ast.UnaryExpr)
				if !ok || u.Op != token.AND {
					return false
				}
				ix, ok := u.X.(*ast.IndexExpr)
				if !ok || !isSel(ix.X, ex, "Children") {
					return false
				}
				k, ok := ix.Index.(*ast.Ident)
				return ok && k.Name == idx.Name
			}) {
				bad(li, "loop test is not the recursive call on &expression.Children[i]")
			}
			early, ok := retBool(li.Body.List)
			if !ok {
				bad(li, "early return is not a literal")
			}
			after, ok := retBool(stmts[1:])
			if !ok {
				bad(stmts[1], "statement after the loop is not `return <literal>`")
			}
			ln := fmt.Sprintf("%s_loop%d", spec.name, len(loops))
			test := fmt.Sprintf("%s leaf e", spec.name)
			if neg {
				test = "!(" + test + ")"
			}
			loops = append(loops, fmt.Sprintf("  /-- the loop of case %s: early `return %s` when the child's verdict is %v, `return %s` after the loop -/\n  def %s {C : Type} (leaf : C → Bool) : List (Expr C) → Bool\n    | [] => %s\n    | e :: es => if %s then %s else %s leaf es\n",
				id.Name, early, !neg, after, ln, after, test, early, ln))
			rhs = fmt.Sprintf("%s leaf ch", ln)
			if emptyVerdict != "" {
				rhs = fmt.Sprintf("(if ch.length == 0 then %s else %s leaf ch)", emptyVerdict, ln)
			}
		}
		chain += fmt.Sprintf("      if ty = %s then %s\n      else ", cv, rhs)
	}
	if !seenDefault {
		// a switch without default falls out of the function: not a shape this translator accepts
		bad(sw, "switch has no default case")
	}
	var b strings.Builder
	b.WriteString("mutual\n")
	fmt.Fprintf(&b, "  /-- regenerated from `%s` (%s); the call `%s(…, expression.Condition)` is the parameter `leaf` -/\n", spec.key, filepath.Base(t.fset.Position(fd.Pos()).Filename), spec.leaf)
	fmt.Fprintf(&b, "  def %s {C : Type} (leaf : C → Bool) : Expr C → Bool\n    | .mk ty cond ch =>\n%s%s\n", spec.name, chain, defaultVerdict)
	for _, l := range loops {
		b.WriteString(l)
	}
	b.WriteString("end\n\n")
	fmt.Fprintf(&b, "/-- `%s` on a possibly nil expression pointer -/\ndef %sPtr {C : Type} (leaf : C → Bool) : Option (Expr C) → Bool\n  | none => %s\n  | some e => %s leaf e\n\n", spec.key, spec.name, nilVerdict, spec.name)
	return b.String()
}

func isCondCase(stmts []ast.Stmt, ex string) bool {
	ci, ok := stmts[0].(*ast.IfStmt)
	if !ok || ci.Init != nil || ci.Else != nil {
		return false
	}
	be, ok := ci.Cond.(*ast.BinaryExpr)
	if !ok || be.Op != token.EQL || !isSel(be.X, ex, "Condition") {
		return false
	}
	if y, ok := be.Y.(*ast.Ident); !ok || y.Name != "nil" {
		return false
	}
	r, ok := stmts[1].(*ast.ReturnStmt)
	return ok && len(r.Results) == 1
}

func isLenZero(e ast.Expr, ex string) bool {
	be, ok := e.(*ast.BinaryExpr)
	if !ok || be.Op != token.EQL {
		return false
	}
	call, ok := be.X.(*ast.CallExpr)
	if !ok || calleeName(call) != "len" || len(call.Args) != 1 || !isSel(call.Args[0], ex, "Children") {
		return false
	}
	lit, ok := be.Y.(*ast.BasicLit)
	return ok && lit.Value == "0"
}

func writeTrees(t *tr, out string) {
	var b strings.Builder
	b.WriteString("/- GENERATED by /verif/gen/go2lean from /repo's working tree on every check run. Do not edit. -/\n")
	b.WriteString("import BloomVerif.Model.Expr\nset_option linter.unusedVariables false\nnamespace BloomVerif.Gen\nopen BloomVerif\n\n")
	for _, s := range treeSpecs {
		b.WriteString(guardedDef(s.key, func() string { return t.tree(s) }))
	}
	b.WriteString("end BloomVerif.Gen\n")
	if err := os.MkdirAll(out, 0o755); err != nil {
		fmt.Fprintln(os.Stderr, err)
		os.Exit(2)
	}
	if err := os.WriteFile(filepath.Join(out, "Tree.lean"), []byte(b.String()), 0o644); err != nil {
		fmt.Fprintln(os.Stderr, err)
		os.Exit(2)
	}
}

// ---------------------------------------------------------------- the regex field guard

// guard regenerates regexExpressionToBloomFieldExpression (query.go): a tree-to-tree transformer. Read off
// the Go text: the result for nil, for a CONDITION node without a condition, the fields of the bloom condition a
// regex condition becomes, which output node type each composite case produces, that nil children are dropped
// and the others kept in order, and the default result.
func (t *tr) guard() string {
	const key = "regexExpressionToBloomFieldExpression"
	fd := t.funcs[key]
	if fd == nil {
		die("function %s not found in the repository", key)
	}
	t.cur = key
	bad := func(n ast.Node, what string) { die("%s: guard shape: %s at %s", key, what, t.pos(n)) }
	if len(fd.Type.Params.List) != 1 || len(fd.Type.Params.List[0].Names) != 1 {
		bad(fd, "parameters")
	}
	ex := fd.Type.Params.List[0].Names[0].Name
	isNil := func(e ast.Expr) bool { id, ok := e.(*ast.Ident); return ok && id.Name == "nil" }
	retNil := func(stmts []ast.Stmt) bool {
		if len(stmts) != 1 {
			return false
		}
		r, ok := stmts[0].(*ast.ReturnStmt)
		return ok && len(r.Results) == 1 && isNil(r.Results[0])
	}
	strConst := func(e ast.Expr) (string, bool) {
		id, ok := e.(*ast.Ident)
		if !ok {
			return "", false
		}
		v, ok := t.consts[id.Name]
		return v, ok && strings.HasPrefix(v, "\"")
	}
	// &T{K: V, ...}
	addrLit := func(e ast.Expr, typ string) (map[string]ast.Expr, bool) {
		u, ok := e.(*ast.UnaryExpr)
		if !ok || u.Op != token.AND {
			return nil, false
		}
		cl, ok := u.X.(*ast.CompositeLit)
		if !ok || typeString(cl.Type) != typ {
			return nil, false
		}
		m := map[string]ast.Expr{}
		for _, el := range cl.Elts {
			kv, ok := el.(*ast.KeyValueExpr)
			if !ok {
				return nil, false
			}
			k, ok := kv.Key.(*ast.Ident)
			if !ok {
				return nil, false
			}
			m[k.Name] = kv.Value
		}
		return m, true
	}
	body := fd.Body.List
	if len(body) != 2 {
		bad(fd, "body is not the nil test followed by the switch")
	}
	nilIf, ok := body[0].(*ast.IfStmt)
	if !ok || nilIf.Init != nil || nilIf.Else != nil {
		bad(body[0], "nil test")
	}
	if be, ok := nilIf.Cond.(*ast.BinaryExpr); !ok || be.Op != token.EQL || !isNil(be.Y) {
		bad(nilIf, "nil test")
	} else if x, ok := be.X.(*ast.Ident); !ok || x.Name != ex {
		bad(nilIf, "nil test")
	}
	if !retNil(nilIf.Body.List) {
		bad(nilIf, "nil test does not return nil")
	}
	sw, ok := body[1].(*ast.SwitchStmt)
	if !ok || sw.Init != nil || !isSel(sw.Tag, ex, "ExpressionType") {
		bad(body[1], "switch")
	}
	chain := ""
	seenDefault := false
	for _, cs := range sw.Body.List {
		cc := cs.(*ast.CaseClause)
		if cc.List == nil {
			if !retNil(cc.Body) {
				bad(cc, "default case does not return nil")
			}
			seenDefault = true
			continue
		}
		if len(cc.List) != 1 {
			bad(cc, "case with several values")
		}
		cv, ok := strConst(cc.List[0])
		if !ok {
			bad(cc, "case value is not a string constant")
		}
		st := cc.Body
		rhs := ""
		if len(st) == 3 && isCondCase([]ast.Stmt{st[0], &ast.ReturnStmt{Results: []ast.Expr{ast.NewIdent("x")}}}, ex) {
			// if expression.Condition == nil { return nil } ; condition := &BloomCondition{...} ; return &BloomExpression{ExpressionType: K, Condition: condition}
			if !retNil(st[0].(*ast.IfStmt).Body.List) {
				bad(st[0], "missing-condition test does not return nil")
			}
			as, ok := st[1].(*ast.AssignStmt)
			if !ok || as.Tok != token.DEFINE || len(as.Lhs) != 1 || len(as.Rhs) != 1 {
				bad(st[1], "condition literal")
			}
			cname := as.Lhs[0].(*ast.Ident).Name
			cf, ok := addrLit(as.Rhs[0], "BloomCondition")
			if !ok {
				bad(st[1], "condition literal")
			}
			var fields []string
			for _, k := range []string{"Type", "Field", "Token"} {
				v, present := cf[k]
				if !present {
					continue
				}
				delete(cf, k)
				lk := k
				if k == "Type" {
					lk = "Kind"
				}
				if s, ok := strConst(v); ok {
					fields = append(fields, lk+" := "+s)
					continue
				}
				sel, ok := v.(*ast.SelectorExpr)
				if !ok || !isSel(sel.X, ex, "Condition") || (sel.Sel.Name != "Field" && sel.Sel.Name != "Pattern") {
					bad(v, "bloom condition field value")
				}
				fields = append(fields, lk+" := c."+sel.Sel.Name)
			}
			if len(cf) != 0 {
				bad(st[1], "unexpected bloom condition field")
			}
			r, ok := st[2].(*ast.ReturnStmt)
			if !ok || len(r.Results) != 1 {
				bad(st[2], "return")
			}
			ef, ok := addrLit(r.Results[0], "BloomExpression")
			if !ok || len(ef) != 2 {
				bad(r, "returned expression literal")
			}
			oty, ok := strConst(ef["ExpressionType"])
			if !ok {
				bad(r, "ExpressionType of the returned node")
			}
			if id, ok := ef["Condition"].(*ast.Ident); !ok || id.Name != cname {
				bad(r, "Condition of the returned node")
			}
			rhs = fmt.Sprintf("(match cond with | none => none | some c => some (.mk %s (some { %s }) []))", oty, strings.Join(fields, ", "))
		} else if len(st) == 3 {
			// children := make(...) ; for i := range expression.Children { child := self(&expression.Children[i]); if child != nil { children = append(children, *child) } } ; return &BloomExpression{ExpressionType: K, Children: children}
			as, ok := st[0].(*ast.AssignStmt)
			if !ok || as.Tok != token.DEFINE || len(as.Lhs) != 1 {
				bad(st[0], "children := make(...)")
			}
			chName := as.Lhs[0].(*ast.Ident).Name
			if mk, ok := as.Rhs[0].(*ast.CallExpr); !ok || calleeName(mk) != "make" || len(mk.Args) < 2 {
				bad(st[0], "children := make(...)")
			} else if lit, ok := mk.Args[1].(*ast.BasicLit); !ok || lit.Value != "0" {
				bad(st[0], "children does not start empty")
			}
			rs, ok := st[1].(*ast.RangeStmt)
			if !ok || rs.Value != nil || rs.Tok != token.DEFINE || !isSel(rs.X, ex, "Children") || len(rs.Body.List) != 2 {
				bad(st[1], "loop over expression.Children")
			}
			idx := rs.Key.(*ast.Ident).Name
			ca, ok := rs.Body.List[0].(*ast.AssignStmt)
			if !ok || ca.Tok != token.DEFINE || len(ca.Lhs) != 1 || len(ca.Rhs) != 1 {
				bad(rs, "child := self(&expression.Children[i])")
			}
			child := ca.Lhs[0].(*ast.Ident).Name
			call, ok := ca.Rhs[0].(*ast.CallExpr)
			if !ok || calleeName(call) != key || len(call.Args) != 1 {
				bad(ca, "recursive call")
			}
			if u, ok := call.Args[0].(*ast.UnaryExpr); !ok || u.Op != token.AND {
				bad(ca, "recursive call argument")
			} else if ix, ok := u.X.(*ast.IndexExpr); !ok || !isSel(ix.X, ex, "Children") {
				bad(ca, "recursive call argument")
			} else if k, ok := ix.Index.(*ast.Ident); !ok || k.Name != idx {
				bad(ca, "recursive call argument")
			}
			ifs, ok := rs.Body.List[1].(*ast.IfStmt)
			if !ok || ifs.Init != nil || ifs.Else != nil || len(ifs.Body.List) != 1 {
				bad(rs, "if child != nil { append }")
			}
			if be, ok := ifs.Cond.(*ast.BinaryExpr); !ok || be.Op != token.NEQ || !isNil(be.Y) {
				bad(ifs, "child != nil")
			} else if x, ok := be.X.(*ast.Ident); !ok || x.Name != child {
				bad(ifs, "child != nil")
			}
			ap, ok := ifs.Body.List[0].(*ast.AssignStmt)
			if !ok || ap.Tok != token.ASSIGN || len(ap.Lhs) != 1 || len(ap.Rhs) != 1 {
				bad(ifs, "append")
			}
			if l, ok := ap.Lhs[0].(*ast.Ident); !ok || l.Name != chName {
				bad(ifs, "append target")
			}
			apc, ok := ap.Rhs[0].(*ast.CallExpr)
			if !ok || calleeName(apc) != "append" || len(apc.Args) != 2 {
				bad(ifs, "append")
			}
			if a0, ok := apc.Args[0].(*ast.Ident); !ok || a0.Name != chName {
				bad(ifs, "append")
			}
			if st1, ok := apc.Args[1].(*ast.StarExpr); !ok {
				bad(ifs, "append value")
			} else if v, ok := st1.X.(*ast.Ident); !ok || v.Name != child {
				bad(ifs, "append value")
			}
			r, ok := st[2].(*ast.ReturnStmt)
			if !ok || len(r.Results) != 1 {
				bad(st[2], "return")
			}
			ef, ok := addrLit(r.Results[0], "BloomExpression")
			if !ok || len(ef) != 2 {
				bad(r, "returned expression literal")
			}
			oty, ok := strConst(ef["ExpressionType"])
			if !ok {
				bad(r, "ExpressionType of the returned node")
			}
			if id, ok := ef["Children"].(*ast.Ident); !ok || id.Name != chName {
				bad(r, "Children of the returned node")
			}
			rhs = fmt.Sprintf("some (.mk %s none (%s_children ch))", oty, key)
		} else {
			bad(cc, "case body is neither the condition case nor a composite case")
		}
		chain += fmt.Sprintf("      if ty = %s then %s\n      else ", cv, rhs)
	}
	if !seenDefault {
		bad(sw, "switch has no default case")
	}
	var b strings.Builder
	b.WriteString("mutual\n")
	fmt.Fprintf(&b, "  /-- regenerated from `%s` (%s) -/\n  def %s : RegexExpr → Option BloomExpr\n    | .mk ty cond ch =>\n%snone\n", key, filepath.Base(t.fset.Position(fd.Pos()).Filename), key, chain)
	fmt.Fprintf(&b, "  /-- the composite cases' loop: nil results are dropped, the others appended in order -/\n  def %s_children : List RegexExpr → List BloomExpr\n    | [] => []\n    | e :: es => (match %s e with | none => %s_children es | some g => g :: %s_children es)\nend\n\n", key, key, key, key)
	fmt.Fprintf(&b, "/-- `%s` on a possibly nil expression pointer -/\ndef %sPtr : Option RegexExpr → Option BloomExpr\n  | none => none\n  | some e => %s e\n\n", key, key, key)
	return b.String()
}

func writeGuard(t *tr, out string) {
	var b strings.Builder
	b.WriteString("/- GENERATED by /verif/gen/go2lean from /repo's working tree on every check run. Do not edit. -/\n")
	b.WriteString("import BloomVerif.Model.Match\nset_option linter.unusedVariables false\nnamespace BloomVerif.Gen\nopen BloomVerif\n\n")
	b.WriteString(guardedDef("regexExpressionToBloomFieldExpression", t.guard))
	b.WriteString("end BloomVerif.Gen\n")
	if err := os.WriteFile(filepath.Join(out, "Guard.lean"), []byte(b.String()), 0o644); err != nil {
		fmt.Fprintln(os.Stderr, err)
		os.Exit(2)
	}
}
