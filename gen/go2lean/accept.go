package main

// BloomSearchEngine.IngestRows / Flush (ingest.go): the acceptance of a request, regenerated as a function of
// (the engine's stopped flag, which case of the `select` fires) (T-gen). The result says how many requests were
// put on the ingest channel, what the call returns, and - computed along each path by the translator - whether
// the stopped flag was read and the send made while the state lock was held, and whether the lock is still held
// when the call returns.

import (
	"fmt"
	"go/ast"
	"go/token"
	"os"
	"path/filepath"
	"strings"
)

type accTr struct {
	t    *tr
	key  string
	recv string
	ctx  string
}

type accState struct {
	locked, deferred bool
	readLocked       string // "true"/"false"/"none": was b.stopped read under the lock
	queued           int
	sendLocked       bool
}

func (g *accTr) bad(n ast.Node, what string) { die("%s: shape: %s at %s", g.key, what, g.t.pos(n)) }

func (g *accTr) isLockCall(e ast.Expr, m string) bool {
	c, ok := e.(*ast.CallExpr)
	if !ok || len(c.Args) != 0 {
		return false
	}
	sel, ok := c.Fun.(*ast.SelectorExpr)
	if !ok || sel.Sel.Name != m {
		return false
	}
	return isSel(sel.X, g.recv, "stateMu")
}

func (g *accTr) result(st accState, ret string) string {
	lockedAfter := st.locked && !st.deferred
	rl := st.readLocked
	if rl == "none" {
		rl = "false"
	}
	return fmt.Sprintf("{ queued := %d, ret := .%s, stoppedReadLocked := %s, sendLocked := %v, lockedAfter := %v }", st.queued, ret, rl, st.sendLocked || st.queued == 0, lockedAfter)
}

func (g *accTr) retKind(r *ast.ReturnStmt) string {
	if len(r.Results) != 1 {
		g.bad(r, "return")
	}
	switch v := r.Results[0].(type) {
	case *ast.Ident:
		if v.Name == "nil" {
			return "nil"
		}
		if v.Name == "ErrEngineStopped" {
			return "stopped"
		}
	case *ast.CallExpr:
		if sel, ok := v.Fun.(*ast.SelectorExpr); ok && sel.Sel.Name == "Err" {
			if id, ok := sel.X.(*ast.Ident); ok && id.Name == g.ctx {
				return "ctxErr"
			}
		}
	case *ast.UnaryExpr:
		if v.Op == token.ARROW {
			if id, ok := v.X.(*ast.Ident); ok && id.Name == "doneChan" {
				return "ack"
			}
		}
	}
	g.bad(r, "returned value")
	return ""
}

func (g *accTr) stmts(list []ast.Stmt, st accState) string {
	if len(list) == 0 {
		g.bad(g.t.funcs[g.key], "control reaches the end without a return")
	}
	s, tail := list[0], list[1:]
	switch v := s.(type) {
	case *ast.ExprStmt:
		switch {
		case g.isLockCall(v.X, "RLock"):
			if st.locked {
				g.bad(v, "lock taken twice")
			}
			st.locked = true
			return g.stmts(tail, st)
		case g.isLockCall(v.X, "RUnlock"):
			if !st.locked || st.deferred {
				g.bad(v, "unlock without holding the lock")
			}
			st.locked = false
			return g.stmts(tail, st)
		}
		if c, ok := v.X.(*ast.CallExpr); ok && calleeName(c) == "verifEv" {
			return g.stmts(tail, st)
		}
		g.bad(v, "statement")
	case *ast.DeferStmt:
		if g.isLockCall(v.Call, "RUnlock") && st.locked && !st.deferred {
			st.deferred = true
			return g.stmts(tail, st)
		}
		g.bad(v, "defer")
	case *ast.AssignStmt:
		// local request / channel construction: must not touch the engine
		if v.Tok == token.DEFINE && !mentions(v, g.recv) {
			return g.stmts(tail, st)
		}
		g.bad(v, "assignment")
	case *ast.IfStmt:
		if v.Init != nil || v.Else != nil || !isSel(v.Cond, g.recv, "stopped") {
			g.bad(v, "if is not `if b.stopped { … }`")
		}
		if st.readLocked != "none" {
			g.bad(v, "stopped read twice")
		}
		st.readLocked = fmt.Sprint(st.locked)
		thenE := g.stmts(v.Body.List, st)
		elseE := g.stmts(tail, st)
		return fmt.Sprintf("if stopped then\n%s\nelse\n%s", indent(thenE), indent(elseE))
	case *ast.SelectStmt:
		var sendC, ctxC *ast.CommClause
		for _, c := range v.Body.List {
			cc := c.(*ast.CommClause)
			switch cm := cc.Comm.(type) {
			case *ast.SendStmt:
				if !isSel(cm.Chan, g.recv, "ingestChan") || sendC != nil {
					g.bad(cc, "send case")
				}
				sendC = cc
			case *ast.ExprStmt:
				u, ok := cm.X.(*ast.UnaryExpr)
				if !ok || u.Op != token.ARROW || ctxC != nil {
					g.bad(cc, "receive case")
				}
				call, ok := u.X.(*ast.CallExpr)
				if !ok {
					g.bad(cc, "receive case")
				}
				sel, ok := call.Fun.(*ast.SelectorExpr)
				if !ok || sel.Sel.Name != "Done" {
					g.bad(cc, "receive case")
				}
				if id, ok := sel.X.(*ast.Ident); !ok || id.Name != g.ctx {
					g.bad(cc, "receive case is not the caller's context")
				}
				ctxC = cc
			default:
				g.bad(cc, "select case (a default case would accept without queueing or refuse without waiting)")
			}
		}
		if sendC == nil || ctxC == nil {
			g.bad(v, "select lacks the send or the context case")
		}
		if st.readLocked == "none" {
			g.bad(v, "the request is queued before the stopped flag was read")
		}
		s1 := st
		s1.queued++
		s1.sendLocked = st.locked
		sendE := g.stmts(append(append([]ast.Stmt{}, sendC.Body...), tail...), s1)
		ctxE := g.stmts(append(append([]ast.Stmt{}, ctxC.Body...), tail...), st)
		return fmt.Sprintf("match w with\n| .queued =>\n%s\n| .ctxDone =>\n%s", indent(sendE), indent(ctxE))
	case *ast.ReturnStmt:
		return g.result(st, g.retKind(v))
	}
	g.bad(s, fmt.Sprintf("statement %T", s))
	return ""
}

func (t *tr) acceptDef(key, lean string) string {
	fd := t.funcs[key]
	if fd == nil {
		die("function %s not found in the repository", key)
	}
	t.cur = key
	ps := paramNames(fd)
	if len(ps) < 1 {
		die("%s: parameters", key)
	}
	g := &accTr{t: t, key: key, recv: fd.Recv.List[0].Names[0].Name, ctx: ps[0]}
	body := g.stmts(fd.Body.List, accState{readLocked: "none"})
	return fmt.Sprintf("/-- `%s` (%s) -/\ndef %s (stopped : Bool) (w : AcceptCase) : Accept :=\n%s\n",
		key, filepath.Base(t.fset.Position(fd.Pos()).Filename), lean, indent(body))
}

func writeAccept(t *tr, out string) {
	var b strings.Builder
	b.WriteString("/- GENERATED by /verif/gen/go2lean from /repo's working tree on every check run. Do not edit. -/\n")
	b.WriteString("set_option linter.unusedVariables false\nnamespace BloomVerif.Gen\n\n")
	b.WriteString("/-- which case of the accepting `select` fires: the ingest channel took the request, or the caller's context ended -/\ninductive AcceptCase | queued | ctxDone\nderiving Repr, DecidableEq\n\n")
	b.WriteString("/-- what the call returns: nil, ErrEngineStopped, the context's error, or (Flush) the acknowledgement it waited for -/\ninductive AcceptRet | nil | stopped | ctxErr | ack\nderiving Repr, DecidableEq\n\n")
	b.WriteString("structure Accept where\n  queued : Nat              -- requests put on the ingest channel\n  ret : AcceptRet\n  stoppedReadLocked : Bool  -- the stopped flag was read while the state lock was held\n  sendLocked : Bool         -- the send (if any) was made while the state lock was held\n  lockedAfter : Bool        -- the state lock is still held when the call returns\nderiving Repr, DecidableEq\n\n")
	b.WriteString(guardedDef("BloomSearchEngine.IngestRows", func() string { return t.acceptDef("BloomSearchEngine.IngestRows", "ingestRows") }))
	b.WriteString("\n")
	b.WriteString(guardedDef("BloomSearchEngine.Flush", func() string { return t.acceptDef("BloomSearchEngine.Flush", "flushCall") }))
	b.WriteString("\nend BloomVerif.Gen\n")
	if err := os.WriteFile(filepath.Join(out, "Accept.lean"), []byte(b.String()), 0o644); err != nil {
		fmt.Fprintln(os.Stderr, err)
		os.Exit(2)
	}
}
