package main

// BlockRowScanner.Next (file_format.go), regenerated as one scanner step over integers (T-gen): the section
// length `len(s.data)` is `n`, the cursor `s.pos` is `pos`, the little-endian word read at an offset is the
// function `word`. Every slice expression and the 4-byte read become explicit bounds obligations - a step that
// would index out of range yields `.panic` - so the generated function says, in the order the Go text says it,
// which tests guard which reads. The bridge proves that a step never panics for 0 <= pos <= n and that it is
// the model's scan step.

import (
	"fmt"
	"go/ast"
	"go/token"
	"os"
	"path/filepath"
	"strings"
)

func (t *tr) scanner() string {
	const key = "BlockRowScanner.Next"
	fd := t.funcs[key]
	if fd == nil {
		die("function %s not found in the repository", key)
	}
	t.cur = key
	bad := func(n ast.Node, what string) { die("%s: scanner shape: %s at %s", key, what, t.pos(n)) }
	if fd.Recv == nil || len(fd.Recv.List) != 1 || len(fd.Recv.List[0].Names) != 1 {
		bad(fd, "receiver")
	}
	recv := fd.Recv.List[0].Names[0].Name
	isRecvField := func(e ast.Expr, f string) bool { return isSel(e, recv, f) }
	t.env = map[string]string{"n": "int", "pos": "int"}
	// rewrite s.pos -> pos, len(s.data) -> n
	var rw func(e ast.Expr) ast.Expr
	rw = func(e ast.Expr) ast.Expr {
		switch v := e.(type) {
		case *ast.ParenExpr:
			return &ast.ParenExpr{X: rw(v.X)}
		case *ast.BinaryExpr:
			return &ast.BinaryExpr{X: rw(v.X), Op: v.Op, Y: rw(v.Y), OpPos: v.OpPos}
		case *ast.UnaryExpr:
			return &ast.UnaryExpr{Op: v.Op, X: rw(v.X), OpPos: v.OpPos}
		case *ast.SelectorExpr:
			if isRecvField(v, "pos") {
				return &ast.Ident{Name: "pos", NamePos: v.Pos()}
			}
			return v
		case *ast.CallExpr:
			if calleeName(v) == "len" && len(v.Args) == 1 && isRecvField(v.Args[0], "data") {
				return &ast.Ident{Name: "n", NamePos: v.Pos()}
			}
			args := make([]ast.Expr, len(v.Args))
			for i, a := range v.Args {
				args[i] = rw(a)
			}
			return &ast.CallExpr{Fun: v.Fun, Args: args, Lparen: v.Lparen, Rparen: v.Rparen}
		}
		return e
	}
	isNilIdentE := func(e ast.Expr) bool { id, ok := e.(*ast.Ident); return ok && id.Name == "nil" }
	rowVar := ""
	// outcome of `return a, b, c`
	ret := func(r *ast.ReturnStmt) string {
		if len(r.Results) != 3 {
			bad(r, "return arity")
		}
		okLit, isLit := boolLit(r.Results[1])
		if !isLit {
			bad(r, "ok result is not a literal")
		}
		switch {
		case isNilIdentE(r.Results[0]) && okLit == "false" && isNilIdentE(r.Results[2]):
			return ".done"
		case isNilIdentE(r.Results[0]) && okLit == "false" && isErrCtor(r.Results[2]):
			return ".err"
		case okLit == "true" && isNilIdentE(r.Results[2]):
			id, ok := r.Results[0].(*ast.Ident)
			if !ok || id.Name != rowVar || rowVar == "" {
				bad(r, "returned row is not the slice taken before")
			}
			return "(.row rowLo rowHi pos)"
		}
		bad(r, "return shape")
		return ""
	}
	var gen func(list []ast.Stmt) string
	gen = func(list []ast.Stmt) string {
		if len(list) == 0 {
			bad(fd, "control reaches the end without a return")
		}
		switch v := list[0].(type) {
		case *ast.ReturnStmt:
			return ret(v)
		case *ast.IfStmt:
			if v.Init != nil || v.Else != nil || len(v.Body.List) != 1 {
				bad(v, "if shape")
			}
			r, ok := v.Body.List[0].(*ast.ReturnStmt)
			if !ok {
				bad(v, "if body is not a return")
			}
			return "if " + t.expr(rw(v.Cond)) + " then " + ret(r) + "\nelse\n" + gen(list[1:])
		case *ast.AssignStmt:
			if len(v.Lhs) != 1 || len(v.Rhs) != 1 {
				bad(v, "assignment arity")
			}
			// s.pos += E  /  s.pos = E
			if isRecvField(v.Lhs[0], "pos") {
				rhs := rw(v.Rhs[0])
				switch v.Tok {
				case token.ADD_ASSIGN:
					rhs = &ast.BinaryExpr{X: &ast.Ident{Name: "pos"}, Op: token.ADD, Y: rhs}
				case token.ASSIGN:
				default:
					bad(v, "assignment operator on the cursor")
				}
				return "let pos := " + t.expr(rhs) + "\n" + gen(list[1:])
			}
			lhs, ok := v.Lhs[0].(*ast.Ident)
			if !ok {
				bad(v, "assignment target")
			}
			// x := binary.LittleEndian.Uint32(s.data[E:])
			if call, ok := v.Rhs[0].(*ast.CallExpr); ok && calleeName(call) == "Uint32" && len(call.Args) == 1 {
				se, ok := call.Args[0].(*ast.SliceExpr)
				if !ok || !isRecvField(se.X, "data") || se.Low == nil || se.High != nil || se.Slice3 {
					bad(v, "Uint32 argument is not s.data[E:]")
				}
				lo := t.atom(rw(se.Low))
				t.env[lhs.Name] = "uint32"
				return fmt.Sprintf("if !(decide (0 ≤ %s ∧ %s + 4 ≤ n)) then .panic\nelse\nlet %s := word %s\n", lo, lo, li(lhs.Name), lo) + gen(list[1:])
			}
			// row = s.data[A : B]
			if se, ok := v.Rhs[0].(*ast.SliceExpr); ok && isRecvField(se.X, "data") && se.Low != nil && se.High != nil && !se.Slice3 {
				lo, hi := t.atom(rw(se.Low)), t.atom(rw(se.High))
				rowVar = lhs.Name
				return fmt.Sprintf("if !(decide (0 ≤ %s ∧ %s ≤ %s ∧ %s ≤ n)) then .panic\nelse\nlet rowLo := %s\nlet rowHi := %s\n", lo, lo, hi, hi, lo, hi) + gen(list[1:])
			}
			bad(v, "assignment right-hand side")
		}
		bad(list[0], fmt.Sprintf("statement %T", list[0]))
		return ""
	}
	body := gen(fd.Body.List)
	return fmt.Sprintf("/-- regenerated from `%s` (%s): one scanner step; `n` = len(s.data), `pos` = s.pos, `word o` = the little-endian uint32 at offset o -/\ndef BlockRowScanner_Next (n pos : Int) (word : Int → Int) : ScanStep :=\n%s\n",
		key, filepath.Base(t.fset.Position(fd.Pos()).Filename), indent(body))
}

func writeScanner(t *tr, out string) {
	var b strings.Builder
	b.WriteString("/- GENERATED by /verif/gen/go2lean from /repo's working tree on every check run. Do not edit. -/\n")
	b.WriteString("import BloomVerif.Generated.Leaf\nset_option linter.unusedVariables false\nnamespace BloomVerif.Gen\nopen BloomVerif\n\n")
	b.WriteString("/-- outcome of one `Next`: exhausted, error, a row `data[lo:hi]` with the new cursor, or an out-of-range index -/\ninductive ScanStep where\n  | done | err | panic\n  | row (lo hi pos : Int)\nderiving Repr, DecidableEq\n\n")
	b.WriteString(guardedDef("BlockRowScanner.Next", t.scanner))
	b.WriteString("\n/-- outcome of `heldSection`: not covered by the chunk in hand, the slice bounds inside the buffer, or an out-of-range slice -/\ninductive HeldOut where\n  | none | panic\n  | some (lo hi : Int)\nderiving Repr, DecidableEq\n\n")
	b.WriteString(guardedDef("blockFilterCursor.heldSection", t.held))
	b.WriteString("\nend BloomVerif.Gen\n")
	if err := os.WriteFile(filepath.Join(out, "Scanner.lean"), []byte(b.String()), 0o644); err != nil {
		fmt.Fprintln(os.Stderr, err)
		os.Exit(2)
	}
}

// ---------------------------------------------------------------- blockFilterCursor.heldSection

// held regenerates blockFilterCursor.heldSection (file_format.go): `c.buf == nil` is the parameter `bufNil`,
// `len(c.buf)` is `bufLen`, `c.chunkStart` is `chunkStart`; the returned slice c.buf[a:b] becomes an explicit
// bounds obligation (`.panic` when it would be out of range) and the pair (a, b).
func (t *tr) held() string {
	const key = "blockFilterCursor.heldSection"
	fd := t.funcs[key]
	if fd == nil {
		die("function %s not found in the repository", key)
	}
	t.cur = key
	bad := func(n ast.Node, what string) { die("%s: shape: %s at %s", key, what, t.pos(n)) }
	if fd.Recv == nil || len(fd.Recv.List) != 1 || len(fd.Recv.List[0].Names) != 1 || len(fd.Type.Params.List) != 1 || len(fd.Type.Params.List[0].Names) != 1 {
		bad(fd, "signature")
	}
	recv := fd.Recv.List[0].Names[0].Name
	blk := fd.Type.Params.List[0].Names[0].Name
	if typeString(fd.Type.Params.List[0].Type) != "DataBlockMetadata" {
		bad(fd, "parameter type")
	}
	t.env = map[string]string{"bufLen": "int", "chunkStart": "int64", blk: "DataBlockMetadata"}
	var rw func(e ast.Expr) ast.Expr
	rw = func(e ast.Expr) ast.Expr {
		switch v := e.(type) {
		case *ast.ParenExpr:
			return &ast.ParenExpr{X: rw(v.X)}
		case *ast.BinaryExpr:
			return &ast.BinaryExpr{X: rw(v.X), Op: v.Op, Y: rw(v.Y), OpPos: v.OpPos}
		case *ast.UnaryExpr:
			return &ast.UnaryExpr{Op: v.Op, X: rw(v.X), OpPos: v.OpPos}
		case *ast.SelectorExpr:
			if isSel(v, recv, "chunkStart") {
				return &ast.Ident{Name: "chunkStart", NamePos: v.Pos()}
			}
			return v
		case *ast.CallExpr:
			if calleeName(v) == "len" && len(v.Args) == 1 && isSel(v.Args[0], recv, "buf") {
				return &ast.Ident{Name: "bufLen", NamePos: v.Pos()}
			}
			args := make([]ast.Expr, len(v.Args))
			for i, a := range v.Args {
				args[i] = rw(a)
			}
			return &ast.CallExpr{Fun: v.Fun, Args: args, Lparen: v.Lparen, Rparen: v.Rparen}
		}
		return e
	}
	isNilIdentE := func(e ast.Expr) bool { id, ok := e.(*ast.Ident); return ok && id.Name == "nil" }
	ret := func(r *ast.ReturnStmt) string {
		if len(r.Results) != 2 {
			bad(r, "return arity")
		}
		okLit, isLit := boolLit(r.Results[1])
		if !isLit {
			bad(r, "ok result is not a literal")
		}
		if isNilIdentE(r.Results[0]) && okLit == "false" {
			return ".none"
		}
		se, ok := r.Results[0].(*ast.SliceExpr)
		if !ok || okLit != "true" || !isSel(se.X, recv, "buf") || se.Low == nil || se.High == nil || se.Slice3 {
			bad(r, "return shape")
		}
		lo, hi := t.atom(rw(se.Low)), t.atom(rw(se.High))
		return fmt.Sprintf("if !(decide (0 ≤ %s ∧ %s ≤ %s ∧ %s ≤ bufLen)) then .panic else (.some %s %s)", lo, lo, hi, hi, lo, hi)
	}
	var gen func(list []ast.Stmt) string
	gen = func(list []ast.Stmt) string {
		if len(list) == 0 {
			bad(fd, "control reaches the end without a return")
		}
		switch v := list[0].(type) {
		case *ast.ReturnStmt:
			return ret(v)
		case *ast.IfStmt:
			if v.Init != nil || v.Else != nil || len(v.Body.List) != 1 {
				bad(v, "if shape")
			}
			r, ok := v.Body.List[0].(*ast.ReturnStmt)
			if !ok {
				bad(v, "if body is not a return")
			}
			// c.buf == nil
			if be, ok := v.Cond.(*ast.BinaryExpr); ok && be.Op == token.EQL && isSel(be.X, recv, "buf") && isNilIdentE(be.Y) {
				return "if bufNil then " + ret(r) + "\nelse\n" + gen(list[1:])
			}
			return "if " + t.expr(rw(v.Cond)) + " then " + ret(r) + "\nelse\n" + gen(list[1:])
		case *ast.AssignStmt:
			if len(v.Lhs) != 1 || len(v.Rhs) != 1 || v.Tok != token.DEFINE {
				bad(v, "assignment")
			}
			lhs, ok := v.Lhs[0].(*ast.Ident)
			if !ok {
				bad(v, "assignment target")
			}
			rhs := rw(v.Rhs[0])
			ty := t.typeOf(rhs)
			if ty == "" {
				bad(v, "untyped right-hand side")
			}
			val := t.expr(rhs)
			t.env[lhs.Name] = ty
			return "let " + li(lhs.Name) + " := " + val + "\n" + gen(list[1:])
		}
		bad(list[0], fmt.Sprintf("statement %T", list[0]))
		return ""
	}
	body := gen(fd.Body.List)
	return fmt.Sprintf("/-- regenerated from `%s` (%s): `bufNil` = (c.buf == nil), `bufLen` = len(c.buf) -/\ndef heldSection (bufNil : Bool) (bufLen chunkStart : Int) (%s : DataBlockMetadata) : HeldOut :=\n%s\n",
		key, filepath.Base(t.fset.Position(fd.Pos()).Filename), blk, indent(body))
}
