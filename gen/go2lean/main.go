// go2lean: a deliberately tiny Go -> Lean 4 translator for the leaf decision
// functions and bounds checks of danthegoodman1/bloomsearch (T-gen tie, DESIGN.md
// section 7.5). It supports only the constructs those functions use and fails
// closed (non-zero exit naming the construct) on anything else.
//
// usage: go2lean -repo /repo -out <dir>
package main

import (
	"flag"
	"fmt"
	"go/ast"
	"go/parser"
	"go/token"
	"os"
	"path/filepath"
	"sort"
	"strconv"
	"strings"
)

type fnSpec struct {
	key  string // "Func" or "Recv.Method"
	name string // Lean name
}

// The functions regenerated on every run. Order matters (callees first).
var specs = []fnSpec{
	{"EvaluateStringCondition", "EvaluateStringCondition"},
	{"EvaluateNumericCondition", "EvaluateNumericCondition"},
	{"EvaluateMinMaxCondition", "EvaluateMinMaxCondition"},
	{"UpdateMinMaxIndex", "UpdateMinMaxIndex"},
	{"clampUint64ToInt64", "clampUint64ToInt64"},
	{"BloomSearchEngine.blocksWithinMergeLimits", "blocksWithinMergeLimits"},
	{"DataBlockMetadata.validateFilterSection", "validateFilterSection"},
	{"FileMetadata.validate", "validate"},
	{"DataBlockMetadata.OnDiskSize", "OnDiskSize"},
	{"evaluatePrefilterCondition", "evaluatePrefilterCondition"},
	{"planBlockFilterReads", "planBlockFilterReads"},
}

type tr struct {
	fset      *token.FileSet
	consts    map[string]string // name -> Lean literal
	strTypes  map[string]bool   // named types with underlying string
	structs   map[string]map[string]string
	ptrFields map[string]map[string]bool // struct -> field -> declared as pointer (modelled as Option)
	funcs     map[string]*ast.FuncDecl
	leanNames map[string]string // go key -> lean name
	env       map[string]string // local name -> Go type
	errFunc   bool
	nres      int
	resTypes  []string
	cur       string
}

// unsupported is what die panics with; each function is translated under a recover, so that one function
// outside the supported subset leaves only ITS definition out (the Lean modules that name it then fail to
// build, the others are unaffected).
type unsupported string

var failures []string

func die(format string, a ...any) {
	panic(unsupported(fmt.Sprintf(format, a...)))
}

// guarded translates one definition; on an unsupported construct the definition is replaced by a comment.
func guardedDef(what string, f func() string) (out string) {
	defer func() {
		if r := recover(); r != nil {
			u, ok := r.(unsupported)
			if !ok {
				panic(r)
			}
			failures = append(failures, what+": "+string(u))
			out = "-- TRANSLATION FAILED for " + what + ": " + strings.ReplaceAll(string(u), "\n", " ") + "\n"
		}
	}()
	return f()
}

func (t *tr) pos(n ast.Node) string { return t.fset.Position(n.Pos()).String() }

func typeString(e ast.Expr) string {
	switch v := e.(type) {
	case *ast.Ident:
		return v.Name
	case *ast.StarExpr:
		return typeString(v.X)
	case *ast.ArrayType:
		return "[]" + typeString(v.Elt)
	case *ast.SelectorExpr:
		return typeString(v.X) + "." + v.Sel.Name
	case *ast.MapType:
		return "map[" + typeString(v.Key) + "]" + typeString(v.Value)
	}
	return "?"
}

func isIntType(s string) bool {
	switch s {
	case "int", "int64", "int32", "int16", "int8", "uint", "uint64", "uint32", "uint16", "uint8", "byte":
		return true
	}
	return false
}
func isUnsigned64(s string) bool { return s == "uint" || s == "uint64" }

func (t *tr) leanType(g string) string {
	switch {
	case isIntType(g):
		return "Int"
	case g == "bool":
		return "Bool"
	case g == "string" || t.strTypes[g]:
		return "String"
	case g == "error":
		return "Bool"
	case strings.HasPrefix(g, "[]"):
		return "List " + t.leanType(g[2:])
	case strings.HasPrefix(g, "map[string]"):
		return "List (String × " + t.leanType(strings.TrimPrefix(g, "map[string]")) + ")"
	case g == "BloomSearchEngine":
		return "Engine"
	}
	if _, ok := t.structs[g]; ok {
		return g
	}
	die("type %s in %s", g, t.cur)
	return ""
}

// typeOf: tiny local inference, enough to pick wrapping arithmetic and conversions.
func (t *tr) typeOf(e ast.Expr) string {
	switch v := e.(type) {
	case *ast.Ident:
		if ty, ok := t.env[v.Name]; ok {
			return ty
		}
		return ""
	case *ast.ParenExpr:
		return t.typeOf(v.X)
	case *ast.StarExpr:
		return t.typeOf(v.X)
	case *ast.UnaryExpr:
		return t.typeOf(v.X)
	case *ast.SelectorExpr:
		if id, ok := v.X.(*ast.Ident); ok && id.Name == "math" {
			return "int64"
		}
		base := t.typeOf(v.X)
		if base == "BloomSearchEngine" && v.Sel.Name == "config" {
			return "BloomSearchEngineConfig"
		}
		if f, ok := t.structs[base]; ok {
			return f[v.Sel.Name]
		}
		return ""
	case *ast.CallExpr:
		if id, ok := v.Fun.(*ast.Ident); ok {
			if isIntType(id.Name) {
				return id.Name
			}
			if id.Name == "len" {
				return "int"
			}
		}
		return ""
	case *ast.BinaryExpr:
		l := t.typeOf(v.X)
		if l == "" {
			return t.typeOf(v.Y)
		}
		return l
	case *ast.IndexExpr:
		b := t.typeOf(v.X)
		if strings.HasPrefix(b, "[]") {
			return b[2:]
		}
	}
	return ""
}

// isPtrField: e is `x.F` where F is declared as a pointer in x's struct type (modelled as Option).
func (t *tr) isPtrField(e ast.Expr) bool {
	sel, ok := e.(*ast.SelectorExpr)
	if !ok {
		return false
	}
	return t.ptrFields[t.typeOf(sel.X)][sel.Sel.Name]
}

// li renames Go identifiers that are reserved words in Lean.
func li(name string) string {
	switch name {
	case "exists", "from", "at", "fun", "end", "match", "then", "open", "show", "have", "by", "in", "where", "with", "do", "meta", "Type", "Prop", "Sort":
		return name + "_"
	}
	return name
}

func isNilIdent(e ast.Expr) bool {
	id, ok := e.(*ast.Ident)
	return ok && id.Name == "nil"
}

func leanStr(s string) string {
	var b strings.Builder
	b.WriteByte('"')
	for _, r := range s {
		switch {
		case r == '"' || r == '\\':
			b.WriteByte('\\')
			b.WriteRune(r)
		case r == '\n':
			b.WriteString("\\n")
		case r < 0x20 || r == 0x7f:
			fmt.Fprintf(&b, "\\x%02x", r)
		default:
			b.WriteRune(r)
		}
	}
	b.WriteByte('"')
	return b.String()
}

func (t *tr) expr(e ast.Expr) string {
	switch v := e.(type) {
	case *ast.ParenExpr:
		return "(" + t.expr(v.X) + ")"
	case *ast.Ident:
		switch v.Name {
		case "true", "false":
			return v.Name
		}
		if _, local := t.env[v.Name]; local {
			return li(v.Name)
		}
		if c, ok := t.consts[v.Name]; ok {
			return c
		}
		die("identifier %s at %s", v.Name, t.pos(v))
	case *ast.BasicLit:
		switch v.Kind {
		case token.INT:
			n, err := strconv.ParseInt(v.Value, 0, 64)
			if err != nil {
				die("int literal %s", v.Value)
			}
			return fmt.Sprintf("(%d : Int)", n)
		case token.STRING:
			s, err := strconv.Unquote(v.Value)
			if err != nil {
				die("string literal %s", v.Value)
			}
			return leanStr(s)
		}
		die("literal %s at %s", v.Value, t.pos(v))
	case *ast.SelectorExpr:
		if id, ok := v.X.(*ast.Ident); ok && id.Name == "math" {
			switch v.Sel.Name {
			case "MaxInt64":
				return "maxInt64"
			case "MinInt64":
				return "minInt64"
			}
			die("math.%s", v.Sel.Name)
		}
		return t.expr(v.X) + "." + v.Sel.Name
	case *ast.StarExpr:
		if t.isPtrField(v.X) {
			// dereference of an Option-modelled pointer field; the Go code has checked it against nil
			return "(" + t.expr(v.X) + ").get!"
		}
		return t.expr(v.X)
	case *ast.UnaryExpr:
		switch v.Op {
		case token.NOT:
			return "(!" + t.expr(v.X) + ")"
		case token.AND:
			return t.expr(v.X)
		case token.SUB:
			return "(wsub 0 " + t.expr(v.X) + ")"
		}
		die("unary %s at %s", v.Op, t.pos(v))
	case *ast.BinaryExpr:
		if (v.Op == token.EQL || v.Op == token.NEQ) && isNilIdent(v.Y) && t.isPtrField(v.X) {
			if v.Op == token.EQL {
				return "(" + t.expr(v.X) + ").isNone"
			}
			return "(" + t.expr(v.X) + ").isSome"
		}
		l, r := t.expr(v.X), t.expr(v.Y)
		switch v.Op {
		case token.EQL:
			return "(decide (" + l + " = " + r + "))"
		case token.NEQ:
			return "(decide (" + l + " ≠ " + r + "))"
		case token.LSS:
			return "(decide (" + l + " < " + r + "))"
		case token.LEQ:
			return "(decide (" + l + " ≤ " + r + "))"
		case token.GTR:
			return "(decide (" + l + " > " + r + "))"
		case token.GEQ:
			return "(decide (" + l + " ≥ " + r + "))"
		case token.LAND:
			return "(" + l + " && " + r + ")"
		case token.LOR:
			return "(" + l + " || " + r + ")"
		case token.ADD, token.SUB:
			ty := t.typeOf(v)
			if !isIntType(ty) {
				die("arithmetic on type %q at %s", ty, t.pos(v))
			}
			op := "+"
			if v.Op == token.SUB {
				op = "-"
			}
			if isUnsigned64(ty) {
				return "(wrapU64 (" + l + " " + op + " " + r + "))"
			}
			if ty != "int" && ty != "int64" {
				die("arithmetic on narrow type %q at %s", ty, t.pos(v))
			}
			if v.Op == token.ADD {
				return "(wadd " + l + " " + r + ")"
			}
			return "(wsub " + l + " " + r + ")"
		}
		die("binary %s at %s", v.Op, t.pos(v))
	case *ast.CallExpr:
		if id, ok := v.Fun.(*ast.Ident); ok {
			if isIntType(id.Name) && len(v.Args) == 1 {
				src := t.typeOf(v.Args[0])
				a := t.expr(v.Args[0])
				dstU := isUnsigned64(id.Name)
				srcU := isUnsigned64(src)
				switch {
				case id.Name == "int64" || id.Name == "int":
					if srcU {
						return "(wrap64 " + a + ")"
					}
					if src == "" {
						die("conversion %s(…) of untyped operand at %s", id.Name, t.pos(v))
					}
					return a // every other integer type embeds in int64
				case dstU:
					if srcU || src == "uint32" || src == "uint16" || src == "uint8" || src == "byte" {
						return a
					}
					return "(wrapU64 " + a + ")"
				}
				die("conversion to %s at %s", id.Name, t.pos(v))
			}
			if id.Name == "len" && len(v.Args) == 1 {
				return "(Int.ofNat (" + t.expr(v.Args[0]) + ").length)"
			}
			if ln, ok := t.leanNames[id.Name]; ok {
				s := "(" + ln
				for _, a := range v.Args {
					s += " " + t.atom(a)
				}
				return s + ")"
			}
			die("call %s at %s", id.Name, t.pos(v))
		}
		if sel, ok := v.Fun.(*ast.SelectorExpr); ok {
			recvTy := t.typeOf(sel.X)
			if ln, ok := t.leanNames[recvTy+"."+sel.Sel.Name]; ok {
				s := "(" + ln + " " + t.atom(sel.X)
				for _, a := range v.Args {
					s += " " + t.atom(a)
				}
				return s + ")"
			}
			die("method call %s.%s at %s", recvTy, sel.Sel.Name, t.pos(v))
		}
	}
	die("expression %T at %s", e, t.pos(e))
	return ""
}

func (t *tr) atom(e ast.Expr) string {
	s := t.expr(e)
	if strings.ContainsAny(s, " ") && !strings.HasPrefix(s, "(") {
		return "(" + s + ")"
	}
	return s
}

func isErrCtor(e ast.Expr) bool {
	c, ok := e.(*ast.CallExpr)
	if !ok {
		return false
	}
	if sel, ok := c.Fun.(*ast.SelectorExpr); ok {
		if id, ok := sel.X.(*ast.Ident); ok {
			return (id.Name == "fmt" && sel.Sel.Name == "Errorf") || (id.Name == "errors" && sel.Sel.Name == "New")
		}
	}
	return false
}

func (t *tr) retExpr(r *ast.ReturnStmt) string {
	one := func(e ast.Expr, ty string) string {
		if ty == "error" {
			if id, ok := e.(*ast.Ident); ok && id.Name == "nil" {
				return "true"
			}
			if isErrCtor(e) {
				return "false"
			}
			if id, ok := e.(*ast.Ident); ok && t.env[id.Name] == "error!" {
				return "false" // an err variable known non-nil on this path
			}
			die("error result %T at %s", e, t.pos(e))
		}
		return t.expr(e)
	}
	if len(r.Results) != len(t.resTypes) {
		die("naked/mismatched return at %s", t.pos(r))
	}
	if len(r.Results) == 1 {
		return one(r.Results[0], t.resTypes[0])
	}
	parts := make([]string, len(r.Results))
	for i := range r.Results {
		parts[i] = one(r.Results[i], t.resTypes[i])
	}
	return "(" + strings.Join(parts, ", ") + ")"
}

func endsInReturn(list []ast.Stmt) bool {
	if len(list) == 0 {
		return false
	}
	switch v := list[len(list)-1].(type) {
	case *ast.ReturnStmt:
		return true
	case *ast.IfStmt:
		if v.Else == nil {
			return false
		}
		eb, ok := v.Else.(*ast.BlockStmt)
		return ok && endsInReturn(v.Body.List) && endsInReturn(eb.List)
	case *ast.SwitchStmt:
		hasDefault := false
		for _, c := range v.Body.List {
			cc := c.(*ast.CaseClause)
			if cc.List == nil {
				hasDefault = true
			}
			if !endsInReturn(cc.Body) {
				return false
			}
		}
		return hasDefault
	}
	return false
}

// stmts translates a statement list into one Lean expression. rest is the
// translation of whatever follows the list ("" = nothing may follow).
func (t *tr) stmts(list []ast.Stmt, rest string) string {
	if len(list) == 0 {
		if rest == "" {
			die("control reaches end of %s without return", t.cur)
		}
		return rest
	}
	s := list[0]
	tail := func() string { return t.stmts(list[1:], rest) }
	switch v := s.(type) {
	case *ast.ReturnStmt:
		return t.retExpr(v)
	case *ast.DeclStmt, *ast.EmptyStmt:
		return tail()
	case *ast.AssignStmt:
		if len(v.Lhs) == 2 && len(v.Rhs) == 1 && v.Tok == token.DEFINE {
			// `val, ok := m[k]` on a map[string]T (modelled as an association list)
			if ix, ok := v.Rhs[0].(*ast.IndexExpr); ok {
				mt := t.typeOf(ix.X)
				a, aok := v.Lhs[0].(*ast.Ident)
				b, bok := v.Lhs[1].(*ast.Ident)
				if strings.HasPrefix(mt, "map[string]") && aok && bok {
					lk := "(List.lookup " + t.atom(ix.Index) + " " + t.atom(ix.X) + ")"
					t.env[a.Name] = strings.TrimPrefix(mt, "map[string]")
					t.env[b.Name] = "bool"
					return "let " + li(a.Name) + " := " + lk + ".getD default\nlet " + li(b.Name) + " := " + lk + ".isSome\n" + tail()
				}
			}
			die("two-value assignment at %s", t.pos(v))
		}
		if len(v.Lhs) == 1 && len(v.Rhs) == 1 {
			rhs := t.expr(v.Rhs[0])
			switch l := v.Lhs[0].(type) {
			case *ast.Ident:
				if v.Tok == token.DEFINE || v.Tok == token.ASSIGN {
					if ty := t.typeOf(v.Rhs[0]); ty != "" || v.Tok == token.DEFINE {
						if _, had := t.env[l.Name]; !had || ty != "" {
							t.env[l.Name] = ty
						}
					}
					return "let " + li(l.Name) + " := " + rhs + "\n" + tail()
				}
			case *ast.SelectorExpr:
				if id, ok := l.X.(*ast.Ident); ok && v.Tok == token.ASSIGN {
					return "let " + id.Name + " := { " + id.Name + " with " + l.Sel.Name + " := " + rhs + " }\n" + tail()
				}
			}
		}
		die("assignment at %s", t.pos(v))
	case *ast.IfStmt:
		cond := ""
		pre := ""
		if v.Init != nil {
			as, ok := v.Init.(*ast.AssignStmt)
			if !ok || len(as.Lhs) != 1 || len(as.Rhs) != 1 {
				die("if-init at %s", t.pos(v))
			}
			name := as.Lhs[0].(*ast.Ident).Name
			// `if err := f(...); err != nil { ... }` for error-returning callees
			if be, ok := v.Cond.(*ast.BinaryExpr); ok && be.Op == token.NEQ {
				if x, ok := be.X.(*ast.Ident); ok && x.Name == name {
					if y, ok := be.Y.(*ast.Ident); ok && y.Name == "nil" {
						cond = "(!" + t.expr(as.Rhs[0]) + ")"
						saved := t.env[name]
						t.env[name] = "error!"
						thenS := t.stmts(v.Body.List, condRest(v.Body.List, rest, list[1:], t))
						t.env[name] = saved
						if v.Else != nil {
							die("else after err-if at %s", t.pos(v))
						}
						return "if " + cond + " then\n" + indent(thenS) + "\nelse\n" + indent(tail())
					}
				}
			}
			t.env[name] = t.typeOf(as.Rhs[0])
			pre = "let " + name + " := " + t.expr(as.Rhs[0]) + "\n"
		}
		cond = t.expr(v.Cond)
		// mutation-only body without else: rebinding under the condition
		if v.Else == nil && !containsReturn(v.Body.List) {
			out := pre
			for _, bs := range v.Body.List {
				as, ok := bs.(*ast.AssignStmt)
				if !ok || len(as.Lhs) != 1 || as.Tok != token.ASSIGN {
					die("conditional statement at %s", t.pos(bs))
				}
				rhs := t.expr(as.Rhs[0])
				switch l := as.Lhs[0].(type) {
				case *ast.Ident:
					out += "let " + l.Name + " := if " + cond + " then " + rhs + " else " + l.Name + "\n"
				case *ast.SelectorExpr:
					id, ok := l.X.(*ast.Ident)
					if !ok {
						die("conditional field assignment at %s", t.pos(bs))
					}
					out += "let " + id.Name + " := if " + cond + " then { " + id.Name + " with " + l.Sel.Name + " := " + rhs + " } else " + id.Name + "\n"
				default:
					die("conditional assignment at %s", t.pos(bs))
				}
			}
			return out + tail()
		}
		var restS string
		needRest := !endsInReturn(v.Body.List)
		elseList := []ast.Stmt(nil)
		if v.Else != nil {
			eb, ok := v.Else.(*ast.BlockStmt)
			if !ok {
				elseList = []ast.Stmt{v.Else.(*ast.IfStmt)}
			} else {
				elseList = eb.List
			}
			if !endsInReturn(elseList) {
				needRest = true
			}
		} else {
			needRest = true
		}
		if needRest {
			restS = tail()
		}
		thenS := t.stmts(v.Body.List, restS)
		elseS := restS
		if v.Else != nil {
			elseS = t.stmts(elseList, restS)
		}
		return pre + "if " + cond + " then\n" + indent(thenS) + "\nelse\n" + indent(elseS)
	case *ast.SwitchStmt:
		if v.Init != nil || v.Tag == nil {
			die("switch form at %s", t.pos(v))
		}
		tag := t.expr(v.Tag)
		restS := ""
		if !endsInReturn([]ast.Stmt{v}) {
			restS = tail()
		}
		var def []ast.Stmt
		hasDef := false
		type arm struct{ cond, body string }
		var arms []arm
		for _, c := range v.Body.List {
			cc := c.(*ast.CaseClause)
			if cc.List == nil {
				def, hasDef = cc.Body, true
				continue
			}
			conds := make([]string, len(cc.List))
			for i, ce := range cc.List {
				conds[i] = tag + " = " + t.expr(ce)
			}
			arms = append(arms, arm{strings.Join(conds, " ∨ "), t.stmts(cc.Body, restS)})
		}
		out := ""
		for _, a := range arms {
			out += "if " + a.cond + " then\n" + indent(a.body) + "\nelse "
		}
		if hasDef {
			out += "\n" + indent(t.stmts(def, restS))
		} else {
			out += "\n" + indent(restS)
		}
		return out
	case *ast.RangeStmt:
		xs := t.expr(v.X)
		elemTy := strings.TrimPrefix(t.typeOf(v.X), "[]")
		body := v.Body.List
		var name string
		if v.Value != nil {
			name = v.Value.(*ast.Ident).Name
		} else if v.Key != nil && len(body) > 0 {
			// for i := range xs { x := &xs[i]; ... }
			as, ok := body[0].(*ast.AssignStmt)
			if ok && len(as.Lhs) == 1 && as.Tok == token.DEFINE {
				if ue, ok := as.Rhs[0].(*ast.UnaryExpr); ok && ue.Op == token.AND {
					if ie, ok := ue.X.(*ast.IndexExpr); ok && t.expr(ie.X) == xs {
						if k, ok := ie.Index.(*ast.Ident); ok && k.Name == v.Key.(*ast.Ident).Name {
							name = as.Lhs[0].(*ast.Ident).Name
							body = body[1:]
						}
					}
				}
			}
		}
		if name == "" {
			die("range form at %s", t.pos(v))
		}
		t.env[name] = elemTy
		if t.errFunc && len(t.resTypes) > 1 {
			// multi-result error function: a loop of error checks (each returning the same error tuple) and
			// boolean latches `if cond { v = true }` on variables declared outside the loop
			var checks, latches []string
			errRet := ""
			for _, st := range body {
				is, ok := st.(*ast.IfStmt)
				if !ok || is.Else != nil || len(is.Body.List) != 1 {
					die("loop body statement at %s", t.pos(st))
				}
				if is.Init != nil {
					as, ok := is.Init.(*ast.AssignStmt)
					be, ok2 := is.Cond.(*ast.BinaryExpr)
					rs, ok3 := is.Body.List[0].(*ast.ReturnStmt)
					if !ok || !ok2 || !ok3 || be.Op != token.NEQ || !isNilIdent(be.Y) || len(as.Lhs) != 1 || len(as.Rhs) != 1 {
						die("loop error check at %s", t.pos(st))
					}
					nm := as.Lhs[0].(*ast.Ident).Name
					saved := t.env[nm]
					t.env[nm] = "error!"
					r := t.retExpr(rs)
					t.env[nm] = saved
					if errRet != "" && errRet != r {
						die("loop error checks return different values at %s", t.pos(st))
					}
					errRet = r
					checks = append(checks, t.expr(as.Rhs[0]))
					continue
				}
				as, ok := is.Body.List[0].(*ast.AssignStmt)
				if !ok || as.Tok != token.ASSIGN || len(as.Lhs) != 1 || len(as.Rhs) != 1 {
					die("loop latch at %s", t.pos(st))
				}
				lhs, ok := as.Lhs[0].(*ast.Ident)
				rhs, ok2 := as.Rhs[0].(*ast.Ident)
				if !ok || !ok2 || rhs.Name != "true" || t.env[lhs.Name] != "bool" || mentions(is.Cond, lhs.Name) {
					die("loop latch form at %s", t.pos(st))
				}
				latches = append(latches, "let "+li(lhs.Name)+" := "+li(lhs.Name)+" || ("+xs+").any (fun "+name+" => "+t.expr(is.Cond)+")\n")
			}
			if len(checks) == 0 {
				die("loop without error checks at %s", t.pos(v))
			}
			return "if (" + xs + ").all (fun " + name + " => " + strings.Join(checks, " && ") + ") then\n" + indent(strings.Join(latches, "")+tail()) + "\nelse\n" + indent(errRet)
		}
		if t.errFunc && len(t.resTypes) == 1 {
			// every return inside is an error: all-quantifier
			b := t.stmts(body, "true")
			return "if (" + xs + ").all (fun " + name + " =>\n" + indent(b) + ") then\n" + indent(tail()) + "\nelse false"
		}
		if len(body) == 1 {
			if is, ok := body[0].(*ast.IfStmt); ok && is.Else == nil && is.Init == nil && len(is.Body.List) == 1 {
				if rs, ok := is.Body.List[0].(*ast.ReturnStmt); ok {
					if !mentions(rs, name) {
						return "if (" + xs + ").any (fun " + name + " => " + t.expr(is.Cond) + ") then\n" + indent(t.retExpr(rs)) + "\nelse\n" + indent(tail())
					}
					return "((" + xs + ").find? (fun " + name + " => " + t.expr(is.Cond) + ")).elim\n" + indent("("+tail()+")") + "\n" + indent("(fun "+name+" => "+t.retExpr(rs)+")")
				}
			}
		}
		die("range body at %s", t.pos(v))
	}
	die("statement %T at %s", s, t.pos(s))
	return ""
}

func condRest(body []ast.Stmt, rest string, following []ast.Stmt, t *tr) string {
	if endsInReturn(body) {
		return ""
	}
	return t.stmts(following, rest)
}

func mentions(n ast.Node, name string) bool {
	found := false
	ast.Inspect(n, func(x ast.Node) bool {
		if id, ok := x.(*ast.Ident); ok && id.Name == name {
			found = true
		}
		return true
	})
	return found
}

func containsReturn(list []ast.Stmt) bool {
	found := false
	for _, s := range list {
		ast.Inspect(s, func(n ast.Node) bool {
			if _, ok := n.(*ast.ReturnStmt); ok {
				found = true
			}
			return true
		})
	}
	return found
}

func indent(s string) string {
	lines := strings.Split(s, "\n")
	for i := range lines {
		lines[i] = "  " + lines[i]
	}
	return strings.Join(lines, "\n")
}

func (t *tr) fn(spec fnSpec) string {
	fd := t.funcs[spec.key]
	if fd == nil {
		die("function %s not found in the repository", spec.key)
	}
	t.cur = spec.key
	t.env = map[string]string{}
	var params []string
	if fd.Recv != nil {
		f := fd.Recv.List[0]
		ty := typeString(f.Type)
		t.env[f.Names[0].Name] = ty
		params = append(params, "("+f.Names[0].Name+" : "+t.leanType(ty)+")")
	}
	for _, f := range fd.Type.Params.List {
		ty := typeString(f.Type)
		for _, n := range f.Names {
			t.env[n.Name] = ty
			params = append(params, "("+n.Name+" : "+t.leanType(ty)+")")
		}
	}
	t.resTypes = nil
	namedInit := ""
	for _, f := range fd.Type.Results.List {
		n := len(f.Names)
		if n == 0 {
			n = 1
		}
		for i := 0; i < n; i++ {
			t.resTypes = append(t.resTypes, typeString(f.Type))
		}
		// named results are ordinary variables holding their zero value
		for _, nm := range f.Names {
			ty := typeString(f.Type)
			if ty == "error" {
				continue
			}
			t.env[nm.Name] = ty
			zero := "(0 : Int)"
			switch {
			case ty == "bool":
				zero = "false"
			case ty == "string" || t.strTypes[ty]:
				zero = "\"\""
			case !isIntType(ty):
				die("named result %s of type %s in %s", nm.Name, ty, spec.key)
			}
			namedInit += "let " + li(nm.Name) + " := " + zero + "\n"
		}
	}
	t.errFunc = t.resTypes[len(t.resTypes)-1] == "error"
	rts := make([]string, len(t.resTypes))
	for i, r := range t.resTypes {
		rts[i] = t.leanType(r)
	}
	body := namedInit + t.stmts(fd.Body.List, "")
	return fmt.Sprintf("/-- regenerated from `%s` (%s) -/\ndef %s %s : %s :=\n%s\n",
		spec.key, filepath.Base(t.fset.Position(fd.Pos()).Filename), spec.name, strings.Join(params, " "), strings.Join(rts, " × "), indent(body))
}

func main() {
	repo := flag.String("repo", "/repo", "repository root")
	out := flag.String("out", "", "output directory for Generated/*.lean")
	flag.Parse()
	if *out == "" {
		die("missing -out")
	}
	fset := token.NewFileSet()
	pkgs, err := parser.ParseDir(fset, *repo, func(fi os.FileInfo) bool {
		return !strings.HasSuffix(fi.Name(), "_test.go")
	}, parser.ParseComments)
	if err != nil {
		fmt.Fprintln(os.Stderr, "go2lean: parse:", err)
		os.Exit(2)
	}
	t := &tr{fset: fset, consts: map[string]string{}, strTypes: map[string]bool{}, structs: map[string]map[string]string{},
		funcs: map[string]*ast.FuncDecl{}, leanNames: map[string]string{}, ptrFields: map[string]map[string]bool{}}
	var files []*ast.File
	for _, p := range pkgs {
		names := make([]string, 0, len(p.Files))
		for n := range p.Files {
			names = append(names, n)
		}
		sort.Strings(names)
		for _, n := range names {
			f := p.Files[n]
			// skip build-tagged verification hooks: they are not part of the engine
			if strings.HasPrefix(filepath.Base(n), "verif_") {
				continue
			}
			files = append(files, f)
		}
	}
	for _, f := range files {
		for _, d := range f.Decls {
			switch v := d.(type) {
			case *ast.FuncDecl:
				key := v.Name.Name
				if v.Recv != nil {
					key = typeString(v.Recv.List[0].Type) + "." + key
				}
				t.funcs[key] = v
			case *ast.GenDecl:
				for _, s := range v.Specs {
					switch sp := s.(type) {
					case *ast.TypeSpec:
						if id, ok := sp.Type.(*ast.Ident); ok && id.Name == "string" {
							t.strTypes[sp.Name.Name] = true
						}
						if st, ok := sp.Type.(*ast.StructType); ok {
							m := map[string]string{}
							pf := map[string]bool{}
							for _, f := range st.Fields.List {
								for _, n := range f.Names {
									m[n.Name] = typeString(f.Type)
									if _, isPtr := f.Type.(*ast.StarExpr); isPtr {
										pf[n.Name] = true
									}
								}
							}
							t.structs[sp.Name.Name] = m
							t.ptrFields[sp.Name.Name] = pf
						}
					case *ast.ValueSpec:
						if v.Tok != token.CONST {
							continue
						}
						for i, n := range sp.Names {
							if i >= len(sp.Values) {
								continue
							}
							if bl, ok := sp.Values[i].(*ast.BasicLit); ok {
								switch bl.Kind {
								case token.STRING:
									s, _ := strconv.Unquote(bl.Value)
									t.consts[n.Name] = leanStr(s)
								case token.INT:
									k, _ := strconv.ParseInt(bl.Value, 0, 64)
									t.consts[n.Name] = fmt.Sprintf("(%d : Int)", k)
								}
							}
						}
					}
				}
			}
		}
	}
	for _, s := range specs {
		t.leanNames[s.key] = s.name
	}
	var b strings.Builder
	b.WriteString("/- GENERATED by /verif/gen/go2lean from /repo's working tree on every check run. Do not edit. -/\n")
	b.WriteString("import BloomVerif.Model.Types\nset_option linter.unusedVariables false\nnamespace BloomVerif.Gen\nopen BloomVerif\n\n")
	// constants the model compares against
	for _, c := range []string{"LengthPrefixSize", "VersionPrefixSize", "HashSize", "queryRowBatchSize", "queryRowBatchBuffer", "queryJobBuffer", "queryFileJobBuffer", "maxCreateFileAttempts", "MagicBytes"} {
		if v, ok := t.consts[c]; ok {
			ty := "Int"
			if strings.HasPrefix(v, "\"") {
				ty = "String"
			}
			fmt.Fprintf(&b, "def const_%s : %s := %s\n", c, ty, v)
		} else {
			die("constant %s not found", c)
		}
	}
	b.WriteString("\n")
	for _, s := range specs {
		b.WriteString(guardedDef(s.key, func() string { return t.fn(s) }))
		b.WriteString("\n")
	}
	b.WriteString("end BloomVerif.Gen\n")
	writeSinks(fset, files, *out)
	writeTrees(t, *out)
	writeGuard(t, *out)
	writeScanner(t, *out)
	writeChunk(t, *out)
	writeStats(t, *out)
	writeTrigger(t, *out)
	writeSlot(t, *out)
	writeMergeMM(t, *out)
	writeChanHelpers(t, *out)
	writeAccept(t, *out)
	if err := os.MkdirAll(*out, 0o755); err != nil {
		fmt.Fprintln(os.Stderr, err)
		os.Exit(2)
	}
	if err := os.WriteFile(filepath.Join(*out, "Leaf.lean"), []byte(b.String()), 0o644); err != nil {
		fmt.Fprintln(os.Stderr, err)
		os.Exit(2)
	}
	if len(failures) > 0 {
		// the files are written (without the failed definitions); exit status 4 tells the caller
		for _, f := range failures {
			fmt.Fprintln(os.Stderr, "go2lean: unsupported: "+f)
		}
		os.Exit(4)
	}
}


// writeSinks regenerates the table of every call site in the (non-test, non-verif) package sources
// that can reach standard output or standard error, and the fact that a nil Logger defaults to the
// discard handler (C27).
func writeSinks(fset *token.FileSet, files []*ast.File, out string) {
	type sink struct{ pos, what string }
	var sinks []sink
	discardDefault := false
	add := func(n ast.Node, what string) {
		p := fset.Position(n.Pos())
		sinks = append(sinks, sink{fmt.Sprintf("%s:%d", filepath.Base(p.Filename), p.Line), what})
	}
	slogPkgFuncs := map[string]bool{"Debug": true, "Info": true, "Warn": true, "Error": true, "Log": true, "LogAttrs": true, "DebugContext": true,
		"InfoContext": true, "WarnContext": true, "ErrorContext": true, "Default": true, "SetDefault": true}
	for _, f := range files {
		ast.Inspect(f, func(n ast.Node) bool {
			switch v := n.(type) {
			case *ast.CallExpr:
				if id, ok := v.Fun.(*ast.Ident); ok && (id.Name == "print" || id.Name == "println") {
					add(v, id.Name)
				}
				if sel, ok := v.Fun.(*ast.SelectorExpr); ok {
					if pkg, ok := sel.X.(*ast.Ident); ok {
						switch {
						case pkg.Name == "fmt" && (sel.Sel.Name == "Print" || sel.Sel.Name == "Printf" || sel.Sel.Name == "Println"):
							add(v, "fmt."+sel.Sel.Name)
						case pkg.Name == "log":
							add(v, "log."+sel.Sel.Name)
						case pkg.Name == "slog" && slogPkgFuncs[sel.Sel.Name]:
							add(v, "slog."+sel.Sel.Name)
						case pkg.Name == "os" && sel.Sel.Name == "NewFile":
							add(v, "os.NewFile") // a descriptor number turned into a file: 1 and 2 are stdout / stderr
						case pkg.Name == "syscall" && (sel.Sel.Name == "Write" || sel.Sel.Name == "Pwrite"):
							add(v, "syscall."+sel.Sel.Name)
						case pkg.Name == "debug" && (sel.Sel.Name == "PrintStack" || sel.Sel.Name == "WriteHeapDump"):
							add(v, "debug."+sel.Sel.Name)
						case (pkg.Name == "spew" || pkg.Name == "pretty") && (strings.HasPrefix(sel.Sel.Name, "Dump") || strings.HasPrefix(sel.Sel.Name, "Print")):
							add(v, pkg.Name+"."+sel.Sel.Name)
						}
					}
				}
			case *ast.SelectorExpr:
				if pkg, ok := v.X.(*ast.Ident); ok && pkg.Name == "os" && (v.Sel.Name == "Stdout" || v.Sel.Name == "Stderr") {
					add(v, "os."+v.Sel.Name)
				}
			case *ast.IfStmt:
				// if logger == nil { logger = slog.New(slog.DiscardHandler) }
				if be, ok := v.Cond.(*ast.BinaryExpr); ok && be.Op == token.EQL {
					x, okx := be.X.(*ast.Ident)
					y, oky := be.Y.(*ast.Ident)
					if okx && oky && x.Name == "logger" && y.Name == "nil" && len(v.Body.List) == 1 {
						if as, ok := v.Body.List[0].(*ast.AssignStmt); ok && len(as.Rhs) == 1 {
							if call, ok := as.Rhs[0].(*ast.CallExpr); ok && len(call.Args) == 1 {
								if fn, ok := call.Fun.(*ast.SelectorExpr); ok && fn.Sel.Name == "New" {
									if arg, ok := call.Args[0].(*ast.SelectorExpr); ok && arg.Sel.Name == "DiscardHandler" {
										discardDefault = true
									}
								}
							}
						}
					}
				}
			}
			return true
		})
	}
	var b strings.Builder
	b.WriteString("/- GENERATED by /verif/gen/go2lean from /repo's working tree on every check run. Do not edit. -/\nnamespace BloomVerif.Gen\n\n")
	b.WriteString("/-- every call site in the package's non-test sources that can reach stdout/stderr: (file:line, call) -/\ndef outputSinks : List (String × String) := [")
	for i, s := range sinks {
		if i > 0 {
			b.WriteString(", ")
		}
		fmt.Fprintf(&b, "(%s, %s)", leanStr(s.pos), leanStr(s.what))
	}
	b.WriteString("]\n\n/-- NewBloomSearchEngine replaces a nil Logger by slog.New(slog.DiscardHandler) -/\n")
	fmt.Fprintf(&b, "def nilLoggerIsDiscard : Bool := %v\n\nend BloomVerif.Gen\n", discardDefault)
	if err := os.MkdirAll(out, 0o755); err != nil {
		fmt.Fprintln(os.Stderr, err)
		os.Exit(2)
	}
	if err := os.WriteFile(filepath.Join(out, "Sinks.lean"), []byte(b.String()), 0o644); err != nil {
		fmt.Fprintln(os.Stderr, err)
		os.Exit(2)
	}
}
