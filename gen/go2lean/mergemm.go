package main

// BloomSearchEngine.mergeMinMaxIndexes (merge.go): the union of two blocks' minmax maps, regenerated as folds over
// association lists (T-gen). Go maps become `List (String × MinMaxIndex)` with `mapSet` (replace the binding of a
// key, or append one) and `List.lookup`; a `range` loop over a parameter becomes a `foldl` whose accumulator is the
// map being built. Inside a loop the subset is: `merged[key] = <expr>` and
// `if v, ok := merged[key]; ok { ... } else { ... }` with such assignments in the branches.

import (
	"fmt"
	"go/ast"
	"go/token"
	"os"
	"path/filepath"
	"strings"
)

type mmTr struct {
	t      *tr
	key    string
	acc    string          // the map under construction
	keyVar string          // loop key variable
	valVar string          // loop value variable
	bound  map[string]bool // variables bound by a lookup
}

func (g *mmTr) bad(n ast.Node, what string) { die("%s: shape: %s at %s", g.key, what, g.t.pos(n)) }

func (g *mmTr) expr(e ast.Expr) string {
	switch v := e.(type) {
	case *ast.Ident:
		switch {
		case v.Name == g.keyVar:
			return "kv.1"
		case v.Name == g.valVar:
			return "kv.2"
		case g.bound[v.Name]:
			return v.Name
		}
	case *ast.SelectorExpr:
		if v.Sel.Name == "Min" || v.Sel.Name == "Max" {
			return g.expr(v.X) + "." + v.Sel.Name
		}
	case *ast.CallExpr:
		if id, ok := v.Fun.(*ast.Ident); ok && id.Name == "UpdateMinMaxIndex" && len(v.Args) == 3 {
			return fmt.Sprintf("(UpdateMinMaxIndex %s %s %s)", g.atom(v.Args[0]), g.atom(v.Args[1]), g.atom(v.Args[2]))
		}
	}
	g.bad(e, fmt.Sprintf("expression %T", e))
	return ""
}

func (g *mmTr) atom(e ast.Expr) string {
	s := g.expr(e)
	if strings.ContainsAny(s, " ") && !strings.HasPrefix(s, "(") {
		return "(" + s + ")"
	}
	return s
}

// isAccIndex reports whether e is `<acc>[<keyVar>]`.
func (g *mmTr) isAccIndex(e ast.Expr) bool {
	ix, ok := e.(*ast.IndexExpr)
	if !ok {
		return false
	}
	x, ok := ix.X.(*ast.Ident)
	if !ok || x.Name != g.acc {
		return false
	}
	k, ok := ix.Index.(*ast.Ident)
	return ok && k.Name == g.keyVar
}

// body turns the statements of a loop body into an expression yielding the new accumulator.
func (g *mmTr) body(list []ast.Stmt) string {
	out := ""
	for _, st := range list {
		switch v := st.(type) {
		case *ast.AssignStmt:
			if len(v.Lhs) != 1 || len(v.Rhs) != 1 || v.Tok != token.ASSIGN || !g.isAccIndex(v.Lhs[0]) {
				g.bad(v, "assignment")
			}
			out += fmt.Sprintf("let %s := mapSet %s kv.1 %s\n", g.acc, g.acc, g.atom(v.Rhs[0]))
		case *ast.IfStmt:
			init, ok := v.Init.(*ast.AssignStmt)
			if !ok || init.Tok != token.DEFINE || len(init.Lhs) != 2 || len(init.Rhs) != 1 || !g.isAccIndex(init.Rhs[0]) {
				g.bad(v, "if without a two-valued lookup")
			}
			val, ok1 := init.Lhs[0].(*ast.Ident)
			okv, ok2 := init.Lhs[1].(*ast.Ident)
			cond, ok3 := v.Cond.(*ast.Ident)
			if !ok1 || !ok2 || !ok3 || cond.Name != okv.Name {
				g.bad(v, "if condition is not the lookup's ok")
			}
			g.bound[val.Name] = true
			thenS := g.body(v.Body.List)
			delete(g.bound, val.Name)
			elseS := g.acc
			switch e := v.Else.(type) {
			case nil:
			case *ast.BlockStmt:
				elseS = g.body(e.List)
			default:
				g.bad(v, "else-if")
			}
			out += fmt.Sprintf("let %s := match %s.lookup kv.1 with\n  | some %s => (\n%s)\n  | none => (\n%s)\n", g.acc, g.acc, val.Name, indent(indent(thenS)), indent(indent(elseS)))
		default:
			g.bad(st, fmt.Sprintf("statement %T", st))
		}
	}
	return out + g.acc
}

func (t *tr) mergeMM() string {
	const key = "BloomSearchEngine.mergeMinMaxIndexes"
	fd := t.funcs[key]
	if fd == nil {
		die("function %s not found in the repository", key)
	}
	t.cur = key
	g := &mmTr{t: t, key: key, bound: map[string]bool{}}
	var params []string
	for _, f := range fd.Type.Params.List {
		if typeString(f.Type) != "map[string]MinMaxIndex" {
			g.bad(f, "parameter type "+typeString(f.Type))
		}
		for _, n := range f.Names {
			params = append(params, n.Name)
		}
	}
	if len(params) != 2 {
		g.bad(fd, "parameters")
	}
	stmts := fd.Body.List
	if len(stmts) < 2 {
		g.bad(fd, "body")
	}
	// merged := make(map[string]MinMaxIndex)
	first, ok := stmts[0].(*ast.AssignStmt)
	if !ok || first.Tok != token.DEFINE || len(first.Lhs) != 1 || len(first.Rhs) != 1 {
		g.bad(stmts[0], "first statement is not the creation of the result map")
	}
	if c, ok := first.Rhs[0].(*ast.CallExpr); !ok || len(c.Args) != 1 || typeString(c.Args[0]) != "map[string]MinMaxIndex" {
		g.bad(first, "result map is not made empty")
	} else if id, ok := c.Fun.(*ast.Ident); !ok || id.Name != "make" {
		g.bad(first, "result map is not made empty")
	}
	g.acc = first.Lhs[0].(*ast.Ident).Name
	out := fmt.Sprintf("let %s : List (String × MinMaxIndex) := []\n", g.acc)
	last := stmts[len(stmts)-1]
	ret, ok := last.(*ast.ReturnStmt)
	if !ok || len(ret.Results) != 1 {
		g.bad(last, "last statement is not `return <map>`")
	}
	if id, ok := ret.Results[0].(*ast.Ident); !ok || id.Name != g.acc {
		g.bad(last, "the function returns something other than the map it built")
	}
	for _, st := range stmts[1 : len(stmts)-1] {
		rs, ok := st.(*ast.RangeStmt)
		if !ok {
			g.bad(st, fmt.Sprintf("statement %T between creation and return", st))
		}
		src, ok := rs.X.(*ast.Ident)
		if !ok || (src.Name != params[0] && src.Name != params[1]) {
			g.bad(rs, "loop does not range over a parameter")
		}
		k, ok1 := rs.Key.(*ast.Ident)
		v, ok2 := rs.Value.(*ast.Ident)
		if !ok1 || !ok2 {
			g.bad(rs, "loop variables")
		}
		g.keyVar, g.valVar = k.Name, v.Name
		out += fmt.Sprintf("let %s := %s.foldl (fun %s kv =>\n%s) %s\n", g.acc, src.Name, g.acc, indent(indent(g.body(rs.Body.List))), g.acc)
	}
	out += g.acc
	return fmt.Sprintf("/-- `%s` (%s): Go maps as association lists, `range` loops as folds -/\ndef mergeMinMaxIndexes (%s %s : List (String × MinMaxIndex)) : List (String × MinMaxIndex) :=\n%s\n",
		key, filepath.Base(t.fset.Position(fd.Pos()).Filename), params[0], params[1], indent(out))
}

func writeMergeMM(t *tr, out string) {
	var b strings.Builder
	b.WriteString("/- GENERATED by /verif/gen/go2lean from /repo's working tree on every check run. Do not edit. -/\n")
	b.WriteString("import BloomVerif.Generated.Leaf\nset_option linter.unusedVariables false\nnamespace BloomVerif.Gen\nopen BloomVerif\n\n")
	b.WriteString("/-- `m[k] = v` on a Go map kept as an association list: replace the binding of `k`, or add one -/\ndef mapSet : List (String × MinMaxIndex) → String → MinMaxIndex → List (String × MinMaxIndex)\n  | [], k, v => [(k, v)]\n  | (k', v') :: r, k, v => if k' = k then (k', v) :: r else (k', v') :: mapSet r k v\n\n")
	b.WriteString(guardedDef("BloomSearchEngine.mergeMinMaxIndexes", t.mergeMM))
	b.WriteString("\nend BloomVerif.Gen\n")
	if err := os.WriteFile(filepath.Join(out, "MergeMM.lean"), []byte(b.String()), 0o644); err != nil {
		fmt.Fprintln(os.Stderr, err)
		os.Exit(2)
	}
}
