package main

// chan_helpers.go: sendWithContext / sendOptionalWithContext / sendToChannelsWithContext - how an acknowledgement
// reaches a done channel - regenerated as functions of what the channel and the context do (T-gen):
//   ready : the channel can take the value at once (the case of a `select` with `default` fires iff ready)
//   w     : which case of the blocking `select` fires (the send, or the context ending)
// The result is (how many times the value was sent, whether nil was returned).

import (
	"fmt"
	"go/ast"
	"go/token"
	"os"
	"path/filepath"
	"strings"
)

type chTr struct {
	t   *tr
	key string
	ch  string // the channel parameter
	ctx string // the context parameter
}

func (g *chTr) bad(n ast.Node, what string) { die("%s: shape: %s at %s", g.key, what, g.t.pos(n)) }

// commKind: "send" (ch <- value), "ctx" (<-ctx.Done()), "default".
func (g *chTr) commKind(cc *ast.CommClause) string {
	switch c := cc.Comm.(type) {
	case nil:
		return "default"
	case *ast.SendStmt:
		if id, ok := c.Chan.(*ast.Ident); ok && id.Name == g.ch {
			return "send"
		}
	case *ast.ExprStmt:
		if u, ok := c.X.(*ast.UnaryExpr); ok && u.Op == token.ARROW {
			if call, ok := u.X.(*ast.CallExpr); ok {
				if sel, ok := call.Fun.(*ast.SelectorExpr); ok && sel.Sel.Name == "Done" {
					if id, ok := sel.X.(*ast.Ident); ok && id.Name == g.ctx {
						return "ctx"
					}
				}
			}
		}
	}
	g.bad(cc, "select case")
	return ""
}

func (g *chTr) ret(r *ast.ReturnStmt, sends int) string {
	if len(r.Results) != 1 {
		g.bad(r, "return")
	}
	if id, ok := r.Results[0].(*ast.Ident); ok && id.Name == "nil" {
		return fmt.Sprintf("(%d, true)", sends)
	}
	if call, ok := r.Results[0].(*ast.CallExpr); ok {
		if sel, ok := call.Fun.(*ast.SelectorExpr); ok && sel.Sel.Name == "Err" {
			if id, ok := sel.X.(*ast.Ident); ok && id.Name == g.ctx {
				return fmt.Sprintf("(%d, false)", sends)
			}
		}
	}
	g.bad(r, "returned value")
	return ""
}

func (g *chTr) stmts(list []ast.Stmt, sends int) string {
	if len(list) == 0 {
		g.bad(g.t.funcs[g.key], "control reaches the end without a return")
	}
	st, tail := list[0], list[1:]
	switch v := st.(type) {
	case *ast.ReturnStmt:
		return g.ret(v, sends)
	case *ast.SelectStmt:
		arms := map[string]*ast.CommClause{}
		for _, c := range v.Body.List {
			cc := c.(*ast.CommClause)
			k := g.commKind(cc)
			if arms[k] != nil {
				g.bad(cc, "duplicate select case")
			}
			arms[k] = cc
		}
		if arms["send"] == nil {
			g.bad(v, "select without the send")
		}
		sendBody := append(append([]ast.Stmt{}, arms["send"].Body...), tail...)
		if arms["default"] != nil {
			if arms["ctx"] != nil {
				g.bad(v, "select with both default and context cases")
			}
			defBody := append(append([]ast.Stmt{}, arms["default"].Body...), tail...)
			return fmt.Sprintf("if ready then\n%s\nelse\n%s", indent(g.stmts(sendBody, sends+1)), indent(g.stmts(defBody, sends)))
		}
		if arms["ctx"] == nil {
			g.bad(v, "blocking select without the context case")
		}
		ctxBody := append(append([]ast.Stmt{}, arms["ctx"].Body...), tail...)
		return fmt.Sprintf("match w with\n| .sent =>\n%s\n| .ctxDone =>\n%s", indent(g.stmts(sendBody, sends+1)), indent(g.stmts(ctxBody, sends)))
	}
	g.bad(st, fmt.Sprintf("statement %T", st))
	return ""
}

func paramNames(fd *ast.FuncDecl) []string {
	var out []string
	for _, f := range fd.Type.Params.List {
		for _, n := range f.Names {
			out = append(out, n.Name)
		}
	}
	return out
}

func (t *tr) sendWithContext() string {
	const key = "sendWithContext"
	fd := t.funcs[key]
	if fd == nil {
		die("function %s not found in the repository", key)
	}
	t.cur = key
	ps := paramNames(fd)
	if len(ps) != 3 {
		die("%s: parameters", key)
	}
	g := &chTr{t: t, key: key, ctx: ps[0], ch: ps[1]}
	return fmt.Sprintf("/-- `%s` (%s): (times the value was sent, nil returned) -/\ndef sendWithContext (ready : Bool) (w : WaitCase) : Nat × Bool :=\n%s\n",
		key, filepath.Base(t.fset.Position(fd.Pos()).Filename), indent(g.stmts(fd.Body.List, 0)))
}

func (t *tr) sendOptional() string {
	const key = "sendOptionalWithContext"
	fd := t.funcs[key]
	if fd == nil {
		die("function %s not found in the repository", key)
	}
	t.cur = key
	bad := func(n ast.Node, what string) { die("%s: shape: %s at %s", key, what, t.pos(n)) }
	ps := paramNames(fd)
	if len(ps) != 3 || len(fd.Body.List) != 2 {
		bad(fd, "parameters / body")
	}
	ifs, ok := fd.Body.List[0].(*ast.IfStmt)
	if !ok || ifs.Init != nil || ifs.Else != nil || len(ifs.Body.List) != 1 {
		bad(fd.Body.List[0], "first statement is not `if ch == nil { return nil }`")
	}
	be, ok := ifs.Cond.(*ast.BinaryExpr)
	if !ok || be.Op != token.EQL || !isNilIdent(be.Y) {
		bad(ifs, "condition")
	}
	if id, ok := be.X.(*ast.Ident); !ok || id.Name != ps[1] {
		bad(ifs, "condition is not about the channel")
	}
	r1, ok := ifs.Body.List[0].(*ast.ReturnStmt)
	if !ok || len(r1.Results) != 1 || !isNilIdent(r1.Results[0]) {
		bad(ifs, "nil channel does not return nil")
	}
	r2, ok := fd.Body.List[1].(*ast.ReturnStmt)
	if !ok || len(r2.Results) != 1 {
		bad(fd.Body.List[1], "second statement")
	}
	call, ok := r2.Results[0].(*ast.CallExpr)
	if !ok || calleeName(call) != "sendWithContext" || len(call.Args) != 3 {
		bad(r2, "does not delegate to sendWithContext")
	}
	for i, a := range call.Args {
		if id, ok := a.(*ast.Ident); !ok || id.Name != ps[i] {
			bad(r2, "arguments are not passed through")
		}
	}
	return fmt.Sprintf("/-- `%s` (%s) -/\ndef sendOptionalWithContext (isNil ready : Bool) (w : WaitCase) : Nat × Bool :=\n  if isNil then (0, true) else sendWithContext ready w\n",
		key, filepath.Base(t.fset.Position(fd.Pos()).Filename))
}

func (t *tr) sendToChannels() string {
	const key = "sendToChannelsWithContext"
	fd := t.funcs[key]
	if fd == nil {
		die("function %s not found in the repository", key)
	}
	t.cur = key
	bad := func(n ast.Node, what string) { die("%s: shape: %s at %s", key, what, t.pos(n)) }
	ps := paramNames(fd)
	if len(ps) != 3 {
		bad(fd, "parameters")
	}
	var loop *ast.RangeStmt
	for _, st := range fd.Body.List {
		switch v := st.(type) {
		case *ast.RangeStmt:
			if loop != nil {
				bad(v, "two loops")
			}
			loop = v
		case *ast.DeclStmt, *ast.ReturnStmt:
		default:
			bad(st, fmt.Sprintf("statement %T", st))
		}
	}
	if loop == nil {
		bad(fd, "no loop over the channels")
	}
	if id, ok := loop.X.(*ast.Ident); !ok || id.Name != ps[1] {
		bad(loop, "the loop does not range over the channels")
	}
	el, ok := loop.Value.(*ast.Ident)
	if !ok {
		bad(loop, "loop variable")
	}
	// nothing may leave the loop early: every channel is attempted
	ast.Inspect(loop.Body, func(n ast.Node) bool {
		switch v := n.(type) {
		case *ast.BranchStmt:
			bad(v, "break / continue / goto inside the loop")
		case *ast.ReturnStmt:
			bad(v, "return inside the loop")
		}
		return true
	})
	if len(loop.Body.List) != 1 {
		bad(loop, "loop body is not one statement")
	}
	ifs, ok := loop.Body.List[0].(*ast.IfStmt)
	if !ok || ifs.Else != nil {
		bad(loop.Body.List[0], "loop body is not `if err := send…; err != nil { … }`")
	}
	init, ok := ifs.Init.(*ast.AssignStmt)
	if !ok || len(init.Rhs) != 1 {
		bad(ifs, "if-init")
	}
	call, ok := init.Rhs[0].(*ast.CallExpr)
	if !ok || calleeName(call) != "sendOptionalWithContext" || len(call.Args) != 3 {
		bad(ifs, "the loop does not call sendOptionalWithContext")
	}
	if id, ok := call.Args[1].(*ast.Ident); !ok || id.Name != el.Name {
		bad(ifs, "the loop does not send on its own element")
	}
	// the body of the if only collects the error
	for _, st := range ifs.Body.List {
		as, ok := st.(*ast.AssignStmt)
		if !ok || len(as.Rhs) != 1 {
			bad(st, "error branch")
		}
		if c, ok := as.Rhs[0].(*ast.CallExpr); !ok || calleeName(c) != "append" {
			bad(st, "error branch does something other than collecting the error")
		}
	}
	return fmt.Sprintf("/-- `%s` (%s): one attempt per channel, in order; the state is (sends per channel so far, errors collected) -/\ndef sendToChannelsWithContext (chs : List (Bool × Bool × WaitCase)) : List Nat × Nat :=\n  chs.foldl (fun st c =>\n    let r := sendOptionalWithContext c.1 c.2.1 c.2.2\n    (st.1 ++ [r.1], if r.2 then st.2 else st.2 + 1)) ([], 0)\n",
		key, filepath.Base(t.fset.Position(fd.Pos()).Filename))
}

func writeChanHelpers(t *tr, out string) {
	var b strings.Builder
	b.WriteString("/- GENERATED by /verif/gen/go2lean from /repo's working tree on every check run. Do not edit. -/\n")
	b.WriteString("set_option linter.unusedVariables false\nnamespace BloomVerif.Gen\n\n")
	b.WriteString("/-- which case of the blocking `select` fires: the channel took the value, or the context ended -/\ninductive WaitCase | sent | ctxDone\nderiving Repr, DecidableEq\n\n")
	b.WriteString(guardedDef("sendWithContext", t.sendWithContext))
	b.WriteString("\n")
	b.WriteString(guardedDef("sendOptionalWithContext", t.sendOptional))
	b.WriteString("\n")
	b.WriteString(guardedDef("sendToChannelsWithContext", t.sendToChannels))
	b.WriteString("\nend BloomVerif.Gen\n")
	if err := os.WriteFile(filepath.Join(out, "ChanHelpers.lean"), []byte(b.String()), 0o644); err != nil {
		fmt.Fprintln(os.Stderr, err)
		os.Exit(2)
	}
}
