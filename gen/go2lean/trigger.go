package main

// The flush-trigger decisions of the ingest actor (ingest.go), regenerated as boolean functions (T-gen):
//
//   - the per-row accounting of processIngestRequest (what a row adds to the partition and buffer counters),
//   - the partition-level check (`if !shouldFlush { ... }` inside the partition loop),
//   - the buffer-level check (`if !shouldFlush { ... }` after the loop),
//   - the ticker's condition in ingestWorker.
//
// The checks are straight-line programs over one boolean (`shouldFlush`); logger calls are dropped (C27 is
// about them). Integer atoms are mapped to parameters by name: `*p` -> p, `b.config.F` -> F,
// `partitionBuffer.f` -> f, `time.Since(<start>)` -> sinceStart, `len(rowBytes)` -> lenRowBytes.

import (
	"fmt"
	"go/ast"
	"go/token"
	"os"
	"path/filepath"
	"strings"
)

type trig struct {
	t      *tr
	key    string
	params map[string]bool // names the definition may mention
	locals map[string]bool
	flag   string // the boolean the program computes
}

func (g *trig) bad(n ast.Node, what string) {
	die("%s: shape: %s at %s", g.key, what, g.t.pos(n))
}

func (g *trig) name(n ast.Node, s string) string {
	if !g.params[s] && !g.locals[s] {
		g.bad(n, "unknown quantity "+s)
	}
	return s
}

func (g *trig) intExpr(e ast.Expr) string {
	switch v := e.(type) {
	case *ast.ParenExpr:
		return "(" + g.intExpr(v.X) + ")"
	case *ast.BasicLit:
		if v.Kind == token.INT {
			return "(" + v.Value + " : Int)"
		}
	case *ast.Ident:
		if c, ok := g.t.consts[v.Name]; ok {
			return c
		}
		return g.name(v, v.Name)
	case *ast.StarExpr:
		if id, ok := v.X.(*ast.Ident); ok {
			return g.name(v, id.Name)
		}
	case *ast.SelectorExpr:
		// b.config.F or <ident>.f
		if inner, ok := v.X.(*ast.SelectorExpr); ok {
			if isSel(inner, "b", "config") {
				return g.name(v, v.Sel.Name)
			}
		}
		if _, ok := v.X.(*ast.Ident); ok {
			return g.name(v, v.Sel.Name)
		}
	case *ast.CallExpr:
		if sel, ok := v.Fun.(*ast.SelectorExpr); ok && isSel(sel, "time", "Since") && len(v.Args) == 1 {
			return g.name(v, "sinceStart")
		}
		if id, ok := v.Fun.(*ast.Ident); ok && id.Name == "len" && len(v.Args) == 1 {
			if a, ok := v.Args[0].(*ast.Ident); ok && a.Name == "rowBytes" {
				return g.name(v, "lenRowBytes")
			}
		}
	case *ast.BinaryExpr:
		switch v.Op {
		case token.ADD:
			return "(" + g.intExpr(v.X) + " + " + g.intExpr(v.Y) + ")"
		case token.SUB:
			return "(" + g.intExpr(v.X) + " - " + g.intExpr(v.Y) + ")"
		case token.MUL:
			return "(" + g.intExpr(v.X) + " * " + g.intExpr(v.Y) + ")"
		}
	}
	g.bad(e, fmt.Sprintf("integer expression %T", e))
	return ""
}

func (g *trig) cond(e ast.Expr) string {
	switch v := e.(type) {
	case *ast.ParenExpr:
		return "(" + g.cond(v.X) + ")"
	case *ast.Ident:
		if v.Name == "true" || v.Name == "false" {
			return v.Name
		}
		if v.Name == g.flag {
			return g.flag
		}
	case *ast.UnaryExpr:
		if v.Op == token.NOT {
			// !<start>.IsZero() is the parameter startSet
			if c, ok := v.X.(*ast.CallExpr); ok {
				if sel, ok := c.Fun.(*ast.SelectorExpr); ok && sel.Sel.Name == "IsZero" {
					return g.name(v, "startSet")
				}
			}
			return "(!" + g.cond(v.X) + ")"
		}
	case *ast.CallExpr:
		if sel, ok := v.Fun.(*ast.SelectorExpr); ok && sel.Sel.Name == "IsZero" {
			return "(!" + g.name(v, "startSet") + ")"
		}
	case *ast.BinaryExpr:
		rel := map[token.Token]string{token.GEQ: "≥", token.GTR: ">", token.LEQ: "≤", token.LSS: "<", token.EQL: "=", token.NEQ: "≠"}
		switch v.Op {
		case token.LAND:
			return "(" + g.cond(v.X) + " && " + g.cond(v.Y) + ")"
		case token.LOR:
			return "(" + g.cond(v.X) + " || " + g.cond(v.Y) + ")"
		}
		if r, ok := rel[v.Op]; ok {
			return "decide (" + g.intExpr(v.X) + " " + r + " " + g.intExpr(v.Y) + ")"
		}
	}
	g.bad(e, fmt.Sprintf("condition %T", e))
	return ""
}

func isLoggerCall(st ast.Stmt) bool {
	es, ok := st.(*ast.ExprStmt)
	if !ok {
		return false
	}
	c, ok := es.X.(*ast.CallExpr)
	if !ok {
		return false
	}
	sel, ok := c.Fun.(*ast.SelectorExpr)
	if !ok {
		return false
	}
	return isSel(sel.X, "b", "logger")
}

// prog turns a statement list into `let` updates of the flag; every construct outside the subset dies.
func (g *trig) prog(list []ast.Stmt) string {
	out := ""
	for _, st := range list {
		if isLoggerCall(st) {
			continue
		}
		switch v := st.(type) {
		case *ast.AssignStmt:
			if len(v.Lhs) != 1 || len(v.Rhs) != 1 {
				g.bad(v, "assignment")
			}
			id, ok := v.Lhs[0].(*ast.Ident)
			if !ok {
				g.bad(v, "assignment target")
			}
			if id.Name == g.flag && v.Tok == token.ASSIGN {
				out += fmt.Sprintf("let %s := %s\n", g.flag, g.cond(v.Rhs[0]))
				continue
			}
			if v.Tok == token.DEFINE && id.Name != g.flag {
				rhs := g.intExpr(v.Rhs[0])
				g.locals[id.Name] = true
				out += fmt.Sprintf("let %s : Int := %s\n", id.Name, rhs)
				continue
			}
			g.bad(v, "assignment")
		case *ast.IfStmt:
			out += fmt.Sprintf("let %s := %s\n", g.flag, g.ifExpr(v))
		default:
			g.bad(st, fmt.Sprintf("statement %T", st))
		}
	}
	return out
}

func (g *trig) ifExpr(v *ast.IfStmt) string {
	if v.Init != nil {
		g.bad(v, "if-init")
	}
	c := g.cond(v.Cond)
	// locals defined in a branch stay in the branch
	saved := map[string]bool{}
	for k := range g.locals {
		saved[k] = true
	}
	thenS := g.prog(v.Body.List)
	g.locals = map[string]bool{}
	for k := range saved {
		g.locals[k] = true
	}
	elseS := g.flag
	switch e := v.Else.(type) {
	case nil:
	case *ast.BlockStmt:
		elseS = "(\n" + indent(g.prog(e.List)+g.flag) + ")"
	case *ast.IfStmt:
		elseS = "(" + g.ifExpr(e) + ")"
	default:
		g.bad(v, "else")
	}
	g.locals = saved
	return fmt.Sprintf("if %s then (\n%s) else %s", c, indent(thenS+g.flag), elseS)
}

func mkParams(names ...string) map[string]bool {
	m := map[string]bool{}
	for _, n := range names {
		m[n] = true
	}
	return m
}

// findFlagChecks returns the `if !shouldFlush {…}` statements of processIngestRequest: those inside the range
// loop over the partitions and those after it.
func (t *tr) triggerDefs() string {
	const key = "BloomSearchEngine.processIngestRequest"
	fd := t.funcs[key]
	if fd == nil {
		die("function %s not found in the repository", key)
	}
	t.cur = key
	isNotFlag := func(e ast.Expr) bool {
		u, ok := e.(*ast.UnaryExpr)
		if !ok || u.Op != token.NOT {
			return false
		}
		id, ok := u.X.(*ast.Ident)
		return ok && id.Name == "shouldFlush"
	}
	bad := func(n ast.Node, what string) { die("%s: shape: %s at %s", key, what, t.pos(n)) }
	// the partition loop is the range statement whose body assigns shouldFlush (directly or below)
	var partLoop *ast.RangeStmt
	var after []ast.Stmt
	for i, st := range fd.Body.List {
		if rs, ok := st.(*ast.RangeStmt); ok && mentions(rs, "shouldFlush") {
			if partLoop != nil {
				bad(rs, "two loops touch shouldFlush")
			}
			partLoop = rs
			after = fd.Body.List[i+1:]
		}
	}
	if partLoop == nil {
		bad(fd, "no partition loop touching shouldFlush")
	}
	// inside the partition loop: the row loop (accounting) and the statements on shouldFlush
	var rowLoop *ast.RangeStmt
	var partStmts []ast.Stmt
	for _, st := range partLoop.Body.List {
		if rs, ok := st.(*ast.RangeStmt); ok {
			if mentions(rs, "shouldFlush") {
				bad(rs, "the row loop touches shouldFlush")
			}
			if rowLoop != nil {
				bad(rs, "two row loops")
			}
			rowLoop = rs
			continue
		}
		if mentions(st, "shouldFlush") {
			partStmts = append(partStmts, st)
		}
	}
	if rowLoop == nil {
		bad(partLoop, "no row loop")
	}
	// after the loop: every statement that mentions shouldFlush up to the use `if shouldFlush {`
	var bufStmts []ast.Stmt
	sawUse := false
	for _, st := range after {
		if ifs, ok := st.(*ast.IfStmt); ok {
			if id, ok := ifs.Cond.(*ast.Ident); ok && id.Name == "shouldFlush" && ifs.Else == nil {
				sawUse = true
				// the use must be the flush itself
				calls := false
				ast.Inspect(ifs.Body, func(n ast.Node) bool {
					if c, ok := n.(*ast.CallExpr); ok {
						if sel, ok := c.Fun.(*ast.SelectorExpr); ok && sel.Sel.Name == "flushBufferedData" {
							calls = true
						}
					}
					return true
				})
				if !calls {
					bad(ifs, "`if shouldFlush` does not call flushBufferedData")
				}
				continue
			}
		}
		if mentions(st, "shouldFlush") {
			if sawUse {
				bad(st, "shouldFlush changed after its use")
			}
			bufStmts = append(bufStmts, st)
		}
	}
	if !sawUse {
		bad(fd, "no `if shouldFlush { flushBufferedData }`")
	}
	_ = isNotFlag

	var b strings.Builder

	// 1. per-row accounting: the += statements of the row loop over the four counters
	{
		g := &trig{t: t, key: key, flag: "shouldFlush", locals: map[string]bool{},
			params: mkParams("uncompressedSize", "rowCount", "bufferedBytes", "bufferedRowCount", "lenRowBytes")}
		counters := []string{"uncompressedSize", "rowCount", "bufferedBytes", "bufferedRowCount"}
		isCounter := func(s string) bool {
			for _, c := range counters {
				if c == s {
					return true
				}
			}
			return false
		}
		body := ""
		seen := map[string]int{}
		for _, st := range rowLoop.Body.List {
			switch v := st.(type) {
			case *ast.AssignStmt:
				if len(v.Lhs) != 1 || len(v.Rhs) != 1 {
					continue
				}
				// target: partitionBuffer.<counter>, *<counter>, or a local int the counters use
				var target string
				switch l := v.Lhs[0].(type) {
				case *ast.SelectorExpr:
					if x, ok := l.X.(*ast.Ident); ok && x.Name == "partitionBuffer" && isCounter(l.Sel.Name) {
						target = l.Sel.Name
					}
				case *ast.StarExpr:
					if id, ok := l.X.(*ast.Ident); ok && isCounter(id.Name) {
						target = id.Name
					}
				case *ast.Ident:
					if v.Tok == token.DEFINE && l.Name == "uncompressedRowSize" {
						rhs := g.intExpr(v.Rhs[0])
						g.locals[l.Name] = true
						body += fmt.Sprintf("let %s : Int := %s\n", l.Name, rhs)
						continue
					}
				}
				if target == "" {
					continue
				}
				switch v.Tok {
				case token.ADD_ASSIGN:
					body += fmt.Sprintf("let %s := %s + %s\n", target, target, g.intExpr(v.Rhs[0]))
				case token.ASSIGN:
					body += fmt.Sprintf("let %s := %s\n", target, g.intExpr(v.Rhs[0]))
				default:
					bad(v, "counter update")
				}
				seen[target]++
			case *ast.IncDecStmt:
				var target string
				switch l := v.X.(type) {
				case *ast.SelectorExpr:
					if x, ok := l.X.(*ast.Ident); ok && x.Name == "partitionBuffer" && isCounter(l.Sel.Name) {
						target = l.Sel.Name
					}
				case *ast.StarExpr:
					if id, ok := l.X.(*ast.Ident); ok && isCounter(id.Name) {
						target = id.Name
					}
				}
				if target == "" {
					continue
				}
				if v.Tok == token.INC {
					body += fmt.Sprintf("let %s := %s + 1\n", target, target)
				} else {
					body += fmt.Sprintf("let %s := %s - 1\n", target, target)
				}
				seen[target]++
			}
		}
		// a counter touched anywhere else in the function (outside the row loop) would escape this definition
		for _, c := range counters {
			n := 0
			ast.Inspect(fd.Body, func(nd ast.Node) bool {
				switch v := nd.(type) {
				case *ast.AssignStmt:
					for _, l := range v.Lhs {
						if s, ok := l.(*ast.SelectorExpr); ok && s.Sel.Name == c {
							n++
						}
						if s, ok := l.(*ast.StarExpr); ok {
							if id, ok := s.X.(*ast.Ident); ok && id.Name == c {
								n++
							}
						}
					}
				case *ast.IncDecStmt:
					if s, ok := v.X.(*ast.SelectorExpr); ok && s.Sel.Name == c {
						n++
					}
					if s, ok := v.X.(*ast.StarExpr); ok {
						if id, ok := s.X.(*ast.Ident); ok && id.Name == c {
							n++
						}
					}
				}
				return true
			})
			if n != seen[c] {
				bad(fd, fmt.Sprintf("counter %s is updated %d times in the function but %d times in the row loop", c, n, seen[c]))
			}
		}
		tup := "(" + strings.Join(counters, ", ") + ")"
		fmt.Fprintf(&b, "/-- what one buffered row adds to its partition's counters and to the buffer's (row loop of `processIngestRequest`) -/\ndef rowAccount (uncompressedSize rowCount bufferedBytes bufferedRowCount lenRowBytes : Int) : Int × Int × Int × Int :=\n%s\n\n", indent(body+tup))
	}

	// 2. partition-level check
	{
		g := &trig{t: t, key: key, flag: "shouldFlush", locals: map[string]bool{},
			params: mkParams("rowCount", "uncompressedSize", "MaxRowGroupRows", "MaxRowGroupBytes")}
		body := g.prog(partStmts)
		fmt.Fprintf(&b, "/-- the partition-level limit check, run once per touched partition after its rows were buffered -/\ndef partitionTrigger (shouldFlush : Bool) (rowCount uncompressedSize MaxRowGroupRows MaxRowGroupBytes : Int) : Bool :=\n%s\n\n", indent(body+"shouldFlush"))
	}

	// 3. buffer-level check
	{
		g := &trig{t: t, key: key, flag: "shouldFlush", locals: map[string]bool{},
			params: mkParams("bufferedRowCount", "bufferedBytes", "sinceStart", "MaxBufferedRows", "MaxBufferedBytes", "MaxBufferedTime")}
		body := g.prog(bufStmts)
		fmt.Fprintf(&b, "/-- the buffer-level limit check after the partition loop; the result decides `flushBufferedData` -/\ndef bufferTrigger (shouldFlush : Bool) (bufferedRowCount bufferedBytes sinceStart MaxBufferedRows MaxBufferedBytes MaxBufferedTime : Int) : Bool :=\n%s\n\n", indent(body+"shouldFlush"))
	}
	return b.String()
}

// tickDef: the condition under which the 100 ms ticker flushes (ingestWorker).
func (t *tr) tickDef() string {
	const key = "BloomSearchEngine.ingestWorker"
	fd := t.funcs[key]
	if fd == nil {
		die("function %s not found in the repository", key)
	}
	t.cur = key
	bad := func(n ast.Node, what string) { die("%s: shape: %s at %s", key, what, t.pos(n)) }
	// the comm clause receiving from ticker.C
	var clause *ast.CommClause
	ast.Inspect(fd.Body, func(n ast.Node) bool {
		cc, ok := n.(*ast.CommClause)
		if !ok || cc.Comm == nil {
			return true
		}
		es, ok := cc.Comm.(*ast.ExprStmt)
		if !ok {
			return true
		}
		u, ok := es.X.(*ast.UnaryExpr)
		if !ok || u.Op != token.ARROW {
			return true
		}
		if isSel(u.X, "ticker", "C") {
			if clause != nil {
				bad(cc, "two ticker clauses")
			}
			clause = cc
		}
		return true
	})
	if clause == nil {
		bad(fd, "no `case <-ticker.C`")
	}
	var stmts []ast.Stmt
	for _, st := range clause.Body {
		if isLoggerCall(st) {
			continue
		}
		stmts = append(stmts, st)
	}
	if len(stmts) != 1 {
		bad(clause, "the ticker clause is not a single if")
	}
	ifs, ok := stmts[0].(*ast.IfStmt)
	if !ok || ifs.Else != nil || ifs.Init != nil {
		bad(clause, "the ticker clause is not a single if without else")
	}
	calls := false
	for _, st := range ifs.Body.List {
		if isLoggerCall(st) {
			continue
		}
		es, ok := st.(*ast.ExprStmt)
		if !ok {
			bad(st, "ticker body")
		}
		c, ok := es.X.(*ast.CallExpr)
		if !ok {
			bad(st, "ticker body")
		}
		sel, ok := c.Fun.(*ast.SelectorExpr)
		if !ok || sel.Sel.Name != "flushBufferedData" {
			bad(st, "ticker body does something other than flushBufferedData")
		}
		calls = true
	}
	if !calls {
		bad(ifs, "ticker body does not flush")
	}
	g := &trig{t: t, key: key, flag: "shouldFlush", locals: map[string]bool{},
		params: mkParams("bufferedRowCount", "startSet", "sinceStart", "MaxBufferedTime")}
	return fmt.Sprintf("/-- the ticker's flush condition (`case <-ticker.C` of `ingestWorker`) -/\ndef tickTrigger (bufferedRowCount : Int) (startSet : Bool) (sinceStart MaxBufferedTime : Int) : Bool :=\n  %s\n", g.cond(ifs.Cond))
}

func writeTrigger(t *tr, out string) {
	var b strings.Builder
	b.WriteString("/- GENERATED by /verif/gen/go2lean from /repo's working tree on every check run. Do not edit. -/\n")
	b.WriteString("set_option linter.unusedVariables false\nnamespace BloomVerif.Gen\n\n")
	b.WriteString(guardedDef("BloomSearchEngine.processIngestRequest (flush triggers)", t.triggerDefs))
	b.WriteString("\n")
	b.WriteString(guardedDef("BloomSearchEngine.ingestWorker (ticker condition)", t.tickDef))
	b.WriteString("\nend BloomVerif.Gen\n")
	if err := os.WriteFile(filepath.Join(out, "Trigger.lean"), []byte(b.String()), 0o644); err != nil {
		fmt.Fprintln(os.Stderr, err)
		os.Exit(2)
	}
}
