package main

// blockFilterCursor.readChunkFrom (file_format.go): the extent of the chunk read for block i - its own section,
// extended over the sections that follow while the loop's tests allow it - regenerated as a recursive Lean
// function over the list of following blocks (T-gen). `continue` is the recursive call with the accumulators as
// they are, `break` returns them, the end of the body is the recursive call with the updated accumulators. The
// statements after the loop are checked to read exactly [start, end) (buffer of end-start bytes, read at start).

import (
	"fmt"
	"go/ast"
	"go/token"
	"os"
	"path/filepath"
	"strings"
)

func (t *tr) chunk() string {
	const key = "blockFilterCursor.readChunkFrom"
	fd := t.funcs[key]
	if fd == nil {
		die("function %s not found in the repository", key)
	}
	t.cur = key
	bad := func(n ast.Node, what string) { die("%s: shape: %s at %s", key, what, t.pos(n)) }
	if fd.Recv == nil || len(fd.Recv.List[0].Names) != 1 || len(fd.Type.Params.List) != 1 || len(fd.Type.Params.List[0].Names) != 1 {
		bad(fd, "signature")
	}
	recv := fd.Recv.List[0].Names[0].Name
	idx := fd.Type.Params.List[0].Names[0].Name
	t.env = map[string]string{"first": "DataBlockMetadata", "regionStart": "int64", "regionEnd": "int64", "target": "int64"}
	loopVar, nextVar := "", ""
	// c.blocks[i] -> first ; c.regionStart/End -> idents ; blockFilterChunkTarget -> target
	var rw func(e ast.Expr) ast.Expr
	rw = func(e ast.Expr) ast.Expr {
		switch v := e.(type) {
		case *ast.ParenExpr:
			return &ast.ParenExpr{X: rw(v.X)}
		case *ast.BinaryExpr:
			return &ast.BinaryExpr{X: rw(v.X), Op: v.Op, Y: rw(v.Y), OpPos: v.OpPos}
		case *ast.UnaryExpr:
			return &ast.UnaryExpr{Op: v.Op, X: rw(v.X), OpPos: v.OpPos}
		case *ast.Ident:
			if v.Name == "blockFilterChunkTarget" {
				return &ast.Ident{Name: "target", NamePos: v.Pos()}
			}
			return v
		case *ast.IndexExpr:
			if isSel(v.X, recv, "blocks") {
				if id, ok := v.Index.(*ast.Ident); ok && id.Name == idx {
					return &ast.Ident{Name: "first", NamePos: v.Pos()}
				}
			}
			bad(v, "index expression")
		case *ast.SelectorExpr:
			if isSel(v, recv, "regionStart") {
				return &ast.Ident{Name: "regionStart", NamePos: v.Pos()}
			}
			if isSel(v, recv, "regionEnd") {
				return &ast.Ident{Name: "regionEnd", NamePos: v.Pos()}
			}
			return &ast.SelectorExpr{X: rw(v.X), Sel: v.Sel}
		case *ast.CallExpr:
			args := make([]ast.Expr, len(v.Args))
			for i, a := range v.Args {
				args[i] = rw(a)
			}
			return &ast.CallExpr{Fun: v.Fun, Args: args, Lparen: v.Lparen, Rparen: v.Rparen}
		}
		return e
	}
	// conditions: `X.validateFilterSection(a, b) != nil` is "the section is invalid"
	cond := func(e ast.Expr) string {
		if be, ok := e.(*ast.BinaryExpr); ok && (be.Op == token.NEQ || be.Op == token.EQL) && isNilIdent(be.Y) {
			if call, ok := be.X.(*ast.CallExpr); ok {
				if sel, ok := call.Fun.(*ast.SelectorExpr); ok && sel.Sel.Name == "validateFilterSection" && len(call.Args) == 2 {
					x, ok := sel.X.(*ast.Ident)
					if !ok || x.Name != nextVar {
						bad(e, "validateFilterSection receiver")
					}
					s := "(validateFilterSection " + li(nextVar) + " " + t.atom(rw(call.Args[0])) + " " + t.atom(rw(call.Args[1])) + ")"
					if be.Op == token.NEQ {
						return "(!" + s + ")"
					}
					return s
				}
			}
		}
		return t.expr(rw(e))
	}
	body := fd.Body.List
	// the accumulators: every `x := e` before the loop
	var pre strings.Builder
	var accs []string
	li0 := 0
	for ; li0 < len(body); li0++ {
		as, ok := body[li0].(*ast.AssignStmt)
		if !ok {
			break
		}
		if as.Tok != token.DEFINE || len(as.Lhs) != 1 || len(as.Rhs) != 1 {
			bad(as, "assignment before the loop")
		}
		name := as.Lhs[0].(*ast.Ident).Name
		rhs := rw(as.Rhs[0])
		ty := t.typeOf(rhs)
		if bl, ok := rhs.(*ast.BasicLit); ok && bl.Kind == token.INT {
			ty = "int"
		}
		if ty == "" {
			bad(as, "untyped assignment")
		}
		fmt.Fprintf(&pre, "let %s := %s\n", li(name), t.expr(rhs))
		t.env[name] = ty
		accs = append(accs, name)
	}
	if li0 >= len(body) {
		bad(fd, "no loop")
	}
	fs, ok := body[li0].(*ast.ForStmt)
	if !ok {
		bad(body[li0], "expected the extension loop")
	}
	// for j := i + 1; j < len(c.blocks); j++
	if as, ok := fs.Init.(*ast.AssignStmt); !ok || as.Tok != token.DEFINE || len(as.Lhs) != 1 {
		bad(fs, "loop init")
	} else {
		loopVar = as.Lhs[0].(*ast.Ident).Name
		be, ok := as.Rhs[0].(*ast.BinaryExpr)
		if !ok || be.Op != token.ADD {
			bad(fs, "loop does not start at i + 1")
		}
		if x, ok := be.X.(*ast.Ident); !ok || x.Name != idx {
			bad(fs, "loop does not start at i + 1")
		}
		if y, ok := be.Y.(*ast.BasicLit); !ok || y.Value != "1" {
			bad(fs, "loop does not start at i + 1")
		}
	}
	if be, ok := fs.Cond.(*ast.BinaryExpr); !ok || be.Op != token.LSS {
		bad(fs, "loop condition")
	} else {
		x, okx := be.X.(*ast.Ident)
		call, okc := be.Y.(*ast.CallExpr)
		if !okx || x.Name != loopVar || !okc || calleeName(call) != "len" || !isSel(call.Args[0], recv, "blocks") {
			bad(fs, "loop condition is not j < len(c.blocks)")
		}
	}
	if inc, ok := fs.Post.(*ast.IncDecStmt); !ok || inc.Tok != token.INC {
		bad(fs, "loop post statement")
	}
	// only `end` and `covered`-like accumulators that the body assigns are threaded; `start` is constant
	threaded := []string{}
	assigned := map[string]bool{}
	ast.Inspect(fs.Body, func(n ast.Node) bool {
		switch v := n.(type) {
		case *ast.AssignStmt:
			if v.Tok == token.ASSIGN {
				if id, ok := v.Lhs[0].(*ast.Ident); ok {
					assigned[id.Name] = true
				}
			}
		case *ast.IncDecStmt:
			if id, ok := v.X.(*ast.Ident); ok {
				assigned[id.Name] = true
			}
		}
		return true
	})
	for _, a := range accs {
		if assigned[a] {
			threaded = append(threaded, a)
		}
	}
	tuple := func() string {
		ps := make([]string, len(threaded))
		for i, a := range threaded {
			ps[i] = li(a)
		}
		return "(" + strings.Join(ps, ", ") + ")"
	}
	recur := func() string {
		s := "readChunkFrom_loop target regionStart regionEnd"
		for _, a := range accs {
			if !assigned[a] {
				s += " " + li(a)
			}
		}
		for _, a := range threaded {
			s += " " + li(a)
		}
		return s + " rest"
	}
	var gen func(list []ast.Stmt) string
	gen = func(list []ast.Stmt) string {
		if len(list) == 0 {
			return recur()
		}
		switch v := list[0].(type) {
		case *ast.AssignStmt:
			if len(v.Lhs) != 1 || len(v.Rhs) != 1 {
				bad(v, "assignment arity")
			}
			name := v.Lhs[0].(*ast.Ident).Name
			// next := &c.blocks[j]
			if u, ok := v.Rhs[0].(*ast.UnaryExpr); ok && u.Op == token.AND && v.Tok == token.DEFINE {
				ix, ok := u.X.(*ast.IndexExpr)
				if !ok || !isSel(ix.X, recv, "blocks") {
					bad(v, "loop element")
				}
				if k, ok := ix.Index.(*ast.Ident); !ok || k.Name != loopVar {
					bad(v, "loop element index")
				}
				nextVar = name
				t.env[name] = "DataBlockMetadata"
				return gen(list[1:])
			}
			if v.Tok != token.DEFINE {
				bad(v, "plain assignment outside an if")
			}
			rhs := rw(v.Rhs[0])
			ty := t.typeOf(rhs)
			if ty == "" {
				bad(v, "untyped assignment")
			}
			val := t.expr(rhs)
			t.env[name] = ty
			return "let " + li(name) + " := " + val + "\n" + gen(list[1:])
		case *ast.IncDecStmt:
			id, ok := v.X.(*ast.Ident)
			if !ok || v.Tok != token.INC {
				bad(v, "increment")
			}
			return "let " + li(id.Name) + " := (wadd " + li(id.Name) + " (1 : Int))\n" + gen(list[1:])
		case *ast.IfStmt:
			if v.Init != nil || v.Else != nil || len(v.Body.List) != 1 {
				bad(v, "if shape")
			}
			switch b := v.Body.List[0].(type) {
			case *ast.BranchStmt:
				if b.Tok == token.CONTINUE {
					return "if " + cond(v.Cond) + " then " + recur() + "\nelse\n" + gen(list[1:])
				}
				if b.Tok == token.BREAK {
					return "if " + cond(v.Cond) + " then " + tuple() + "\nelse\n" + gen(list[1:])
				}
				bad(b, "branch statement")
			case *ast.AssignStmt:
				if b.Tok != token.ASSIGN || len(b.Lhs) != 1 || len(b.Rhs) != 1 {
					bad(b, "conditional assignment")
				}
				name := b.Lhs[0].(*ast.Ident).Name
				return "let " + li(name) + " := if " + cond(v.Cond) + " then " + t.expr(rw(b.Rhs[0])) + " else " + li(name) + "\n" + gen(list[1:])
			}
			bad(v, "if body")
		}
		bad(list[0], fmt.Sprintf("statement %T in the loop", list[0]))
		return ""
	}
	loopBody := gen(fs.Body.List)
	// after the loop: a buffer of int(end - start) bytes is read at start
	sawSize, sawAt := false, false
	for _, st := range body[li0+1:] {
		ast.Inspect(st, func(n ast.Node) bool {
			call, ok := n.(*ast.CallExpr)
			if !ok {
				return true
			}
			switch calleeName(call) {
			case "getScanBuffer":
				if len(call.Args) == 1 {
					if conv, ok := call.Args[0].(*ast.CallExpr); ok && calleeName(conv) == "int" && len(conv.Args) == 1 {
						if be, ok := conv.Args[0].(*ast.BinaryExpr); ok && be.Op == token.SUB {
							x, okx := be.X.(*ast.Ident)
							y, oky := be.Y.(*ast.Ident)
							if okx && oky && x.Name == "end" && y.Name == "start" {
								sawSize = true
							}
						}
					}
				}
			case "readFullAt":
				if len(call.Args) == 3 {
					if id, ok := call.Args[2].(*ast.Ident); ok && id.Name == "start" {
						sawAt = true
					}
				}
			}
			return true
		})
	}
	if !sawSize || !sawAt {
		bad(fd, "the statements after the loop do not read end-start bytes at start")
	}
	var params strings.Builder
	for _, a := range accs {
		if !assigned[a] {
			fmt.Fprintf(&params, " (%s : Int)", li(a))
		}
	}
	for _, a := range threaded {
		fmt.Fprintf(&params, " (%s : Int)", li(a))
	}
	retTy := strings.TrimSuffix(strings.Repeat("Int × ", len(threaded)), " × ")
	var b strings.Builder
	fmt.Fprintf(&b, "/-- the extension loop of `%s` (%s) over the blocks that follow block i -/\ndef readChunkFrom_loop (target regionStart regionEnd : Int)%s : List DataBlockMetadata → %s\n  | [] => %s\n  | %s :: rest =>\n%s\n\n",
		key, filepath.Base(t.fset.Position(fd.Pos()).Filename), params.String(), retTy, tuple(), li(nextVar), indent(indent(loopBody)))
	fmt.Fprintf(&b, "/-- regenerated from `%s`: (start, accumulators after the loop); the chunk read is [start, end) -/\ndef readChunkFrom_extent (target regionStart regionEnd : Int) (first : DataBlockMetadata) (following : List DataBlockMetadata) : Int × (%s) :=\n%s\n",
		key, retTy, indent(pre.String()+"(start, "+strings.TrimSuffix(strings.TrimSuffix(recur(), " rest"), "")+" following)"))
	s := b.String()
	// the outer call passes `following`, not `rest`
	s = strings.Replace(s, recur()+" following)", strings.TrimSuffix(recur(), " rest")+" following)", 1)
	return s
}

func writeChunk(t *tr, out string) {
	var b strings.Builder
	b.WriteString("/- GENERATED by /verif/gen/go2lean from /repo's working tree on every check run. Do not edit. -/\n")
	b.WriteString("import BloomVerif.Generated.Leaf\nset_option linter.unusedVariables false\nnamespace BloomVerif.Gen\nopen BloomVerif\n\n")
	b.WriteString(guardedDef("blockFilterCursor.readChunkFrom", t.chunk))
	b.WriteString("\nend BloomVerif.Gen\n")
	if err := os.WriteFile(filepath.Join(out, "Chunk.lean"), []byte(b.String()), 0o644); err != nil {
		fmt.Fprintln(os.Stderr, err)
		os.Exit(2)
	}
}
