/- Driver commands for the prefilter layer (C04, C02, C25). -/
import Driver.Proto
import BloomVerif.Model.PreTree
namespace Driver
open BloomVerif

def pNumVal : P NumVal := do
  let k ← tok
  match k with
  | "int" => do let i ← int; pure (.int i)
  | "rat" => do let n ← int; let d ← nat; if d = 0 then failure else pure (.rat (mkRat n d))
  | "pinf" => pure .posInf
  | "ninf" => pure .negInf
  | _ => failure

def pNumCond : P NumericCondition := do
  let op ← str; let v ← int; let mn ← int; let mx ← int; let vs ← counted int
  pure { Operator := op, Value := v, Values := vs, Min := mn, Max := mx }

def pStrCond : P StringCondition := do
  let op ← str; let v ← str; let mn ← str; let mx ← str; let vs ← counted str
  pure { Operator := op, Value := v, Values := vs, Min := mn, Max := mx }

def pOpt (p : P α) : P (Option α) := do
  let t ← tok
  match t with
  | "N" => pure none
  | "S" => do let a ← p; pure (some a)
  | _ => failure

def pPreCond : P PreCond := do
  let ct ← str; let pc ← pOpt pStrCond; let f ← str; let mc ← pOpt pNumCond
  pure { ConditionType := ct, PartitionCondition := pc, MinMaxFieldName := f, MinMaxCondition := mc }

/-- Trees in prefix form: `E <ty> <cond?> <n> child*`. Fuel bounds the depth of the parse. -/
def pExpr (pc : P C) : Nat → P (Expr C)
  | 0 => failure
  | fuel + 1 => do
    let t ← tok
    if t ≠ "E" then failure
    let ty ← str; let c ← pOpt pc; let n ← nat
    let ch ← many n (pExpr pc fuel)
    pure (.mk ty c ch)

def pOptExpr (pc : P C) : P (Option (Expr C)) := pOpt (pExpr pc 64)

def pMeta : P DataBlockMetadata := do
  let pid ← str
  let mms ← counted (do let k ← str; let lo ← int; let hi ← int; pure (k, (⟨lo, hi⟩ : MinMaxIndex)))
  pure { PartitionID := pid, MinMaxIndexes := mms }

def pRowPre : P RowPre := do
  let pid ← str
  let vs ← counted (do let k ← str; let v ← pNumVal; pure (k, v))
  pure { pid := pid, vals := fun f => vs.lookup f }

def cmdPre (cmd : String) : Option (P String) :=
  match cmd with
  | "range" => some do
      let v ← pNumVal
      let r := toRange v
      pure s!"{r.1} {r.2}"
  | "clamp" => some do let i ← int; pure s!"{clamp i}"
  | "numc" => some do let v ← int; let c ← pNumCond; pure (b2s (evalNumeric v c))
  | "strc" => some do let v ← str; let c ← pStrCond; pure (b2s (evalString v c))
  | "mmc" => some do let lo ← int; let hi ← int; let c ← pNumCond; pure (b2s (evalMinMax ⟨lo, hi⟩ c))
  | "upd" => some do
      let lo ← int; let hi ← int; let a ← int; let b ← int
      let r := updateMinMax ⟨lo, hi⟩ a b
      pure s!"{r.Min} {r.Max}"
  | "sat" => some do let v ← pNumVal; let c ← pNumCond; pure (b2s (decide (satNum c v)))
  | "pre" => some do let m ← pMeta; let e ← pOptExpr pPreCond; pure (b2s (evalPre m e))
  | "rowpre" => some do let r ← pRowPre; let e ← pOptExpr pPreCond; pure (b2s (rowSatPre r e))
  | _ => none

end Driver
