/- Driver command for the pipeline LTS: validate a recorded trace event by event. -/
import Driver.Proto
import BloomVerif.Model.Pipeline
namespace Driver
open BloomVerif.Pipeline

def pKind : P Kind := do
  let t ← tok
  match t with
  | "rows" => do let n ← nat; pure (.rows n)
  | "empty" => pure .empty
  | "bad" => pure .bad
  | "force" => pure .force
  | _ => failure

def pEv : P Ev := do
  let t ← tok
  match t with
  | "start" => pure .start
  | "accept" => do let id ← nat; let k ← pKind; pure (.accept ⟨id, k⟩)
  | "recv" => do let id ← nat; pure (.actorRecv id)
  | "trigger" => pure .flushTrigger
  | "enqueued" => pure .enqueued
  | "enqabandon" => pure .enqueueAbandoned
  | "take" => pure .workerTake
  | "abandon" => pure .flushAbandon
  | "begin" => pure .flushBegin
  | "done" => do let b ← tok; pure (.flushDone (b == "1"))
  | "stopbegin" => pure .stopBegin
  | "stopcall" => pure .stopCall
  | "deadline" => pure .deadline
  | "afterfunc" => pure .afterFunc
  | "stopdrain" => pure .stopDrain
  | "actorexit" => pure .actorExit
  | "workerexit" => pure .workerExit
  | "stopret" => do let b ← tok; pure (.stopRet (b == "1"))
  | _ => failure

def showIds (l : List Nat) : String := s!"{l.length}" ++ String.join (l.map (fun i => s!" {i}"))

/-- Runs the trace; on rejection reports the index of the first event that was not enabled. -/
def runTrace (c : Cfg) : St → Nat → List Ev → Except Nat St
  | s, _, [] => .ok s
  | s, i, e :: es => match step c s e with
    | none => .error i
    | some s' => runTrace c s' (i + 1) es

def cmdPipeline (cmd : String) : Option (P String) :=
  match cmd with
  | "pl" => some do
      let cap ← nat; let mr ← nat
      let evs ← counted pEv
      match runTrace ⟨cap, mr⟩ init 0 evs with
      | .error i => pure s!"reject {i}"
      | .ok s =>
        let ans := s.answered.map (fun p => s!" {p.1}:{if p.2 then 1 else 0}")
        pure (s!"ok unanswered " ++ showIds (chain s) ++ " answered " ++ s!"{s.answered.length}" ++ String.join ans ++
              " committed " ++ showIds s.committed)
  | _ => none

end Driver
