/- Driver command for the snapshot model (C14). -/
import Driver.Proto
import BloomVerif.Model.Snapshot
namespace Driver
open BloomVerif.Snapshot

def pSnapEv : P Ev := do
  let t ← tok
  match t with
  | "pub" => do let f ← nat; let rows ← counted nat; pure (.publish f rows)
  | "cf" => do let f ← nat; pure (.commitFlush f)
  | "cm" => do let outs ← counted nat; let srcs ← counted nat; pure (.commitMerge outs srcs)
  | "tomb" => do let f ← nat; pure (.tombstone f)
  | "qb" => pure .qBegin
  | "qs" => pure .qSnap
  | "qo" => do let f ← nat; pure (.qOpen f)
  | _ => failure

def runSnapTrace (step : St → Ev → Option St) : St → List Ev → Nat → Sum Nat St
  | s, [], _ => .inr s
  | s, e :: es, k => match step s e with
    | some s' => runSnapTrace step s' es (k + 1)
    | none => .inl k

def showNats (l : List Nat) : String := s!"{l.length}" ++ String.join (l.map (fun n => s!" {n}"))

def cmdSnapshot (cmd : String) : Option (P String) :=
  match cmd with
  | "snapx" => some do
      let kind ← tok
      let evs ← counted pSnapEv
      let step := if kind == "mem" then Mem.step (fun _ => true) else Dir.step (fun _ => true)
      match runSnapTrace step {} evs 0 with
      | .inl k => pure s!"rejected {k}"
      | .inr s => match s.q with
        | none => pure s!"ok noquery acked {showNats s.acked}"
        | some q => pure s!"ok err {b2s q.err} todo {showNats q.todo} snap {showNats (q.snap.getD [])} got {showNats q.got} start {showNats q.ackedAtStart} acked {showNats s.acked}"
  | _ => none

end Driver
