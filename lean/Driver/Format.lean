/- Driver commands for the format layer (C17, C19) and merge planning (C12). -/
import Driver.Proto
import BloomVerif.Model.Format
import BloomVerif.Model.MergePlan
import BloomVerif.Model.MergeKey
namespace Driver
open BloomVerif

def pBlockMeta : P DataBlockMetadata := do
  let ro ← int; let rs ← int; let fo ← int; let fs ← int
  pure { RowDataOffset := ro, RowDataSize := rs, BloomFilterOffset := fo, BloomFilterSize := fs }

def pFileMeta : P FileMetadata := do
  let ro ← int; let rs ← int; let bs ← counted pBlockMeta
  pure { BlockFilterRegionOffset := ro, BlockFilterRegionSize := rs, DataBlocks := bs }

def pBytes : P Bytes := do
  let t ← tok
  if t = "-" then pure [] else
    match hexBytes t.toList with
    | some b => pure b
    | none => failure

def hexOfBytes (b : Bytes) : String :=
  if b.isEmpty then "-" else String.ofList (b.flatMap (fun x => [hexDigit (x.toNat / 16), hexDigit (x.toNat % 16)]))

def pShape : P BShape := do
  let id ← nat; let key ← str; let rows ← int; let size ← int
  pure { id := id, key := key, rows := rows, size := size }

def pCand : P Cand := do
  let id ← nat; let total ← int; let bs ← counted pShape
  pure { id := id, totalSize := total, blocks := bs }

def pCfg : P EngineConfig := do
  let mr ← int; let mb ← int; let mf ← int; let mn ← int
  pure { MaxRowGroupRows := mr, MaxRowGroupBytes := mb, MaxFileSize := mf, MaxFilesToMergePerOperation := mn }

def showGroups (gs : List (List Nat)) : String :=
  s!"{gs.length}" ++ String.join (gs.map (fun g => s!" {g.length}" ++ String.join (g.map (fun i => s!" {i}"))))

def cmdFormat (cmd : String) : Option (P String) :=
  match cmd with
  | "lay" => some do
      let bs ← counted (do let a ← nat; let b ← nat; pure ({ rowData := a, filter := b } : BlockSize))
      let m := layout bs
      let v := validFile m ((sumRow bs + sumFilter bs : Nat) : Int)
      pure (s!"{m.BlockFilterRegionOffset} {m.BlockFilterRegionSize}" ++
        String.join (m.DataBlocks.map (fun b => s!" {b.RowDataOffset} {b.BloomFilterOffset}")) ++
        (if v then " valid" else " invalid"))
  | "vfile" => some do
      let d ← int; let m ← pFileMeta
      pure (b2s (validFile m d))
  | "vsec" => some do
      let ro ← int; let re ← int; let b ← pBlockMeta
      pure (b2s (validSection b ro re))
  | "held" => some do
      let cs ← int; let len ← int; let b ← pBlockMeta
      match heldSection b cs len with
      | none => pure "none"
      | some (lo, hi) => pure s!"{lo} {hi}"
  | "chunk" => some do
      let target ← int; let rs ← int; let re ← int; let b ← pBlockMeta; let rest ← counted pBlockMeta
      let r := chunkFor target rs re b rest
      pure s!"{r.1} {r.2}"
  | "encrows" => some do
      let rows ← counted pBytes
      pure (hexOfBytes (encodeRows rows))
  | "scanrows" => some do
      let b ← pBytes
      match scanRows (b.length + 1) b with
      | .ok rs => pure (s!"ok {rs.length}" ++ String.join (rs.map (fun r => " " ++ hexOfBytes r)))
      | .error .truncatedPrefix => pure "err truncated"
      | .error .lengthExceeds => pure "err length"
  | "bgroups" => some do
      let cfg ← pCfg; let bs ← counted pShape
      pure (showGroups ((blockGroups cfg bs).map (·.map (·.id))))
  | "fgroups" => some do
      let cfg ← pCfg; let cs ← counted pCand
      pure (showGroups ((fileGroups cfg cs).map (·.map (·.id))))
  | "mergekey" => some do
      let p ← pBytes; let ks ← counted pBytes
      let k := MergeKey.blockMergeKey (p.map (·.toNat)) (ks.map (·.map (·.toNat)))
      pure (hexOfBytes (k.map UInt8.ofNat))
  | "within" => some do
      let cfg ← pCfg; let a ← pShape; let b ← pShape
      pure (b2s (within cfg a b))
  | _ => none

end Driver
