/- Driver command for the FileSystemDataStore model (C16, C15). -/
import Driver.Proto
import Driver.Format
import BloomVerif.Model.FSStore
namespace Driver
open BloomVerif BloomVerif.FSStore

def pFsOp : P Op := do
  let t ← tok
  match t with
  | "create" => do let ds ← counted str; pure (.create ds)
  | "write" => do let w ← nat; let b ← pBytes; pure (.write w b)
  | "close" => do let w ← nat; pure (.close w)
  | "abort" => do let w ← nat; pure (.abort w)
  | "tomb" => do let b ← str; pure (.tombstone b)
  | "open" => do let b ← str; pure (.open_ b)
  | _ => failure

def showRes : Res → String
  | .ok => "ok"
  | .created b => "C " ++ hex b
  | .data bs => "D " ++ hexOfBytes bs
  | .err => "err"

def cmdFSStore (cmd : String) : Option (P String) :=
  match cmd with
  | "fsx" => some do
      let ops ← counted pFsOp
      let r := runOps {} ops
      let l := (listing r.1.fs).toArray.qsort (fun a b => a.1 < b.1)
      pure (String.intercalate " ; " (r.2.map showRes) ++ " | " ++ s!"{l.size}" ++
        String.join (l.toList.map (fun x => " " ++ hex x.1 ++ " " ++ hexOfBytes x.2)))
  | _ => none

end Driver
