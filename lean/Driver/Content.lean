/- Driver commands for the content layer: unicode tables, tokenizer, walker, entries, row matching. -/
import Driver.Proto
import Driver.Pre
import BloomVerif.Model.Content
import BloomVerif.Model.Tokenizer
namespace Driver
open BloomVerif

def strL : P Str := do let s ← str; pure s.toList

/-- JSON in prefix form: n | t | f | d <raw> | s <text> | a <n> v* | o <n> (<key> v)* -/
def pJson : Nat → P J
  | 0 => failure
  | fuel + 1 => do
    let t ← tok
    match t with
    | "n" => pure .null
    | "t" => pure (.bool true)
    | "f" => pure (.bool false)
    | "d" => do let r ← strL; pure (.num r)
    | "s" => do let r ← strL; pure (.str r)
    | "a" => do let n ← nat; let xs ← many n (pJson fuel); pure (.arr xs)
    | "o" => do
        let n ← nat
        let kvs ← many n (do let k ← strL; let v ← pJson fuel; pure (k, v))
        pure (.obj kvs)
    | _ => failure

def pRow : P J := pJson 128

/-- Tokenizer: `D` = default; `T <n> (<text> <k> tok*)*` = a custom tokenizer given by table. -/
def pTok : P (Str → List Str) := do
  let t ← tok
  match t with
  | "D" => pure defaultTok
  | "T" => do
      let tbl ← counted (do let x ← strL; let ts ← counted strL; pure (x, ts))
      pure (fun s => (tbl.lookup s).getD [])
  | _ => failure

/-- Regex oracle: `<n> (<pattern> <text> <0|1>)*`, computed by Go's regexp. -/
def pOracle : P (Str → Str → Bool) := do
  let tbl ← counted (do let p ← strL; let x ← strL; let b ← tok; pure ((p, x), b == "1"))
  pure (fun p x => (tbl.lookup (p, x)).getD false)

def pBloomCond : P BloomCond := do
  let k ← str; let f ← strL; let t ← strL
  pure { Kind := k, Field := f, Token := t }

def pRegexCond : P RegexCond := do
  let f ← strL; let p ← strL
  pure { Field := f, Pattern := p }

def s2 (s : Str) : String := hex (String.ofList s)

def sortDedup (l : List Str) : List Str :=
  let a := (l.map String.ofList).toArray.qsort (· < ·)
  (a.toList.eraseDups).map String.toList

def showList (l : List Str) : String :=
  let l := sortDedup l
  s!"{l.length}" ++ String.join (l.map (fun s => " " ++ s2 s))

def showEm (e : Em) : String :=
  s2 e.path ++ (if e.isLeaf then " L" else " C") ++
    (match e.text with | some t => " S " ++ s2 t | none => " N")

mutual
  def showExpr (sc : C → String) : Expr C → String
    | .mk ty cond ch =>
      "E " ++ hex ty ++ (match cond with | none => " N" | some c => " S " ++ sc c) ++ s!" {ch.length}" ++ showExprL sc ch
  def showExprL (sc : C → String) : List (Expr C) → String
    | [] => ""
    | e :: es => " " ++ showExpr sc e ++ showExprL sc es
end

def showBloomCond (c : BloomCond) : String := hex c.Kind ++ " " ++ s2 c.Field ++ " " ++ s2 c.Token

def cmdContent (cmd : String) : Option (P String) :=
  match cmd with
  | "uni" => some do
      let n ← nat
      pure s!"{b2s (isSpaceCp n)} {lowerCp n}"
  | "tok" => some do
      let x ← strL
      let a := defaultTok x
      let b := defaultTokFast x
      if a ≠ b then pure "MISMATCH"
      else pure (s!"{a.length}" ++ String.join (a.map (fun s => " " ++ s2 s)))
  | "walk" => some do
      let r ← pRow
      let es := emissions r
      pure (s!"{es.length}" ++ String.join (es.map (fun e => " " ++ showEm e)))
  | "ent" => some do
      let tk ← pTok; let r ← pRow
      let en := rowEntries tk r
      pure ("F " ++ showList en.fields ++ " T " ++ showList en.tokens ++ " FT " ++ showList en.fieldTokens)
  | "match" => some do
      let tk ← pTok
      let bl ← pOptExpr pBloomCond
      let rx ← pOptExpr pRegexCond
      let orc ← pOracle
      let r ← pRow
      let valid := match rx with | none => true | some e => rxValid (fun _ => true) e
      if !valid then pure "invalid"
      else
        let m := matchRow tk orc bl rx r
        -- the prune query on the row's own entries must hold whenever the row matches
        let en := rowEntries tk r
        let pr := Expr.evalOpt (entryCond en) (pruneBloom bl rx)
        pure s!"{b2s m} {b2s pr}"
  | "prune" => some do
      let bl ← pOptExpr pBloomCond
      let rx ← pOptExpr pRegexCond
      match pruneBloom bl rx with
      | none => pure "N"
      | some e => pure ("S " ++ showExpr showBloomCond e)
  | _ => none

end Driver
