/- Driver commands for the query side: read plan / stats (C23, C24), cursor traces (C20), handle pool (C21). -/
import Driver.Proto
import BloomVerif.Model.ReadPlan
import BloomVerif.Model.Stats
import BloomVerif.Model.Cursor
namespace Driver
open BloomVerif

def pBool : P Bool := do let t ← tok; pure (t == "1")

def pQBlock : P ReadPlan.QBlock := do
  let off ← nat; let rows ← nat; let pre ← pBool; let filt ← pBool; let sec ← nat
  pure ⟨off, rows, pre, filt, sec⟩

def pQFile : P ReadPlan.QFile := do
  let ff ← pBool; let bs ← counted pQBlock
  pure ⟨ff, bs⟩

def pSBlock : P Stats.SBlock := do
  let q ← pQBlock; let bytes ← nat; let nm ← nat
  pure ⟨q, bytes, List.range nm⟩

def showPlan (p : ReadPlan.FilePlan) : String :=
  s!"{b2s p.opened} {b2s p.regionRead} {p.stats.length}" ++
    String.join (p.stats.map (fun x => s!" {x.1} " ++ (match x.2 with | .skipped => "S" | .processed => "P")))

def pCurEv : P Cursor.Ev := do
  let t ← tok
  match t with
  | "record" => pure .record
  | "deliver" => do let n ← nat; pure (.deliver n)
  | "workersdone" => pure .workersDone
  | "cancel" => pure .cancelCaller
  | "propagate" => pure .propagate
  | "enter" => pure .nextEnter
  | "row" => pure .nextRow
  | "batch" => pure .nextBatch
  | "falsedone" => pure .nextFalseDone
  | "falseclean" => pure .nextFalseClean
  | "falseterm" => pure .nextFalseTerm
  | "close" => pure .close
  | _ => failure

def showTerm : Cursor.Term → String
  | .clean => "clean"
  | .failures n => s!"failures:{n}"
  | .canceled => "canceled"

def pPoolOp : P Pool.Op := do
  let t ← tok
  match t with
  | "retain" => do let p ← nat; pure (.retain p)
  | "release" => do let p ← nat; pure (.release p)
  | "acquire" => do let p ← nat; pure (.acquire p)
  | "put" => do let p ← nat; let h ← nat; pure (.put p h)
  | "discard" => do let h ← nat; pure (.discard h)
  | "closeall" => pure .closeAll
  | _ => failure

def showStatus : Pool.HStatus → String
  | .lent => "lent" | .idle => "idle" | .closed n => s!"closed{n}"

def cmdQuery (cmd : String) : Option (P String) :=
  match cmd with
  | "qplan" => some do
      let hb ← pBool; let fs ← counted pQFile
      pure (String.intercalate " | " (fs.map (fun f => showPlan (ReadPlan.filePlan hb f))))
  | "qstats" => some do
      let hb ← pBool; let bs ← counted pSBlock
      let es := Stats.entries hb bs
      let t := Stats.totals es
      pure (s!"{es.length}" ++ String.join (es.map (fun e => s!" {e.off} " ++ (if e.skipped then "S" else "P") ++ s!" {e.rowsProcessed} {e.bytesProcessed}")) ++
        s!" | {t.rowsScanned} {t.bytesScanned} {t.blocksProcessed} {t.blocksSkipped} {Stats.rowsMatched hb bs}")
  | "cur" => some do
      let evs ← counted pCurEv
      let rec go (s : Cursor.St) (i : Nat) : List Cursor.Ev → Except Nat Cursor.St
        | [] => .ok s
        | e :: es => match Cursor.step s e with | none => .error i | some s' => go s' (i + 1) es
      match go {} 0 evs with
      | .error i => pure s!"reject {i}"
      | .ok s => pure s!"ok {showTerm s.err} finalized={b2s s.finalized} iterdone={b2s s.iterDone} recorded={s.recorded}"
  | "pool" => some do
      let ops ← counted pPoolOp
      let r := ops.foldl (fun (acc : Pool.St × List String) op =>
        let (s', h) := Pool.step acc.1 op
        (s', acc.2 ++ [match h with | some x => s!"{x}" | none => "-"])) (({} : Pool.St), [])
      let st := (List.range r.1.next).map (fun h => match r.1.status.lookup h with | some v => showStatus v | none => "?")
      pure (String.intercalate " " r.2 ++ " | " ++ String.intercalate " " st)
  | _ => none

end Driver
