/- Driver commands for the flush / merge protocol models (C06, C13) and the ingest actor (C10). -/
import Driver.Proto
import BloomVerif.Model.FlushProto
import BloomVerif.Model.Actor
namespace Driver
open BloomVerif

def showCall : Proto.Call → String
  | .create => "create" | .write => "write" | .close => "close" | .abort => "abort"
  | .tombstone => "tombstone" | .update => "update" | .iter => "iter" | .openR => "open"
  | .read => "read" | .closeR => "closeR"

def pCall : P Proto.Call := do
  let t ← tok
  match t with
  | "create" => pure .create | "write" => pure .write | "close" => pure .close | "abort" => pure .abort
  | "tombstone" => pure .tombstone | "update" => pure .update | "iter" => pure .iter | "open" => pure .openR
  | "read" => pure .read | "closeR" => pure .closeR
  | "seek" => pure .read
  | _ => failure

def pFail : P (Nat → Bool) := do
  let ks ← counted nat
  pure (fun k => ks.contains k)

def showPart (p : Actor.Part) : String :=
  hex p.pid ++ s!" {p.bytes} {p.rows.length}" ++ String.join (p.rows.map (fun i => s!" {i}"))

def showEff : Actor.Eff → String
  | .ack w ok => s!"A {w} {b2s ok}"
  | .flush parts ws =>
    let ps := (parts.toArray.qsort (fun a b => a.pid < b.pid)).toList
    s!"F {ps.length}" ++ String.join (ps.map (fun p => " " ++ showPart p)) ++ s!" W {ws.length}" ++ String.join (ws.map (fun w => s!" {w}"))

def pRowIn : P Actor.RowIn := do
  let id ← nat; let pid ← str; let size ← nat
  pure ⟨id, pid, size⟩

def pMsg : P Actor.Msg := do
  let t ← tok
  match t with
  | "batch" => do let w ← nat; let now ← nat; let rows ← counted pRowIn; pure (.batch w rows now)
  | "bad" => do let w ← nat; pure (.bad w)
  | "force" => do let w ← nat; pure (.force w)
  | "tick" => do let now ← nat; pure (.tick now)
  | _ => failure

def cmdProto2 (cmd : String) : Option (P String) :=
  match cmd with
  | "flushp" => some do
      let blocks ← nat; let ha ← tok; let f ← pFail
      let o := Proto.flush blocks (ha == "1") f
      pure (String.intercalate " " (o.calls.map showCall) ++ s!" | {b2s o.ackOk} {b2s o.committed} {b2s o.published} {b2s o.tombstoned}")
  | "mergep" => some do
      let groups ← counted (counted pCall); let sources ← nat; let f ← pFail
      let o := Proto.merge ⟨groups, sources⟩ f
      let r := match o.result with | .ok => "ok" | .err => "err" | .postCommitErr => "postcommit"
      pure s!"{r} {b2s o.committed} {o.outputsTombstoned} {o.sourcesTombstoneCalls}"
  | "actor" => some do
      let a ← nat; let b ← nat; let c ← nat; let d ← nat; let e ← nat
      let msgs ← counted pMsg
      let r := Actor.runMsgs ⟨a, b, c, d, e⟩ {} msgs
      pure (s!"{r.2.length}" ++ String.join (r.2.map (fun x => " " ++ showEff x)) ++ s!" | buffered {r.1.rows} {r.1.bytes} {r.1.waiters.length}")
  | _ => none

end Driver
