/-
  Line-protocol plumbing for the model driver: tokens, hex strings, a tiny parser monad.
  Core Lean only.
-/
namespace Driver

abbrev P := StateT (List String) Option

def tok : P String := fun s => match s with
  | [] => none
  | t :: r => some (t, r)

def hexVal (c : Char) : Option Nat :=
  if '0' ≤ c ∧ c ≤ '9' then some (c.toNat - '0'.toNat)
  else if 'a' ≤ c ∧ c ≤ 'f' then some (c.toNat - 'a'.toNat + 10)
  else none

def hexBytes : List Char → Option (List UInt8)
  | [] => some []
  | [_] => none
  | a :: b :: r => do
    let x ← hexVal a; let y ← hexVal b; let t ← hexBytes r
    pure (UInt8.ofNat (x * 16 + y) :: t)

/-- `-` is the empty string; otherwise lower-case hex of the UTF-8 bytes. -/
def unhex (s : String) : Option String :=
  if s = "-" then some "" else do
    let bs ← hexBytes s.toList
    String.fromUTF8? (ByteArray.mk bs.toArray)

def hexDigit (n : Nat) : Char :=
  if n < 10 then Char.ofNat ('0'.toNat + n) else Char.ofNat ('a'.toNat + n - 10)

def hex (s : String) : String :=
  if s.isEmpty then "-" else
    String.ofList (s.toUTF8.toList.flatMap (fun b => [hexDigit (b.toNat / 16), hexDigit (b.toNat % 16)]))

def str : P String := do let t ← tok; (unhex t : Option String)
def int : P Int := do let t ← tok; (t.toInt? : Option Int)
def nat : P Nat := do let t ← tok; (t.toNat? : Option Nat)

def many (n : Nat) (p : P α) : P (List α) :=
  match n with
  | 0 => pure []
  | k + 1 => do let a ← p; let r ← many k p; pure (a :: r)

def counted (p : P α) : P (List α) := do let n ← nat; many n p

def b2s (b : Bool) : String := if b then "1" else "0"

def run (p : P α) (toks : List String) : Option α :=
  match p toks with
  | some (a, []) => some a
  | _ => none

end Driver
