/- Driver command for C03: the delivered value of a stored row under both duplicate-key policies. -/
import Driver.Proto
import Driver.Content
import BloomVerif.Model.Value
namespace Driver
open BloomVerif

mutual
  def showJ : J → String
    | .null => "n"
    | .bool true => "t"
    | .bool false => "f"
    | .num r => "d " ++ s2 r
    | .str s => "s " ++ s2 s
    | .arr xs => s!"a {xs.length}" ++ showJL xs
    | .obj kvs => s!"o {kvs.length}" ++ showJKV kvs
  def showJL : List J → String
    | [] => ""
    | x :: xs => " " ++ showJ x ++ showJL xs
  def showJKV : List (Str × J) → String
    | [] => ""
    | (k, v) :: r => " " ++ s2 k ++ " " ++ showJ v ++ showJKV r
end

def cmdValue (cmd : String) : Option (P String) :=
  match cmd with
  | "value" => some do
      let which ← tok; let r ← pRow
      pure (showJ (if which = "first" then valueFirst r else valueLast r))
  | _ => none

end Driver
