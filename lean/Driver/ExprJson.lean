/- Driver commands for C25: constructors, builder, JSON encode/decode of expressions. -/
import Driver.Proto
import Driver.Pre
import Driver.Content
import BloomVerif.Model.ExprJson
namespace Driver
open BloomVerif

def showOptList (f : α → String) (xs : List α) : String :=
  s!"{xs.length}" ++ String.join (xs.map (fun x => " " ++ f x))

def showStrCond (c : StringCondition) : String :=
  hex c.Operator ++ " " ++ hex c.Value ++ " " ++ hex c.Min ++ " " ++ hex c.Max ++ " " ++ showOptList hex c.Values

def showNumCond (c : NumericCondition) : String :=
  hex c.Operator ++ s!" {c.Value} {c.Min} {c.Max} " ++ showOptList (fun (i : Int) => s!"{i}") c.Values

def showPreCond (c : PreCond) : String :=
  hex c.ConditionType ++ " " ++
    (match c.PartitionCondition with | none => "N" | some sc => "S " ++ showStrCond sc) ++ " " ++
    hex c.MinMaxFieldName ++ " " ++
    (match c.MinMaxCondition with | none => "N" | some nc => "S " ++ showNumCond nc)

def showRegexCond (c : RegexCond) : String := s2 c.Field ++ " " ++ s2 c.Pattern

def showOptExpr (sc : C → String) (e : Option (Expr C)) : String :=
  match e with | none => "N" | some x => "S " ++ showExpr sc x

mutual
  def showJV : JV → String
    | .null => "N"
    | .str s => "S " ++ hex s
    | .txt s => "S " ++ s2 s
    | .int i => s!"I {i}"
    | .arr xs => s!"A {xs.length}" ++ showJVL xs
    | .obj kvs => s!"O {kvs.length}" ++ showJVKV kvs
  def showJVL : List JV → String
    | [] => ""
    | x :: xs => " " ++ showJV x ++ showJVL xs
  def showJVKV : List (String × JV) → String
    | [] => ""
    | (k, v) :: r => " " ++ hex k ++ " " ++ showJV v ++ showJVKV r
end

/-- JSON values in prefix form; strings under the keys Field / Token / Pattern are text. -/
def pJV : Nat → Bool → P JV
  | 0, _ => failure
  | fuel + 1, asTxt => do
    let t ← tok
    match t with
    | "N" => pure .null
    | "S" => do let s ← str; pure (if asTxt then .txt s.toList else .str s)
    | "I" => do let i ← int; pure (.int i)
    | "A" => do let n ← nat; let xs ← many n (pJV fuel false); pure (.arr xs)
    | "O" => do
        let n ← nat
        let kvs ← many n (do
          let k ← str
          let v ← pJV fuel (k == "Field" || k == "Token" || k == "Pattern")
          pure (k, v))
        pure (.obj kvs)
    | _ => failure

def pBOp : P BOp := do
  let t ← tok
  match t with
  | "field" => do let f ← strL; pure (.field f)
  | "token" => do let x ← strL; pure (.token x)
  | "fieldtoken" => do let f ← strL; let x ← strL; pure (.fieldToken f x)
  | "match" => do let e ← pExpr pBloomCond 64; pure (.matchB e)
  | "fieldregex" => do let f ← strL; let p ← strL; pure (.fieldRegex f p)
  | "matchregex" => do let e ← pExpr pRegexCond 64; pure (.matchRegex e)
  | "matchpre" => do let e ← pExpr pPreCond 64; pure (.matchPre e)
  | _ => failure

def showDec (sc : C → String) (r : Option (Expr C)) : String :=
  match r with | none => "fail" | some e => showExpr sc e

def cmdExprJson (cmd : String) : Option (P String) :=
  match cmd with
  | "mk" => some do
      let which ← tok; let kind ← tok
      match kind with
      | "B" => do
          let es ← counted (pExpr pBloomCond 64)
          pure (showExpr showBloomCond (if which = "and" then mkAnd es else mkOr es))
      | "R" => do
          let es ← counted (pExpr pRegexCond 64)
          pure (showExpr showRegexCond (if which = "and" then mkAnd es else mkOr es))
      | "P" => do
          let es ← counted (pExpr pPreCond 64)
          pure (showExpr showPreCond (if which = "and" then mkAnd es else mkOr es))
      | _ => failure
  | "builder" => some do
      let ops ← counted pBOp
      let q := builderQuery ops
      pure (showOptExpr showPreCond q.1 ++ " | " ++ showOptExpr showBloomCond q.2.1 ++ " | " ++ showOptExpr showRegexCond q.2.2)
  | "enc" => some do
      let kind ← tok
      match kind with
      | "B" => do let e ← pExpr pBloomCond 64; pure (showJV (encExpr encBloomCond e))
      | "R" => do let e ← pExpr pRegexCond 64; pure (showJV (encExpr encRegexCond e))
      | "P" => do let e ← pExpr pPreCond 64; pure (showJV (encExpr encPreCond e))
      | _ => failure
  | "dec" => some do
      let kind ← tok
      let j ← pJV 64 false
      match kind with
      | "B" => pure (showDec showBloomCond (decExpr decBloomCond 64 j))
      | "R" => pure (showDec showRegexCond (decExpr decRegexCond 64 j))
      | "P" => pure (showDec showPreCond (decExpr decPreCond 64 j))
      | _ => failure
  | "encq" => some do
      let pre ← pOpt (pOptExpr pPreCond); let bl ← pOpt (pOptExpr pBloomCond); let rx ← pOpt (pOptExpr pRegexCond)
      pure (showJV (encQuery { pre := pre, bloom := bl, regex := rx }))
  | _ => none

end Driver
