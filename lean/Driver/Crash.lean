/- Driver commands for the crash model (C15). -/
import Driver.Proto
import Driver.Format
import BloomVerif.Model.Crash
namespace Driver
open BloomVerif BloomVerif.FSStore BloomVerif.Crash

def pFOp : P FOp := do
  let t ← tok
  match t with
  | "createExcl" => do let p ← str; pure (.createExcl p)
  | "write" => do let p ← str; let b ← pBytes; pure (.write p b)
  | "fsync" => do let p ← str; pure (.fsync p)
  | "rename" => do let a ← str; let b ← str; pure (.rename a b)
  | "remove" => do let p ← str; pure (.remove p)
  | "dirsync" => pure .dirsync
  | _ => failure

def showFOpShape : FOp → String
  | .createExcl p => "createExcl " ++ hex p
  | .write p _ => "write " ++ hex p
  | .fsync p => "fsync " ++ hex p
  | .rename a b => "rename " ++ hex a ++ " " ++ hex b
  | .remove p => "remove " ++ hex p
  | .dirsync => "dirsync"

def sortNames (l : List (String × Nat)) : List (String × Nat) := (l.toArray.qsort (fun a b => a.1 < b.1)).toList

def showCrashState (c : CFS) : String :=
  let cur := sortNames c.cur.names
  let dur := sortNames c.dur
  s!"{cur.length}" ++ String.join (cur.map (fun x => " " ++ hex x.1 ++ " " ++ hexOfBytes (c.cur.data x.2) ++ s!" {syncedLen c x.2}")) ++
  s!" {dur.length}" ++ String.join (dur.map (fun x => " " ++ hex x.1 ++ " " ++ hexOfBytes (c.cur.data x.2) ++ s!" {syncedLen c x.2}"))

def crashStates (c : CFS) : List FOp → List String
  | [] => [showCrashState c]
  | o :: os => showCrashState c :: crashStates (step c o) os

def cmdCrash (cmd : String) : Option (P String) :=
  match cmd with
  | "crashx" => some do
      let ops ← counted pFOp
      pure (String.intercalate " ; " (crashStates {} ops))
  | "flushshape" => some do
      let b ← str; let n ← nat
      pure (String.intercalate " ; " ((flushOps b (List.replicate n [])).map showFOpShape))
  | "abortshape" => some do
      let b ← str; let n ← nat
      pure (String.intercalate " ; " ((failedFlushOps b (List.replicate n [])).map showFOpShape))
  | "mergeshape" => some do
      let b ← str; let n ← nat; let srcs ← counted str
      pure (String.intercalate " ; " ((mergeOps b (List.replicate n []) srcs).map showFOpShape))
  | _ => none

end Driver
