-- Root of the `BloomVerif` library: every model, bridge, lemma and property module.
import BloomVerif.Bridge.Leaf
import BloomVerif.Props.C01
import BloomVerif.Props.C02
import BloomVerif.Props.C04
import BloomVerif.Props.C11
import BloomVerif.Props.C12
import BloomVerif.Props.C17
import BloomVerif.Props.C18
import BloomVerif.Props.C19
import BloomVerif.Props.C25
import BloomVerif.Props.C26
import BloomVerif.Props.C05
import BloomVerif.Props.C07
import BloomVerif.Props.C08
import BloomVerif.Props.C09
