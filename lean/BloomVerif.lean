-- This module serves as the root of the `BloomVerif` library.
-- Import modules here that should be built as part of the library.
import BloomVerif.Basic
