-- Root of the `BloomVerif` library: every model, bridge, lemma and property module.
import BloomVerif.Bridge.Leaf
import BloomVerif.Props.C01
import BloomVerif.Props.C02
import BloomVerif.Props.C04
