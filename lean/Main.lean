/-
  bsx-model: the executable Lean model behind a one-line-in / one-line-out protocol.
  The Go harness streams the same inputs to the real implementation and to this driver and
  diffs the canonicalised answers (T-diff / T-trace, DESIGN.md section 7.2).
-/
import Driver.Proto
import Driver.Pre
import Driver.Content
import Driver.Format
import Driver.ExprJson
import Driver.Pipeline
import Driver.Proto2
import Driver.Value
import Driver.Query
import Driver.FSStore
import Driver.Crash
import Driver.Snapshot

open Driver

def dispatch (line : String) : String :=
  match (line.splitOn " ").filter (· ≠ "") with
  | [] => "bad-op"
  | cmd :: args =>
    let handlers : List (String → Option (P String)) := [cmdPre, cmdContent, cmdFormat, cmdExprJson, cmdPipeline, cmdProto2, cmdValue, cmdQuery, cmdFSStore, cmdCrash, cmdSnapshot]
    match handlers.findSome? (fun h => h cmd) with
    | none => "bad-op"
    | some p => match run p args with
      | some out => out
      | none => "bad-op"

partial def loop (hin : IO.FS.Stream) (hout : IO.FS.Stream) : IO Unit := do
  let line ← hin.getLine
  if line.isEmpty then return ()
  let l := line.trimAscii.toString
  hout.putStrLn (dispatch l)
  hout.flush
  loop hin hout

def main : IO Unit := do
  loop (← IO.getStdin) (← IO.getStdout)
