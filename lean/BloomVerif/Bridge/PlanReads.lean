/-
  T-gen bridge for `planBlockFilterReads` (file_format.go): region sanity, per-block section validation,
  and the `hasSections` latch the query uses to decide whether the block filter region is read at all.
-/
import BloomVerif.Lemmas.Format
import BloomVerif.Model.ReadPlan
namespace BloomVerif.Bridge
open BloomVerif

/-- The model: `none` = error; otherwise the region bounds and whether any candidate block has a section. -/
def planReads (blocks : List DataBlockMetadata) (ro rs : Int) : Option (Int × Int × Bool) :=
  if ro < 0 ∨ rs < 0 then none
  else if ro + rs > maxInt64 then none
  else if blocks.all (fun b => validSection b ro (ro + rs)) then
    some (ro, ro + rs, blocks.any (fun b => decide (b.BloomFilterSize > 0)))
  else none

/-- Under `0 ≤ ro`, `0 ≤ rs` (both int64) the wrapping sum is exact when it fits. -/
theorem planReads_wadd_fit (ro rs : Int) (h0 : 0 ≤ ro) (h0' : 0 ≤ rs)
    (hfit : ro + rs ≤ maxInt64) : wadd ro rs = ro + rs := by
  apply wadd_id; unfold InI64; i64omega

/-- ... and wraps to a negative number (hence `< ro`) exactly when it does not: the Go overflow check. -/
theorem planReads_wadd_overflow (ro rs : Int) (h0 : 0 ≤ ro) (h0' : 0 ≤ rs)
    (h1 : InI64 ro) (h2 : InI64 rs) (hov : ro + rs > maxInt64) : wadd ro rs < ro := by
  unfold InI64 at h1 h2
  unfold wadd wrap64
  i64omega

/-- The regenerated function computes the model, for int64 inputs. -/
theorem planReads_bridge (blocks : List DataBlockMetadata) (ro rs : Int)
    (hb : ∀ b ∈ blocks, BlockI64 b) (h1 : InI64 ro) (h2 : InI64 rs) :
    Gen.planBlockFilterReads blocks ro rs =
      (match planReads blocks ro rs with
       | none => (0, 0, false, false)
       | some (a, b, h) => (a, b, h, true)) := by
  unfold Gen.planBlockFilterReads planReads
  by_cases c1 : ro < 0 ∨ rs < 0
  · have : (decide (ro < 0) || decide (rs < 0)) = true := by
      rcases c1 with c | c <;> simp [c]
    simp [c1, this]
  · have c1' : (decide (ro < 0) || decide (rs < 0)) = false := by
      have : ¬ ro < 0 ∧ ¬ rs < 0 := by omega
      simp [this.1, this.2]
    have h0 : 0 ≤ ro := by omega
    have h0' : 0 ≤ rs := by omega
    simp only [c1, c1', if_false, Bool.false_eq_true, Bool.false_or]
    by_cases c2 : ro + rs > maxInt64
    · have := planReads_wadd_overflow ro rs h0 h0' h1 h2 c2
      simp [c2, this]
    · have hw : wadd ro rs = ro + rs := planReads_wadd_fit ro rs h0 h0' (by omega)
      have hnlt : ¬ (ro + rs < ro) := by omega
      rw [hw]
      have hall : blocks.all (fun block => Gen.validateFilterSection block ro (ro + rs)) =
          blocks.all (fun b => validSection b ro (ro + rs)) := by
        apply all_congr_mem
        intro b hbm
        apply validSection_bridge_aux b ro (ro + rs) (hb b hbm) h1
        · unfold InI64 at h1 h2 ⊢; i64omega
        · unfold InI64 at h2; i64omega
      rw [hall]
      simp only [c2, hnlt, decide_false, if_false, Bool.false_eq_true]
      cases blocks.all (fun b => validSection b ro (ro + rs)) <;> simp

/-- Non-vacuity: three candidate blocks (one without a section, two with sections inside the region). -/
example :
    Gen.planBlockFilterReads
      [ { RowDataOffset := 0, RowDataSize := 40 },
        { RowDataOffset := 40, RowDataSize := 30, BloomFilterOffset := 100, BloomFilterSize := 25 },
        { RowDataOffset := 70, RowDataSize := 30, BloomFilterOffset := 125, BloomFilterSize := 35 } ]
      100 60 = (100, 160, true, true) := by
  rw [planReads_bridge _ _ _ (by
        intro b hb
        simp only [List.mem_cons, List.mem_nil_iff, or_false] at hb
        rcases hb with rfl | rfl | rfl <;> exact ⟨by decide, by decide, by decide, by decide⟩)
      (by decide) (by decide)]
  decide

/-- `hasSections` is exactly "some candidate block has a filter section" - what `ReadPlan.filePlan` uses to
    decide the region read. -/
theorem planReads_hasSections (blocks : List DataBlockMetadata) (ro rs a b : Int) (h : Bool)
    (hp : planReads blocks ro rs = some (a, b, h)) :
    h = blocks.any (fun b => decide (b.BloomFilterSize > 0)) := by
  unfold planReads at hp
  split at hp
  · cases hp
  · split at hp
    · cases hp
    · split at hp
      · simp only [Option.some.injEq, Prod.mk.injEq] at hp
        exact hp.2.2.symm
      · cases hp

end BloomVerif.Bridge
