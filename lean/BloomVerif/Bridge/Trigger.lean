/-
  T-gen bridge for the flush triggers of the ingest actor (ingest.go): the per-row accounting, the
  partition-level and buffer-level limit checks of `processIngestRequest` and the ticker condition of
  `ingestWorker`, regenerated from the Go text (`Generated/Trigger`), are the decisions the model's
  `Actor.step` takes (`partAtLimit`, the two buffer comparisons, `elapsed`).
-/
import BloomVerif.Generated.Trigger
import BloomVerif.Generated.Leaf
import BloomVerif.Lemmas.Actor
namespace BloomVerif.Bridge
open BloomVerif BloomVerif.Actor

/-- One buffered row adds its marshaled length plus the length prefix to the partition's and the buffer's byte
    counters and one to both row counters (limits are judged in uncompressed bytes). -/
theorem rowAccount_eq (us rc bb br len : Int) :
    Gen.rowAccount us rc bb br len =
      (us + (len + Gen.const_LengthPrefixSize), rc + 1, bb + (len + Gen.const_LengthPrefixSize), br + 1) := by
  unfold Gen.rowAccount Gen.const_LengthPrefixSize
  rfl

theorem partitionTrigger_eq (sf : Bool) (rc us mr mb : Int) :
    Gen.partitionTrigger sf rc us mr mb = (sf || (decide (rc ≥ mr) || decide (us ≥ mb))) := by
  unfold Gen.partitionTrigger
  cases sf <;> by_cases h1 : rc ≥ mr <;> by_cases h2 : us ≥ mb <;> simp [h1, h2]

theorem bufferTrigger_eq (sf : Bool) (r b t mr mb mt : Int) :
    Gen.bufferTrigger sf r b t mr mb mt = (sf || decide (r ≥ mr) || decide (b ≥ mb) || decide (t ≥ mt)) := by
  unfold Gen.bufferTrigger
  cases sf <;> by_cases h1 : r ≥ mr <;> by_cases h2 : b ≥ mb <;> by_cases h3 : t ≥ mt <;> simp [h1, h2, h3]

theorem tickTrigger_eq (r : Int) (st : Bool) (t mt : Int) :
    Gen.tickTrigger r st t mt = (decide (r > 0) && st && decide (t ≥ mt)) := by
  unfold Gen.tickTrigger
  rfl

/-- A partition is at a row-group limit (the model's test inside `partAtLimit`). -/
def atLimit (c : ACfg) (p : Part) : Bool :=
  decide (p.rows.length ≥ c.maxGroupRows) || decide (p.bytes ≥ c.maxGroupBytes)

/-- The partition loop of `processIngestRequest`: the regenerated check folded over the touched partitions, in
    whatever order the Go map yields them. -/
def partLoop (c : ACfg) (touched : List Part) (sf : Bool) : Bool :=
  touched.foldl (fun acc p => Gen.partitionTrigger acc (p.rows.length : Int) (p.bytes : Int)
    (c.maxGroupRows : Int) (c.maxGroupBytes : Int)) sf

theorem partLoop_eq (c : ACfg) (touched : List Part) (sf : Bool) :
    partLoop c touched sf = (sf || touched.any (atLimit c)) := by
  unfold partLoop
  induction touched generalizing sf with
  | nil => simp
  | cons p ps ih =>
    simp only [List.foldl_cons, List.any_cons]
    rw [ih, partitionTrigger_eq]
    have e1 : decide ((p.rows.length : Int) ≥ (c.maxGroupRows : Int)) = decide (p.rows.length ≥ c.maxGroupRows) := by
      apply decide_eq_decide.2; omega
    have e2 : decide ((p.bytes : Int) ≥ (c.maxGroupBytes : Int)) = decide (p.bytes ≥ c.maxGroupBytes) := by
      apply decide_eq_decide.2; omega
    rw [e1, e2]
    unfold atLimit
    cases sf <;> simp

/-- The partitions a batch touches. -/
def touchedBy (rows : List RowIn) (parts : List Part) : List Part :=
  parts.filter (fun p => rows.any (fun r => r.pid = p.pid))

theorem partAtLimit_eq_loop (c : ACfg) (rows : List RowIn) (parts : List Part) :
    partAtLimit c rows parts = partLoop c (touchedBy rows parts) false := by
  rw [partLoop_eq]
  unfold partAtLimit touchedBy atLimit
  simp only [Bool.false_or, List.any_filter]

/-- Order of the touched partitions does not matter (the Go loop ranges over a map). -/
theorem partLoop_perm (c : ACfg) (l1 l2 : List Part) (sf : Bool) (h : l1.Perm l2) :
    partLoop c l1 sf = partLoop c l2 sf := by
  rw [partLoop_eq, partLoop_eq]
  congr 1
  apply Bool.eq_iff_iff.2
  simp only [List.any_eq_true]
  constructor
  · rintro ⟨x, hx, hp⟩; exact ⟨x, h.mem_iff.1 hx, hp⟩
  · rintro ⟨x, hx, hp⟩; exact ⟨x, h.mem_iff.2 hx, hp⟩

/-- The whole decision of `processIngestRequest` as regenerated: partition loop, then buffer check. -/
def batchDecision (c : ACfg) (rows : List RowIn) (parts : List Part) (nrows nbytes since : Nat) : Bool :=
  Gen.bufferTrigger (partLoop c (touchedBy rows parts) false) (nrows : Int) (nbytes : Int) (since : Int)
    (c.maxBufRows : Int) (c.maxBufBytes : Int) (c.maxTime : Int)

theorem batchDecision_eq (c : ACfg) (rows : List RowIn) (parts : List Part) (nrows nbytes t now : Nat) :
    batchDecision c rows parts nrows nbytes (now - t) =
      (partAtLimit c rows parts || decide (nrows ≥ c.maxBufRows) || decide (nbytes ≥ c.maxBufBytes) ||
        elapsed c (some t) now) := by
  unfold batchDecision
  rw [bufferTrigger_eq, ← partAtLimit_eq_loop]
  have e1 : decide ((nrows : Int) ≥ (c.maxBufRows : Int)) = decide (nrows ≥ c.maxBufRows) := by
    apply decide_eq_decide.2; omega
  have e2 : decide ((nbytes : Int) ≥ (c.maxBufBytes : Int)) = decide (nbytes ≥ c.maxBufBytes) := by
    apply decide_eq_decide.2; omega
  have e3 : decide (((now - t : Nat) : Int) ≥ (c.maxTime : Int)) = decide (now - t ≥ c.maxTime) := by
    apply decide_eq_decide.2; omega
  rw [e1, e2, e3]
  rfl

/-- The start time the actor uses for a batch: the stored one, or the arrival time of the first buffered batch. -/
def startOf (s : ASt) (now : Nat) : Nat := match s.t0 with | some t => t | none => now

/-- **Bridge**: the model's step flushes on a non-empty batch exactly when the regenerated decision says so. -/
theorem step_batch_generated (c : ACfg) (s : ASt) (w : Nat) (rows : List RowIn) (now : Nat) (hne : rows ≠ []) :
    step c s (.batch w rows now) =
      if batchDecision c rows (addRows rows s.parts) (s.rows + rows.length) (s.bytes + sumSize rows) (now - startOf s now)
      then ({}, [.flush (addRows rows s.parts) (s.waiters ++ [w])])
      else ({ parts := addRows rows s.parts, waiters := s.waiters ++ [w], rows := s.rows + rows.length,
              bytes := s.bytes + sumSize rows, t0 := some (startOf s now) }, []) := by
  have hemp : rows.isEmpty = false := by
    cases rows with
    | nil => exact absurd rfl hne
    | cons _ _ => rfl
  rw [batchDecision_eq]
  simp only [step, hemp, Bool.false_eq_true, if_false]
  unfold startOf
  cases ht : s.t0 <;> simp

/-- **Bridge**: the model's tick flushes exactly when the regenerated ticker condition holds. -/
theorem step_tick_generated (c : ACfg) (s : ASt) (now : Nat) :
    step c s (.tick now) =
      if Gen.tickTrigger (s.rows : Int) s.t0.isSome ((now - startOf s now : Nat) : Int) (c.maxTime : Int)
      then ({}, [.flush s.parts s.waiters]) else (s, []) := by
  rw [tickTrigger_eq]
  simp only [step]
  unfold startOf elapsed
  cases ht : s.t0 with
  | none => simp
  | some t =>
    have e1 : decide ((s.rows : Int) > 0) = decide (s.rows > 0) := by
      apply decide_eq_decide.2; omega
    have e3 : decide (((now - t : Nat) : Int) ≥ (c.maxTime : Int)) = decide (now - t ≥ c.maxTime) := by
      apply decide_eq_decide.2; omega
    simp only [Option.isSome_some, Bool.and_true, e1, e3]

end BloomVerif.Bridge
