/-
  T-gen bridge for `blockFilterCursor.heldSection` (file_format.go): the function regenerated from the Go text,
  with the returned slice `c.buf[offset : offset+size]` as an explicit bounds obligation, equals the model's
  `heldSection` (Model/Format, which `held_section_in_buf` is about) and never slices out of range — for a
  section whose size is not negative, which `validateFilterSection` has established before the cursor is asked.
-/
import BloomVerif.Generated.Scanner
import BloomVerif.Model.Format
namespace BloomVerif.Bridge
open BloomVerif

theorem heldSection_bridge (bufLen chunkStart : Int) (b : DataBlockMetadata)
    (hl : 0 ≤ bufLen) (hl' : bufLen ≤ 9223372036854775807)
    (hc : InI64 chunkStart) (ho : InI64 b.BloomFilterOffset) (hd : InI64 (b.BloomFilterOffset - chunkStart))
    (hs : 0 ≤ b.BloomFilterSize) (hs' : b.BloomFilterSize ≤ 9223372036854775807) :
    Gen.heldSection false bufLen chunkStart b =
      match heldSection b chunkStart bufLen with
      | none => .none
      | some (lo, hi) => .some lo hi := by
  unfold Gen.heldSection heldSection
  unfold InI64 minInt64 maxInt64 at hc ho hd
  simp only [wsub, wadd, wrap64, Bool.false_eq_true, if_false, Bool.or_eq_true, decide_eq_true_eq,
    Bool.not_eq_true', decide_eq_false_iff_not]
  have e1 : (b.BloomFilterOffset - chunkStart + 9223372036854775808) % 18446744073709551616 - 9223372036854775808
      = b.BloomFilterOffset - chunkStart := by omega
  simp only [e1]
  by_cases h1 : b.BloomFilterOffset - chunkStart < 0
  · simp [h1]
  · by_cases h2 : b.BloomFilterOffset - chunkStart > bufLen
    · simp [h1, h2]
    · have e2 : (bufLen - (b.BloomFilterOffset - chunkStart) + 9223372036854775808) % 18446744073709551616 - 9223372036854775808
          = bufLen - (b.BloomFilterOffset - chunkStart) := by omega
      simp only [e2]
      by_cases h3 : b.BloomFilterSize > bufLen - (b.BloomFilterOffset - chunkStart)
      · simp [h1, h2, h3]
      · have e3 : (b.BloomFilterOffset - chunkStart + b.BloomFilterSize + 9223372036854775808) % 18446744073709551616 - 9223372036854775808
            = b.BloomFilterOffset - chunkStart + b.BloomFilterSize := by omega
        have hb : 0 ≤ b.BloomFilterOffset - chunkStart ∧
            b.BloomFilterOffset - chunkStart ≤ b.BloomFilterOffset - chunkStart + b.BloomFilterSize ∧
            b.BloomFilterOffset - chunkStart + b.BloomFilterSize ≤ bufLen := by omega
        simp [h1, h2, h3, e3, hb]
        omega

theorem heldSection_no_panic (bufNil : Bool) (bufLen chunkStart : Int) (b : DataBlockMetadata)
    (hl : 0 ≤ bufLen) (hl' : bufLen ≤ 9223372036854775807)
    (hc : InI64 chunkStart) (ho : InI64 b.BloomFilterOffset) (hd : InI64 (b.BloomFilterOffset - chunkStart))
    (hs : 0 ≤ b.BloomFilterSize) (hs' : b.BloomFilterSize ≤ 9223372036854775807) :
    Gen.heldSection bufNil bufLen chunkStart b ≠ .panic := by
  cases bufNil
  · rw [heldSection_bridge bufLen chunkStart b hl hl' hc ho hd hs hs']
    cases heldSection b chunkStart bufLen with
    | none => simp
    | some p => simp
  · simp [Gen.heldSection]

end BloomVerif.Bridge
