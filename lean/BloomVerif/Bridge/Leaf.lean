/-
  T-gen bridge: every definition regenerated from /repo's Go source equals the hand model the
  property theorems are stated about. A semantic edit of the Go function breaks one of these
  kernel-checked lemmas; a harmless rewrite (reordered cases, renamed locals) does not.
-/
import BloomVerif.Generated.Leaf
import BloomVerif.Model.Prefilter
namespace BloomVerif.Bridge
open BloomVerif

theorem forall_ne_iff_not_mem {α} (v : α) (l : List α) : (∀ x, x ∈ l → ¬ v = x) ↔ ¬ v ∈ l :=
  ⟨fun h hm => h v hm rfl, fun h x hx e => h (e ▸ hx)⟩

theorem evalNumeric_bridge (v : Int) (c : NumericCondition) :
    Gen.EvaluateNumericCondition v c = evalNumeric v c := by
  unfold Gen.EvaluateNumericCondition evalNumeric parseOp
  repeat' split
  all_goals first | rfl | simp_all [forall_ne_iff_not_mem]

theorem evalString_bridge (v : String) (c : StringCondition) :
    Gen.EvaluateStringCondition v c = evalString v c := by
  unfold Gen.EvaluateStringCondition evalString parseOp
  repeat' split
  all_goals first | rfl | simp_all [forall_ne_iff_not_mem]

theorem evalMinMax_bridge (mm : MinMaxIndex) (c : NumericCondition) :
    Gen.EvaluateMinMaxCondition mm c = evalMinMax mm c := by
  unfold Gen.EvaluateMinMaxCondition evalMinMax parseOp
  dsimp only
  repeat' split
  all_goals first | rfl | simp_all [forall_ne_iff_not_mem]

theorem updateMinMax_bridge (e : MinMaxIndex) (a b : Int) :
    Gen.UpdateMinMaxIndex e a b = updateMinMax e a b := by
  unfold Gen.UpdateMinMaxIndex updateMinMax
  by_cases h1 : a < e.Min <;> by_cases h2 : b > e.Max <;> simp [h1, h2]

/-- On the uint64 range the regenerated unsigned clamp is the model's saturating conversion. -/
theorem clampUint64_bridge (v : Int) (h0 : 0 ≤ v) (h1 : v ≤ maxUint64) :
    Gen.clampUint64ToInt64 v = clamp v := by
  unfold Gen.clampUint64ToInt64 clamp wrap64 maxInt64 minInt64
  unfold maxUint64 at h1
  simp only [decide_eq_true_eq]
  split <;> split <;> first | rfl | omega | (split <;> omega)

end BloomVerif.Bridge
