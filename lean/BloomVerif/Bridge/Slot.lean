/-
  T-gen bridge for the query semaphore slot (query_results.go): `querySlot.acquire` / `querySlot.release` as
  regenerated (`Generated/Slot`) toggle occupancy - the tokens a slot has put into the semaphore channel are 1
  exactly while it is held and 0 otherwise, whatever sequence of calls and select outcomes - and the script of
  `Results.deliver` blocks on the row channel only after giving the slot up. These are the facts the worker
  phases of `Model/Slots` (working/reading hold one slot, blocked/idle hold none) rest on.
-/
import BloomVerif.Generated.Slot
import BloomVerif.Model.Slots
namespace BloomVerif.Bridge
open BloomVerif

/-- tokens a slot contributes to the semaphore -/
def tok (held : Bool) : Int := if held then 1 else 0

theorem slotAcquire_spec (held : Bool) (tokens : Int) (c : Gen.SelCase) :
    Gen.slotAcquire held tokens c =
      if held then (true, tokens, true)
      else match c with
        | .send => (true, tokens + 1, true)
        | .ctxDone => (false, tokens, false) := by
  unfold Gen.slotAcquire
  cases held <;> cases c <;> rfl

theorem slotRelease_spec (held : Bool) (tokens : Int) (c : Gen.SelCase) :
    Gen.slotRelease held tokens c = (false, tokens - (tok held), true) := by
  unfold Gen.slotRelease tok
  cases held <;> simp <;> omega

/-- a call on a slot: acquire (with the select outcome if it has to wait) or release -/
inductive SlotOp
  | acquire (c : Gen.SelCase)
  | release
deriving Repr

def slotStep (st : Bool × Int) : SlotOp → Bool × Int
  | .acquire c => let r := Gen.slotAcquire st.1 st.2 c; (r.1, r.2.1)
  | .release => let r := Gen.slotRelease st.1 st.2 .send; (r.1, r.2.1)

/-- One call keeps "tokens in the semaphore = 1 iff held". -/
theorem slotStep_conserves (held : Bool) (op : SlotOp) :
    (slotStep (held, tok held) op).2 = tok (slotStep (held, tok held) op).1 := by
  cases op with
  | acquire c =>
    simp only [slotStep, slotAcquire_spec]
    cases held <;> cases c <;> simp [tok]
  | release =>
    simp only [slotStep, slotRelease_spec]
    cases held <;> simp [tok]

/-- Every sequence of calls on a fresh slot keeps it. -/
theorem slot_conserves (ops : List SlotOp) :
    (ops.foldl slotStep (false, 0)).2 = tok (ops.foldl slotStep (false, 0)).1 := by
  suffices h : ∀ st : Bool × Int, st.2 = tok st.1 → (ops.foldl slotStep st).2 = tok (ops.foldl slotStep st).1 from
    h (false, 0) rfl
  induction ops with
  | nil => intro st h; exact h
  | cons op ops ih =>
    intro st h
    simp only [List.foldl_cons]
    apply ih
    obtain ⟨hd, tk⟩ := st
    simp only at h
    subst h
    exact slotStep_conserves hd op

/-- `acquire` reports exactly whether the slot is held afterwards. -/
theorem acquire_result_is_held (held : Bool) (tokens : Int) (c : Gen.SelCase) :
    (Gen.slotAcquire held tokens c).2.2 = (Gen.slotAcquire held tokens c).1 := by
  rw [slotAcquire_spec]
  cases held <;> cases c <;> rfl

/-- An acquire on a held slot and a release on an unheld slot touch the semaphore not at all. -/
theorem slot_noops (tokens : Int) (c : Gen.SelCase) :
    (Gen.slotAcquire true tokens c).2.1 = tokens ∧ (Gen.slotRelease false tokens c).2.1 = tokens := by
  rw [slotAcquire_spec, slotRelease_spec]
  simp [tok]

theorem held_count_eq_tokens (hs : List Bool) : ((hs.filter id).length : Int) = (hs.map tok).sum := by
  induction hs with
  | nil => rfl
  | cons a t ih =>
    cases a
    · simp only [List.filter_cons, id, Bool.false_eq_true, if_false, List.map_cons, List.sum_cons, tok]
      omega
    · simp only [List.filter_cons, id, if_true, List.length_cons, List.map_cons, List.sum_cons, tok]
      omega

/-- With the semaphore channel holding at most `cap` tokens (Go's channel capacity) and every slot
    contributing `tok held`, at most `cap` slots are held. -/
theorem held_le_cap (hs : List Bool) (cap : Nat) (h : (hs.map tok).sum ≤ (cap : Int)) :
    (hs.filter id).length ≤ cap := by
  have e := held_count_eq_tokens hs
  omega

/-! ### `Results.deliver` -/

/-- Run the regenerated script of `deliver` from a slot state; `choices` are the select outcomes of the
    acquires. The result records whether the slot was held at each blocking send. -/
def runDeliver : List Gen.DAct → Bool × Int → List Bool → (Bool × Int) × List Bool
  | [], st, seen => (st, seen)
  | .trySend :: r, st, seen => runDeliver r st seen
  | .release :: r, st, seen => runDeliver r (slotStep st .release) seen
  | .blockingSend :: r, st, seen => runDeliver r st (seen ++ [st.1])
  | .acquire :: r, st, seen => runDeliver r (slotStep st (.acquire .send)) seen

/-- On its slow path `deliver` blocks on the row channel exactly once, with the slot given up, and returns nil
    with the slot held again and the semaphore contribution restored. -/
theorem deliver_blocks_unheld :
    runDeliver Gen.deliverScript (true, 1) [] = ((true, 1), [false]) := by
  decide

/-- The same from an unheld slot (a caller that lost its slot): still no blocking while held. -/
theorem deliver_blocks_unheld' :
    (runDeliver Gen.deliverScript (false, 0) []).2 = [false] := by
  decide

/-- The worker phases of `Model/Slots` seen from the slot: a worker holds a token exactly in the phases the
    model counts as held. -/
theorem phase_tokens (p : Slots.Phase) : tok (Slots.held p) = if p = .working ∨ p = .reading then 1 else 0 := by
  cases p <;> rfl

end BloomVerif.Bridge
