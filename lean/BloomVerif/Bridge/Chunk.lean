/-
  T-gen bridge for `blockFilterCursor.readChunkFrom` (file_format.go): the extension loop regenerated from
  the Go text (continue on an empty section, break on an invalid one, on one that starts before the chunk or
  ends past the cap, otherwise extend) computes the model's `chunkExtend` / `chunkFor`, which
  `chunk_within_region` (C19) is about - for a region inside int64 and a start inside the region.
-/
import BloomVerif.Generated.Chunk
import BloomVerif.Lemmas.Format
namespace BloomVerif.Bridge
open BloomVerif

theorem chunk_loop_bridge (target rs re start : Int)
    (hrs : 0 ≤ rs) (hre : re ≤ maxInt64) (ht0 : 0 ≤ target) (ht : target ≤ maxInt64) (hs1 : rs ≤ start) (hs2 : start ≤ re) :
    ∀ (following : List DataBlockMetadata) (e cov : Int), (∀ b ∈ following, BlockI64 b) → start ≤ e → e ≤ re →
      (Gen.readChunkFrom_loop target rs re start e cov following).1 = chunkExtend target rs re start e following := by
  intro following
  induction following with
  | nil => intro e cov _ _ _; simp [Gen.readChunkFrom_loop, chunkExtend]
  | cons nb rest ih =>
    intro e cov hall he1 he2
    have hb : BlockI64 nb := hall nb (List.mem_cons_self ..)
    have hrest : ∀ b ∈ rest, BlockI64 b := fun b hb' => hall b (List.mem_cons_of_mem _ hb')
    have hv : Gen.validateFilterSection nb rs re = validSection nb rs re :=
      validSection_bridge_aux nb rs re hb (by unfold InI64; i64omega) (by unfold InI64; i64omega) (by i64omega)
    unfold Gen.readChunkFrom_loop chunkExtend
    by_cases c0 : nb.BloomFilterSize = 0
    · simp only [c0, decide_true, if_true]
      exact ih e cov hrest he1 he2
    · simp only [c0, decide_false, Bool.false_eq_true, if_false, hv]
      by_cases cv : validSection nb rs re = true
      · simp only [cv, Bool.not_true, Bool.false_eq_true, if_false]
        -- a valid non-empty section lies inside the region
        have hin : rs ≤ nb.BloomFilterOffset ∧ nb.BloomFilterOffset ≤ re ∧ 0 < nb.BloomFilterSize ∧
            nb.BloomFilterSize ≤ re - nb.BloomFilterOffset := by
          unfold validSection at cv
          by_cases n1 : nb.BloomFilterSize < 0
          · simp [n1] at cv
          · simp only [n1, if_false, c0, decide_eq_true_eq] at cv
            omega
        have e1 : wadd nb.BloomFilterOffset nb.BloomFilterSize = nb.BloomFilterOffset + nb.BloomFilterSize := by
          apply wadd_id; unfold InI64; i64omega
        have e2 : wsub (nb.BloomFilterOffset + nb.BloomFilterSize) start = nb.BloomFilterOffset + nb.BloomFilterSize - start := by
          apply wsub_id; unfold InI64; i64omega
        simp only [e1, e2, Bool.or_eq_true, decide_eq_true_eq]
        by_cases c2 : nb.BloomFilterOffset < start ∨ nb.BloomFilterOffset + nb.BloomFilterSize - start > target
        · simp [c2]
        · simp only [c2, if_false]
          by_cases c3 : nb.BloomFilterOffset + nb.BloomFilterSize > e
          · simp only [c3, decide_true, if_true]
            exact ih _ _ hrest (by omega) (by omega)
          · simp only [c3, decide_false, Bool.false_eq_true, if_false]
            exact ih _ _ hrest he1 he2
      · have cv' : validSection nb rs re = false := by simpa using cv
        simp [cv']

/-- The extent the regenerated `readChunkFrom` reads is the model's `chunkFor`. -/
theorem chunkFor_generated (target rs re : Int) (b : DataBlockMetadata) (following : List DataBlockMetadata)
    (hrs : 0 ≤ rs) (hre : re ≤ maxInt64) (ht0 : 0 ≤ target) (ht : target ≤ maxInt64)
    (hv : validSection b rs re = true) (hs : 0 < b.BloomFilterSize) (hall : ∀ x ∈ following, BlockI64 x) :
    ((Gen.readChunkFrom_extent target rs re b following).1, (Gen.readChunkFrom_extent target rs re b following).2.1) =
      chunkFor target rs re b following := by
  have hin : rs ≤ b.BloomFilterOffset ∧ b.BloomFilterOffset ≤ re ∧ b.BloomFilterSize ≤ re - b.BloomFilterOffset := by
    unfold validSection at hv
    have n1 : ¬ b.BloomFilterSize < 0 := by omega
    have n0 : ¬ b.BloomFilterSize = 0 := by omega
    simp only [n1, if_false, n0, decide_eq_true_eq] at hv
    omega
  have e1 : wadd b.BloomFilterOffset b.BloomFilterSize = b.BloomFilterOffset + b.BloomFilterSize := by
    apply wadd_id; unfold InI64; i64omega
  unfold Gen.readChunkFrom_extent chunkFor
  simp only [e1]
  rw [chunk_loop_bridge target rs re b.BloomFilterOffset hrs hre ht0 ht hin.1 hin.2.1 following _ 1 hall (by omega) (by omega)]

end BloomVerif.Bridge
