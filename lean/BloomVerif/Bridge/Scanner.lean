/-
  T-gen bridge for `BlockRowScanner.Next` (file_format.go): the scanner step regenerated from the Go text —
  with every slice expression and the 4-byte read turned into an explicit bounds obligation — never indexes
  out of range from a cursor inside the section, and equals the step specification the row-section model
  `scanRows` iterates: done at the end, an error when fewer than 4 bytes remain or the announced length
  exceeds what remains, otherwise the row right behind the prefix and the cursor behind the row.
-/
import BloomVerif.Generated.Scanner
namespace BloomVerif.Bridge
open BloomVerif

/-- the step the model iterates (Model/Format `scanRows`), on integers -/
def scanStepSpec (n pos w : Int) : Gen.ScanStep :=
  if pos = n then .done
  else if n - pos < 4 then .err
  else if w > n - (pos + 4) then .err
  else .row (pos + 4) (pos + 4 + w) (pos + 4 + w)

/-- For a cursor inside the section (0 ≤ pos ≤ n, n an int) and a 32-bit word, the regenerated step is the
    specification: in particular it is never `.panic`. -/
theorem scanner_step_eq_spec (n pos : Int) (word : Int → Int)
    (hn : n ≤ 9223372036854775807) (hp : 0 ≤ pos) (hpn : pos ≤ n)
    (hw : 0 ≤ word pos) (hw' : word pos < 4294967296) :
    Gen.BlockRowScanner_Next n pos word = scanStepSpec n pos (word pos) := by
  unfold Gen.BlockRowScanner_Next scanStepSpec
  simp only [wsub, wadd, wrap64, wrapU64, decide_eq_true_eq, Bool.not_eq_true', decide_eq_false_iff_not]
  by_cases h1 : pos = n
  · simp [h1]
  · simp only [h1, if_false]
    by_cases h2 : n - pos < 4
    · have : (n - pos + 9223372036854775808) % 18446744073709551616 - 9223372036854775808 < 4 := by omega
      simp [this, h2]
    · have h2' : ¬ ((n - pos + 9223372036854775808) % 18446744073709551616 - 9223372036854775808 < 4) := by omega
      simp only [h2', h2, if_false]
      have hb : (0 ≤ pos ∧ pos + 4 ≤ n) := by omega
      simp only [hb, and_self, not_true_eq_false, if_false]
      have e1 : (pos + 4 + 9223372036854775808) % 18446744073709551616 - 9223372036854775808 = pos + 4 := by omega
      simp only [e1]
      have e2 : ((n - (pos + 4) + 9223372036854775808) % 18446744073709551616 - 9223372036854775808) % 18446744073709551616 = n - (pos + 4) := by omega
      simp only [e2]
      by_cases h3 : word pos > n - (pos + 4)
      · simp [h3]
      · simp only [h3, if_false]
        have e3 : (pos + 4 + word pos + 9223372036854775808) % 18446744073709551616 - 9223372036854775808 = pos + 4 + word pos := by omega
        simp only [e3]
        have hb2 : (0 ≤ pos + 4 ∧ pos + 4 ≤ pos + 4 + word pos ∧ pos + 4 + word pos ≤ n) := by omega
        simp [hb2]

theorem scanner_step_no_panic (n pos : Int) (word : Int → Int)
    (hn : n ≤ 9223372036854775807) (hp : 0 ≤ pos) (hpn : pos ≤ n)
    (hw : 0 ≤ word pos) (hw' : word pos < 4294967296) :
    Gen.BlockRowScanner_Next n pos word ≠ .panic := by
  rw [scanner_step_eq_spec n pos word hn hp hpn hw hw']
  unfold scanStepSpec
  split
  · simp
  · split
    · simp
    · split <;> simp

/-- A returned row lies inside the section right behind its prefix, and the cursor moves strictly forward to
    the row's end (so iterating `Next` terminates and never revisits a byte). -/
theorem scanner_step_row (n pos : Int) (word : Int → Int) (lo hi p' : Int)
    (hn : n ≤ 9223372036854775807) (hp : 0 ≤ pos) (hpn : pos ≤ n)
    (hw : 0 ≤ word pos) (hw' : word pos < 4294967296)
    (h : Gen.BlockRowScanner_Next n pos word = .row lo hi p') :
    lo = pos + 4 ∧ hi = lo + word pos ∧ hi ≤ n ∧ p' = hi ∧ pos < p' := by
  rw [scanner_step_eq_spec n pos word hn hp hpn hw hw'] at h
  unfold scanStepSpec at h
  split at h
  · cases h
  · split at h
    · cases h
    · split at h
      · cases h
      · injection h with h1 h2 h3
        omega

end BloomVerif.Bridge
