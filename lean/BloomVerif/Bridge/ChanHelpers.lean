/-
  T-gen bridge for the acknowledgement senders of chan_helpers.go (`sendWithContext`,
  `sendOptionalWithContext`, `sendToChannelsWithContext`) as regenerated (`Generated/ChanHelpers`): one call
  sends at most once and returns nil exactly when it sent (or the channel is nil); a ready channel receives its
  value whatever the context says; the fan-out attempts every channel exactly once, in order, whatever happened
  to the earlier ones. These are the facts behind the pipeline LTS's "one acknowledgement per waiter" steps.
-/
import BloomVerif.Generated.ChanHelpers
namespace BloomVerif.Bridge
open BloomVerif

theorem sendWithContext_spec (ready : Bool) (w : Gen.WaitCase) :
    Gen.sendWithContext ready w =
      if ready then (1, true) else match w with | .sent => (1, true) | .ctxDone => (0, false) := by
  unfold Gen.sendWithContext
  cases ready <;> cases w <;> rfl

theorem send_at_most_once (ready : Bool) (w : Gen.WaitCase) : (Gen.sendWithContext ready w).1 ≤ 1 := by
  rw [sendWithContext_spec]; cases ready <;> cases w <;> decide

theorem send_nil_iff_sent (ready : Bool) (w : Gen.WaitCase) :
    (Gen.sendWithContext ready w).2 = true ↔ (Gen.sendWithContext ready w).1 = 1 := by
  rw [sendWithContext_spec]; cases ready <;> cases w <;> decide

theorem ready_always_receives (w : Gen.WaitCase) : Gen.sendWithContext true w = (1, true) := by
  rw [sendWithContext_spec]; rfl

theorem blocked_and_cancelled_sends_nothing : Gen.sendWithContext false .ctxDone = (0, false) := by
  rw [sendWithContext_spec]; rfl

/-- one waiter of the fan-out: (channel is nil, channel is ready, what the blocking select does) -/
abbrev Waiter := Bool × Bool × Gen.WaitCase

def attempt (c : Waiter) : Nat × Bool := Gen.sendOptionalWithContext c.1 c.2.1 c.2.2

theorem attempt_at_most_once (c : Waiter) : (attempt c).1 ≤ 1 := by
  obtain ⟨n, r, w⟩ := c
  unfold attempt Gen.sendOptionalWithContext
  cases n
  · exact send_at_most_once r w
  · simp

theorem attempt_ready (c : Waiter) (hn : c.1 = false) (hr : c.2.1 = true) : attempt c = (1, true) := by
  obtain ⟨n, r, w⟩ := c
  simp only at hn hr
  subst hn; subst hr
  unfold attempt Gen.sendOptionalWithContext
  exact ready_always_receives w

theorem fanout_fold (chs : List Waiter) (acc : List Nat × Nat) :
    chs.foldl (fun st c =>
      let r := Gen.sendOptionalWithContext c.1 c.2.1 c.2.2
      (st.1 ++ [r.1], if r.2 then st.2 else st.2 + 1)) acc =
    (acc.1 ++ chs.map (fun c => (attempt c).1), acc.2 + (chs.filter (fun c => !(attempt c).2)).length) := by
  induction chs generalizing acc with
  | nil => simp
  | cons c r ih =>
    simp only [List.foldl_cons]
    rw [ih]
    simp only [attempt, List.map_cons, List.filter_cons, List.append_assoc, List.singleton_append]
    cases h : (Gen.sendOptionalWithContext c.1 c.2.1 c.2.2).2 <;> simp <;> omega

/-- The fan-out makes exactly one attempt per channel, in order, and counts the failed ones. -/
theorem fanout_spec (chs : List Waiter) :
    Gen.sendToChannelsWithContext chs =
      (chs.map (fun c => (attempt c).1), (chs.filter (fun c => !(attempt c).2)).length) := by
  unfold Gen.sendToChannelsWithContext
  rw [fanout_fold]
  simp

end BloomVerif.Bridge
