/-
  T-gen bridge for the regex field guard: the transformer regenerated from
  `regexExpressionToBloomFieldExpression` (query.go) — what a regex condition becomes, which node type
  each composite case produces, that nil children are dropped and the others kept in order — equals the
  model's `guardOf`, which `guard_sound` (C01) and the prune query of C24 are stated about.
-/
import BloomVerif.Generated.Guard
namespace BloomVerif.Bridge
open BloomVerif

mutual
  theorem guard_eq : ∀ e : RegexExpr, Gen.regexExpressionToBloomFieldExpression e = guardOf e
    | .mk ty cond ch => by
      simp only [Gen.regexExpressionToBloomFieldExpression, guardOf, guardChildren_eq ch]
      split
      · cases cond <;> rfl
      · rfl
  theorem guardChildren_eq : ∀ es : List RegexExpr, Gen.regexExpressionToBloomFieldExpression_children es = guardL es
    | [] => by simp [Gen.regexExpressionToBloomFieldExpression_children, guardL]
    | e :: es => by
      simp only [Gen.regexExpressionToBloomFieldExpression_children, guardL, guard_eq e, guardChildren_eq es]
      cases guardOf e <;> rfl
end

/-- the guard of a possibly absent regex expression, as `pruneBloom` uses it -/
theorem guardPtr_eq (e : Option RegexExpr) : Gen.regexExpressionToBloomFieldExpressionPtr e = e.bind guardOf := by
  cases e with
  | none => rfl
  | some e => simp [Gen.regexExpressionToBloomFieldExpressionPtr, guard_eq]

end BloomVerif.Bridge
