/-
  The integer scanner step (regenerated from `BlockRowScanner.Next`, Bridge/Scanner) and the byte-list model
  `scanRows` of Model/Format that the C17/C19 round-trip and bounds theorems are stated about: one unfolding of
  `scanRows` on the suffix at a cursor is the step specification at that cursor.
-/
import BloomVerif.Bridge.Scanner
import BloomVerif.Model.Format
namespace BloomVerif.Bridge
open BloomVerif

/-- the little-endian word at an offset of a byte list (0 where fewer than four bytes remain) -/
def wordAt (data : Bytes) (pos : Nat) : Nat :=
  match data.drop pos with
  | a :: b :: c :: d :: _ => u32dec a b c d
  | _ => 0

theorem wordAt_lt (data : Bytes) (pos : Nat) : wordAt data pos < 4294967296 := by
  unfold wordAt
  split
  · rename_i a b c d _ _
    unfold u32dec
    have := a.toNat_lt; have := b.toNat_lt; have := c.toNat_lt; have := d.toNat_lt
    omega
  · omega

/-- What one unfolding of `scanRows` does at cursor `pos`, read off the step specification. -/
theorem scanRows_step (fuel : Nat) (data : Bytes) (pos : Nat) (hp : pos ≤ data.length) :
    scanRows (fuel + 1) (data.drop pos) =
      match scanStepSpec data.length pos (wordAt data pos) with
      | .done => .ok []
      | .err => .error (if data.length - pos < 4 then .truncatedPrefix else .lengthExceeds)
      | .row lo hi p' =>
        (match scanRows fuel (data.drop p'.toNat) with
         | .ok rs => .ok (((data.drop lo.toNat).take (hi - lo).toNat) :: rs)
         | .error e => .error e)
      | .panic => .error .truncatedPrefix := by
  unfold scanStepSpec wordAt
  have hlen : (data.drop pos).length = data.length - pos := List.length_drop
  match hd : data.drop pos with
  | [] =>
    have : pos = data.length := by rw [hd] at hlen; simp at hlen; omega
    simp [scanRows, this]
  | [a] =>
    have h1 : data.length - pos = 1 := by rw [hd] at hlen; simpa using hlen.symm
    have hne : ¬ ((pos : Int) = data.length) := by omega
    have hlt : ((data.length : Int) - pos < 4) := by omega
    simp [scanRows, hne, hlt, h1]
  | [a, b] =>
    have h1 : data.length - pos = 2 := by rw [hd] at hlen; simpa using hlen.symm
    have hne : ¬ ((pos : Int) = data.length) := by omega
    have hlt : ((data.length : Int) - pos < 4) := by omega
    simp [scanRows, hne, hlt, h1]
  | [a, b, c] =>
    have h1 : data.length - pos = 3 := by rw [hd] at hlen; simpa using hlen.symm
    have hne : ¬ ((pos : Int) = data.length) := by omega
    have hlt : ((data.length : Int) - pos < 4) := by omega
    simp [scanRows, hne, hlt, h1]
  | a :: b :: c :: d :: rest =>
    have h1 : data.length - pos = rest.length + 4 := by rw [hd] at hlen; simpa using hlen.symm
    have hne : ¬ ((pos : Int) = data.length) := by omega
    have hlt : ¬ ((data.length : Int) - pos < 4) := by omega
    have hrest : rest = data.drop (pos + 4) := by
      have : data.drop (pos + 4) = (data.drop pos).drop 4 := by rw [List.drop_drop]
      rw [this, hd]; rfl
    simp only [scanRows, hne, hlt, if_false]
    by_cases hw : u32dec a b c d > rest.length
    · have hw' : ((u32dec a b c d : Nat) : Int) > (data.length : Int) - ((pos : Int) + 4) := by omega
      have h4 : ¬ (data.length - pos < 4) := by omega
      simp [hw, hw', h4]
    · have hw' : ¬ (((u32dec a b c d : Nat) : Int) > (data.length : Int) - ((pos : Int) + 4)) := by omega
      simp only [hw, hw', if_false]
      have e1 : ((pos : Int) + 4).toNat = pos + 4 := by omega
      have e2 : ((pos : Int) + 4 + (u32dec a b c d : Nat)).toNat = pos + 4 + u32dec a b c d := by omega
      have e3 : ((pos : Int) + 4 + (u32dec a b c d : Nat) - ((pos : Int) + 4)).toNat = u32dec a b c d := by omega
      rw [e1, e2, e3, hrest, List.drop_drop]
      rfl

/-- The same with the regenerated step itself: for a section that fits an int, one unfolding of the model's
    `scanRows` at a cursor is what `BlockRowScanner.Next`, as regenerated from the Go text, does there. -/
theorem scanRows_generated_step (fuel : Nat) (data : Bytes) (pos : Nat) (hp : pos ≤ data.length)
    (hn : (data.length : Int) ≤ 9223372036854775807) :
    scanRows (fuel + 1) (data.drop pos) =
      match Gen.BlockRowScanner_Next data.length pos (fun o => wordAt data o.toNat) with
      | .done => .ok []
      | .err => .error (if data.length - pos < 4 then .truncatedPrefix else .lengthExceeds)
      | .row lo hi p' =>
        (match scanRows fuel (data.drop p'.toNat) with
         | .ok rs => .ok (((data.drop lo.toNat).take (hi - lo).toNat) :: rs)
         | .error e => .error e)
      | .panic => .error .truncatedPrefix := by
  have hw := wordAt_lt data pos
  rw [scanner_step_eq_spec data.length pos (fun o => wordAt data o.toNat) hn (by omega) (by omega)
    (by simp) (by simp only [Int.toNat_natCast]; omega)]
  simpa using scanRows_step fuel data pos hp

end BloomVerif.Bridge
