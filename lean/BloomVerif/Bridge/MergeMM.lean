/-
  T-gen bridge for `mergeMinMaxIndexes` (merge.go): the union of two blocks' minmax maps as regenerated from the
  Go text (`Generated/MergeMM`: Go maps as association lists, `range` loops as folds) is the model's `mergeMM`
  (`Model/Content`) - the function the merge theorems of C11 (`C11_partition_minmax`, `mergeGroup_WF`) are about -
  whenever the first map's keys are distinct, which a Go map's are.
-/
import BloomVerif.Generated.MergeMM
import BloomVerif.Bridge.Leaf
import BloomVerif.Lemmas.Build
namespace BloomVerif.Bridge
open BloomVerif

theorem mapSet_fresh (m : List (String × MinMaxIndex)) (k : String) (v : MinMaxIndex)
    (h : ∀ p ∈ m, p.1 ≠ k) : Gen.mapSet m k v = m ++ [(k, v)] := by
  induction m with
  | nil => rfl
  | cons a r ih =>
    obtain ⟨k', v'⟩ := a
    have hk : k' ≠ k := h (k', v') List.mem_cons_self
    simp only [Gen.mapSet, hk, if_false, List.cons_append]
    rw [ih (fun p hp => h p (List.mem_cons_of_mem _ hp))]

/-- Copying a map with distinct keys entry by entry yields the map. -/
theorem copy_loop (l acc : List (String × MinMaxIndex))
    (hnd : (l.map (·.1)).Nodup) (hdis : ∀ p ∈ acc, ∀ q ∈ l, p.1 ≠ q.1) :
    l.foldl (fun merged kv => Gen.mapSet merged kv.1 kv.2) acc = acc ++ l := by
  induction l generalizing acc with
  | nil => simp
  | cons a r ih =>
    simp only [List.map_cons, List.nodup_cons, List.mem_map, not_exists, not_and] at hnd
    simp only [List.foldl_cons]
    rw [mapSet_fresh acc a.1 a.2 (fun p hp => hdis p hp a List.mem_cons_self)]
    rw [ih (acc ++ [(a.1, a.2)]) hnd.2]
    · simp
    · intro p hp q hq
      simp only [List.mem_append, List.mem_singleton] at hp
      rcases hp with hp | hp
      · exact hdis p hp q (List.mem_cons_of_mem _ hq)
      · subst hp
        exact fun e => hnd.1 q hq e.symm

/-- One iteration of the second loop is the model's `mmInsert`. -/
theorem merge_step (merged : List (String × MinMaxIndex)) (k : String) (v : MinMaxIndex) :
    (match merged.lookup k with
      | some index1 => Gen.mapSet merged k (Gen.UpdateMinMaxIndex index1 v.Min v.Max)
      | none => Gen.mapSet merged k v) = mmInsert k v.Min v.Max merged := by
  induction merged with
  | nil => rfl
  | cons a r ih =>
    obtain ⟨k', mm⟩ := a
    by_cases hk : k' = k
    · subst hk
      simp only [List.lookup_cons, beq_self_eq_true, Gen.mapSet, if_true, mmInsert, updateMinMax_bridge]
    · have e : (k == k') = false := by simpa using fun x => hk x.symm
      simp only [List.lookup_cons, e, mmInsert, hk, if_false]
      rw [← ih]
      cases r.lookup k <;> simp only [Gen.mapSet, hk, if_false]

/-- **Bridge**: the regenerated `mergeMinMaxIndexes` is the model's `mergeMM`. -/
theorem mergeMM_generated (a b : List (String × MinMaxIndex)) (hnd : (a.map (·.1)).Nodup) :
    Gen.mergeMinMaxIndexes a b = mergeMM a b := by
  unfold Gen.mergeMinMaxIndexes mergeMM
  simp only
  rw [copy_loop a [] hnd (by simp), List.nil_append]
  congr 1
  funext merged kv
  exact merge_step merged kv.1 kv.2

/-- Hence the regenerated function widens: every range of either map is covered by the result's range for that
    key (the fact `C11_partition_minmax` needs of the merge executor). -/
theorem mergeMM_generated_covers (a b : List (String × MinMaxIndex)) (hnd : (a.map (·.1)).Nodup)
    (k : String) (mm : MinMaxIndex) (h : (k, mm) ∈ b) :
    ∃ mm', List.lookup k (Gen.mergeMinMaxIndexes a b) = some mm' ∧ mm'.Min ≤ mm.Min ∧ mm.Max ≤ mm'.Max := by
  rw [mergeMM_generated a b hnd]
  exact mergeMM_covers a b k mm h

end BloomVerif.Bridge
