/-
  T-gen bridge for the accumulation loop of `Results.Stats` (query_results.go): the fold regenerated from the Go
  text (it adds every entry's rows and bytes, skipped or not, and counts skipped / processed blocks) equals the
  model's `Stats.totals` whenever skipped entries report zero rows and bytes - the invariant
  `skipped_reports_zero` (C23) establishes for the entries of a query.
-/
import BloomVerif.Generated.StatsLoop
import BloomVerif.Lemmas.Stats
namespace BloomVerif.Bridge
open BloomVerif BloomVerif.Stats

def tup (t : Totals) : Nat × Nat × Nat × Nat := (t.rowsScanned, t.bytesScanned, t.blocksProcessed, t.blocksSkipped)

theorem statsStep_eq (t : Totals) (e : Entry) (h : e.skipped = true → e.rowsProcessed = 0 ∧ e.bytesProcessed = 0) :
    Gen.statsStep (tup t) e = tup (addEntry t e) := by
  unfold Gen.statsStep addEntry tup
  cases hs : e.skipped
  · simp
  · have := h hs
    simp [this.1, this.2]

theorem statsTotals_fold (es : List Entry) (t : Totals)
    (h : ∀ e ∈ es, e.skipped = true → e.rowsProcessed = 0 ∧ e.bytesProcessed = 0) :
    es.foldl Gen.statsStep (tup t) = tup (es.foldl addEntry t) := by
  induction es generalizing t with
  | nil => rfl
  | cons e es ih =>
    simp only [List.foldl_cons]
    rw [statsStep_eq t e (h e (List.mem_cons_self ..))]
    exact ih _ (fun x hx => h x (List.mem_cons_of_mem _ hx))

theorem statsTotals_generated (es : List Entry)
    (h : ∀ e ∈ es, e.skipped = true → e.rowsProcessed = 0 ∧ e.bytesProcessed = 0) :
    Gen.statsTotals es = tup (totals es) := by
  unfold Gen.statsTotals totals
  exact statsTotals_fold es {} h

end BloomVerif.Bridge
