/-
  T-gen bridge for the filter-test tree walk: the function regenerated from `evaluateBloomExpression`
  (query_exec.go) equals the model's `Expr.eval` / `Expr.evalOpt` for every tree and every leaf test.
-/
import BloomVerif.Generated.Tree
import BloomVerif.Model.Match
namespace BloomVerif.Bridge
open BloomVerif

variable {C : Type}

mutual
  theorem bloomTree_eq (leaf : C → Bool) : ∀ e : Expr C, Gen.evaluateBloomExpression leaf e = Expr.eval leaf e
    | .mk ty cond ch => by
      simp only [Gen.evaluateBloomExpression, Expr.eval]
      split
      · rfl
      · split
        · cases ch with
          | nil => simp [Expr.evalAny]
          | cons a t => simpa using bloomLoop0_eq leaf (a :: t)
        · split
          · exact bloomLoop1_eq leaf ch
          · rfl
  theorem bloomLoop0_eq (leaf : C → Bool) : ∀ es : List (Expr C), Gen.evaluateBloomExpression_loop0 leaf es = Expr.evalAny leaf es
    | [] => by simp [Gen.evaluateBloomExpression_loop0, Expr.evalAny]
    | e :: es => by
      simp only [Gen.evaluateBloomExpression_loop0, Expr.evalAny, bloomTree_eq leaf e, bloomLoop0_eq leaf es]
      cases Expr.eval leaf e <;> simp
  theorem bloomLoop1_eq (leaf : C → Bool) : ∀ es : List (Expr C), Gen.evaluateBloomExpression_loop1 leaf es = Expr.evalAll leaf es
    | [] => by simp [Gen.evaluateBloomExpression_loop1, Expr.evalAll]
    | e :: es => by
      simp only [Gen.evaluateBloomExpression_loop1, Expr.evalAll, bloomTree_eq leaf e, bloomLoop1_eq leaf es]
      cases Expr.eval leaf e <;> simp
end

/-- `evaluateBloomExpression(filters, expr)` as regenerated is the model's filter-test tree `evalFilt`,
    for the model's leaf test `filtCond f` (a bloom library membership test, trusted). -/
theorem evalFilt_generated (f : Filt) (p : Option BloomExpr) :
    Gen.evaluateBloomExpressionPtr (filtCond f) p = evalFilt f p := by
  cases p with
  | none => rfl
  | some e => simp [Gen.evaluateBloomExpressionPtr, evalFilt, Expr.evalOpt, bloomTree_eq]

end BloomVerif.Bridge
