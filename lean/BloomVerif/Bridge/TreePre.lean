/-
  T-gen bridge for the prefilter tree walk: the function regenerated from `evaluatePrefilterExpression`
  (query.go) — nil test, case constants, empty-OR test, early-return polarity of both loops, default
  verdict all taken from the Go text — equals the model's `Expr.eval` / `Expr.evalOpt`, for every tree and
  every leaf evaluator. Composed with `evalPreCond_bridge`, the whole prefilter evaluation on block
  metadata is the regenerated code.
-/
import BloomVerif.Generated.Tree
import BloomVerif.Bridge.PreCond
namespace BloomVerif.Bridge
open BloomVerif

variable {C : Type}

mutual
  theorem prefilterTree_eq (leaf : C → Bool) : ∀ e : Expr C, Gen.evaluatePrefilterExpression leaf e = Expr.eval leaf e
    | .mk ty cond ch => by
      simp only [Gen.evaluatePrefilterExpression, Expr.eval]
      split
      · rfl
      · split
        · cases ch with
          | nil => simp [Expr.evalAny]
          | cons a t => simpa using prefilterLoop0_eq leaf (a :: t)
        · split
          · exact prefilterLoop1_eq leaf ch
          · rfl
  theorem prefilterLoop0_eq (leaf : C → Bool) : ∀ es : List (Expr C), Gen.evaluatePrefilterExpression_loop0 leaf es = Expr.evalAny leaf es
    | [] => by simp [Gen.evaluatePrefilterExpression_loop0, Expr.evalAny]
    | e :: es => by
      simp only [Gen.evaluatePrefilterExpression_loop0, Expr.evalAny, prefilterTree_eq leaf e, prefilterLoop0_eq leaf es]
      cases Expr.eval leaf e <;> simp
  theorem prefilterLoop1_eq (leaf : C → Bool) : ∀ es : List (Expr C), Gen.evaluatePrefilterExpression_loop1 leaf es = Expr.evalAll leaf es
    | [] => by simp [Gen.evaluatePrefilterExpression_loop1, Expr.evalAll]
    | e :: es => by
      simp only [Gen.evaluatePrefilterExpression_loop1, Expr.evalAll, prefilterTree_eq leaf e, prefilterLoop1_eq leaf es]
      cases Expr.eval leaf e <;> simp
end

/-- `evaluatePrefilterExpression(metadata, expr)` as regenerated, with the regenerated leaf
    `evaluatePrefilterCondition`, is the model's `evalPre` — for every metadata value and every tree. -/
theorem evalPre_generated (m : DataBlockMetadata) (e : Option PreExpr) :
    Gen.evaluatePrefilterExpressionPtr (Gen.evaluatePrefilterCondition m) e = evalPre m e := by
  have hleaf : Gen.evaluatePrefilterCondition m = evalPreCond m := funext (evalPreCond_bridge m)
  cases e with
  | none => rfl
  | some e => simp [Gen.evaluatePrefilterExpressionPtr, evalPre, Expr.evalOpt, prefilterTree_eq, hleaf]

end BloomVerif.Bridge
