/-
  T-gen bridge for `evaluatePrefilterCondition` (query.go): the regenerated definition — pointer
  fields as `Option`, the two-valued map lookup as `List.lookup` — equals the strict hand model
  `evalPreCond` the C02/C04/C24 theorems are stated about.
-/
import BloomVerif.Bridge.Leaf
import BloomVerif.Model.PreTree
namespace BloomVerif.Bridge
open BloomVerif

theorem evalPreCond_bridge (m : DataBlockMetadata) (c : PrefilterCondition) :
    Gen.evaluatePrefilterCondition m c = evalPreCond m c := by
  unfold Gen.evaluatePrefilterCondition evalPreCond lookupMM
  by_cases h1 : c.ConditionType = "PARTITION"
  · simp only [h1, if_true]
    cases hp : c.PartitionCondition with
    | none => simp
    | some sc =>
      by_cases h2 : m.PartitionID = "" <;> simp [h2, evalString_bridge]
  · simp only [h1, if_false]
    by_cases h3 : c.ConditionType = "MINMAX"
    · simp only [h3, if_true]
      cases hm : c.MinMaxCondition with
      | none => simp
      | some nc =>
        cases hl : List.lookup c.MinMaxFieldName m.MinMaxIndexes with
        | none => simp
        | some mm => simp [evalMinMax_bridge]
    · simp [h3]

end BloomVerif.Bridge
