/-
  M6: byte framing of the file format — the length-prefixed row section (`BlockRowScanner`, the
  writers in ingest.go / merge.go), the layout arithmetic of a written file (row data blocks from
  offset 0, then the block filter region with one section per block in block order), and the
  bounds checks (`FileMetadata.validate`, `validateFilterSection`, `planBlockFilterReads`,
  `heldSection`) in exact integer arithmetic.
-/
import BloomVerif.Model.Types
namespace BloomVerif

abbrev Bytes := List UInt8

/-- Little-endian uint32. -/
def u32le (n : Nat) : Bytes :=
  [UInt8.ofNat (n % 256), UInt8.ofNat (n / 256 % 256), UInt8.ofNat (n / 65536 % 256), UInt8.ofNat (n / 16777216 % 256)]

def u32dec (a b c d : UInt8) : Nat := a.toNat + 256 * b.toNat + 65536 * c.toNat + 16777216 * d.toNat

/-- A row data section as ingest and merge write it: for each row, its length as uint32 LE, then
    its bytes. -/
def encodeRows : List Bytes → Bytes
  | [] => []
  | r :: rs => u32le r.length ++ r ++ encodeRows rs

inductive ScanErr | truncatedPrefix | lengthExceeds
deriving Repr, DecidableEq

/-- `BlockRowScanner.Next` iterated to exhaustion. `fuel` bounds the number of rows (any value ≥ the
    section length suffices). -/
def scanRows : Nat → Bytes → Except ScanErr (List Bytes)
  | 0, _ => .ok []
  | fuel + 1, data =>
    match data with
    | [] => .ok []
    | a :: b :: c :: d :: rest =>
      let n := u32dec a b c d
      if n > rest.length then .error .lengthExceeds
      else match scanRows fuel (rest.drop n) with
        | .ok rs => .ok (rest.take n :: rs)
        | .error e => .error e
    | _ => .error .truncatedPrefix

/-- Sizes of one block as written: compressed row data and filter section. -/
structure BlockSize where
  rowData : Nat
  filter : Nat
deriving Repr

def sumRow (bs : List BlockSize) : Nat := (bs.map (·.rowData)).sum
def sumFilter (bs : List BlockSize) : Nat := (bs.map (·.filter)).sum

/-- Block metadata offsets as flush / merge compute them: row data at the running row offset,
    filter section at region start + running section offset. -/
def layoutBlocks (region : Nat) : Nat → Nat → List BlockSize → List DataBlockMetadata
  | _, _, [] => []
  | rowOff, secOff, b :: bs =>
    { RowDataOffset := rowOff, RowDataSize := b.rowData,
      BloomFilterOffset := region + secOff, BloomFilterSize := b.filter } ::
      layoutBlocks region (rowOff + b.rowData) (secOff + b.filter) bs

/-- The metadata of a written file. -/
def layout (bs : List BlockSize) : FileMetadata :=
  { BlockFilterRegionOffset := sumRow bs, BlockFilterRegionSize := sumFilter bs,
    DataBlocks := layoutBlocks (sumRow bs) 0 0 bs }

/-- `validateFilterSection` in exact arithmetic. -/
def validSection (b : DataBlockMetadata) (regionOffset regionEnd : Int) : Bool :=
  if b.BloomFilterSize < 0 then false
  else if b.BloomFilterSize = 0 then true
  else decide (regionOffset ≤ b.BloomFilterOffset ∧ b.BloomFilterOffset ≤ regionEnd ∧
               b.BloomFilterSize ≤ regionEnd - b.BloomFilterOffset)

/-- `FileMetadata.validate` in exact arithmetic. -/
def validFile (m : FileMetadata) (dataLimit : Int) : Bool :=
  decide (0 ≤ m.BlockFilterRegionOffset ∧ 0 ≤ m.BlockFilterRegionSize ∧ 0 ≤ dataLimit ∧
          m.BlockFilterRegionOffset ≤ dataLimit ∧ m.BlockFilterRegionSize ≤ dataLimit - m.BlockFilterRegionOffset) &&
  m.DataBlocks.all (fun b =>
    decide (0 ≤ b.RowDataOffset ∧ 0 ≤ b.RowDataSize ∧ b.RowDataOffset ≤ m.BlockFilterRegionOffset ∧
            b.RowDataSize ≤ m.BlockFilterRegionOffset - b.RowDataOffset) &&
    validSection b m.BlockFilterRegionOffset (m.BlockFilterRegionOffset + m.BlockFilterRegionSize))

/-- All framing fields are Go `int`/`int64` values. -/
def BlockI64 (b : DataBlockMetadata) : Prop :=
  InI64 b.RowDataOffset ∧ InI64 b.RowDataSize ∧ InI64 b.BloomFilterOffset ∧ InI64 b.BloomFilterSize

def FileI64 (m : FileMetadata) : Prop :=
  InI64 m.BlockFilterRegionOffset ∧ InI64 m.BlockFilterRegionSize ∧ ∀ b ∈ m.DataBlocks, BlockI64 b

/-- What acceptance must guarantee: every extent a reader seeks or allocates by lies inside the
    data area `[0, dataLimit]`. -/
def InBounds (m : FileMetadata) (dataLimit : Int) : Prop :=
  0 ≤ m.BlockFilterRegionOffset ∧ 0 ≤ m.BlockFilterRegionSize ∧
  m.BlockFilterRegionOffset + m.BlockFilterRegionSize ≤ dataLimit ∧
  ∀ b ∈ m.DataBlocks,
    (0 ≤ b.RowDataOffset ∧ 0 ≤ b.RowDataSize ∧ b.RowDataOffset + b.RowDataSize ≤ m.BlockFilterRegionOffset) ∧
    (0 ≤ b.BloomFilterSize ∧ (b.BloomFilterSize > 0 →
       m.BlockFilterRegionOffset ≤ b.BloomFilterOffset ∧
       b.BloomFilterOffset + b.BloomFilterSize ≤ m.BlockFilterRegionOffset + m.BlockFilterRegionSize))

/-- `heldSection`: does the chunk `[chunkStart, chunkStart+bufLen)` cover the block's section in
    full? Returns the slice bounds inside the buffer. -/
def heldSection (b : DataBlockMetadata) (chunkStart bufLen : Int) : Option (Int × Int) :=
  let off := b.BloomFilterOffset - chunkStart
  if off < 0 ∨ off > bufLen ∨ b.BloomFilterSize > bufLen - off then none
  else some (off, off + b.BloomFilterSize)

/-- `readChunkFrom`: the extent of the chunk read for block `i` — start at its section, extended
    over the following sections while they stay within `target` bytes of the start (sections with
    size 0 are skipped; the first section behind the start, past the cap, or invalid ends the
    extension). Returns (start, end). -/
def chunkExtend (target : Int) (regionStart regionEnd start : Int) : Int → List DataBlockMetadata → Int
  | e, [] => e
  | e, nb :: rest =>
    if nb.BloomFilterSize = 0 then chunkExtend target regionStart regionEnd start e rest
    else if !validSection nb regionStart regionEnd then e
    else
      let ns := nb.BloomFilterOffset
      let ne := ns + nb.BloomFilterSize
      if ns < start ∨ ne - start > target then e
      else chunkExtend target regionStart regionEnd start (if ne > e then ne else e) rest

def chunkFor (target regionStart regionEnd : Int) (b : DataBlockMetadata) (following : List DataBlockMetadata) : Int × Int :=
  (b.BloomFilterOffset,
   chunkExtend target regionStart regionEnd b.BloomFilterOffset (b.BloomFilterOffset + b.BloomFilterSize) following)

end BloomVerif
