/-
  M10 (C14): queries concurrent with flushes and merges. Rows are abstract identities (Nat); a file is
  an immutable list of rows once published. Two metastore disciplines are modelled:
  * `Mem`: MemoryMetaStore — the committed set changes atomically (Update) and a query takes one
    snapshot of it, then opens the snapshot's files in the data store (a missing file is an error);
  * `Dir`: FileSystemDataStore as MetaStore — the committed set IS the directory; a query lists the
    directory once, then reads each listed file when it reaches it and silently skips a file that is
    gone by then.
-/
namespace BloomVerif.Snapshot

abbrev FileId := Nat
abbrev Row := Nat

structure Query where
  ackedAtStart : List Row          -- rows acknowledged when Query() was called
  snap : Option (List FileId) := none   -- the snapshot / directory listing, once taken
  todo : List FileId := []         -- listed files not yet opened
  got : List Row := []
  err : Bool := false
deriving Repr, DecidableEq

structure St where
  pub : List (FileId × List Row) := []   -- every file ever published (content is immutable)
  live : List FileId := []               -- published and not tombstoned / removed
  committed : List FileId := []               -- MemoryMetaStore's committed set (unused by `Dir`)
  acked : List Row := []
  q : Option Query := none
deriving Repr, DecidableEq

def St.content (s : St) (f : FileId) : List Row := (s.pub.lookup f).getD []
def St.rowsOf (s : St) (fs : List FileId) : List Row := fs.flatMap s.content

inductive Ev
  | publish (f : FileId) (rows : List Row)     -- DataStore Close succeeded
  | commitFlush (f : FileId)                   -- MetaStore.Update(write f); the batch is acknowledged after it
  | commitMerge (outs srcs : List FileId)      -- MetaStore.Update(write outs, delete srcs), atomic
  | tombstone (f : FileId)
  | qBegin
  | qSnap
  | qOpen (f : FileId)
deriving Repr, DecidableEq

/-- `a` and `b` hold the same rows with the same multiplicities. -/
def sameRows (a b : List Row) : Bool := a.all (fun r => a.count r == b.count r) && b.all (fun r => a.count r == b.count r)

/-- One step with MemoryMetaStore; `none` when the environment assumptions of the event fail. `m` is the
    query's row predicate. -/
def Mem.step (m : Row → Bool) (s : St) : Ev → Option St
  | .publish f rows =>
    if (s.pub.lookup f).isSome then none
    else some { s with pub := s.pub ++ [(f, rows)], live := s.live ++ [f] }
  | .commitFlush f =>
    -- a flushed file is live, not yet committed, and holds new, distinct rows only
    if s.live.contains f && !s.committed.contains f && decide (s.content f).Nodup && (s.content f).all (fun r => !s.acked.contains r)
    then some { s with committed := s.committed ++ [f], acked := s.acked ++ s.content f } else none
  | .commitMerge outs srcs =>
    -- merge preconditions (C11/C13): sources committed, outputs live and uncommitted, same rows
    if srcs.all s.committed.contains && srcs.Nodup && outs.Nodup && outs.all (fun f => s.live.contains f && !s.committed.contains f) &&
       sameRows (s.rowsOf outs) (s.rowsOf srcs)
    then some { s with committed := s.committed.filter (fun f => !srcs.contains f) ++ outs } else none
  | .tombstone f =>
    -- the engine tombstones only files that are not (or no longer) committed
    if s.committed.contains f then none else some { s with live := s.live.filter (· != f) }
  | .qBegin => match s.q with
    | some _ => none
    | none => some { s with q := some { ackedAtStart := s.acked } }
  | .qSnap => match s.q with
    | some q => if q.snap.isSome then none else some { s with q := some { q with snap := some s.committed, todo := s.committed } }
    | none => none
  | .qOpen f => match s.q with
    | some q =>
      if !(q.snap.getD []).contains f then none
      else if !s.live.contains f then some { s with q := some { q with todo := q.todo.filter (· != f), err := true } }
      else if q.todo.contains f
        then some { s with q := some { q with todo := q.todo.filter (· != f), got := q.got ++ (s.content f).filter m } }
        else some s          -- re-opening a file whose rows were already delivered
    | none => none

def Mem.run (m : Row → Bool) : St → List Ev → Option St
  | s, [] => some s
  | s, e :: es => match Mem.step m s e with
    | some s' => Mem.run m s' es
    | none => none

/-- One step with the directory as MetaStore: publishing makes a file visible at once, committing is
    implicit, a merge's deletions happen one at a time (`tombstone`), and a listed file that is gone is
    skipped without an error. -/
def Dir.step (m : Row → Bool) (s : St) : Ev → Option St
  | .publish f rows =>
    if (s.pub.lookup f).isSome then none
    else some { s with pub := s.pub ++ [(f, rows)], live := s.live ++ [f] }
  | .commitFlush f => if s.live.contains f then some { s with acked := s.acked ++ s.content f } else none
  | .commitMerge _ _ => some s
  | .tombstone f => some { s with live := s.live.filter (· != f) }
  | .qBegin => match s.q with
    | some _ => none
    | none => some { s with q := some { ackedAtStart := s.acked } }
  | .qSnap => match s.q with
    | some q => if q.snap.isSome then none else some { s with q := some { q with snap := some s.live, todo := s.live } }
    | none => none
  | .qOpen f => match s.q with
    | some q =>
      if !q.todo.contains f then none
      else if s.live.contains f
        then some { s with q := some { q with todo := q.todo.filter (· != f), got := q.got ++ (s.content f).filter m } }
        else some { s with q := some { q with todo := q.todo.filter (· != f) } }     -- silently skipped
    | none => none

def Dir.run (m : Row → Bool) : St → List Ev → Option St
  | s, [] => some s
  | s, e :: es => match Dir.step m s e with
    | some s' => Dir.run m s' es
    | none => none

/-- The query has run to completion without an error. -/
def finishedOk (s : St) : Option Query :=
  match s.q with
  | some q => if q.snap.isSome && q.todo.isEmpty && !q.err then some q else none
  | none => none

end BloomVerif.Snapshot
