/-
  M9: a POSIX-like directory (paths bound to inodes, data in inodes) and FileSystemDataStore's
  operations on it: CreateFile with a name-draw loop and an exclusive 0-byte reservation,
  rename-on-Close, Abort, TombstoneFile, OpenFile and the directory scan. Crash semantics (a durable
  view next to the current one) are layered on top for C15.
-/
import BloomVerif.Model.Format
namespace BloomVerif.FSStore

structure FS where
  names : List (String × Nat) := []     -- path → inode
  inodes : List (Nat × Bytes) := []     -- inode → data (an unlinked inode keeps its data while open)
  next : Nat := 0
deriving Repr, DecidableEq

def FS.lookup (fs : FS) (p : String) : Option Nat := fs.names.lookup p
def FS.data (fs : FS) (i : Nat) : Bytes := (fs.inodes.lookup i).getD []

/-- open(O_CREAT|O_EXCL): fails if the path exists. -/
def FS.createExcl (fs : FS) (p : String) : Option (FS × Nat) :=
  match fs.lookup p with
  | some _ => none
  | none => some ({ fs with names := fs.names ++ [(p, fs.next)], inodes := fs.inodes ++ [(fs.next, [])], next := fs.next + 1 }, fs.next)

def FS.append (fs : FS) (i : Nat) (bs : Bytes) : FS :=
  { fs with inodes := fs.inodes.map (fun x => if x.1 == i then (i, x.2 ++ bs) else x) }

def FS.remove (fs : FS) (p : String) : FS := { fs with names := fs.names.filter (fun x => x.1 != p) }

/-- rename(2): replaces the destination; fails if the source does not exist. -/
def FS.rename (fs : FS) (a b : String) : Option FS :=
  match fs.lookup a with
  | none => none
  | some i => some { fs with names := (fs.names.filter (fun x => x.1 != a && x.1 != b)) ++ [(b, i)] }

def dat (base : String) : String := base ++ ".dat"
def tmp (base : String) : String := base ++ ".tmp"

structure Writer where
  base : String
  ino : Nat                 -- the inode its open handle refers to
  closed : Bool := false    -- Close was called (successfully or not) or Abort ran
  published : Bool := false
deriving Repr, DecidableEq

structure St where
  fs : FS := {}
  writers : List Writer := []   -- indexed by creation order
deriving Repr, DecidableEq

inductive Op
  | create (draws : List String)     -- CreateFile; the name draws it will see, in order
  | write (w : Nat) (bs : Bytes)
  | close (w : Nat)
  | abort (w : Nat)
  | tombstone (base : String)
  | open_ (base : String)
deriving Repr

inductive Res
  | ok
  | created (base : String)
  | data (bs : Bytes)
  | err
deriving Repr, DecidableEq

/-- The draw loop of CreateFile. -/
def createLoop (fs : FS) : List String → Option (FS × String × Nat)
  | [] => none
  | b :: rest =>
    match fs.createExcl (dat b) with
    | none => createLoop fs rest                       -- name taken: redraw
    | some (fs1, _) =>
      match fs1.createExcl (tmp b) with
      | none => createLoop (fs1.remove (dat b)) rest   -- orphaned .tmp: release the reservation, redraw
      | some (fs2, i) => some (fs2, b, i)

def setWriter (ws : List Writer) (k : Nat) (w : Writer) : List Writer := ws.set k w

def step (s : St) : Op → St × Res
  | .create draws =>
    match createLoop s.fs draws with
    | none => (s, .err)
    | some (fs', b, i) => ({ fs := fs', writers := s.writers ++ [⟨b, i, false, false⟩] }, .created b)
  | .write k bs =>
    match s.writers[k]? with
    | some w => if w.closed then (s, .err) else ({ s with fs := s.fs.append w.ino bs }, .ok)
    | none => (s, .err)
  | .close k =>
    match s.writers[k]? with
    | some w =>
      if w.closed then (s, .err)
      else match s.fs.rename (tmp w.base) (dat w.base) with
        | none => ({ s with writers := setWriter s.writers k { w with closed := true } }, .err)
        | some fs' => ({ fs := fs', writers := setWriter s.writers k { w with closed := true, published := true } }, .ok)
    | none => (s, .err)
  | .abort k =>
    match s.writers[k]? with
    | some w =>
      if w.published then (s, .ok)
      else ({ fs := (s.fs.remove (tmp w.base)).remove (dat w.base), writers := setWriter s.writers k { w with closed := true } }, .ok)
    | none => (s, .err)
  | .tombstone b => ({ s with fs := (s.fs.remove (dat b)).remove (tmp b) }, .ok)
  | .open_ b =>
    match s.fs.lookup (dat b) with
    | some i => (s, .data (s.fs.data i))
    | none => (s, .err)

def runOps : St → List Op → St × List Res
  | s, [] => (s, [])
  | s, o :: os =>
    let r := step s o
    let r2 := runOps r.1 os
    (r2.1, r.2 :: r2.2)

/-- The directory as a scan sees it: every path with its content, sorted by the caller. -/
def listing (fs : FS) : List (String × Bytes) := fs.names.map (fun x => (x.1, fs.data x.2))

/-- Abstract specification state of one pointer. -/
inductive PStatus
  | gone
  | writing (bs : Bytes)      -- reserved, being written: invisible to scans (0-byte reservation)
  | published (bs : Bytes)
deriving Repr, DecidableEq

end BloomVerif.FSStore
