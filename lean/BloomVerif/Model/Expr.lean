/-
  M2/M12: the expression-tree shape shared by bloom, regex and prefilter expressions
  (`ExpressionType`, optional `Condition`, `Children`) and the engine's evaluation conventions:
  a nil expression and a CONDITION node without a condition are true, OR is `any` (so an empty
  OR is false), AND is `all` (so an empty AND is true), and an unknown node type is false.
-/
namespace BloomVerif

inductive Expr (C : Type) where
  | mk (ty : String) (cond : Option C) (children : List (Expr C))
deriving Repr

namespace Expr
variable {C : Type}

def ty : Expr C → String | .mk t _ _ => t
def cond : Expr C → Option C | .mk _ c _ => c
def children : Expr C → List (Expr C) | .mk _ _ ch => ch

mutual
  /-- `evaluatePrefilterExpression` / `matchesBloomExpression` / `evaluateBloomExpression` /
      `matchesRegexExpression`: all four have this shape. -/
  def eval (leaf : C → Bool) : Expr C → Bool
    | .mk ty cond ch =>
      if ty = "CONDITION" then (match cond with | none => true | some c => leaf c)
      else if ty = "OR" then evalAny leaf ch
      else if ty = "AND" then evalAll leaf ch
      else false
  def evalAny (leaf : C → Bool) : List (Expr C) → Bool
    | [] => false
    | e :: es => eval leaf e || evalAny leaf es
  def evalAll (leaf : C → Bool) : List (Expr C) → Bool
    | [] => true
    | e :: es => eval leaf e && evalAll leaf es
end

/-- A nil expression pointer (absent expression) is true. -/
def evalOpt (leaf : C → Bool) : Option (Expr C) → Bool
  | none => true
  | some e => eval leaf e

mutual
  /-- `P` holds of every condition occurring anywhere in the tree. -/
  def Forall (P : C → Prop) : Expr C → Prop
    | .mk _ cond ch => (∀ c, cond = some c → P c) ∧ ForallL P ch
  def ForallL (P : C → Prop) : List (Expr C) → Prop
    | [] => True
    | e :: es => Forall P e ∧ ForallL P es
end

def ForallOpt (P : C → Prop) : Option (Expr C) → Prop
  | none => True
  | some e => Forall P e

mutual
  /-- Number of nodes (used by generators and the flatten theorems). -/
  def size : Expr C → Nat
    | .mk _ _ ch => 1 + sizeL ch
  def sizeL : List (Expr C) → Nat
    | [] => 0
    | e :: es => size e + sizeL es
end

theorem evalAny_eq_any (leaf : C → Bool) (l : List (Expr C)) : evalAny leaf l = l.any (eval leaf) := by
  induction l with
  | nil => simp [evalAny]
  | cons a t ih => simp [evalAny, ih]

theorem evalAll_eq_all (leaf : C → Bool) (l : List (Expr C)) : evalAll leaf l = l.all (eval leaf) := by
  induction l with
  | nil => simp [evalAll]
  | cons a t ih => simp [evalAll, ih]

mutual
  /-- Evaluation is monotone in the leaf verdicts: there is no negation in the tree. -/
  theorem eval_mono (l1 l2 : C → Bool) (P : C → Prop)
      (h : ∀ c, P c → l1 c = true → l2 c = true) :
      ∀ e : Expr C, Forall P e → eval l1 e = true → eval l2 e = true
    | .mk ty cond ch => by
      intro hp
      simp only [eval]
      split
      · cases cond with
        | none => intro _; rfl
        | some c => exact h c (hp.1 c rfl)
      · split
        · exact evalAny_mono l1 l2 P h ch hp.2
        · split
          · exact evalAll_mono l1 l2 P h ch hp.2
          · exact id
  theorem evalAny_mono (l1 l2 : C → Bool) (P : C → Prop)
      (h : ∀ c, P c → l1 c = true → l2 c = true) :
      ∀ es : List (Expr C), ForallL P es → evalAny l1 es = true → evalAny l2 es = true
    | [] => by intro _ h'; exact h'
    | e :: es => by
      intro hp
      simp only [evalAny, Bool.or_eq_true]
      intro h'
      cases h' with
      | inl a => exact Or.inl (eval_mono l1 l2 P h e hp.1 a)
      | inr a => exact Or.inr (evalAny_mono l1 l2 P h es hp.2 a)
  theorem evalAll_mono (l1 l2 : C → Bool) (P : C → Prop)
      (h : ∀ c, P c → l1 c = true → l2 c = true) :
      ∀ es : List (Expr C), ForallL P es → evalAll l1 es = true → evalAll l2 es = true
    | [] => by intro _ _; rfl
    | e :: es => by
      intro hp
      simp only [evalAll, Bool.and_eq_true]
      intro h'
      exact ⟨eval_mono l1 l2 P h e hp.1 h'.1, evalAll_mono l1 l2 P h es hp.2 h'.2⟩
end

theorem evalOpt_mono (l1 l2 : C → Bool) (P : C → Prop)
    (h : ∀ c, P c → l1 c = true → l2 c = true) (e : Option (Expr C)) (hp : ForallOpt P e) :
    evalOpt l1 e = true → evalOpt l2 e = true := by
  cases e with
  | none => intro _; rfl
  | some e => exact eval_mono l1 l2 P h e hp

end Expr
end BloomVerif
