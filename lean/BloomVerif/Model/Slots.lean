/-
  M11 (C22): the global query semaphore and the worker programs that use it. A file worker holds a
  slot only for its filter pass; a block worker holds one while it reads and scans, and gives it up
  before it blocks on a slow consumer (`Results.deliver`) — occupancy toggles, it never nests.
-/
namespace BloomVerif.Slots

/-- Where a worker is in its program. -/
inductive Phase
  | idle            -- between jobs, no slot
  | working         -- holds a slot, not inside a DataStore read
  | reading         -- inside a DataStore read (holds a slot)
  | blocked         -- blocked on delivery / dispatch, slot released
  | done
deriving Repr, DecidableEq

structure St where
  cap : Nat
  workers : List Phase
deriving Repr

def held (p : Phase) : Bool := p == .working || p == .reading

def heldCount (s : St) : Nat := (s.workers.filter held).length
def readingCount (s : St) : Nat := (s.workers.filter (· == .reading)).length

inductive Ev
  | spawn                 -- a new worker (query concurrency is unbounded in workers; the semaphore bounds I/O)
  | acquire (i : Nat)     -- slot.acquire succeeded (sem had room)
  | release (i : Nat)     -- slot.release
  | readBegin (i : Nat)
  | readEnd (i : Nat)
  | block (i : Nat)       -- deliver/dispatch found the channel full: release, then block
  | unblock (i : Nat)     -- the send completed; the worker is about to re-acquire
  | exit (i : Nat)
deriving Repr

def setAt (l : List Phase) (i : Nat) (p : Phase) : List Phase := l.set i p

def step (s : St) : Ev → Option St
  | .spawn => some { s with workers := s.workers ++ [.idle] }
  | .acquire i =>
    if s.workers[i]? = some .idle && decide (heldCount s < s.cap) then some { s with workers := setAt s.workers i .working } else none
  | .release i =>
    if s.workers[i]? = some .working then some { s with workers := setAt s.workers i .idle } else none
  | .readBegin i =>
    if s.workers[i]? = some .working then some { s with workers := setAt s.workers i .reading } else none
  | .readEnd i =>
    if s.workers[i]? = some .reading then some { s with workers := setAt s.workers i .working } else none
  | .block i =>
    if s.workers[i]? = some .working then some { s with workers := setAt s.workers i .blocked } else none
  | .unblock i =>
    if s.workers[i]? = some .blocked then some { s with workers := setAt s.workers i .idle } else none
  | .exit i =>
    if s.workers[i]? = some .idle then some { s with workers := setAt s.workers i .done } else none

def run : St → List Ev → Option St
  | s, [] => some s
  | s, e :: es => match step s e with | none => none | some s' => run s' es

end BloomVerif.Slots
