/-
  `blockMergeKey` (merge.go): the bucket key of a block for merge planning — the partition id and the
  sorted set of its minmax key names, each prefixed with its byte length as a uvarint
  (`binary.AppendUvarint`). Strings are Go strings, i.e. byte sequences; bytes are modelled as `Nat`.
  Core Lean only.
-/
namespace BloomVerif.MergeKey

/-- `binary.AppendUvarint(nil, n)`: seven bits per byte, low group first, continuation bit 0x80 on
    every byte but the last. -/
def uvarint (n : Nat) : List Nat :=
  if n < 128 then [n] else (n % 128 + 128) :: uvarint (n / 128)
termination_by n
decreasing_by omega

/-- one length-prefixed string -/
def lenPrefixed (s : List Nat) : List Nat := uvarint s.length ++ s

/-- the key bytes for a partition id and an already sorted list of minmax key names -/
def encodeKey (partition : List Nat) (keys : List (List Nat)) : List Nat :=
  lenPrefixed partition ++ keys.flatMap lenPrefixed

/-- bytewise lexicographic order, as `sort.Strings` uses -/
def leBytes (a b : List Nat) : Bool := decide (a ≤ b)

/-- `blockMergeKey`: the map's key names (in whatever order iteration yields them) are sorted first. -/
def blockMergeKey (partition : List Nat) (keyNames : List (List Nat)) : List Nat :=
  encodeKey partition (keyNames.mergeSort leBytes)

end BloomVerif.MergeKey
