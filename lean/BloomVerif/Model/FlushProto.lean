/-
  M7/M8: the store-call protocols of one flush request and of one merge, with a failure outcome
  per call. Calls are numbered in the order they are issued (cleanup calls included); `fail k`
  says whether the k-th call fails. The result is the call log, the acknowledgement / return value
  and what became referenced by the MetaStore.
-/
namespace BloomVerif.Proto

inductive Call
  | create | write | close | abort | tombstone | update
  | iter | openR | read | closeR
deriving Repr, DecidableEq

/-- Result of one flush request. -/
structure FlushOut where
  calls : List Call
  ackOk : Bool          -- the value delivered to every waiter is nil
  committed : Bool      -- the file was added to the MetaStore
  published : Bool      -- the writer's Close succeeded (the bytes are in the DataStore)
  tombstoned : Bool     -- TombstoneFile was called for the pointer
deriving Repr, DecidableEq

/-- Write calls of a file with `blocks` data blocks: one per block, one for the filter region and
    six for the footer (file filter section, metadata, hash, length, version, magic). -/
def flushWrites (blocks : Nat) : Nat := blocks + 7

/-- Issue `n` writes starting at call index `i`; returns the index of the first failing write. -/
def firstFailingWrite (fail : Nat → Bool) : Nat → Nat → Option Nat
  | _, 0 => none
  | i, n + 1 => if fail i then some i else firstFailingWrite fail (i + 1) n

/-- `handleFlush` for a request with data (an ack-only request makes no call and acks nil). -/
def flush (blocks : Nat) (hasAbort : Bool) (fail : Nat → Bool) : FlushOut :=
  if fail 0 then { calls := [.create], ackOk := false, committed := false, published := false, tombstoned := false }
  else
    let n := flushWrites blocks
    match firstFailingWrite fail 1 n with
    | some k =>
      -- a write failed: discard the partial file (Abort, or Close when the writer has no Abort), then tombstone
      { calls := [.create] ++ List.replicate k .write ++ [if hasAbort then .abort else .close, .tombstone],
        ackOk := false, committed := false,
        published := !hasAbort && !fail (k + 1),   -- a writer without Abort is closed: that may publish
        tombstoned := true }
    | none =>
      let ci := 1 + n
      if fail ci then
        -- Close failed: Abort if available (Close is not retried), then tombstone
        { calls := [.create] ++ List.replicate n .write ++ [.close] ++ (if hasAbort then [.abort] else []) ++ [.tombstone],
          ackOk := false, committed := false, published := false, tombstoned := true }
      else if fail (ci + 1) then
        { calls := [.create] ++ List.replicate n .write ++ [.close, .update, .tombstone],
          ackOk := false, committed := false, published := true, tombstoned := true }
      else
        { calls := [.create] ++ List.replicate n .write ++ [.close, .update],
          ackOk := true, committed := true, published := true, tombstoned := false }

/-- The four calls whose success a commit needs. -/
def flushEssential (blocks : Nat) (fail : Nat → Bool) : Bool :=
  !fail 0 && (firstFailingWrite fail 1 (flushWrites blocks)).isNone && !fail (1 + flushWrites blocks) && !fail (2 + flushWrites blocks)

-- ---------------------------------------------------------------- merge

/-- One merge as the sequence of calls a fault-free run issues (taken from an observed baseline
    run): the iterator, then per group its calls ending in `close`, then `update`, then one
    `tombstone` per source file. -/
structure MergePlanCalls where
  groups : List (List Call)   -- per group: create, (openR, read*, closeR)*, write*, close
  sources : Nat               -- number of source files (tombstoned after the commit)
deriving Repr

inductive MergeResult
  | ok                    -- (stats, nil)
  | err                   -- (nil, err): nothing committed
  | postCommitErr         -- (stats, ErrPostCommitCleanup)
deriving Repr, DecidableEq

structure MergeOut where
  result : MergeResult
  committed : Bool              -- MetaStore.Update applied: outputs referenced, sources unreferenced
  outputsTombstoned : Nat       -- outputs tombstoned as orphans
  sourcesTombstoneCalls : Nat   -- source tombstone calls issued (only ever after the commit)
deriving Repr, DecidableEq

/-- Does a failure of this call abort the group? Reader `Close` errors are ignored by the engine. -/
def fatalIn (c : Call) : Bool := c != .closeR

/-- Walk the groups; `i` = index of the group's first call, `done` = groups already completed.
    Returns `none` if every group completed, or `some (done, j)`: group number `done` failed at its
    j-th call (j = 0 is its CreateFile). -/
def mergeGroups (fail : Nat → Bool) : Nat → Nat → List (List Call) → Option (Nat × Nat)
  | _, _, [] => none
  | i, done, g :: gs =>
    match (List.range g.length).find? (fun j => fatalIn (g.getD j .closeR) && fail (i + j)) with
    | some j => some (done, j)
    | none => mergeGroups fail (i + g.length) (done + 1) gs

def totalCalls (gs : List (List Call)) : Nat := (gs.map List.length).sum

/-- `merge`: call 0 is the iterator. With no group there is nothing to do. -/
def merge (p : MergePlanCalls) (fail : Nat → Bool) : MergeOut :=
  if fail 0 then { result := .err, committed := false, outputsTombstoned := 0, sourcesTombstoneCalls := 0 }
  else if p.groups.isEmpty then { result := .ok, committed := false, outputsTombstoned := 0, sourcesTombstoneCalls := 0 }
  else match mergeGroups fail 1 0 p.groups with
    | some (done, j) =>
      -- a group failed: its own output (if its CreateFile succeeded) is aborted and tombstoned, the
      -- outputs of the groups completed before it are tombstoned as orphans
      { result := .err, committed := false, outputsTombstoned := done + (if j = 0 then 0 else 1), sourcesTombstoneCalls := 0 }
    | none =>
      let ui := 1 + totalCalls p.groups
      if fail ui then
        { result := .err, committed := false, outputsTombstoned := p.groups.length, sourcesTombstoneCalls := 0 }
      else
        let tfail := (List.range p.sources).any (fun j => fail (ui + 1 + j))
        { result := if tfail then .postCommitErr else .ok, committed := true, outputsTombstoned := 0,
          sourcesTombstoneCalls := p.sources }

end BloomVerif.Proto
