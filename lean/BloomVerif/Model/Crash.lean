/-
  M9 (C15): crash semantics on top of the directory model. The current view (`cur`) is what a running
  process sees; the durable view (`dur`) holds the name bindings as of the last directory fsync and,
  per inode, how many bytes were fsynced. A process crash keeps the current view; a power loss keeps,
  per path, either binding, and of every inode at least its synced prefix.
-/
import BloomVerif.Model.FSStore
namespace BloomVerif.Crash
open BloomVerif BloomVerif.FSStore

structure CFS where
  cur : FS := {}
  dur : List (String × Nat) := []       -- durable name bindings
  synced : List (Nat × Nat) := []       -- inode → number of bytes known durable
deriving Repr, DecidableEq

inductive FOp
  | createExcl (p : String)
  | write (p : String) (bs : Bytes)     -- append through the handle opened on path p
  | fsync (p : String)
  | rename (a b : String)
  | remove (p : String)
  | dirsync
deriving Repr, DecidableEq

def syncedLen (c : CFS) (i : Nat) : Nat := (c.synced.lookup i).getD 0

def step (c : CFS) : FOp → CFS
  | .createExcl p => match c.cur.createExcl p with | some (fs, _) => { c with cur := fs } | none => c
  | .write p bs => match c.cur.lookup p with | some i => { c with cur := c.cur.append i bs } | none => c
  | .fsync p =>
    match c.cur.lookup p with
    | some i => { c with synced := (i, (c.cur.data i).length) :: c.synced }
    | none => c
  | .rename a b => match c.cur.rename a b with | some fs => { c with cur := fs } | none => c
  | .remove p => { c with cur := c.cur.remove p }
  | .dirsync => { c with dur := c.cur.names }

def run (c : CFS) (ops : List FOp) : CFS := ops.foldl step c

/-- A state a new process may find after a crash of `c`. -/
structure Recovered where
  names : List (String × Nat)
  data : Nat → Bytes

/-- Process crash: the kernel keeps everything the process did. -/
def processCrash (c : CFS) : Recovered := ⟨c.cur.names, c.cur.data⟩

/-- Power loss: every path is bound as currently or as at the last directory fsync (or not at all
    if one of the two views lacks it), and every inode holds a prefix of its data no shorter than
    what was fsynced. -/
def PowerLoss (c : CFS) (r : Recovered) : Prop :=
  (∀ p i, r.names.lookup p = some i → c.cur.lookup p = some i ∨ c.dur.lookup p = some i) ∧
  (∀ p, c.cur.lookup p = c.dur.lookup p → r.names.lookup p = c.cur.lookup p) ∧
  (∀ i, ∃ k, syncedLen c i ≤ k ∧ k ≤ (c.cur.data i).length ∧ r.data i = (c.cur.data i).take k)

/-- What a directory scan of the recovered state yields for pointer `b`: the bytes under `b.dat`,
    if bound. -/
def recoveredDat (r : Recovered) (b : String) : Option Bytes := (r.names.lookup (dat b)).map r.data

/-- The filesystem operations of one successful flush of content `d` under base `b`, written in
    `chunks`. -/
def flushOps (b : String) (chunks : List Bytes) : List FOp :=
  [.createExcl (dat b), .createExcl (tmp b)] ++ chunks.map (fun ch => .write (tmp b) ch) ++
  [.fsync (tmp b), .rename (tmp b) (dat b), .dirsync]

/-- … of a flush that is aborted after some of its writes. -/
def abortedFlushOps (b : String) (chunks : List Bytes) : List FOp :=
  [.createExcl (dat b), .createExcl (tmp b)] ++ chunks.map (fun ch => .write (tmp b) ch) ++
  [.remove (tmp b), .remove (dat b)]

/-- … of a merge commit as FileSystemDataStore performs it when it is also the MetaStore: the
    output is published like a flush; the sources are then removed one by one, with no directory fsync. -/
def mergeCommitOps (out : String) (chunks : List Bytes) (srcs : List String) : List FOp :=
  flushOps out chunks ++ srcs.map (fun s => .remove (dat s))

/-- … of a failed flush as the engine drives it: Abort, then TombstoneFile on the same pointer. -/
def failedFlushOps (b : String) (chunks : List Bytes) : List FOp :=
  abortedFlushOps b chunks ++ [.remove (dat b), .remove (tmp b)]

/-- … of a whole merge: the commit, then the engine tombstones every source. -/
def mergeOps (out : String) (chunks : List Bytes) (srcs : List String) : List FOp :=
  mergeCommitOps out chunks srcs ++ srcs.flatMap (fun s => [.remove (dat s), .remove (tmp s)])

end BloomVerif.Crash
