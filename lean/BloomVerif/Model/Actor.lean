/-
  M7: the ingest actor (`processIngestRequest`, `flushBufferedData`, the ticker check) as a
  deterministic step function over messages with logical time. A row is what the actor derives
  from it: an id, its partition ID and its buffered size (marshaled length + 4).
-/
namespace BloomVerif.Actor

structure RowIn where
  id : Nat
  pid : String
  size : Nat
deriving Repr, DecidableEq

structure Part where
  pid : String
  rows : List Nat
  bytes : Nat
deriving Repr, DecidableEq

structure ACfg where
  maxBufRows : Nat      -- MaxBufferedRows
  maxBufBytes : Nat     -- MaxBufferedBytes
  maxGroupRows : Nat    -- MaxRowGroupRows
  maxGroupBytes : Nat   -- MaxRowGroupBytes
  maxTime : Nat         -- MaxBufferedTime (same unit as `now`)
deriving Repr

structure ASt where
  parts : List Part := []
  waiters : List Nat := []
  rows : Nat := 0
  bytes : Nat := 0
  t0 : Option Nat := none
deriving Repr, DecidableEq

inductive Msg
  | batch (w : Nat) (rows : List RowIn) (now : Nat)   -- a batch whose rows all marshal (may be empty)
  | bad (w : Nat)                                     -- a batch with an unmarshalable row
  | force (w : Nat)                                   -- Flush()
  | tick (now : Nat)                                  -- the 100 ms ticker
deriving Repr

inductive Eff
  | ack (w : Nat) (ok : Bool)                         -- immediate answer from the actor
  | flush (parts : List Part) (waiters : List Nat)    -- a flush request handed to the flush worker
deriving Repr, DecidableEq

/-- Append one row to its partition buffer (created at the end when new). -/
def addRow (r : RowIn) : List Part → List Part
  | [] => [⟨r.pid, [r.id], r.size⟩]
  | p :: ps => if p.pid = r.pid then { p with rows := p.rows ++ [r.id], bytes := p.bytes + r.size } :: ps
               else p :: addRow r ps

def addRows (rows : List RowIn) (parts : List Part) : List Part := rows.foldl (fun acc r => addRow r acc) parts

def sumSize (rows : List RowIn) : Nat := (rows.map (·.size)).sum

/-- A partition touched by the batch has reached a row-group limit. -/
def partAtLimit (c : ACfg) (rows : List RowIn) (parts : List Part) : Bool :=
  parts.any (fun p => rows.any (fun r => r.pid = p.pid) &&
    (decide (p.rows.length ≥ c.maxGroupRows) || decide (p.bytes ≥ c.maxGroupBytes)))

def elapsed (c : ACfg) (t0 : Option Nat) (now : Nat) : Bool :=
  match t0 with | some t => decide (now - t ≥ c.maxTime) | none => false

def step (c : ACfg) (s : ASt) : Msg → ASt × List Eff
  | .bad w => (s, [.ack w false])
  | .batch w rows now =>
    if rows.isEmpty then (s, [.ack w true])
    else
      let t0 := (match s.t0 with | some t => some t | none => some now)
      let parts := addRows rows s.parts
      let nrows := s.rows + rows.length
      let nbytes := s.bytes + sumSize rows
      let waiters := s.waiters ++ [w]
      if partAtLimit c rows parts || decide (nrows ≥ c.maxBufRows) || decide (nbytes ≥ c.maxBufBytes) || elapsed c t0 now
      then ({}, [.flush parts waiters])
      else ({ parts := parts, waiters := waiters, rows := nrows, bytes := nbytes, t0 := t0 }, [])
  | .force w => ({}, [.flush s.parts (s.waiters ++ [w])])
  | .tick now =>
    if decide (s.rows > 0) && elapsed c s.t0 now then ({}, [.flush s.parts s.waiters]) else (s, [])

def runMsgs (c : ACfg) : ASt → List Msg → ASt × List Eff
  | s, [] => (s, [])
  | s, m :: ms =>
    let r := step c s m
    let r2 := runMsgs c r.1 ms
    (r2.1, r.2 ++ r2.2)

def partIds (parts : List Part) : List Nat := parts.flatMap (·.rows)

def effIds : List Eff → List Nat
  | [] => []
  | .flush parts _ :: es => partIds parts ++ effIds es
  | .ack _ _ :: es => effIds es

def msgIds : List Msg → List Nat
  | [] => []
  | .batch _ rows _ :: ms => rows.map (·.id) ++ msgIds ms
  | _ :: ms => msgIds ms

/-- Between messages every buffered partition and the whole buffer are strictly under all limits. -/
def UnderLimits (c : ACfg) (s : ASt) : Prop :=
  (∀ p ∈ s.parts, p.rows.length < c.maxGroupRows ∧ p.bytes < c.maxGroupBytes) ∧
  s.rows < c.maxBufRows ∧ s.bytes < c.maxBufBytes

/-- Bookkeeping consistency of the counters with the partition buffers. -/
def Consistent (s : ASt) : Prop :=
  s.rows = (partIds s.parts).length ∧ s.bytes = (s.parts.map (·.bytes)).sum ∧
  (s.rows > 0 → s.t0.isSome = true) ∧ (s.parts.map (·.pid)).Nodup ∧ (∀ p ∈ s.parts, p.rows ≠ [])

end BloomVerif.Actor
