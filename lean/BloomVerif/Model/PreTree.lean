/-
  M3: prefilter conditions and trees evaluated on block metadata (strict semantics), and the
  row-level meaning "the row's own partition ID and indexed numeric values satisfy the prefilter".
-/
import BloomVerif.Model.Expr
import BloomVerif.Model.NumVal
namespace BloomVerif

/-- `PrefilterCondition` of query.go (defined in Types so that the regenerated code can name it). -/
abbrev PreCond := PrefilterCondition

abbrev PreExpr := Expr PreCond

def lookupMM (k : String) (l : List (String × MinMaxIndex)) : Option MinMaxIndex := l.lookup k

/-- `evaluatePrefilterCondition`: strict — a block without a partition ID (without the minmax
    key) cannot satisfy a partition (minmax) condition. -/
def evalPreCond (m : DataBlockMetadata) (c : PreCond) : Bool :=
  if c.ConditionType = "PARTITION" then
    match c.PartitionCondition with
    | none => true
    | some sc => if m.PartitionID = "" then false else evalString m.PartitionID sc
  else if c.ConditionType = "MINMAX" then
    match c.MinMaxCondition with
    | none => true
    | some nc =>
      match lookupMM c.MinMaxFieldName m.MinMaxIndexes with
      | none => false
      | some mm => evalMinMax mm nc
  else false

/-- `EvaluateDataBlockMetadata` (query == nil or Expression == nil ⇒ true). -/
def evalPre (m : DataBlockMetadata) (e : Option PreExpr) : Bool := Expr.evalOpt (evalPreCond m) e

/-- `FilterDataBlocks` with a non-nil query. -/
def filterBlocks (bs : List DataBlockMetadata) (e : Option PreExpr) : List DataBlockMetadata :=
  bs.filter (fun b => evalPre b e)

instance (c : NumericCondition) (v : NumVal) : Decidable (satNum c v) := by
  unfold satNum; split <;> infer_instance

/-- A row as the prefilter sees it: its partition ID ("" = none) and its indexed numeric values
    (the value under each *configured* minmax key that is a non-NaN number). -/
structure RowPre where
  pid : String
  vals : String → Option NumVal

/-- The row's own values satisfy a prefilter condition (exact comparison, no rounding). -/
def rowSatCond (r : RowPre) (c : PreCond) : Bool :=
  if c.ConditionType = "PARTITION" then
    match c.PartitionCondition with
    | none => true
    | some sc => decide (r.pid ≠ "") && evalString r.pid sc
  else if c.ConditionType = "MINMAX" then
    match c.MinMaxCondition with
    | none => true
    | some nc =>
      match r.vals c.MinMaxFieldName with
      | none => false
      | some v => decide (satNum nc v)
  else false

def rowSatPre (r : RowPre) (e : Option PreExpr) : Bool := Expr.evalOpt (rowSatCond r) e

/-- The block's metadata covers the row: same partition ID, and for every indexed value of the
    row the block lists the key with a range containing the value's int64 range. -/
def Covers (m : DataBlockMetadata) (r : RowPre) : Prop :=
  m.PartitionID = r.pid ∧
  ∀ f v, r.vals f = some v → ∃ mm, lookupMM f m.MinMaxIndexes = some mm ∧
    mm.Min ≤ (toRange v).1 ∧ (toRange v).2 ≤ mm.Max

def NumericCondition.WF (c : NumericCondition) : Prop :=
  InI64 c.Value ∧ InI64 c.Min ∧ InI64 c.Max ∧ ∀ x ∈ c.Values, InI64 x

/-- Every numeric operand of the condition is an int64 (true of every Go value of the type). -/
def PreCond.WF (c : PreCond) : Prop := ∀ nc, c.MinMaxCondition = some nc → nc.WF

end BloomVerif
