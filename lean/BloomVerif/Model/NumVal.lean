/-
  M3: the exact numeric value a row carries under a minmax-indexed top-level key, and the
  int64 range `ConvertToMinMaxInt64` derives from it.
-/
import BloomVerif.Model.Prefilter
namespace BloomVerif

/-- A Go numeric value as a mathematical object. `int` covers every integer kind (signed kinds
    are within int64; `uint`/`uint64` go up to 2^64-1); `rat` is a finite float32/float64;
    NaN is excluded (documented as not indexed). -/
inductive NumVal
  | int (i : Int)
  | rat (q : Rat)
  | posInf
  | negInf
deriving Repr

/-- `ConvertToMinMaxInt64` on a non-NaN numeric value: integers map to themselves (unsigned values
    above MaxInt64 saturate), floats to `(clamp ⌊v⌋, clamp ⌈v⌉)`, infinities to the extremes. -/
def toRange : NumVal → Int × Int
  | .int i => (clamp i, clamp i)
  | .rat q => (clamp q.floor, clamp q.ceil)
  | .posInf => (maxInt64, maxInt64)
  | .negInf => (minInt64, minInt64)

def NumVal.lt (v : NumVal) (k : Int) : Prop :=
  match v with | .int i => i < k | .rat q => q < (k : Rat) | .posInf => False | .negInf => True
def NumVal.gt (v : NumVal) (k : Int) : Prop :=
  match v with | .int i => i > k | .rat q => q > (k : Rat) | .posInf => True | .negInf => False
def NumVal.eq (v : NumVal) (k : Int) : Prop :=
  match v with | .int i => i = k | .rat q => q = (k : Rat) | _ => False

instance (v : NumVal) (k : Int) : Decidable (v.lt k) := by cases v <;> unfold NumVal.lt <;> infer_instance
instance (v : NumVal) (k : Int) : Decidable (v.gt k) := by cases v <;> unfold NumVal.gt <;> infer_instance
instance (v : NumVal) (k : Int) : Decidable (v.eq k) := by cases v <;> unfold NumVal.eq <;> infer_instance

/-- "The row's numeric value satisfies the condition", on exact values (no rounding, no
    saturation). Unknown operators are satisfied by nothing. -/
def satNum (c : NumericCondition) (v : NumVal) : Prop :=
  match parseOp c.Operator with
  | some .eq => v.eq c.Value
  | some .ne => ¬ v.eq c.Value
  | some .gt => v.gt c.Value
  | some .gte => ¬ v.lt c.Value
  | some .lt => v.lt c.Value
  | some .lte => ¬ v.gt c.Value
  | some .isIn => ∃ x ∈ c.Values, v.eq x
  | some .notIn => ∀ x ∈ c.Values, ¬ v.eq x
  | some .between => ¬ v.lt c.Min ∧ ¬ v.gt c.Max
  | some .notBetween => v.lt c.Min ∨ v.gt c.Max
  | none => False

end BloomVerif
