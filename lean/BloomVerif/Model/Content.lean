/-
  M4: stored content as values — rows, blocks, files — with the query pipeline (engine-side
  prefilter re-enforcement, file-level bloom test, block-level bloom test, per-row verification),
  and flush / merge as pure functions that build blocks, filters and minmax ranges.
-/
import BloomVerif.Model.Match
import BloomVerif.Model.PreTree
namespace BloomVerif

/-- A stored row: its marshaled JSON and what the prefilter sees of it (partition ID and indexed
    numeric values, both derived from the original Go value at ingest). -/
structure Row where
  json : J
  pre : RowPre

structure Block where
  md : DataBlockMetadata
  rows : List Row
  filt : Filt

structure FileM where
  blocks : List Block
  filt : Filt

structure Query where
  pre : Option PreExpr := none
  bloom : Option BloomExpr := none
  regex : Option RegexExpr := none

/-- Engine parameters the content theorems quantify over: the tokenizer (any function) and Go's
    regexp as an oracle. -/
structure Sem where
  tok : Str → List Str
  re : Str → Str → Bool

def Query.prune (q : Query) : Option BloomExpr := pruneBloom q.bloom q.regex

def rowMatches (s : Sem) (q : Query) (r : Row) : Bool := matchRow s.tok s.re q.bloom q.regex r.json

/-- The blocks of a file the engine keeps after re-applying the prefilter (`FilterDataBlocks`). -/
def keptBlocks (q : Query) (f : FileM) : List Block := f.blocks.filter (fun b => evalPre b.md q.pre)

/-- One candidate file through the pipeline. -/
def queryFile (s : Sem) (q : Query) (f : FileM) : List Row :=
  let bs := keptBlocks q f
  if bs.isEmpty then []
  else if !evalFilt f.filt q.prune then []
  else bs.flatMap (fun b => if !evalFilt b.filt q.prune then [] else b.rows.filter (rowMatches s q))

/-- `Query`: the rows returned (as a list; order is not part of any property). -/
def query (s : Sem) (files : List FileM) (q : Query) : List Row := files.flatMap (queryFile s q)

def allRows (files : List FileM) : List Row := files.flatMap (fun f => f.blocks.flatMap (·.rows))

/-- Rows of the blocks whose metadata satisfies the prefilter (strict leaf semantics). -/
def selectedRows (files : List FileM) (q : Query) : List Row :=
  files.flatMap (fun f => (keptBlocks q f).flatMap (·.rows))

/-- A filter answers true for everything in the entry list. -/
def FiltCoversList (t : Option (Str → Bool)) (l : List Str) : Prop :=
  ∀ g, t = some g → ∀ x ∈ l, g x = true

def FiltCovers (f : Filt) (en : Entries) : Prop :=
  FiltCoversList f.field en.fields ∧ FiltCoversList f.token en.tokens ∧
  FiltCoversList f.fieldToken en.fieldTokens

/-- Index coverage of one block: its filters contain every entry of every row, its metadata
    covers every row (partition ID, minmax ranges). -/
def BlockWF (s : Sem) (b : Block) : Prop :=
  ∀ r ∈ b.rows, Covers b.md r.pre ∧ FiltCovers b.filt (rowEntries s.tok r.json)

/-- Index coverage of a file: every block is covered, and the file-level filters contain every
    entry of every row of every block. -/
def FileWF (s : Sem) (f : FileM) : Prop :=
  ∀ b ∈ f.blocks, BlockWF s b ∧ ∀ r ∈ b.rows, FiltCovers f.filt (rowEntries s.tok r.json)

/-- The query compiles (otherwise `Query` fails fast and returns no cursor at all). -/
def Query.Valid (reOK : Str → Bool) (q : Query) : Prop :=
  ∀ e, q.regex = some e → rxValid reOK e = true

-- ---------------------------------------------------------------- building blocks and files

/-- How filters are built from an entry list (`buildSizedBloomFilter` + serialization round trip).
    Soundness — everything inserted tests positive — is the one thing assumed of the bloom library. -/
def SoundBuild (build : List Str → (Str → Bool)) : Prop := ∀ l x, x ∈ l → build l x = true

def unionEntries (ens : List Entries) : Entries :=
  { fields := ens.flatMap (·.fields), tokens := ens.flatMap (·.tokens), fieldTokens := ens.flatMap (·.fieldTokens) }

def buildFilt (build : List Str → (Str → Bool)) (en : Entries) : Filt :=
  { field := some (build en.fields), token := some (build en.tokens), fieldToken := some (build en.fieldTokens) }

/-- Fold one row's indexed value into the block's minmax map (`processIngestRequest`). -/
def mmInsert (k : String) (lo hi : Int) : List (String × MinMaxIndex) → List (String × MinMaxIndex)
  | [] => [(k, ⟨lo, hi⟩)]
  | (k', mm) :: r => if k' = k then (k', updateMinMax mm lo hi) :: r else (k', mm) :: mmInsert k lo hi r

/-- The minmax map of a block: every configured key some row provides as a non-NaN number, with
    the union of the rows' int64 ranges. -/
def blockMinMax (keys : List String) (rows : List Row) : List (String × MinMaxIndex) :=
  rows.foldl (fun acc r =>
    keys.foldl (fun acc k => match r.pre.vals k with
      | none => acc
      | some v => mmInsert k (toRange v).1 (toRange v).2 acc) acc) []

/-- A block as flush builds it from the rows buffered for one partition. -/
def mkBlock (s : Sem) (build : List Str → (Str → Bool)) (keys : List String) (pid : String) (rows : List Row) : Block :=
  { md := { PartitionID := pid, Rows := rows.length, MinMaxIndexes := blockMinMax keys rows },
    rows := rows,
    filt := buildFilt build (unionEntries (rows.map (fun r => rowEntries s.tok r.json))) }

/-- Flush: one block per partition buffer, file filters from the union of the blocks' entries. -/
def flushFile (s : Sem) (build : List Str → (Str → Bool)) (keys : List String) (parts : List (String × List Row)) : FileM :=
  { blocks := parts.map (fun p => mkBlock s build keys p.1 p.2),
    filt := buildFilt build (unionEntries (parts.flatMap (fun p => p.2.map (fun r => rowEntries s.tok r.json)))) }

/-- Union of two blocks' minmax maps (`mergeMinMaxIndexes`). -/
def mergeMM (a b : List (String × MinMaxIndex)) : List (String × MinMaxIndex) :=
  b.foldl (fun acc p => mmInsert p.1 p.2.Min p.2.Max acc) a

/-- A merge group: blocks that are combined into one block (a singleton group is copied verbatim). -/
def mergeGroup (s : Sem) (build : List Str → (Str → Bool)) (g : List Block) : Option Block :=
  match g with
  | [] => none
  | [b] => some b
  | b :: rest =>
    let rows := (b :: rest).flatMap (·.rows)
    some { md := { PartitionID := b.md.PartitionID, Rows := rows.length,
                     MinMaxIndexes := rest.foldl (fun acc x => mergeMM acc x.md.MinMaxIndexes) b.md.MinMaxIndexes },
           rows := rows,
           filt := buildFilt build (unionEntries (rows.map (fun r => rowEntries s.tok r.json))) }

/-- The output file of one file merge group, given a grouping of its blocks: each group becomes
    one block; the file filters are rebuilt from every row (copied blocks included). -/
def mergeFile (s : Sem) (build : List Str → (Str → Bool)) (groups : List (List Block)) : FileM :=
  { blocks := groups.filterMap (mergeGroup s build),
    filt := buildFilt build (unionEntries ((groups.flatMap id).flatMap (fun b => b.rows.map (fun r => rowEntries s.tok r.json)))) }

/-- Same minmax key set (as sets of keys). -/
def sameKeys (a b : List (String × MinMaxIndex)) : Prop :=
  ∀ k, (a.lookup k).isSome = (b.lookup k).isSome

/-- A grouping the engine may produce: every group is non-empty and its blocks share the partition
    ID and the minmax key set (`blockMergeKey`). -/
def ValidGroup (g : List Block) : Prop :=
  g ≠ [] ∧ ∀ b ∈ g, ∀ b' ∈ g, b.md.PartitionID = b'.md.PartitionID ∧ sameKeys b.md.MinMaxIndexes b'.md.MinMaxIndexes

end BloomVerif
