/-
  M11 (C23, C24): what a query may open and read, and which per-block statistics it owes, as a
  function of the layout and of the verdicts of prefilter, file-level filters and block filters
  (failure-free, uncancelled run).
-/
namespace BloomVerif.ReadPlan

structure QBlock where
  off : Nat            -- row data offset (identifies the block within its file)
  rows : Nat
  pre : Bool           -- the block's metadata satisfies the prefilter
  filt : Bool          -- the block's filters do not rule out the prune query (absent filters ⇒ true)
  secSize : Nat        -- size of its filter section (0 = none)
deriving Repr, DecidableEq

structure QFile where
  fileFilt : Bool      -- the file-level filters do not rule out the prune query
  blocks : List QBlock
deriving Repr, DecidableEq

inductive BStat | skipped | processed
deriving Repr, DecidableEq

structure FilePlan where
  opened : Bool                    -- the file is opened at all
  regionRead : Bool                -- its block filter region is read
  stats : List (Nat × BStat)       -- one entry per evaluated block (by offset)
deriving Repr, DecidableEq

def kept (f : QFile) : List QBlock := f.blocks.filter (·.pre)

def blockStat (hasBloom : Bool) (b : QBlock) : BStat :=
  if hasBloom && decide (b.secSize > 0) && !b.filt then .skipped else .processed

/-- `hasBloom`: the prune query (bloom expression AND regex field guard) is present. -/
def filePlan (hasBloom : Bool) (f : QFile) : FilePlan :=
  let ks := kept f
  if ks.isEmpty then ⟨false, false, []⟩
  else if hasBloom && !f.fileFilt then ⟨false, false, []⟩
  else
    let region := hasBloom && ks.any (fun b => decide (b.secSize > 0))
    let stats := ks.map (fun b => (b.off, blockStat hasBloom b))
    ⟨region || stats.any (fun p => p.2 == .processed), region, stats⟩

/-- Blocks whose row data is read. -/
def rowReads (p : FilePlan) : List Nat := (p.stats.filter (fun x => x.2 == .processed)).map (·.1)

end BloomVerif.ReadPlan
