/-
  M3: leaf evaluators of prefilter conditions (hand model). The property theorems are stated
  about these; `Bridge/Leaf.lean` proves the definitions regenerated from /repo equal to them.
-/
import BloomVerif.Model.Types
namespace BloomVerif

/-- Operators as the engine names them. -/
inductive Op | eq | ne | gt | gte | lt | lte | isIn | notIn | between | notBetween
deriving Repr, DecidableEq

def parseOp (s : String) : Option Op :=
  if s = "EQ" then some .eq else if s = "NE" then some .ne
  else if s = "GT" then some .gt else if s = "GTE" then some .gte
  else if s = "LT" then some .lt else if s = "LTE" then some .lte
  else if s = "IN" then some .isIn else if s = "NOT_IN" then some .notIn
  else if s = "BETWEEN" then some .between else if s = "NOT_BETWEEN" then some .notBetween
  else none

/-- `EvaluateNumericCondition`: exact comparison of one int64 value. Unknown operator ⇒ false. -/
def evalNumeric (v : Int) (c : NumericCondition) : Bool :=
  match parseOp c.Operator with
  | some .eq => decide (v = c.Value)
  | some .ne => decide (v ≠ c.Value)
  | some .gt => decide (v > c.Value)
  | some .gte => decide (v ≥ c.Value)
  | some .lt => decide (v < c.Value)
  | some .lte => decide (v ≤ c.Value)
  | some .isIn => c.Values.any (fun x => decide (v = x))
  | some .notIn => !(c.Values.any (fun x => decide (v = x)))
  | some .between => decide (v ≥ c.Min) && decide (v ≤ c.Max)
  | some .notBetween => decide (v < c.Min) || decide (v > c.Max)
  | none => false

/-- `EvaluateStringCondition` (partition ids). Go compares strings bytewise; Lean compares by
    code point; the two orders agree on valid UTF-8 (the only stream the correspondence sends). -/
def evalString (v : String) (c : StringCondition) : Bool :=
  match parseOp c.Operator with
  | some .eq => decide (v = c.Value)
  | some .ne => decide (v ≠ c.Value)
  | some .gt => decide (v > c.Value)
  | some .gte => decide (v ≥ c.Value)
  | some .lt => decide (v < c.Value)
  | some .lte => decide (v ≤ c.Value)
  | some .isIn => c.Values.any (fun x => decide (v = x))
  | some .notIn => !(c.Values.any (fun x => decide (v = x)))
  | some .between => decide (v ≥ c.Min) && decide (v ≤ c.Max)
  | some .notBetween => decide (v < c.Min) || decide (v > c.Max)
  | none => false

/-- `EvaluateMinMaxCondition`: may the block's range hold a satisfying value? Bounds stored at an
    int64 extreme are saturated (open-ended). -/
def evalMinMax (mm : MinMaxIndex) (c : NumericCondition) : Bool :=
  let satAbove := decide (mm.Max = maxInt64)
  let satBelow := decide (mm.Min = minInt64)
  match parseOp c.Operator with
  | some .eq => decide (mm.Min ≤ c.Value) && decide (c.Value ≤ mm.Max)
  | some .ne => decide (mm.Min ≠ c.Value) || decide (mm.Max ≠ c.Value) || satAbove || satBelow
  | some .gt => decide (mm.Max > c.Value) || satAbove
  | some .gte => decide (mm.Max ≥ c.Value)
  | some .lt => decide (mm.Min < c.Value) || satBelow
  | some .lte => decide (mm.Min ≤ c.Value)
  | some .isIn => c.Values.any (fun x => decide (mm.Min ≤ x) && decide (x ≤ mm.Max))
  | some .notIn => true
  | some .between => decide (mm.Min ≤ c.Max) && decide (c.Min ≤ mm.Max)
  | some .notBetween => decide (mm.Min < c.Min) || decide (mm.Max > c.Max) || satAbove || satBelow
  | none => false

/-- `UpdateMinMaxIndex`. -/
def updateMinMax (e : MinMaxIndex) (newMin newMax : Int) : MinMaxIndex :=
  { Min := if newMin < e.Min then newMin else e.Min, Max := if newMax > e.Max then newMax else e.Max }

/-- Saturating conversion of an arbitrary mathematical integer to int64 (what `toInt64`,
    `clampUint64ToInt64` and `clampFloatToInt64` compute on integral inputs). -/
def clamp (i : Int) : Int :=
  if i ≥ maxInt64 then maxInt64 else if i ≤ minInt64 then minInt64 else i

theorem clamp_spec (i : Int) :
    (i ≥ maxInt64 ∧ clamp i = maxInt64) ∨ (i ≤ minInt64 ∧ clamp i = minInt64) ∨
    (minInt64 < i ∧ i < maxInt64 ∧ clamp i = i) := by
  unfold clamp maxInt64 minInt64; split
  · left; constructor <;> omega
  · split
    · right; left; constructor <;> omega
    · right; right; refine ⟨?_, ?_, rfl⟩ <;> omega

end BloomVerif
