/-
  M1: the default tokenizer `strings.Fields(strings.ToLower(v))` and the engine's zero-alloc fast
  path (split on whitespace first, then fold each word), over the Unicode tables regenerated from
  the Go toolchain on every run.
-/
import BloomVerif.Model.Json
import BloomVerif.Generated.Unicode
namespace BloomVerif

def isSpaceCp (n : Nat) : Bool := Gen.spaceCps.contains n
def lowerCp (n : Nat) : Nat := match Gen.lowerPairs.lookup n with | some m => m | none => n

def isSpaceC (c : Char) : Bool := isSpaceCp c.toNat
def lowerC (c : Char) : Char := Char.ofNat (lowerCp c.toNat)

/-- `strings.Fields` with an arbitrary separator predicate: maximal runs of non-separators. -/
def fieldsGo (p : Char → Bool) : Str → Str → List Str
  | [], cur => if cur = [] then [] else [cur.reverse]
  | c :: r, cur =>
    if p c then (if cur = [] then fieldsGo p r [] else cur.reverse :: fieldsGo p r [])
    else fieldsGo p r (c :: cur)

def fieldsOn (p : Char → Bool) (s : Str) : List Str := fieldsGo p s []

/-- Reference tokenizer shape: lower first, then split. -/
def tokRef (sp : Char → Bool) (lo : Char → Char) (s : Str) : List Str := fieldsOn sp (s.map lo)
/-- Fast path shape (`forEachWord` + `appendFoldedWord`): split first, then lower each word. -/
def tokFast (sp : Char → Bool) (lo : Char → Char) (s : Str) : List Str := (fieldsOn sp s).map (·.map lo)

/-- `BasicWhitespaceLowerTokenizer`. -/
def defaultTok (s : Str) : List Str := tokRef isSpaceC lowerC s
def defaultTokFast (s : Str) : List Str := tokFast isSpaceC lowerC s

end BloomVerif
