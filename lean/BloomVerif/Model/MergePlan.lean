/-
  M5: merge planning — greedy block grouping inside a partition (`processPartitionBlocks`) and
  greedy file grouping (`identifyFileMergeGroups`), as structural folds. The sort of the file
  candidates is unstable in Go; the candidate order is an *input* here.
-/
import BloomVerif.Model.Types
namespace BloomVerif

/-- A block as grouping sees it: an id, its merge key (partition ID + minmax key set, as computed
    by `blockMergeKey`), rows and uncompressed size. -/
structure BShape where
  id : Nat
  key : String
  rows : Int
  size : Int
deriving Repr, DecidableEq

/-- `blocksWithinMergeLimits` in exact arithmetic. -/
def within (cfg : EngineConfig) (a b : BShape) : Bool :=
  decide (a.rows + b.rows ≤ cfg.MaxRowGroupRows) && decide (a.size + b.size ≤ cfg.MaxRowGroupBytes)

/-- The inner loop over the blocks after a seed: a block joins when it pairs with the seed and
    the running totals stay within both limits. Returns (joined, left over), both in order. -/
def greedyTake (cfg : EngineConfig) (seed : BShape) : Int → Int → List BShape → List BShape × List BShape
  | _, _, [] => ([], [])
  | curRows, curSize, o :: r =>
    if within cfg seed o && decide (curRows + o.rows ≤ cfg.MaxRowGroupRows) &&
       decide (curSize + o.size ≤ cfg.MaxRowGroupBytes) then
      let res := greedyTake cfg seed (curRows + o.rows) (curSize + o.size) r
      (o :: res.1, res.2)
    else
      let res := greedyTake cfg seed curRows curSize r
      (res.1, o :: res.2)

def greedyGroupsFuel (cfg : EngineConfig) : Nat → List BShape → List (List BShape)
  | 0, _ => []
  | _, [] => []
  | f + 1, s :: rest =>
    let res := greedyTake cfg s s.rows s.size rest
    (s :: res.1) :: greedyGroupsFuel cfg f res.2

/-- Groups of one bucket (blocks sharing a merge key). -/
def greedyGroups (cfg : EngineConfig) (bucket : List BShape) : List (List BShape) :=
  greedyGroupsFuel cfg bucket.length bucket

/-- Buckets by merge key, in first-seen order, each preserving block order. -/
def bucketInsert (b : BShape) : List (String × List BShape) → List (String × List BShape)
  | [] => [(b.key, [b])]
  | (k, l) :: r => if k = b.key then (k, l ++ [b]) :: r else (k, l) :: bucketInsert b r

def bucketize (blocks : List BShape) : List (String × List BShape) :=
  blocks.foldl (fun acc b => bucketInsert b acc) []

/-- All block groups of one partition's blocks. -/
def blockGroups (cfg : EngineConfig) (blocks : List BShape) : List (List BShape) :=
  (bucketize blocks).flatMap (fun p => greedyGroups cfg p.2)

def sumRows (g : List BShape) : Int := (g.map (·.rows)).sum
def sumSize (g : List BShape) : Int := (g.map (·.size)).sum

/-- A merge candidate file. -/
structure Cand where
  id : Nat
  totalSize : Int
  blocks : List BShape
deriving Repr

/-- `hasMergeableBlockPair`. -/
def hasPair (cfg : EngineConfig) (groupBlocks cand : List BShape) : Bool :=
  cand.any (fun c => groupBlocks.any (fun g => g.key == c.key && within cfg c g))

/-- The inner loop over the unassigned candidates after a seed file. `total` = files already in
    groups; `glen` = files in the current group. Returns (joined, still unassigned). -/
def fileTake (cfg : EngineConfig) (total : Int) : Int → Int → List BShape → List Cand → List Cand × List Cand
  | _, _, _, [] => ([], [])
  | glen, curSize, gblocks, c :: r =>
    if total + glen + 1 > cfg.MaxFilesToMergePerOperation then ([], c :: r)
    else if curSize + c.totalSize > cfg.MaxFileSize then
      let res := fileTake cfg total glen curSize gblocks r
      (res.1, c :: res.2)
    else if hasPair cfg gblocks c.blocks then
      let res := fileTake cfg total (glen + 1) (curSize + c.totalSize) (gblocks ++ c.blocks) r
      (c :: res.1, res.2)
    else
      let res := fileTake cfg total glen curSize gblocks r
      (res.1, c :: res.2)

def fileGroupsFuel (cfg : EngineConfig) : Nat → Int → List Cand → List (List Cand)
  | 0, _, _ => []
  | _, _, [] => []
  | f + 1, total, c :: rest =>
    if total ≥ cfg.MaxFilesToMergePerOperation then []
    else
      let res := fileTake cfg total 1 c.totalSize c.blocks rest
      if res.1.isEmpty then fileGroupsFuel cfg f total res.2
      else (c :: res.1) :: fileGroupsFuel cfg f (total + 1 + res.1.length) res.2

/-- `identifyFileMergeGroups` on the sorted candidate list. -/
def fileGroups (cfg : EngineConfig) (cands : List Cand) : List (List Cand) :=
  if cands.length < 2 then [] else fileGroupsFuel cfg cands.length 0 cands

def sumTotal (g : List Cand) : Int := (g.map (·.totalSize)).sum

end BloomVerif
