/-
  M12: the query builder as a state machine, and the struct-tag-driven JSON encoding / decoding of
  bloom, regex and prefilter expressions and of `Query` (omitempty on pointers, slices, strings and
  integers; nil-vs-empty children; `Query`'s untagged pointer fields encode as null when nil).
-/
import BloomVerif.Model.Match
import BloomVerif.Model.PreTree
namespace BloomVerif

/-- JSON values as `encoding/json` produces them for these types (numbers are integers here). -/
inductive JV where
  | null
  | str (s : String)
  | txt (s : Str)
  | int (i : Int)
  | arr (xs : List JV)
  | obj (kvs : List (String × JV))
deriving Repr, Inhabited

def JV.get (k : String) : JV → Option JV
  | .obj kvs => kvs.lookup k
  | _ => none

-- ---------------------------------------------------------------- encoders

def omitStr (k : String) (s : String) : List (String × JV) := if s = "" then [] else [(k, .str s)]
def omitInt (k : String) (i : Int) : List (String × JV) := if i = 0 then [] else [(k, .int i)]

def encStrCond (c : StringCondition) : JV :=
  .obj (omitStr "Operator" c.Operator ++ omitStr "Value" c.Value ++
        (if c.Values.isEmpty then [] else [("Values", .arr (c.Values.map .str))]) ++
        omitStr "Min" c.Min ++ omitStr "Max" c.Max)

def encNumCond (c : NumericCondition) : JV :=
  .obj (omitStr "Operator" c.Operator ++ omitInt "Value" c.Value ++
        (if c.Values.isEmpty then [] else [("Values", .arr (c.Values.map .int))]) ++
        omitInt "Min" c.Min ++ omitInt "Max" c.Max)

def encPreCond (c : PreCond) : JV :=
  .obj ([("ConditionType", .str c.ConditionType)] ++
        (match c.PartitionCondition with | none => [] | some sc => [("PartitionCondition", encStrCond sc)]) ++
        omitStr "MinMaxFieldName" c.MinMaxFieldName ++
        (match c.MinMaxCondition with | none => [] | some nc => [("MinMaxCondition", encNumCond nc)]))

def encBloomCond (c : BloomCond) : JV :=
  .obj [("Type", .str c.Kind), ("Field", .txt c.Field), ("Token", .txt c.Token)]

def encRegexCond (c : RegexCond) : JV :=
  .obj [("Field", .txt c.Field), ("Pattern", .txt c.Pattern)]

mutual
  def encExpr {C : Type} (encC : C → JV) : Expr C → JV
    | .mk ty cond ch =>
      .obj ([("ExpressionType", .str ty)] ++
            (match cond with | none => [] | some c => [("Condition", encC c)]) ++
            (match ch with | [] => [] | _ :: _ => [("Children", .arr (encExprL encC ch))]))
  def encExprL {C : Type} (encC : C → JV) : List (Expr C) → List JV
    | [] => []
    | e :: es => encExpr encC e :: encExprL encC es
end

/-- `{"Expression": …}` with omitempty (BloomQuery, RegexQuery, QueryPrefilter). -/
def encWrapper {C : Type} (encC : C → JV) (e : Option (Expr C)) : JV :=
  .obj (match e with | none => [] | some x => [("Expression", encExpr encC x)])

/-- A `Query`: three untagged pointer fields; a nil pointer encodes as null. `none` = nil pointer,
    `some none` = non-nil wrapper with nil Expression. -/
structure QueryJ where
  pre : Option (Option PreExpr)
  bloom : Option (Option BloomExpr)
  regex : Option (Option RegexExpr)

def encQuery (q : QueryJ) : JV :=
  .obj [("Prefilter", match q.pre with | none => .null | some e => encWrapper encPreCond e),
        ("Bloom", match q.bloom with | none => .null | some e => encWrapper encBloomCond e),
        ("Regex", match q.regex with | none => .null | some e => encWrapper encRegexCond e)]

-- ---------------------------------------------------------------- decoders

def getStr (k : String) (j : JV) : String := match j.get k with | some (.str s) => s | _ => ""
def getTxt (k : String) (j : JV) : Str := match j.get k with | some (.txt s) => s | _ => []
def getInt (k : String) (j : JV) : Int := match j.get k with | some (.int i) => i | _ => 0
def getStrs (k : String) (j : JV) : List String :=
  match j.get k with | some (.arr xs) => xs.filterMap (fun x => match x with | .str s => some s | _ => none) | _ => []
def getInts (k : String) (j : JV) : List Int :=
  match j.get k with | some (.arr xs) => xs.filterMap (fun x => match x with | .int i => some i | _ => none) | _ => []

def decStrCond (j : JV) : StringCondition :=
  { Operator := getStr "Operator" j, Value := getStr "Value" j, Values := getStrs "Values" j,
    Min := getStr "Min" j, Max := getStr "Max" j }

def decNumCond (j : JV) : NumericCondition :=
  { Operator := getStr "Operator" j, Value := getInt "Value" j, Values := getInts "Values" j,
    Min := getInt "Min" j, Max := getInt "Max" j }

def decPreCond (j : JV) : PreCond :=
  { ConditionType := getStr "ConditionType" j,
    PartitionCondition := (match j.get "PartitionCondition" with | some (.obj kvs) => some (decStrCond (.obj kvs)) | _ => none),
    MinMaxFieldName := getStr "MinMaxFieldName" j,
    MinMaxCondition := (match j.get "MinMaxCondition" with | some (.obj kvs) => some (decNumCond (.obj kvs)) | _ => none) }

def decBloomCond (j : JV) : BloomCond :=
  { Kind := getStr "Type" j, Field := getTxt "Field" j, Token := getTxt "Token" j }

def decRegexCond (j : JV) : RegexCond := { Field := getTxt "Field" j, Pattern := getTxt "Pattern" j }

/-- Decoding an expression object; `fuel` bounds the nesting depth. Absent or null `Condition` is
    nil; absent or null `Children` is the empty list. -/
def decExpr {C : Type} (decC : JV → C) : Nat → JV → Option (Expr C)
  | 0, _ => none
  | fuel + 1, j =>
    match j with
    | .obj _ =>
      let cond := (match j.get "Condition" with | some (.obj kvs) => some (decC (.obj kvs)) | _ => none)
      let children := (match j.get "Children" with
        | some (.arr xs) => xs.mapM (decExpr decC fuel)
        | _ => some [])
      children.map (fun ch => .mk (getStr "ExpressionType" j) cond ch)
    | _ => none

def decWrapper {C : Type} (decC : JV → C) (fuel : Nat) (j : JV) : Option (Option (Expr C)) :=
  match j.get "Expression" with
  | some x => (decExpr decC fuel x).map some
  | none => some none

mutual
  def Expr.depth {C : Type} : Expr C → Nat
    | .mk _ _ ch => 1 + Expr.depthL ch
  def Expr.depthL {C : Type} : List (Expr C) → Nat
    | [] => 0
    | e :: es => max (Expr.depth e) (Expr.depthL es)
end

-- ---------------------------------------------------------------- builder

inductive BOp where
  | field (f : Str)
  | token (t : Str)
  | fieldToken (f t : Str)
  | matchB (e : BloomExpr)
  | fieldRegex (f p : Str)
  | matchRegex (e : RegexExpr)
  | matchPre (e : PreExpr)

/-- `QueryBuilder`. -/
structure BState where
  bloomExplicit : Bool := false
  bloom : Option BloomExpr := none
  implicitBloom : List BloomExpr := []
  regexExplicit : Bool := false
  regex : Option RegexExpr := none
  implicitRegex : List RegexExpr := []
  pre : Option PreExpr := none

def condB (k : String) (f t : Str) : BloomExpr := .mk "CONDITION" (some { Kind := k, Field := f, Token := t }) []
def condR (f p : Str) : RegexExpr := .mk "CONDITION" (some { Field := f, Pattern := p }) []

/-- `addBloomExpression`. -/
def BState.addBloom (s : BState) (e : BloomExpr) : BState :=
  if s.bloomExplicit then
    match s.bloom with
    | none => { s with bloom := some e }
    | some cur => { s with bloom := some (mkAnd [cur, e]) }
  else { s with implicitBloom := s.implicitBloom ++ [e] }

/-- `addRegexExpression`. -/
def BState.addRegex (s : BState) (e : RegexExpr) : BState :=
  if s.regexExplicit then
    match s.regex with
    | none => { s with regex := some e }
    | some cur => { s with regex := some (mkAnd [cur, e]) }
  else { s with implicitRegex := s.implicitRegex ++ [e] }

def BState.step (s : BState) : BOp → BState
  | .field f => s.addBloom (condB "FIELD" f [])
  | .token t => s.addBloom (condB "TOKEN" [] t)
  | .fieldToken f t => s.addBloom (condB "FIELD_TOKEN" f t)
  | .matchB e => { s with bloomExplicit := true, implicitBloom := [], bloom := some e }
  | .fieldRegex f p => s.addRegex (condR f p)
  | .matchRegex e => { s with regexExplicit := true, implicitRegex := [], regex := some e }
  | .matchPre e => { s with pre := some e }

/-- `Build`. -/
def BState.build (s : BState) : Option PreExpr × Option BloomExpr × Option RegexExpr :=
  (s.pre,
   if !s.bloomExplicit && !s.implicitBloom.isEmpty then some (mkAnd s.implicitBloom) else s.bloom,
   if !s.regexExplicit && !s.implicitRegex.isEmpty then some (mkAnd s.implicitRegex) else s.regex)

def builderQuery (ops : List BOp) : Option PreExpr × Option BloomExpr × Option RegexExpr :=
  (ops.foldl BState.step {}).build

/-- What the caller wrote, as a fold with one current verdict: simple calls conjoin onto it,
    `Match` assigns it (DESIGN.md section 3). -/
def bloomMeaning (leaf : BloomCond → Bool) (ops : List BOp) : Bool :=
  ops.foldl (fun cur op => match op with
    | .field f => cur && leaf { Kind := "FIELD", Field := f, Token := [] }
    | .token t => cur && leaf { Kind := "TOKEN", Field := [], Token := t }
    | .fieldToken f t => cur && leaf { Kind := "FIELD_TOKEN", Field := f, Token := t }
    | .matchB e => Expr.eval leaf e
    | _ => cur) true

def regexMeaning (leaf : RegexCond → Bool) (ops : List BOp) : Bool :=
  ops.foldl (fun cur op => match op with
    | .fieldRegex f p => cur && leaf { Field := f, Pattern := p }
    | .matchRegex e => Expr.eval leaf e
    | _ => cur) true

def preMeaning (leaf : PreCond → Bool) (ops : List BOp) : Bool :=
  ops.foldl (fun cur op => match op with
    | .matchPre e => Expr.eval leaf e
    | _ => cur) true

end BloomVerif
