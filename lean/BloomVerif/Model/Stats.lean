/-
  M11b (C23): what the statistics of a query add up to. Each evaluated block contributes one entry
  (skipped by its filters: nothing read; processed: its rows scanned, some of them matched and
  delivered); `QueryStats` is the fold of the entries in whatever order the workers finished.
  Core Lean only.
-/
import BloomVerif.Model.ReadPlan
namespace BloomVerif.Stats
open BloomVerif.ReadPlan

/-- A stored block as the scan sees it on a clean, uncancelled run. -/
structure SBlock where
  q : QBlock
  bytes : Nat          -- uncompressed row data bytes
  matched : List Nat   -- indices (< q.rows) of the rows that match the query, in row order
deriving Repr, DecidableEq

/-- `BlockStats`. -/
structure Entry where
  off : Nat
  skipped : Bool
  rowsProcessed : Nat
  bytesProcessed : Nat
deriving Repr, DecidableEq

/-- `QueryStats` totals. -/
structure Totals where
  rowsScanned : Nat := 0
  bytesScanned : Nat := 0
  blocksProcessed : Nat := 0
  blocksSkipped : Nat := 0
deriving Repr, DecidableEq

def entryOf (hasBloom : Bool) (b : SBlock) : Entry :=
  match blockStat hasBloom b.q with
  | .skipped => ⟨b.q.off, true, 0, 0⟩
  | .processed => ⟨b.q.off, false, b.q.rows, b.bytes⟩

/-- `Results.Stats`: totals are accumulated entry by entry. -/
def addEntry (t : Totals) (e : Entry) : Totals :=
  if e.skipped then { t with blocksSkipped := t.blocksSkipped + 1 }
  else { t with rowsScanned := t.rowsScanned + e.rowsProcessed, bytesScanned := t.bytesScanned + e.bytesProcessed,
                blocksProcessed := t.blocksProcessed + 1 }

def totals (es : List Entry) : Totals := es.foldl addEntry {}

/-- The evaluated blocks of a file that is not pruned as a whole. -/
def evaluated (bs : List SBlock) : List SBlock := bs.filter (·.q.pre)

def entries (hasBloom : Bool) (bs : List SBlock) : List Entry := (evaluated bs).map (entryOf hasBloom)

/-- Rows delivered on a clean run: the matching rows of the processed blocks, as (block offset, row index). -/
def returned (hasBloom : Bool) (bs : List SBlock) : List (Nat × Nat) :=
  (evaluated bs).flatMap (fun b =>
    match blockStat hasBloom b.q with
    | .skipped => []
    | .processed => b.matched.map (fun i => (b.q.off, i)))

/-- `RowsMatched` on a clean run. -/
def rowsMatched (hasBloom : Bool) (bs : List SBlock) : Nat :=
  ((evaluated bs).map (fun b => match blockStat hasBloom b.q with | .skipped => 0 | .processed => b.matched.length)).sum

end BloomVerif.Stats
