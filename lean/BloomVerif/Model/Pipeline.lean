/-
  M7: the ingest → flush pipeline as a labelled transition system. One event per engine-internal
  step (the events the `verif` hooks report, plus Stop's deadline machinery). `step` is a partial
  function: an event that is not enabled in a state is rejected, which is how recorded traces of the
  real engine are validated against the model (T-trace). Invariants proved over *all* event
  sequences then apply to every schedule of callers, workers, stores and Stop.
-/
namespace BloomVerif.Pipeline

/-- What a request carries. `rows n`: a batch of n ≥ 1 marshalable rows; `bad`: a batch with an
    unmarshalable row (rejected whole); `empty`: no rows; `force`: a Flush call. -/
inductive Kind
  | rows (n : Nat)
  | empty
  | bad
  | force
deriving Repr, DecidableEq

structure Req where
  id : Nat
  kind : Kind
deriving Repr, DecidableEq

/-- A flush request: the waiters to acknowledge and whether any partition buffer is attached
    (a request without data is ack-only). -/
structure FlushReq where
  waiters : List Nat
  hasData : Bool
deriving Repr, DecidableEq

structure Cfg where
  ingestCap : Nat      -- IngestBufferSize
  maxRows : Nat        -- MaxBufferedRows
deriving Repr

structure St where
  started : Bool := false
  stopped : Bool := false
  stopCalled : Bool := false           -- Stop was entered (its deadline abort is armed before it takes the lock)
  accepted : List Nat := []            -- ghost: every id IngestRows/Flush accepted, in order
  ingestQ : List Req := []             -- ingestChan
  buffered : List Nat := []            -- the actor's doneChans
  bufferedRows : Nat := 0
  mustFlush : Bool := false            -- the actor is about to call flushBufferedData
  pending : Option FlushReq := none    -- the actor is parked in triggerFlush
  flushQ : Option FlushReq := none     -- flushChan (capacity 1)
  worker : Option (FlushReq × Bool) := none   -- request in handleFlush; Bool = store work has begun
  answered : List (Nat × Bool) := []   -- (batch id, value was nil), in delivery order
  committed : List Nat := []           -- batches whose rows were committed to the MetaStore
  actorExited : Bool := false
  workerExited : Bool := false
  deadlineFired : Bool := false
  flushCancelled : Bool := false
  stopReturned : Option Bool := none   -- some true = Stop returned nil
deriving Repr

inductive Ev
  | start
  | accept (r : Req)
  | actorRecv (id : Nat)               -- the actor takes the head of ingestChan and processes it
  | flushTrigger                       -- flushBufferedData → triggerFlush (enqueue_intent)
  | enqueued                           -- the send into flushChan completed
  | enqueueAbandoned                   -- triggerFlush gave up: flush context cancelled
  | workerTake                         -- handleFlush entered (flush_intent)
  | flushAbandon                       -- handleFlush found the flush context cancelled
  | flushBegin                         -- handleFlush passed the check: store work may start
  | flushDone (ok : Bool)              -- handleFlush finished; waiters get nil (ok) or an error
  | stopBegin                          -- Stop entered: the deadline abort is armed
  | stopCall                           -- Stop set `stopped` and cancelled the engine context
  | deadline                           -- Stop's context expired
  | afterFunc                          -- the context.AfterFunc callback ran flushCancel
  | stopDrain                          -- Stop on a never-started engine answers queued batches
  | actorExit
  | workerExit
  | stopRet (ok : Bool)
deriving Repr

def answeredIds (s : St) : List Nat := s.answered.map (·.1)

def optWaiters (r : Option FlushReq) : List Nat := match r with | none => [] | some x => x.waiters
def workerWaiters (w : Option (FlushReq × Bool)) : List Nat := match w with | none => [] | some x => x.1.waiters

/-- Every accepted-but-unanswered batch, from the one closest to its acknowledgement to the most
    recently accepted. -/
def chain (s : St) : List Nat :=
  workerWaiters s.worker ++ optWaiters s.flushQ ++ optWaiters s.pending ++ s.buffered ++ s.ingestQ.map (·.id)

def fail (ws : List Nat) : List (Nat × Bool) := ws.map (fun w => (w, false))

def step (c : Cfg) (s : St) : Ev → Option St
  | .start =>
    if s.started || s.stopped then some s else some { s with started := true }
  | .accept r =>
    if s.stopped || decide (s.ingestQ.length ≥ c.ingestCap) || s.accepted.contains r.id ||
       (match r.kind with | .rows n => decide (n = 0) | _ => false) then none
    else some { s with accepted := s.accepted ++ [r.id], ingestQ := s.ingestQ ++ [r] }
  | .actorRecv id =>
    if !s.started || s.actorExited || s.mustFlush || s.pending.isSome then none
    else match s.ingestQ with
      | [] => none
      | r :: rest =>
        if r.id ≠ id then none
        else match r.kind with
          | .empty => some { s with ingestQ := rest, answered := s.answered ++ [(id, true)] }
          | .bad => some { s with ingestQ := rest, answered := s.answered ++ [(id, false)] }
          | .rows n =>
            some { s with ingestQ := rest, buffered := s.buffered ++ [id], bufferedRows := s.bufferedRows + n,
                          mustFlush := decide (s.bufferedRows + n ≥ c.maxRows) }
          | .force => some { s with ingestQ := rest, buffered := s.buffered ++ [id], mustFlush := true }
  | .flushTrigger =>
    if !s.started || s.actorExited || s.pending.isSome || s.buffered.isEmpty then none
    else some { s with pending := some ⟨s.buffered, decide (s.bufferedRows > 0)⟩, buffered := [],
                       bufferedRows := 0, mustFlush := false }
  | .enqueued =>
    match s.pending, s.flushQ with
    | some r, none => some { s with pending := none, flushQ := some r }
    | _, _ => none
  | .enqueueAbandoned =>
    match s.pending with
    | some r => if s.flushCancelled then some { s with pending := none, answered := s.answered ++ fail r.waiters } else none
    | none => none
  | .workerTake =>
    if s.workerExited || s.worker.isSome then none
    else match s.flushQ with
      | some r => some { s with flushQ := none, worker := some (r, false) }
      | none => none
  | .flushAbandon =>
    match s.worker with
    | some (r, false) =>
      if s.flushCancelled then some { s with worker := none, answered := s.answered ++ fail r.waiters } else none
    | _ => none
  | .flushBegin =>
    match s.worker with
    | some (r, false) => if s.flushCancelled then none else some { s with worker := some (r, true) }
    | _ => none
  | .flushDone ok =>
    match s.worker with
    | some (r, true) =>
      some { s with worker := none, answered := s.answered ++ r.waiters.map (fun w => (w, ok)),
                    committed := if ok && r.hasData then s.committed ++ r.waiters else s.committed }
    | _ => none
  | .stopBegin => some { s with stopCalled := true }
  | .stopCall => if s.stopCalled then some { s with stopped := true } else none
  | .deadline => if s.stopCalled then some { s with deadlineFired := true } else none
  | .afterFunc => if s.deadlineFired then some { s with flushCancelled := true } else none
  | .stopDrain =>
    if s.stopped && !s.started then
      some { s with ingestQ := [], answered := s.answered ++ fail (s.ingestQ.map (·.id)) }
    else none
  | .actorExit =>
    if s.started && s.stopped && !s.actorExited && s.ingestQ.isEmpty && s.buffered.isEmpty && !s.mustFlush && s.pending.isNone
    then some { s with actorExited := true } else none
  | .workerExit =>
    if s.actorExited && !s.workerExited && s.flushQ.isNone && s.worker.isNone
    then some { s with workerExited := true } else none
  | .stopRet ok =>
    if !s.stopped || s.stopReturned.isSome then none
    else if ok then
      (if (s.started && s.actorExited && s.workerExited) || (!s.started && s.ingestQ.isEmpty)
       then some { s with stopReturned := some true } else none)
    else
      (if s.deadlineFired then some { s with stopReturned := some false, flushCancelled := true } else none)

/-- Run a trace; `none` if some event was not enabled. -/
def run (c : Cfg) : St → List Ev → Option St
  | s, [] => some s
  | s, e :: es => match step c s e with | none => none | some s' => run c s' es

def init : St := {}

/-- States reachable from the initial state. -/
def Reachable (c : Cfg) (s : St) : Prop := ∃ tr, run c init tr = some s

end BloomVerif.Pipeline
