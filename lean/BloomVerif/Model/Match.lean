/-
  M2: bloom and regex conditions, the documented row-level search semantics, evaluation against
  entry sets and against bloom filters, the regex compile step (nil conditions are dropped), the
  regex field guard, `And`-flattening and `AndBloomQueries`.
-/
import BloomVerif.Model.Expr
import BloomVerif.Model.Json
namespace BloomVerif

/-- `BloomCondition`. -/
structure BloomCond where
  Kind : String := ""
  Field : Str := []
  Token : Str := []
deriving Repr, DecidableEq, Inhabited

/-- `RegexCondition`. -/
structure RegexCond where
  Field : Str := []
  Pattern : Str := []
deriving Repr, DecidableEq, Inhabited

abbrev BloomExpr := Expr BloomCond
abbrev RegexExpr := Expr RegexCond

/-- Documented semantics of one bloom condition on a row's emissions:
    Field — some emitted path equals the target; Token — some primitive leaf tokenizes to the
    target; FieldToken — a primitive leaf at *exactly* the path tokenizes to the target (the
    (path, token) pair is compared directly, not through the joined key). -/
def matchBloomCond (tok : Str → List Str) (es : List Em) (c : BloomCond) : Bool :=
  if c.Kind = "FIELD" then es.any (fun e => e.path == c.Field)
  else if c.Kind = "TOKEN" then es.any (fun e => (leafTokens tok e).contains c.Token)
  else if c.Kind = "FIELD_TOKEN" then
    es.any (fun e => e.path == c.Field && (leafTokens tok e).contains c.Token)
  else false

/-- The same condition evaluated on a set of bloom entries (what the filters were built from). -/
def entryCond (en : Entries) (c : BloomCond) : Bool :=
  if c.Kind = "FIELD" then en.fields.contains c.Field
  else if c.Kind = "TOKEN" then en.tokens.contains c.Token
  else if c.Kind = "FIELD_TOKEN" then en.fieldTokens.contains (ftKey c.Field c.Token)
  else false

/-- The three bloom filters of a block or file; an absent filter cannot disqualify anything. -/
structure Filt where
  field : Option (Str → Bool) := none
  token : Option (Str → Bool) := none
  fieldToken : Option (Str → Bool) := none

def testOpt (f : Option (Str → Bool)) (s : Str) : Bool :=
  match f with | none => true | some t => t s

/-- `evaluateBloomCondition`: fail-open on an absent filter; unknown type is false. -/
def filtCond (f : Filt) (c : BloomCond) : Bool :=
  if c.Kind = "FIELD" then testOpt f.field c.Field
  else if c.Kind = "TOKEN" then testOpt f.token c.Token
  else if c.Kind = "FIELD_TOKEN" then testOpt f.fieldToken (ftKey c.Field c.Token)
  else false

/-- `evaluateBloomFilters`. -/
def evalFilt (f : Filt) (p : Option BloomExpr) : Bool := Expr.evalOpt (filtCond f) p

/-- A regex condition is true when the pattern matches the canonical text of a primitive leaf at
    or beneath the field path; an empty field path matches nothing. `re pattern text` is Go's
    `regexp` (an oracle parameter). -/
def matchRegexCond (re : Str → Str → Bool) (es : List Em) (c : RegexCond) : Bool :=
  !c.Field.isEmpty && es.any (fun e =>
    e.isLeaf && (e.path == c.Field || (c.Field ++ ['.']).isPrefixOf e.path) &&
    (match e.text with | some x => re c.Pattern x | none => false))

mutual
  /-- `compileRegexExpression`: a CONDITION node without a condition compiles to nil and is
      dropped from its parent's children; AND/OR keep the surviving children. Unknown node types
      are a compile error (see `rxValid`); they map to `none` here. -/
  def compileRx : RegexExpr → Option RegexExpr
    | .mk ty cond ch =>
      if ty = "CONDITION" then (match cond with | none => none | some c => some (.mk ty (some c) []))
      else if ty = "AND" then some (.mk ty none (compileRxL ch))
      else if ty = "OR" then some (.mk ty none (compileRxL ch))
      else none
  def compileRxL : List RegexExpr → List RegexExpr
    | [] => []
    | e :: es => (match compileRx e with | none => compileRxL es | some e' => e' :: compileRxL es)
end

mutual
  /-- The tree compiles: no unknown node type is reachable by the compile walk and every pattern
      compiles (`reOK`). -/
  def rxValid (reOK : Str → Bool) : RegexExpr → Bool
    | .mk ty cond ch =>
      if ty = "CONDITION" then (match cond with | none => true | some c => reOK c.Pattern)
      else if ty = "AND" then rxValidL reOK ch
      else if ty = "OR" then rxValidL reOK ch
      else false
  def rxValidL (reOK : Str → Bool) : List RegexExpr → Bool
    | [] => true
    | e :: es => rxValid reOK e && rxValidL reOK es
end

/-- Row-level regex verdict: the compiled tree evaluated on the row's emissions (nil ⇒ true). -/
def matchRegex (re : Str → Str → Bool) (es : List Em) (rx : Option RegexExpr) : Bool :=
  match rx with
  | none => true
  | some e => Expr.evalOpt (matchRegexCond re es) (compileRx e)

mutual
  /-- `regexExpressionToBloomFieldExpression`: each regex condition becomes a Field condition on
      its path; nil children (and unknown nodes) are dropped. -/
  def guardOf : RegexExpr → Option BloomExpr
    | .mk ty cond ch =>
      if ty = "CONDITION" then
        (match cond with
         | none => none
         | some c => some (.mk "CONDITION" (some { Kind := "FIELD", Field := c.Field }) []))
      else if ty = "AND" then some (.mk "AND" none (guardL ch))
      else if ty = "OR" then some (.mk "OR" none (guardL ch))
      else none
  def guardL : List RegexExpr → List BloomExpr
    | [] => []
    | e :: es => (match guardOf e with | none => guardL es | some g => g :: guardL es)
end

/-- `flattenExpressions`: a child of the same type *without a condition* is spliced in. -/
def flatten {C : Type} (ty : String) (es : List (Expr C)) : List (Expr C) :=
  es.flatMap (fun e => if e.ty = ty ∧ e.cond.isNone then e.children else [e])

/-- `And(...)` / `RegexAnd` / `PrefilterAnd`. -/
def mkAnd {C : Type} (es : List (Expr C)) : Expr C := .mk "AND" none (flatten "AND" es)
/-- `Or(...)` / `RegexOr` / `PrefilterOr`. -/
def mkOr {C : Type} (es : List (Expr C)) : Expr C := .mk "OR" none (flatten "OR" es)

/-- `AndBloomQueries`. -/
def andBloom (l r : Option BloomExpr) : Option BloomExpr :=
  match l, r with
  | none, r => r
  | some l, none => some l
  | some l, some r => some (mkAnd [l, r])

/-- The bloom query filters are evaluated with: row bloom query AND regex field guard. -/
def pruneBloom (bloom : Option BloomExpr) (regex : Option RegexExpr) : Option BloomExpr :=
  andBloom bloom (regex.bind guardOf)

/-- Row-level verdict under the documented semantics. -/
def matchRow (tok : Str → List Str) (re : Str → Str → Bool) (bloom : Option BloomExpr)
    (regex : Option RegexExpr) (row : J) : Bool :=
  Expr.evalOpt (matchBloomCond tok (emissions row)) bloom && matchRegex re (emissions row) regex

end BloomVerif
