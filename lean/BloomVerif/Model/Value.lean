/-
  M11 (C03): how a stored row's JSON becomes the delivered value. gjson materialises an object by
  keeping the FIRST value of a duplicated key; encoding/json (the reference "JSON round trip" of the
  property) keeps the LAST. Numbers go through the same float parse on both sides (abstract here).
  Also: the scan protocol over pooled buffers as an operation trace.
-/
import BloomVerif.Model.Json
namespace BloomVerif

/-- Keep the first binding of every key, in order of first occurrence. -/
def dedupFirst : List (Str × J) → List (Str × J)
  | [] => []
  | (k, v) :: r => (k, v) :: (dedupFirst r).filter (fun p => p.1 != k)

/-- Keep the last binding of every key, in order of last occurrence. -/
def dedupLast : List (Str × J) → List (Str × J)
  | [] => []
  | (k, v) :: r => if r.any (fun p => p.1 == k) then dedupLast r else (k, v) :: dedupLast r

mutual
  /-- gjson `Value()`: first binding wins. -/
  def valueFirst : J → J
    | .obj kvs => .obj (dedupFirst (valueFirstKV kvs))
    | .arr xs => .arr (valueFirstL xs)
    | v => v
  def valueFirstKV : List (Str × J) → List (Str × J)
    | [] => []
    | (k, v) :: r => (k, valueFirst v) :: valueFirstKV r
  def valueFirstL : List J → List J
    | [] => []
    | v :: r => valueFirst v :: valueFirstL r
end

mutual
  /-- encoding/json into map[string]any: last binding wins. -/
  def valueLast : J → J
    | .obj kvs => .obj (dedupLast (valueLastKV kvs))
    | .arr xs => .arr (valueLastL xs)
    | v => v
  def valueLastKV : List (Str × J) → List (Str × J)
    | [] => []
    | (k, v) :: r => (k, valueLast v) :: valueLastKV r
  def valueLastL : List J → List J
    | [] => []
    | v :: r => valueLast v :: valueLastL r
end

mutual
  /-- No object anywhere in the tree repeats a key. -/
  def NoDupKeys : J → Prop
    | .obj kvs => (kvs.map (·.1)).Nodup ∧ NoDupKeysKV kvs
    | .arr xs => NoDupKeysL xs
    | _ => True
  def NoDupKeysKV : List (Str × J) → Prop
    | [] => True
    | (_, v) :: r => NoDupKeys v ∧ NoDupKeysKV r
  def NoDupKeysL : List J → Prop
    | [] => True
    | v :: r => NoDupKeys v ∧ NoDupKeysL r
end

-- ---------------------------------------------------------------- scan protocol over pooled buffers

/-- Operations of one block scan on a pooled buffer `b`. -/
inductive ScanOp
  | get (b : Nat)                 -- buffer taken from the pool
  | fill (b : Nat)                -- row data read / decompressed into it
  | view (b : Nat) (row : Nat)    -- a transient zero-copy view of a row is parsed for matching
  | copy (b : Nat) (row : Nat)    -- the matched row's bytes are copied (string(rowBytes))
  | deliver (row : Nat)           -- the row materialised from the copy is handed to the cursor
  | put (b : Nat)                 -- buffer returned to the pool
deriving Repr, DecidableEq

/-- `processDataBlock` on buffer `b` over rows numbered from `first`, `matched i` telling which rows
    match: every row is viewed; a matched row is copied, materialised from the copy and batched; the
    batch flush (deliveries) and the buffer release are deferred to the end of the scan, in that order. -/
def scanRowsOps (b : Nat) (matched : Nat → Bool) : Nat → Nat → List ScanOp
  | _, 0 => []
  | i, n + 1 => [.view b i] ++ (if matched i then [.copy b i] else []) ++ scanRowsOps b matched (i + 1) n

def deliveries (matched : Nat → Bool) : Nat → Nat → List ScanOp
  | _, 0 => []
  | i, n + 1 => (if matched i then [.deliver i] else []) ++ deliveries matched (i + 1) n

def scanTrace (b : Nat) (matched : Nat → Bool) (n : Nat) : List ScanOp :=
  [.get b, .fill b] ++ scanRowsOps b matched 0 n ++ deliveries matched 0 n ++ [.put b]

/-- The buffer is not touched after it went back to the pool. -/
def NoUseAfterPut (b : Nat) : List ScanOp → Prop
  | [] => True
  | .put b' :: rest => (b' = b → ∀ op ∈ rest, ∀ r, op ≠ .view b r ∧ op ≠ .copy b r ∧ op ≠ .fill b) ∧ NoUseAfterPut b rest
  | _ :: rest => NoUseAfterPut b rest

end BloomVerif
