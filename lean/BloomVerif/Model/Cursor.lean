/-
  M11: the Results cursor as a transition system (C20), the per-query handle pool (C21) and the
  query-semaphore slot discipline of the worker programs (C22).
-/
namespace BloomVerif.Cursor

/-- Terminal error state of a cursor. -/
inductive Term
  | clean                      -- nil
  | failures (n : Nat)         -- errors.Join of n ≥ 1 recorded failures
  | canceled                   -- wraps the Query context's error
deriving Repr, DecidableEq

structure St where
  recorded : Nat := 0              -- failures recorded so far (block errors, MetaStore iteration error)
  chan : Nat := 0                  -- batches sitting in rowChan (≤ 4)
  queue : List Nat := []           -- their sizes, oldest first (chan = queue.length)
  pending : Nat := 0               -- rows of the batch being handed out that Next has not returned yet
  workersDone : Bool := false      -- pipeline exited: rowChan and done are closed
  callerCanceled : Bool := false   -- the Query context is done
  internalCanceled : Bool := false -- the cursor's internal context is done (caller cancel, Close, finish)
  inNext : Bool := false           -- a Next call is in progress
  sawCancel : Bool := false        -- that call found the internal context done at its entry check
  canceledAtEntry : Bool := false  -- the Query context was already done when that call began
  iterDone : Bool := false
  finalized : Bool := false
  err : Term := .clean
  closeCalls : Nat := 0
  nextFalse : Nat := 0             -- how many times Next has returned false
deriving Repr, DecidableEq

inductive Ev
  | record                       -- a worker records a failure
  | deliver (rows : Nat)         -- a worker hands a non-empty batch to the cursor
  | workersDone                  -- every worker exited; channels closed
  | cancelCaller                 -- the Query context ends (cancel or deadline)
  | propagate                    -- … and, some time later, the cursor's derived internal context observes it
  | nextEnter                    -- Next begins (entry check of the internal context)
  | nextRow                      -- Next returns true with a row of the pending batch
  | nextBatch                    -- Next takes a batch from the channel and returns true
  | nextFalseDone                -- Next returns false immediately: iteration already ended
  | nextFalseClean               -- Next observed the closed channel: finish(joinedErrs)
  | nextFalseTerm                -- Next observed cancellation / Close: terminate
  | close                        -- Close (first call does the work)
deriving Repr, DecidableEq

def joined (n : Nat) : Term := if n = 0 then .clean else .failures n

/-- `finish`: first finalizer wins; iteration ends; the internal context is canceled. -/
def finish (s : St) (e : Term) : St :=
  { s with iterDone := true, pending := 0, inNext := false, nextFalse := s.nextFalse + 1, internalCanceled := true,
           finalized := true, err := if s.finalized then s.err else e }

def step (s : St) : Ev → Option St
  | .record => if s.workersDone then none else some { s with recorded := s.recorded + 1 }
  | .deliver rows =>
    if s.workersDone || decide (s.chan ≥ 4) || decide (rows = 0) then none
    else some { s with chan := s.chan + 1, queue := s.queue ++ [rows] }
  | .workersDone => if s.workersDone then none else some { s with workersDone := true }
  -- The internal context is derived from the Query context. For the standard library's contexts the
  -- cancellation propagates synchronously (cancelCaller immediately followed by propagate); for any other
  -- Context implementation a goroutine forwards it at some later point.
  | .cancelCaller => some { s with callerCanceled := true }
  | .propagate => if s.callerCanceled then some { s with internalCanceled := true } else none
  | .nextEnter =>
    -- Next checks the internal context and then the Query context itself; seeing either done it terminates
    -- (terminate cancels the internal context)
    if s.inNext then none
    else some { s with inNext := true, sawCancel := s.internalCanceled || s.callerCanceled,
                       internalCanceled := s.internalCanceled || s.callerCanceled, canceledAtEntry := s.callerCanceled }
  | .nextFalseDone =>
    if s.inNext && s.iterDone then some { s with inNext := false, nextFalse := s.nextFalse + 1 } else none
  | .nextRow =>
    if s.inNext && !s.iterDone && !s.sawCancel && decide (s.pending > 0)
    then some { s with inNext := false, pending := s.pending - 1 } else none
  | .nextBatch =>
    if s.inNext && !s.iterDone && !s.sawCancel && decide (s.pending = 0) && decide (s.chan > 0)
    then some { s with inNext := false, chan := s.chan - 1, queue := s.queue.tail,
                       pending := (s.queue.head?.getD 1) - 1 }   -- returns the batch's first row now
    else none
  | .nextFalseClean =>
    if s.inNext && !s.iterDone && !s.sawCancel && decide (s.pending = 0) && decide (s.chan = 0) && s.workersDone
    then some (finish s (joined s.recorded)) else none
  | .nextFalseTerm =>
    if s.inNext && !s.iterDone && s.internalCanceled && s.workersDone
    then some (finish s (if s.callerCanceled then .canceled else joined s.recorded)) else none
  | .close =>
    if s.closeCalls = 0 then
      -- cancel, wait for the pipeline (guard: workersDone), freeze the terminal state
      if s.workersDone then
        some { s with closeCalls := 1, internalCanceled := true, finalized := true,
                      err := if s.finalized then s.err else (if s.callerCanceled then .canceled else joined s.recorded) }
      else none
    else some { s with closeCalls := s.closeCalls + 1 }

def run : St → List Ev → Option St
  | s, [] => some s
  | s, e :: es => match step s e with | none => none | some s' => run s' es

def Reachable (s : St) : Prop := ∃ tr, run {} tr = some s

end BloomVerif.Cursor

namespace BloomVerif.Pool

/-- Ghost status of a handle the query opened. -/
inductive HStatus
  | lent        -- checked out by exactly one reader
  | idle        -- in its file's idle set
  | closed (n : Nat)  -- closed n ≥ 1 times
deriving Repr, DecidableEq

structure Entry where
  ptr : Nat
  refs : Nat
  idle : List Nat      -- handle ids
deriving Repr, DecidableEq

structure St where
  files : List Entry := []
  closed : Bool := false
  status : List (Nat × HStatus) := []   -- every handle ever opened
  next : Nat := 0
  handlePtr : List (Nat × Nat) := []    -- handle → file pointer
deriving Repr, DecidableEq

inductive Op
  | retain (ptr : Nat)
  | release (ptr : Nat)
  | acquire (ptr : Nat)          -- lends an idle handle or opens a new one (id = next)
  | put (ptr : Nat) (h : Nat)
  | discard (h : Nat)
  | closeAll
deriving Repr, DecidableEq

def findEntry (files : List Entry) (p : Nat) : Option Entry := files.find? (fun e => e.ptr == p)
def setEntry (files : List Entry) (e : Entry) : List Entry :=
  if files.any (fun x => x.ptr == e.ptr) then files.map (fun x => if x.ptr == e.ptr then e else x) else files ++ [e]
def dropEntry (files : List Entry) (p : Nat) : List Entry := files.filter (fun e => e.ptr != p)

def setStatus (st : List (Nat × HStatus)) (h : Nat) (v : HStatus) : List (Nat × HStatus) :=
  if st.any (fun x => x.1 == h) then st.map (fun x => if x.1 == h then (h, v) else x) else st ++ [(h, v)]

def closeOne (st : List (Nat × HStatus)) (h : Nat) : List (Nat × HStatus) :=
  match st.lookup h with
  | some (.closed n) => setStatus st h (.closed (n + 1))
  | _ => setStatus st h (.closed 1)

def closeMany (st : List (Nat × HStatus)) (hs : List Nat) : List (Nat × HStatus) := hs.foldl closeOne st

/-- One pool operation. Returns the new state and, for `acquire`, the handle lent (none = refused). -/
def step (s : St) : Op → St × Option Nat
  | .retain p =>
    if s.closed then (s, none)
    else match findEntry s.files p with
      | some e => ({ s with files := setEntry s.files { e with refs := e.refs + 1 } }, none)
      | none => ({ s with files := setEntry s.files ⟨p, 1, []⟩ }, none)
  | .release p =>
    match findEntry s.files p with
    | none => (s, none)
    | some e =>
      if e.refs > 1 then ({ s with files := setEntry s.files { e with refs := e.refs - 1 } }, none)
      else ({ s with files := dropEntry s.files p, status := closeMany s.status e.idle }, none)
  | .acquire p =>
    if s.closed then (s, none)
    else match findEntry s.files p with
      | some e =>
        match e.idle.reverse with
        | h :: restRev =>
          ({ s with files := setEntry s.files { e with idle := restRev.reverse }, status := setStatus s.status h .lent }, some h)
        | [] => ({ s with status := setStatus s.status s.next .lent, next := s.next + 1, handlePtr := s.handlePtr ++ [(s.next, p)] }, some s.next)
      | none => ({ s with status := setStatus s.status s.next .lent, next := s.next + 1, handlePtr := s.handlePtr ++ [(s.next, p)] }, some s.next)
  | .put p h =>
    match findEntry s.files p with
    | some e =>
      if s.closed || decide (e.refs = 0) then ({ s with status := closeOne s.status h }, none)
      else ({ s with files := setEntry s.files { e with idle := e.idle ++ [h] }, status := setStatus s.status h .idle }, none)
    | none => ({ s with status := closeOne s.status h }, none)
  | .discard h => ({ s with status := closeOne s.status h }, none)
  | .closeAll =>
    ({ s with closed := true, files := [], status := closeMany s.status (s.files.flatMap (·.idle)) }, none)

end BloomVerif.Pool
