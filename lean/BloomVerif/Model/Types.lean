/-
  Shared value types of the model. Field names follow the Go structs of /repo so that the
  regenerated definitions (`BloomVerif/Generated/*.lean`, written by /verif/gen on every run)
  elaborate against them unchanged. Core Lean only — this file is linked into the native driver.
-/
namespace BloomVerif

abbrev maxInt64 : Int := 9223372036854775807
abbrev minInt64 : Int := -9223372036854775808
abbrev maxUint64 : Int := 18446744073709551615
abbrev maxUint32 : Int := 4294967295

/-- Go's two's-complement wrap of a mathematical integer into int64. -/
def wrap64 (x : Int) : Int := (x + 9223372036854775808) % 18446744073709551616 - 9223372036854775808
/-- Go's wrap into uint64. -/
def wrapU64 (x : Int) : Int := x % 18446744073709551616

def wadd (a b : Int) : Int := wrap64 (a + b)
def wsub (a b : Int) : Int := wrap64 (a - b)

def InI64 (x : Int) : Prop := minInt64 ≤ x ∧ x ≤ maxInt64
instance (x : Int) : Decidable (InI64 x) := by unfold InI64; infer_instance

theorem wrap64_id {x : Int} (h : InI64 x) : wrap64 x = x := by
  unfold InI64 minInt64 maxInt64 at h; unfold wrap64; omega

/-- `omega` after unfolding the int64 extremes everywhere. -/
macro "i64omega" : tactic =>
  `(tactic| ((try simp only [maxInt64, minInt64, maxUint64, maxUint32] at *); omega))

structure MinMaxIndex where
  Min : Int
  Max : Int
deriving Repr, DecidableEq, Inhabited

structure NumericCondition where
  Operator : String := ""
  Value : Int := 0
  Values : List Int := []
  Min : Int := 0
  Max : Int := 0
deriving Repr, DecidableEq, Inhabited

structure StringCondition where
  Operator : String := ""
  Value : String := ""
  Values : List String := []
  Min : String := ""
  Max : String := ""
deriving Repr, DecidableEq, Inhabited

/-- `PrefilterCondition` of query.go (pointer fields as `Option`). -/
structure PrefilterCondition where
  ConditionType : String := ""
  PartitionCondition : Option StringCondition := none
  MinMaxFieldName : String := ""
  MinMaxCondition : Option NumericCondition := none
deriving Repr, Inhabited

/-- `blockMergeShape` of merge.go. -/
structure blockMergeShape where
  rows : Int
  uncompressedSize : Int
deriving Repr, DecidableEq, Inhabited

/-- The slice of `BloomSearchEngineConfig` the translated functions read. -/
structure EngineConfig where
  MaxRowGroupRows : Int := 0
  MaxRowGroupBytes : Int := 0
  MaxFileSize : Int := 0
  MaxFilesToMergePerOperation : Int := 0
  MaxBufferedRows : Int := 0
  MaxBufferedBytes : Int := 0
  MaxBufferedTime : Int := 0
deriving Repr, DecidableEq, Inhabited

/-- Receiver type of translated engine methods (`b.config.X`). -/
structure Engine where
  config : EngineConfig
deriving Repr, Inhabited

/-- The framing fields of `DataBlockMetadata` (everything the bounds checks read) plus the
    content-level fields the content model uses. -/
structure DataBlockMetadata where
  RowDataOffset : Int := 0
  RowDataSize : Int := 0
  Rows : Int := 0
  BloomFilterOffset : Int := 0
  BloomFilterSize : Int := 0
  UncompressedSize : Int := 0
  PartitionID : String := ""
  MinMaxIndexes : List (String × MinMaxIndex) := []
deriving Repr, DecidableEq, Inhabited

structure FileMetadata where
  BlockFilterRegionOffset : Int := 0
  BlockFilterRegionSize : Int := 0
  DataBlocks : List DataBlockMetadata := []
deriving Repr, DecidableEq, Inhabited

end BloomVerif
