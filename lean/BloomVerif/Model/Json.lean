/-
  M1: a row's marshaled JSON as a tree, the shared path walker (`pathWalker.walkValue` /
  `walkPathValues`, which must stay emission-for-emission identical), and a row's bloom entries.
  Text is `List Char` (valid Unicode scalars: the model covers rows whose strings are valid UTF-8).
  The engine always walks with delimiter "."; the model fixes it.
-/
namespace BloomVerif

abbrev Str := List Char

/-- JSON after marshaling: object members in document order, duplicates kept; numbers as their raw
    literal. -/
inductive J where
  | null
  | bool (b : Bool)
  | num (raw : Str)
  | str (s : Str)
  | arr (xs : List J)
  | obj (kvs : List (Str × J))
deriving Repr, Inhabited

/-- One emission of the walker: a path, whether it is a primitive leaf, and the leaf's canonical
    text (`leafTokenInput`): decoded string, raw number literal, "true"/"false"; none for null
    and for container / key-prefix emissions. -/
structure Em where
  path : Str
  isLeaf : Bool
  text : Option Str
deriving Repr, DecidableEq

def leafText : J → Option Str
  | .str s => some s
  | .num r => some r
  | .bool true => some ['t', 'r', 'u', 'e']
  | .bool false => some ['f', 'a', 'l', 's', 'e']
  | _ => none

/-- Append a key (or key prefix) to the buffer: the delimiter is written only when the buffer is
    non-empty (`len(w.buf) != 0`, not "is top level"). -/
def joinPath (buf k : Str) : Str := if buf = [] then k else buf ++ '.' :: k

/-- Every proper prefix of `k` that ends just before a delimiter, shortest first. -/
def dotPrefixes : Str → List Str
  | [] => []
  | c :: r => (if c = '.' then [[]] else []) ++ (dotPrefixes r).map (c :: ·)

/-- `emitKeyPrefixPaths`: a key containing the delimiter also yields every delimiter-split prefix
    as a field-existence path; prefixes producing an empty path are skipped. -/
def keyPrefixEms (buf k : Str) : List Em :=
  (dotPrefixes k).filterMap (fun p =>
    let path := joinPath buf p
    if path = [] then none else some ⟨path, false, none⟩)

def containerEm (buf : Str) : List Em := if buf = [] then [] else [⟨buf, false, none⟩]

mutual
  def walk (buf : Str) : J → List Em
    | .obj kvs => containerEm buf ++ walkObj buf kvs
    | .arr xs => containerEm buf ++ walkArr buf xs
    | .null => if buf = [] then [] else [⟨buf, true, none⟩]
    | .bool b => if buf = [] then [] else [⟨buf, true, leafText (.bool b)⟩]
    | .num r => if buf = [] then [] else [⟨buf, true, some r⟩]
    | .str s => if buf = [] then [] else [⟨buf, true, some s⟩]
  def walkObj (buf : Str) : List (Str × J) → List Em
    | [] => []
    | (k, v) :: r => keyPrefixEms buf k ++ walk (joinPath buf k) v ++ walkObj buf r
  def walkArr (buf : Str) : List J → List Em
    | [] => []
    | v :: r => walk buf v ++ walkArr buf r
end

/-- A row's emissions: the walk starts with an empty buffer. -/
def emissions (row : J) : List Em := walk [] row

def paths (es : List Em) : List Str := es.map (·.path)

/-- `field::token` key (`makeFieldTokenKey`). -/
def ftKey (f t : Str) : Str := f ++ ':' :: ':' :: t

/-- A row's bloom entries under a tokenizer, as `indexRow` records them. -/
structure Entries where
  fields : List Str
  tokens : List Str
  fieldTokens : List Str
deriving Repr

def leafTokens (tok : Str → List Str) (e : Em) : List Str :=
  if e.isLeaf then (match e.text with | some x => tok x | none => []) else []

def entriesOf (tok : Str → List Str) (es : List Em) : Entries :=
  { fields := es.map (·.path),
    tokens := es.flatMap (leafTokens tok),
    fieldTokens := es.flatMap (fun e => (leafTokens tok e).map (ftKey e.path)) }

def rowEntries (tok : Str → List Str) (row : J) : Entries := entriesOf tok (emissions row)

end BloomVerif
