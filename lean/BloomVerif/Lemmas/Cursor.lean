/- Helper lemmas for C20 (cursor), C21 (handle pool) and C22 (slots). -/
import BloomVerif.Model.Cursor
import BloomVerif.Model.Slots
namespace BloomVerif.Cursor

/-- Facts true of every reachable cursor state. -/
def Inv (s : St) : Prop :=
  (s.iterDone = true → s.finalized = true ∧ s.workersDone = true ∧ s.nextFalse ≥ 1) ∧
  (s.finalized = true → s.workersDone = true) ∧
  (s.inNext = true → s.canceledAtEntry = true → s.sawCancel = true ∧ s.callerCanceled = true) ∧
  (s.closeCalls ≥ 1 → s.finalized = true ∧ s.internalCanceled = true) ∧
  (s.finalized = true → s.err = .clean → s.recorded = 0) ∧
  (s.chan ≤ 4)

theorem joined_clean (n : Nat) : joined n = .clean ↔ n = 0 := by
  unfold joined; split <;> simp [*]

theorem inv_step (s s' : St) (e : Ev) (hi : Inv s) (hs : step s e = some s') : Inv s' := by
  obtain ⟨h1, h2, h3, h4, h5, h6⟩ := hi
  cases e <;> simp only [step] at hs <;> (try split at hs) <;> (try split at hs) <;>
    first
    | (cases hs)
    | skip
  all_goals (refine ⟨?_, ?_, ?_, ?_, ?_, ?_⟩ <;> simp only [finish] <;> intros <;> simp_all <;> try omega)
  all_goals first
    | (apply h4; omega)
    | (cases hfin : s.finalized <;> cases hcc : s.callerCanceled <;> simp_all [joined_clean])

theorem inv_run (s : St) (tr : List Ev) (s' : St) (hi : Inv s) (hr : run s tr = some s') : Inv s' := by
  induction tr generalizing s with
  | nil => simp only [run] at hr; cases hr; exact hi
  | cons e es ih =>
    simp only [run] at hr
    split at hr
    · cases hr
    · rename_i s1 h1
      exact ih s1 (inv_step s s1 e hi h1) hr

theorem inv_reachable_aux (s : St) (h : Reachable s) : Inv s := by
  obtain ⟨tr, hr⟩ := h
  refine inv_run {} tr s ?_ hr
  simp [Inv]

theorem iterDone_step (s s' : St) (e : Ev) (h : s.iterDone = true) (hs : step s e = some s') :
    s'.iterDone = true ∧ e ≠ .nextRow ∧ e ≠ .nextBatch := by
  cases e <;> simp only [step] at hs <;> (try split at hs) <;> (try split at hs) <;>
    first
    | (cases hs)
    | skip
  all_goals simp_all

/-- Once Next has returned false it keeps returning false: no event can produce a row again. -/
theorem next_false_stable_aux (s : St) (tr : List Ev) (s' : St) (h : s.iterDone = true) (hr : run s tr = some s') :
    s'.iterDone = true ∧ Ev.nextRow ∉ tr ∧ Ev.nextBatch ∉ tr := by
  induction tr generalizing s with
  | nil => simp only [run] at hr; cases hr; simp [h]
  | cons e es ih =>
    simp only [run] at hr
    split at hr
    · cases hr
    · rename_i s1 h1
      obtain ⟨a, b, c⟩ := iterDone_step s s1 e h h1
      obtain ⟨a', b', c'⟩ := ih s1 a hr
      refine ⟨a', ?_, ?_⟩
      · simp only [List.mem_cons, not_or]; exact ⟨fun h => b h.symm, b'⟩
      · simp only [List.mem_cons, not_or]; exact ⟨fun h => c h.symm, c'⟩

theorem finalized_step (s s' : St) (e : Ev) (h : s.finalized = true) (hs : step s e = some s') :
    s'.finalized = true ∧ s'.err = s.err := by
  cases e <;> simp only [step] at hs <;> (try split at hs) <;> (try split at hs) <;>
    first
    | (cases hs)
    | skip
  all_goals simp_all [finish]

/-- A decided terminal state never changes (Close after the end, further Next calls, late events). -/
theorem finalized_immutable_aux (s : St) (tr : List Ev) (s' : St) (h : s.finalized = true) (hr : run s tr = some s') :
    s'.finalized = true ∧ s'.err = s.err := by
  induction tr generalizing s with
  | nil => simp only [run] at hr; cases hr; simp [h]
  | cons e es ih =>
    simp only [run] at hr
    split at hr
    · cases hr
    · rename_i s1 h1
      obtain ⟨a, b⟩ := finalized_step s s1 e h h1
      obtain ⟨a', b'⟩ := ih s1 a hr
      exact ⟨a', b'.trans b⟩

/-- The moment the terminal state is decided it is correct: nil only if nothing failed and the
    Query context was not already canceled when the deciding call began; the context error if it was;
    otherwise all recorded failures (no failure is recorded afterwards: the pipeline has exited). -/
theorem err_correct_step_aux (s s' : St) (e : Ev) (hi : Inv s) (hf : s.finalized = false) (hs : step s e = some s')
    (hf' : s'.finalized = true) :
    (s'.err = .clean → s'.recorded = 0) ∧
    (e = .close → s.callerCanceled = true → s'.err = .canceled) ∧
    (e = .nextFalseTerm → s.callerCanceled = true → s'.err = .canceled) ∧
    (s.callerCanceled = false → s'.err = joined s'.recorded) ∧
    s'.workersDone = true := by
  have _ := hi  -- not needed: the guards of the finalizing steps already give everything
  cases e <;> simp only [step] at hs <;> (try split at hs) <;> (try split at hs) <;>
    first
    | (cases hs)
    | skip
  all_goals (cases hcc : s.callerCanceled <;> simp_all [finish, joined_clean])

/-- After finalization nothing is recorded any more. -/
theorem no_record_after_final_aux (s : St) (hi : Inv s) (h : s.finalized = true) : step s .record = none := by
  have := hi.2.1 h
  simp [step, this]

theorem close_idempotent_aux (s s' s'' : St) (h1 : step s .close = some s') (h2 : step s' .close = some s'') :
    s''.err = s'.err ∧ s''.finalized = s'.finalized ∧ s''.iterDone = s'.iterDone := by
  simp only [step] at h1 h2
  split at h1
  · split at h1
    · cases h1
      simp at h2
      cases h2
      simp
    · cases h1
  · cases h1
    simp at h2
    cases h2
    simp

/-- A Next that began after the Query context had ended decides the context error. -/
theorem canceled_before_next_aux (s s' : St) (e : Ev) (hr : Reachable s) (hin : s.inNext = true)
    (hc : s.canceledAtEntry = true) (hf : s.finalized = false) (hs : step s e = some s') (hf' : s'.finalized = true)
    (he : e ≠ .close) : s'.err = .canceled := by
  obtain ⟨hsaw, hcc⟩ := (inv_reachable_aux s hr).2.2.1 hin hc
  cases e <;> simp only [step] at hs <;> (try split at hs) <;> (try split at hs) <;>
    first
    | (cases hs)
    | skip
  all_goals simp_all [finish]

end BloomVerif.Cursor

namespace BloomVerif.Pool

theorem lookup_map_ne (st : List (Nat × HStatus)) (h h' : Nat) (v : HStatus) (hne : h' ≠ h) :
    (st.map (fun x => if x.1 == h then (h, v) else x)).lookup h' = st.lookup h' := by
  induction st with
  | nil => rfl
  | cons a t ih =>
    obtain ⟨k, b⟩ := a
    by_cases hk : k = h
    · subst hk
      have e : (h' == k) = false := by simpa using hne
      simp only [List.map_cons, beq_self_eq_true, if_true, List.lookup_cons, e, ih]
    · have e : (k == h) = false := by simpa using hk
      simp only [List.map_cons, e, Bool.false_eq_true, ↓reduceIte, List.lookup_cons, ih]

theorem lookup_map_self (st : List (Nat × HStatus)) (h : Nat) (v : HStatus)
    (hany : st.any (fun x => x.1 == h) = true) :
    (st.map (fun x => if x.1 == h then (h, v) else x)).lookup h = some v := by
  induction st with
  | nil => simp at hany
  | cons a t ih =>
    obtain ⟨k, b⟩ := a
    by_cases hk : k = h
    · subst hk
      simp only [List.map_cons, beq_self_eq_true, if_true, List.lookup_cons]
    · have e : (k == h) = false := by simpa using hk
      have e' : (h == k) = false := by simpa using fun x => hk x.symm
      simp only [List.any_cons, e, Bool.false_or] at hany
      simp only [List.map_cons, e, Bool.false_eq_true, ↓reduceIte, List.lookup_cons, e', ih hany]

theorem lookup_none_of_not_any (st : List (Nat × HStatus)) (h : Nat)
    (hany : ¬ st.any (fun x => x.1 == h) = true) : st.lookup h = none := by
  simp only [List.any_eq_true, not_exists, not_and] at hany
  simp only [List.lookup_eq_none_iff]
  intro p hp
  have := hany p hp
  simp at this ⊢
  exact fun e => this e.symm

theorem lookup_setStatus (st : List (Nat × HStatus)) (h h' : Nat) (v : HStatus) :
    (setStatus st h v).lookup h' = if h' = h then some v else st.lookup h' := by
  unfold setStatus
  split
  · rename_i hany
    split
    · rename_i e; subst e; exact lookup_map_self st h' v hany
    · rename_i e; exact lookup_map_ne st h h' v e
  · rename_i hany
    rw [List.lookup_append]
    split
    · rename_i e; subst e
      rw [lookup_none_of_not_any st h' hany]; simp
    · rename_i e
      have e2 : (h' == h) = false := by simpa using e
      simp only [List.lookup_cons, e2, List.lookup_nil, Option.or_none]

theorem lookup_closeOne_ne (st : List (Nat × HStatus)) (h h' : Nat) (hne : h' ≠ h) :
    (closeOne st h).lookup h' = st.lookup h' := by
  unfold closeOne
  split <;> simp [lookup_setStatus, hne]

theorem lookup_closeOne_self (st : List (Nat × HStatus)) (h : Nat)
    (hnc : ∀ n, st.lookup h ≠ some (.closed n)) :
    (closeOne st h).lookup h = some (.closed 1) := by
  unfold closeOne
  split
  · rename_i n hn; exact absurd hn (hnc n)
  · simp [lookup_setStatus]

theorem lookup_closeMany_not_mem (hs : List Nat) (st : List (Nat × HStatus)) (h' : Nat) (hn : h' ∉ hs) :
    (closeMany st hs).lookup h' = st.lookup h' := by
  induction hs generalizing st with
  | nil => rfl
  | cons a t ih =>
    simp only [List.mem_cons, not_or] at hn
    simp only [closeMany, List.foldl_cons]
    have := ih (closeOne st a) hn.2
    simp only [closeMany] at this
    rw [this, lookup_closeOne_ne st a h' hn.1]

theorem lookup_closeMany_mem (hs : List Nat) (st : List (Nat × HStatus)) (h' : Nat) (hnd : hs.Nodup)
    (hm : h' ∈ hs) (hnc : ∀ n, st.lookup h' ≠ some (.closed n)) :
    (closeMany st hs).lookup h' = some (.closed 1) := by
  induction hs generalizing st with
  | nil => simp at hm
  | cons a t ih =>
    simp only [List.nodup_cons] at hnd
    show (closeMany (closeOne st a) t).lookup h' = _
    by_cases e : h' = a
    · subst e
      rw [lookup_closeMany_not_mem t _ h' hnd.1]
      exact lookup_closeOne_self st h' hnc
    · have hm' : h' ∈ t := by
        simp only [List.mem_cons] at hm
        exact hm.resolve_left e
      apply ih _ hnd.2 hm'
      rw [lookup_closeOne_ne st a h' e]; exact hnc

theorem findEntry_some (files : List Entry) (p : Nat) (e : Entry) (h : findEntry files p = some e) :
    e ∈ files ∧ e.ptr = p := by
  unfold findEntry at h
  exact ⟨List.mem_of_find?_eq_some h, by simpa using List.find?_some h⟩

theorem findEntry_none (files : List Entry) (p : Nat) (h : findEntry files p = none) :
    ∀ x ∈ files, x.ptr ≠ p := by
  unfold findEntry at h
  simpa using h

theorem split_entry (files : List Entry) (e : Entry) (hm : e ∈ files) (hnd : (files.map (·.ptr)).Nodup) :
    ∃ l1 l2, files = l1 ++ e :: l2 ∧ (∀ x ∈ l1, x.ptr ≠ e.ptr) ∧ (∀ x ∈ l2, x.ptr ≠ e.ptr) := by
  obtain ⟨l1, l2, rfl⟩ := List.append_of_mem hm
  refine ⟨l1, l2, rfl, ?_, ?_⟩
  · simp only [List.map_append, List.map_cons, List.nodup_append, List.nodup_cons, List.mem_map,
      List.mem_cons] at hnd
    intro x hx hp
    exact hnd.2.2 x.ptr ⟨x, hx, rfl⟩ e.ptr (Or.inl rfl) hp
  · simp only [List.map_append, List.map_cons, List.nodup_append, List.nodup_cons, List.mem_map] at hnd
    intro x hx hp
    exact hnd.2.1.1 ⟨x, hx, hp⟩

theorem setEntry_split (l1 l2 : List Entry) (e e' : Entry) (hp : e'.ptr = e.ptr)
    (h1 : ∀ x ∈ l1, x.ptr ≠ e.ptr) (h2 : ∀ x ∈ l2, x.ptr ≠ e.ptr) :
    setEntry (l1 ++ e :: l2) e' = l1 ++ e' :: l2 := by
  unfold setEntry
  have hany : (l1 ++ e :: l2).any (fun x => x.ptr == e'.ptr) = true := by
    simp [hp]
  rw [if_pos hany]
  have m1 : l1.map (fun x => if x.ptr == e'.ptr then e' else x) = l1 := by
    conv => rhs; rw [← List.map_id l1]
    apply List.map_congr_left
    intro x hx
    have : (x.ptr == e'.ptr) = false := by rw [hp]; simpa using h1 x hx
    simp [this]
  have m2 : l2.map (fun x => if x.ptr == e'.ptr then e' else x) = l2 := by
    conv => rhs; rw [← List.map_id l2]
    apply List.map_congr_left
    intro x hx
    have : (x.ptr == e'.ptr) = false := by rw [hp]; simpa using h2 x hx
    simp [this]
  rw [hp] at m1 m2
  simp only [List.map_append, List.map_cons, m1, m2, hp, beq_self_eq_true, if_true]

theorem dropEntry_split (l1 l2 : List Entry) (e : Entry)
    (h1 : ∀ x ∈ l1, x.ptr ≠ e.ptr) (h2 : ∀ x ∈ l2, x.ptr ≠ e.ptr) :
    dropEntry (l1 ++ e :: l2) e.ptr = l1 ++ l2 := by
  unfold dropEntry
  have m1 : l1.filter (fun x => x.ptr != e.ptr) = l1 := by
    rw [List.filter_eq_self]; intro x hx; simpa using h1 x hx
  have m2 : l2.filter (fun x => x.ptr != e.ptr) = l2 := by
    rw [List.filter_eq_self]; intro x hx; simpa using h2 x hx
  simp [List.filter_append, m1, m2]

/-- All list facts about replacing / dropping the entry `e` of a pointer-distinct file list. -/
theorem entry_facts (files : List Entry) (e : Entry) (hm : e ∈ files) (hnd : (files.map (·.ptr)).Nodup) :
    ∃ A C : List Nat,
      files.flatMap (·.idle) = A ++ e.idle ++ C ∧
      (∀ e' : Entry, e'.ptr = e.ptr →
        (setEntry files e').flatMap (·.idle) = A ++ e'.idle ++ C ∧
        (setEntry files e').map (·.ptr) = files.map (·.ptr)) ∧
      (dropEntry files e.ptr).flatMap (·.idle) = A ++ C ∧
      ((dropEntry files e.ptr).map (·.ptr)).Nodup := by
  obtain ⟨l1, l2, rfl, h1, h2⟩ := split_entry files e hm hnd
  refine ⟨l1.flatMap (·.idle), l2.flatMap (·.idle), by simp, ?_, ?_, ?_⟩
  · intro e' hp
    rw [setEntry_split l1 l2 e e' hp h1 h2]
    simp [hp]
  · rw [dropEntry_split l1 l2 e h1 h2]; simp
  · rw [dropEntry_split l1 l2 e h1 h2]
    simp only [List.map_append, List.map_cons, List.nodup_append, List.nodup_cons, List.mem_cons] at hnd ⊢
    exact ⟨hnd.1, hnd.2.1.2, fun a ha b hb => hnd.2.2 a ha b (Or.inr hb)⟩


/-- The handle-level part of the pool invariant: `L` is the list of all idle handles. -/
def HInv (L : List Nat) (st : List (Nat × HStatus)) (next : Nat) : Prop :=
  L.Nodup ∧ (∀ h ∈ L, st.lookup h = some .idle) ∧ (∀ h v, st.lookup h = some v → h < next) ∧
  (∀ h n, st.lookup h = some (.closed n) → n = 1) ∧ (∀ h, st.lookup h = some .idle → h ∈ L)

theorem lookup_closeMany_idle (B : List Nat) (st : List (Nat × HStatus)) (h : Nat) (hnd : B.Nodup)
    (hidle : ∀ x ∈ B, st.lookup x = some .idle) :
    (closeMany st B).lookup h = if h ∈ B then some (.closed 1) else st.lookup h := by
  split
  · rename_i hm
    apply lookup_closeMany_mem B st h hnd hm
    intro n; rw [hidle h hm]; simp
  · rename_i hm
    exact lookup_closeMany_not_mem B st h hm

theorem nodup_mid (A B C : List Nat) (h : Nat) :
    (A ++ (B ++ [h]) ++ C).Nodup ↔ h ∉ A ++ B ++ C ∧ (A ++ B ++ C).Nodup := by
  have : A ++ (B ++ [h]) ++ C = (A ++ B) ++ h :: C := by simp
  rw [this, List.perm_middle.nodup_iff, List.nodup_cons]

theorem mem_mid (A B C : List Nat) (h x : Nat) :
    x ∈ A ++ (B ++ [h]) ++ C ↔ x = h ∨ x ∈ A ++ B ++ C := by
  simp only [List.mem_append, List.mem_singleton]
  constructor
  · rintro ((a | b | c) | d) <;> simp [*]
  · rintro (a | (b | c) | d) <;> simp [*]

theorem hinv_lend (L L' : List Nat) (h : Nat) (st : List (Nat × HStatus)) (n : Nat)
    (hmem : ∀ x, x ∈ L ↔ x = h ∨ x ∈ L') (hnd : L.Nodup ↔ h ∉ L' ∧ L'.Nodup)
    (hi : HInv L st n) : HInv L' (setStatus st h .lent) n := by
  obtain ⟨i1, i2, i3, i4, i5⟩ := hi
  obtain ⟨n1, n2⟩ := hnd.1 i1
  refine ⟨n2, ?_, ?_, ?_, ?_⟩
  · intro x hx
    rw [lookup_setStatus, if_neg (fun e : x = h => n1 (e ▸ hx))]
    exact i2 x ((hmem x).2 (Or.inr hx))
  · intro x v; rw [lookup_setStatus]; split
    · rename_i e; subst e; intro _; exact i3 x _ (i2 x ((hmem x).2 (Or.inl rfl)))
    · exact i3 x v
  · intro x m; rw [lookup_setStatus]; split
    · simp
    · exact i4 x m
  · intro x; rw [lookup_setStatus]; split
    · simp
    · rename_i e; intro hx
      exact ((hmem x).1 (i5 x hx)).resolve_left e

theorem hinv_put (L L' : List Nat) (h : Nat) (st : List (Nat × HStatus)) (n : Nat)
    (hmem : ∀ x, x ∈ L ↔ x = h ∨ x ∈ L') (hnd : L.Nodup ↔ h ∉ L' ∧ L'.Nodup)
    (hi : HInv L' st n) (hl : st.lookup h = some .lent) : HInv L (setStatus st h .idle) n := by
  obtain ⟨i1, i2, i3, i4, i5⟩ := hi
  have hn : h ∉ L' := fun hm => by have := i2 h hm; rw [hl] at this; cases this
  refine ⟨hnd.2 ⟨hn, i1⟩, ?_, ?_, ?_, ?_⟩
  · intro x hx
    rw [lookup_setStatus]; split
    · rfl
    · rename_i e; exact i2 x (((hmem x).1 hx).resolve_left e)
  · intro x v; rw [lookup_setStatus]; split
    · rename_i e; subst e; intro _; exact i3 x _ hl
    · exact i3 x v
  · intro x m; rw [lookup_setStatus]; split
    · simp
    · exact i4 x m
  · intro x; rw [lookup_setStatus]; split
    · rename_i e; intro _; exact (hmem x).2 (Or.inl e)
    · intro hx; exact (hmem x).2 (Or.inr (i5 x hx))

theorem hinv_new (L : List Nat) (st : List (Nat × HStatus)) (n : Nat)
    (hi : HInv L st n) : HInv L (setStatus st n .lent) (n + 1) := by
  obtain ⟨i1, i2, i3, i4, i5⟩ := hi
  refine ⟨i1, ?_, ?_, ?_, ?_⟩
  · intro x hx
    have := i3 x _ (i2 x hx)
    rw [lookup_setStatus, if_neg (by omega)]
    exact i2 x hx
  · intro x v; rw [lookup_setStatus]; split
    · intro _; omega
    · intro hx; have := i3 x v hx; omega
  · intro x m; rw [lookup_setStatus]; split
    · simp
    · exact i4 x m
  · intro x; rw [lookup_setStatus]; split
    · simp
    · exact i5 x

theorem hinv_closeOne (L : List Nat) (h : Nat) (st : List (Nat × HStatus)) (n : Nat)
    (hi : HInv L st n) (hl : st.lookup h = some .lent) : HInv L (closeOne st h) n := by
  obtain ⟨i1, i2, i3, i4, i5⟩ := hi
  have hself : (closeOne st h).lookup h = some (.closed 1) :=
    lookup_closeOne_self st h (by intro m; rw [hl]; simp)
  have hn : h ∉ L := fun hm => by have := i2 h hm; rw [hl] at this; cases this
  refine ⟨i1, ?_, ?_, ?_, ?_⟩
  · intro x hx
    rw [lookup_closeOne_ne st h x (fun e : x = h => hn (e ▸ hx))]
    exact i2 x hx
  · intro x v
    by_cases e : x = h
    · subst e; intro _; exact i3 x _ hl
    · rw [lookup_closeOne_ne st h x e]; exact i3 x v
  · intro x m
    by_cases e : x = h
    · subst e; rw [hself]; intro hh; cases hh; rfl
    · rw [lookup_closeOne_ne st h x e]; exact i4 x m
  · intro x
    by_cases e : x = h
    · subst e; rw [hself]; intro hh; cases hh
    · rw [lookup_closeOne_ne st h x e]; exact i5 x

theorem hinv_closeMany (L L' B : List Nat) (st : List (Nat × HStatus)) (n : Nat)
    (hmem : ∀ x, x ∈ L ↔ x ∈ B ∨ x ∈ L')
    (hnd : L.Nodup → L'.Nodup ∧ B.Nodup ∧ ∀ x ∈ B, x ∉ L')
    (hi : HInv L st n) : HInv L' (closeMany st B) n := by
  obtain ⟨i1, i2, i3, i4, i5⟩ := hi
  obtain ⟨n1, n2, n3⟩ := hnd i1
  have hlk := fun x => lookup_closeMany_idle B st x n2 (fun y hy => i2 y ((hmem y).2 (Or.inl hy)))
  refine ⟨n1, ?_, ?_, ?_, ?_⟩
  · intro x hx
    rw [hlk, if_neg (fun hb => n3 x hb hx)]
    exact i2 x ((hmem x).2 (Or.inr hx))
  · intro x v; rw [hlk]; split
    · rename_i hb; intro _; exact i3 x _ (i2 x ((hmem x).2 (Or.inl hb)))
    · exact i3 x v
  · intro x m; rw [hlk]; split
    · intro hh; cases hh; rfl
    · exact i4 x m
  · intro x; rw [hlk]; split
    · intro hh; cases hh
    · rename_i hb; intro hx
      exact ((hmem x).1 (i5 x hx)).resolve_left hb

theorem setEntry_new (files : List Entry) (e : Entry) (h : ∀ x ∈ files, x.ptr ≠ e.ptr) :
    setEntry files e = files ++ [e] := by
  unfold setEntry
  rw [if_neg]
  simp only [List.any_eq_true, beq_iff_eq, not_exists, not_and]
  exact h

/-- Pool invariant: idle sets hold exactly idle handles, without repetition; nothing is closed twice.
    (Last conjunct appended for inductiveness: file entries have pairwise distinct pointers.) -/
def Inv (s : St) : Prop :=
  (s.files.flatMap (·.idle)).Nodup ∧
  (∀ h ∈ s.files.flatMap (·.idle), s.status.lookup h = some .idle) ∧
  (∀ h st, s.status.lookup h = some st → h < s.next) ∧
  (∀ h n, s.status.lookup h = some (.closed n) → n = 1) ∧
  (∀ h, s.status.lookup h = some .idle → h ∈ s.files.flatMap (·.idle)) ∧
  (s.closed = true → s.files = []) ∧
  (s.files.map (·.ptr)).Nodup

/-- Reader discipline: a handle is handed back (put / discard) only by the reader that holds it. -/
def Allowed (s : St) : Op → Prop
  | .put _ h => s.status.lookup h = some .lent
  | .discard h => s.status.lookup h = some .lent
  | _ => True

theorem inv_iff (s : St) : Inv s ↔ HInv (s.files.flatMap (·.idle)) s.status s.next ∧
    (s.closed = true → s.files = []) ∧ (s.files.map (·.ptr)).Nodup := by
  unfold Inv HInv; constructor
  · rintro ⟨a, b, c, d, e, f, g⟩; exact ⟨⟨a, b, c, d, e⟩, f, g⟩
  · rintro ⟨⟨a, b, c, d, e⟩, f, g⟩; exact ⟨a, b, c, d, e, f, g⟩

theorem inv_init_aux : Inv {} := by
  simp [Inv]

theorem inv_step_aux (s : St) (op : Op) (hi : Inv s) (ha : Allowed s op) : Inv (step s op).1 := by
  rw [inv_iff] at hi ⊢
  obtain ⟨hH, hC, hP⟩ := hi
  cases op with
  | retain p =>
    simp only [step]
    split
    · exact ⟨hH, hC, hP⟩
    · rename_i hcl
      split
      · rename_i e he
        obtain ⟨hm, hp⟩ := findEntry_some _ _ _ he
        obtain ⟨A, C, f1, f2, f3, f4⟩ := entry_facts s.files e hm hP
        obtain ⟨g1, g2⟩ := f2 { e with refs := e.refs + 1 } rfl
        refine ⟨?_, ?_, ?_⟩
        · simp only [g1, ← f1]; exact hH
        · intro h; exact absurd h hcl
        · simp only [g2]; exact hP
      · rename_i he
        have hne := findEntry_none _ _ he
        rw [setEntry_new s.files ⟨p, 1, []⟩ hne]
        refine ⟨?_, ?_, ?_⟩
        · simpa using hH
        · intro h; exact absurd h hcl
        · simp only [List.map_append, List.map_cons, List.map_nil, List.nodup_append]
          refine ⟨hP, by simp, ?_⟩
          intro a ha b hb
          simp only [List.mem_map] at ha
          obtain ⟨x, hx, rfl⟩ := ha
          simp only [List.mem_singleton] at hb
          subst hb
          exact hne x hx
  | release p =>
    simp only [step]
    split
    · exact ⟨hH, hC, hP⟩
    · rename_i e he
      obtain ⟨hm, hp⟩ := findEntry_some _ _ _ he
      subst hp
      obtain ⟨A, C, f1, f2, f3, f4⟩ := entry_facts s.files e hm hP
      have hcl : s.closed ≠ true := fun hc => by rw [hC hc] at hm; cases hm
      split
      · obtain ⟨g1, g2⟩ := f2 { e with refs := e.refs - 1 } rfl
        refine ⟨?_, ?_, ?_⟩
        · simp only [g1, ← f1]; exact hH
        · intro h; exact absurd h hcl
        · simp only [g2]; exact hP
      · refine ⟨?_, ?_, f4⟩
        · simp only [f3]
          rw [f1] at hH
          apply hinv_closeMany (A ++ e.idle ++ C) (A ++ C) e.idle _ _ ?_ ?_ hH
          · intro x; simp only [List.mem_append]
            constructor
            · rintro ((a | b) | c) <;> simp [*]
            · rintro (b | a | c) <;> simp [*]
          · simp only [List.nodup_append, List.mem_append]
            rintro ⟨⟨a1, a2, a3⟩, a4, a5⟩
            refine ⟨⟨a1, a4, fun x hx y hy => a5 x (Or.inl hx) y hy⟩, a2, ?_⟩
            rintro x hx (ha | hc)
            · exact a3 x ha x hx rfl
            · exact a5 x (Or.inr hx) x hc rfl
        · intro h; exact absurd h hcl
  | acquire p =>
    simp only [step]
    split
    · exact ⟨hH, hC, hP⟩
    · rename_i hcl
      split
      · rename_i e he
        split
        · rename_i h restRev hrev
          have hidle : e.idle = restRev.reverse ++ [h] := by
            have := congrArg List.reverse hrev; simpa using this
          obtain ⟨hm, hp⟩ := findEntry_some _ _ _ he
          obtain ⟨A, C, f1, f2, f3, f4⟩ := entry_facts s.files e hm hP
          obtain ⟨g1, g2⟩ := f2 { e with idle := restRev.reverse } rfl
          refine ⟨?_, ?_, ?_⟩
          · simp only [g1]
            rw [f1, hidle] at hH
            exact hinv_lend _ _ h _ _ (mem_mid A _ C h) (nodup_mid A _ C h) hH
          · intro h; exact absurd h hcl
          · simp only [g2]; exact hP
        · exact ⟨hinv_new _ _ _ hH, hC, hP⟩
      · exact ⟨hinv_new _ _ _ hH, hC, hP⟩
  | put p h =>
    simp only [step]
    split
    · rename_i e he
      split
      · exact ⟨hinv_closeOne _ h _ _ hH ha, hC, hP⟩
      · rename_i hg
        obtain ⟨hm, hp⟩ := findEntry_some _ _ _ he
        obtain ⟨A, C, f1, f2, f3, f4⟩ := entry_facts s.files e hm hP
        obtain ⟨g1, g2⟩ := f2 { e with idle := e.idle ++ [h] } rfl
        refine ⟨?_, ?_, ?_⟩
        · simp only [g1]
          rw [f1] at hH
          exact hinv_put _ _ h _ _ (mem_mid A e.idle C h) (nodup_mid A e.idle C h) hH ha
        · intro hc; simp only [] at hc; simp [hc] at hg
        · simp only [g2]; exact hP
    · exact ⟨hinv_closeOne _ h _ _ hH ha, hC, hP⟩
  | discard h =>
    exact ⟨hinv_closeOne _ h _ _ hH ha, hC, hP⟩
  | closeAll =>
    simp only [step]
    refine ⟨?_, by simp, by simp⟩
    apply hinv_closeMany (s.files.flatMap (·.idle)) [] (s.files.flatMap (·.idle)) _ _ ?_ ?_ hH
    · simp
    · intro h; simp [h]

/-- A handle is lent to at most one holder: `acquire` only ever returns a handle that was idle or is new. -/
theorem acquire_exclusive_aux (s : St) (p h : Nat) (hi : Inv s) (ha : (step s (.acquire p)).2 = some h) :
    (s.status.lookup h = some .idle ∨ (h = s.next ∧ s.status.lookup h = none)) ∧
    (step s (.acquire p)).1.status.lookup h = some .lent := by
  obtain ⟨i1, i2, i3, i4, i5, i6, i7⟩ := hi
  have hnext : s.status.lookup s.next = none := by
    cases hl : s.status.lookup s.next with
    | none => rfl
    | some v => exact absurd (i3 _ _ hl) (Nat.lt_irrefl _)
  revert ha
  simp only [step]
  split
  · intro ha; cases ha
  · split
    · rename_i e he
      split
      · rename_i h0 restRev hrev
        intro ha
        simp only [Option.some.injEq] at ha
        subst ha
        have hidle : e.idle = restRev.reverse ++ [h0] := by
          have := congrArg List.reverse hrev; simpa using this
        obtain ⟨hm, hp⟩ := findEntry_some _ _ _ he
        refine ⟨Or.inl (i2 h0 ?_), by simp [lookup_setStatus]⟩
        simp only [List.mem_flatMap]
        exact ⟨e, hm, by simp [hidle]⟩
      · intro ha
        simp only [Option.some.injEq] at ha
        subst ha
        exact ⟨Or.inr ⟨rfl, hnext⟩, by simp [lookup_setStatus]⟩
    · intro ha
      simp only [Option.some.injEq] at ha
      subst ha
      exact ⟨Or.inr ⟨rfl, hnext⟩, by simp [lookup_setStatus]⟩

/-- A lent handle is closed only by its holder: no other operation changes a lent handle's status. -/
theorem lent_untouched_aux (s : St) (op : Op) (h : Nat) (hi : Inv s) (hl : s.status.lookup h = some .lent)
    (hop : op ≠ .discard h ∧ ∀ p, op ≠ .put p h) : (step s op).1.status.lookup h = some .lent := by
  obtain ⟨i1, i2, i3, i4, i5, i6, i7⟩ := hi
  have hnotidle : h ∉ s.files.flatMap (·.idle) := fun hm => by
    have := i2 h hm; rw [hl] at this; cases this
  cases op with
  | retain p =>
    simp only [step]
    split
    · exact hl
    · split <;> exact hl
  | release p =>
    simp only [step]
    split
    · exact hl
    · rename_i e he
      split
      · exact hl
      · obtain ⟨hm, hp⟩ := findEntry_some _ _ _ he
        show (closeMany s.status e.idle).lookup h = _
        rw [lookup_closeMany_not_mem _ _ _ ?_]
        · exact hl
        · intro hh; apply hnotidle
          simp only [List.mem_flatMap]; exact ⟨e, hm, hh⟩
  | acquire p =>
    simp only [step]
    split
    · exact hl
    · split
      · split
        · simp only [lookup_setStatus]; split <;> simp [hl]
        · simp only [lookup_setStatus]; split <;> simp [hl]
      · simp only [lookup_setStatus]; split <;> simp [hl]
  | put p h' =>
    have hne : h ≠ h' := fun e => hop.2 p (by rw [e])
    simp only [step]
    split
    · split
      · simp only [lookup_closeOne_ne _ _ _ hne]; exact hl
      · simp only [lookup_setStatus, if_neg hne]; exact hl
    · simp only [lookup_closeOne_ne _ _ _ hne]; exact hl
  | discard h' =>
    have hne : h ≠ h' := fun e => hop.1 (by rw [e])
    simp only [step, lookup_closeOne_ne _ _ _ hne]; exact hl
  | closeAll =>
    simp only [step]
    rw [lookup_closeMany_not_mem _ _ _ hnotidle]; exact hl

/-- After `closeAll`, once no handle is lent, every handle the query opened is closed exactly once. -/
theorem closed_exactly_once_aux (s : St) (hi : Inv s) (hc : s.closed = true)
    (hl : ∀ h, s.status.lookup h ≠ some .lent) : ∀ h, h < s.next → s.status.lookup h = some (.closed 1) ∨ s.status.lookup h = none := by
  obtain ⟨i1, i2, i3, i4, i5, i6, i7⟩ := hi
  intro h _
  cases hs : s.status.lookup h with
  | none => exact Or.inr rfl
  | some v =>
    cases v with
    | lent => exact absurd hs (hl h)
    | idle =>
      have := i5 h hs
      rw [i6 hc] at this
      simp at this
    | closed n =>
      rw [i4 h n hs]; exact Or.inl rfl

end BloomVerif.Pool

namespace BloomVerif.Slots

theorem heldLen_set (l : List Phase) (i : Nat) (p q : Phase) (h : l[i]? = some q) :
    ((l.set i p).filter held).length + (if held q then 1 else 0) =
      (l.filter held).length + (if held p then 1 else 0) := by
  induction l generalizing i with
  | nil => simp at h
  | cons a t ih =>
    cases i with
    | zero =>
      simp at h; subst h
      simp only [List.set_cons_zero, List.filter_cons]
      cases held a <;> cases held p <;> simp
    | succ j =>
      simp at h
      have := ih j h
      simp only [List.set_cons_succ, List.filter_cons]
      cases held a <;> simp <;> omega

theorem step_held (s s' : St) (e : Ev) (h : heldCount s ≤ s.cap) (hs : step s e = some s') :
    heldCount s' ≤ s'.cap ∧ s'.cap = s.cap := by
  cases e <;> simp only [step] at hs <;> (try split at hs) <;>
    first
    | (cases hs)
    | skip
  case spawn =>
    simp [heldCount, List.filter_append, held] at h ⊢; exact h
  case acquire i hg =>
    simp only [Bool.and_eq_true, decide_eq_true_eq] at hg
    have hk := heldLen_set s.workers i .working _ hg.1
    have hlt := hg.2
    simp [heldCount, setAt, held] at hk h hlt ⊢; omega
  case release i hg =>
    have hk := heldLen_set s.workers i .idle _ hg
    simp [heldCount, setAt, held] at hk h ⊢; omega
  case readBegin i hg =>
    have hk := heldLen_set s.workers i .reading _ hg
    simp [heldCount, setAt, held] at hk h ⊢; omega
  case readEnd i hg =>
    have hk := heldLen_set s.workers i .working _ hg
    simp [heldCount, setAt, held] at hk h ⊢; omega
  case block i hg =>
    have hk := heldLen_set s.workers i .blocked _ hg
    simp [heldCount, setAt, held] at hk h ⊢; omega
  case unblock i hg =>
    have hk := heldLen_set s.workers i .idle _ hg
    simp [heldCount, setAt, held] at hk h ⊢; omega
  case exit i hg =>
    have hk := heldLen_set s.workers i .done _ hg
    simp [heldCount, setAt, held] at hk h ⊢; omega

theorem held_le_cap_aux (s : St) (tr : List Ev) (s' : St) (h : heldCount s ≤ s.cap) (hr : run s tr = some s') :
    heldCount s' ≤ s'.cap ∧ s'.cap = s.cap := by
  induction tr generalizing s with
  | nil => simp only [run] at hr; cases hr; exact ⟨h, rfl⟩
  | cons e es ih =>
    simp only [run] at hr
    split at hr
    · cases hr
    · rename_i s1 h1
      obtain ⟨a, b⟩ := step_held s s1 e h h1
      obtain ⟨a', b'⟩ := ih s1 a hr
      exact ⟨a', b'.trans b⟩

theorem filter_len_mono {α} (p q : α → Bool) (l : List α) (hpq : ∀ x, p x = true → q x = true) :
    (l.filter p).length ≤ (l.filter q).length := by
  induction l with
  | nil => simp
  | cons a t ih =>
    simp only [List.filter_cons]
    cases hp : p a
    · cases q a <;> simp <;> omega
    · simp [hpq a hp]; omega

theorem reading_le_held_aux (s : St) : readingCount s ≤ heldCount s := by
  apply filter_len_mono
  intro x hx
  simp at hx
  simp [held, hx]

end BloomVerif.Slots
