/- Helper lemmas for C14 (snapshot consistency of queries concurrent with flushes and merges). -/
import BloomVerif.Model.Snapshot
namespace BloomVerif.Snapshot

def snap_content (pub : List (FileId × List Row)) (f : FileId) : List Row := (pub.lookup f).getD []
def snap_rows (pub : List (FileId × List Row)) (fs : List FileId) : List Row := fs.flatMap (snap_content pub)

theorem snap_rowsOf_eq (s : St) (fs : List FileId) : s.rowsOf fs = snap_rows s.pub fs := rfl
theorem snap_content_eq (s : St) (f : FileId) : s.content f = snap_content s.pub f := rfl

theorem snap_content_publish (pub : List (FileId × List Row)) (f : FileId) (rows : List Row) (g : FileId)
    (h : (pub.lookup g).isSome) : snap_content (pub ++ [(f, rows)]) g = snap_content pub g := by
  unfold snap_content
  rw [List.lookup_append]
  cases hl : pub.lookup g <;> simp_all

theorem snap_rows_publish (pub : List (FileId × List Row)) (f : FileId) (rows : List Row) (fs : List FileId)
    (h : ∀ g ∈ fs, (pub.lookup g).isSome) : snap_rows (pub ++ [(f, rows)]) fs = snap_rows pub fs := by
  induction fs with
  | nil => rfl
  | cons a t ih =>
    simp only [snap_rows, List.flatMap_cons] at ih ⊢
    rw [snap_content_publish pub f rows a (h a (by simp)), ih (fun g hg => h g (by simp [hg]))]

theorem snap_split_perm {β : Type} (g : FileId → List β) (l : List FileId) (f : FileId) (hn : l.Nodup) (hf : f ∈ l) :
    (l.flatMap g).Perm (g f ++ (l.filter (· != f)).flatMap g) := by
  have hp : l.Perm (f :: l.filter (· != f)) := by
    rw [List.perm_ext_iff_of_nodup hn]
    · intro a
      by_cases ha : a = f <;> simp [ha, hf, List.mem_filter]
    · rw [List.nodup_cons]
      exact ⟨by simp [List.mem_filter], List.Nodup.sublist List.filter_sublist hn⟩
  have := List.Perm.flatMap_right g hp
  simpa [List.flatMap_cons] using this

theorem snap_sameRows_count (a b : List Row) (h : sameRows a b = true) (r : Row) : a.count r = b.count r := by
  unfold sameRows at h
  simp only [Bool.and_eq_true, List.all_eq_true, beq_iff_eq] at h
  by_cases ha : r ∈ a
  · exact h.1 r ha
  · by_cases hb : r ∈ b
    · exact h.2 r hb
    · rw [List.count_eq_zero_of_not_mem ha, List.count_eq_zero_of_not_mem hb]

theorem snap_merge_perm {β : Type} (g : FileId → List β) (l srcs : List FileId) (hn : l.Nodup) (hs : srcs.Nodup)
    (hsub : ∀ f ∈ srcs, f ∈ l) :
    (l.flatMap g).Perm ((l.filter (fun f => !srcs.contains f)).flatMap g ++ srcs.flatMap g) := by
  have hp : l.Perm (l.filter (fun f => !srcs.contains f) ++ srcs) := by
    rw [List.perm_ext_iff_of_nodup hn]
    · intro a
      by_cases ha : a ∈ srcs <;> simp [ha, List.mem_filter]
      exact hsub a ha
    · rw [List.nodup_append]
      refine ⟨List.Nodup.sublist List.filter_sublist hn, hs, ?_⟩
      intro a ha b hb hab
      subst hab
      simp [List.mem_filter] at ha
      exact ha.2 hb
  have := List.Perm.flatMap_right g hp
  simpa [List.flatMap_append] using this


structure snap_QInv (m : Row → Bool) (pub : List (FileId × List Row)) (acked : List Row) (q : Query) : Prop where
  start_sub : ∀ r ∈ q.ackedAtStart, r ∈ acked
  nosnap : q.snap = none → q.got = []
  snapd : ∀ snap, q.snap = some snap →
     (∀ f ∈ snap, (pub.lookup f).isSome) ∧ (∀ f ∈ q.todo, f ∈ snap) ∧ q.todo.Nodup ∧
     (snap_rows pub snap).Nodup ∧ (∀ r ∈ q.ackedAtStart, r ∈ snap_rows pub snap) ∧
     (∀ r ∈ snap_rows pub snap, r ∈ acked) ∧
     (q.err = false → (q.got ++ (snap_rows pub q.todo).filter m).Perm ((snap_rows pub snap).filter m))

structure snap_Inv (m : Row → Bool) (s : St) : Prop where
  live_pub : ∀ f ∈ s.live, (s.pub.lookup f).isSome
  com_nodup : s.committed.Nodup
  com_live : ∀ f ∈ s.committed, f ∈ s.live
  rows_perm : (snap_rows s.pub s.committed).Perm s.acked
  acked_nodup : s.acked.Nodup
  qinv : ∀ q, s.q = some q → snap_QInv m s.pub s.acked q

theorem snap_QInv_mono (m : Row → Bool) (pub : List (FileId × List Row)) (acked acked' : List Row) (q : Query)
    (h : snap_QInv m pub acked q) (hsub : ∀ r ∈ acked, r ∈ acked') : snap_QInv m pub acked' q := by
  obtain ⟨h1, h2, h3⟩ := h
  refine ⟨fun r hr => hsub r (h1 r hr), h2, ?_⟩
  intro snap hs
  obtain ⟨a, b, c, d, e, f, g⟩ := h3 snap hs
  exact ⟨a, b, c, d, e, fun r hr => hsub r (f r hr), g⟩

theorem snap_QInv_publish (m : Row → Bool) (pub : List (FileId × List Row)) (acked : List Row) (q : Query)
    (f : FileId) (rows : List Row)
    (h : snap_QInv m pub acked q) : snap_QInv m (pub ++ [(f, rows)]) acked q := by
  obtain ⟨h1, h2, h3⟩ := h
  refine ⟨h1, h2, ?_⟩
  intro snap hs
  obtain ⟨a, b, c, d, e, f', g⟩ := h3 snap hs
  have e1 : snap_rows (pub ++ [(f, rows)]) snap = snap_rows pub snap := snap_rows_publish pub f rows snap a
  have e2 : snap_rows (pub ++ [(f, rows)]) q.todo = snap_rows pub q.todo :=
    snap_rows_publish pub f rows q.todo (fun g hg => a g (b g hg))
  rw [e1, e2]
  refine ⟨?_, b, c, d, e, f', g⟩
  intro g hg
  rw [List.lookup_append]
  have := a g hg
  cases hl : pub.lookup g <;> simp_all

theorem snap_mem_step_inv (m : Row → Bool) (s s' : St) (e : Ev) (h : Mem.step m s e = some s')
    (hi : snap_Inv m s) : snap_Inv m s' := by
  obtain ⟨hlp, hcn, hcl, hrp, han, hq⟩ := hi
  cases e with
  | publish f rows =>
    simp only [Mem.step] at h
    split at h
    · cases h
    · cases h
      refine ⟨?_, hcn, ?_, ?_, han, ?_⟩
      · intro g hg
        simp only [List.mem_append, List.mem_singleton] at hg
        simp only [List.lookup_append]
        rcases hg with hg | hg
        · have := hlp g hg
          cases hl : s.pub.lookup g <;> simp_all
        · subst hg
          cases hl : s.pub.lookup g <;> simp [List.lookup]
      · intro g hg
        simp only [List.mem_append]
        exact Or.inl (hcl g hg)
      · show (snap_rows (s.pub ++ [(f, rows)]) s.committed).Perm s.acked
        rw [snap_rows_publish _ _ _ _ (fun g hg => hlp g (hcl g hg))]
        exact hrp
      · intro q hq'
        exact snap_QInv_publish m s.pub s.acked q f rows (hq q hq')
  | commitFlush f =>
    simp only [Mem.step] at h
    split at h
    · cases h
      rename_i hg
      simp only [Bool.and_eq_true, List.contains_iff_mem, Bool.not_eq_true', decide_eq_true_eq,
        List.all_eq_true] at hg
      obtain ⟨⟨⟨hfl, hfc⟩, hfn⟩, hfa⟩ := hg
      have hfc' : f ∉ s.committed := by
        intro hc
        have := List.contains_iff_mem.2 hc
        simp_all
      refine ⟨hlp, ?_, ?_, ?_, ?_, ?_⟩
      · show (s.committed ++ [f]).Nodup
        rw [List.nodup_append]
        refine ⟨hcn, by simp, ?_⟩
        intro a ha b hb hab
        simp at hb
        subst hb; subst hab
        exact hfc' ha
      · intro g hg
        simp only [List.mem_append, List.mem_singleton] at hg
        rcases hg with hg | hg
        · exact hcl g hg
        · subst hg; exact hfl
      · show (snap_rows s.pub (s.committed ++ [f])).Perm (s.acked ++ s.content f)
        simp only [snap_rows, List.flatMap_append, List.flatMap_cons, List.flatMap_nil, List.append_nil]
        exact List.Perm.append hrp (List.Perm.refl _)
      · show (s.acked ++ s.content f).Nodup
        rw [List.nodup_append]
        refine ⟨han, hfn, ?_⟩
        intro a ha b hb hab
        subst hab
        have := hfa a hb
        have := List.contains_iff_mem.2 ha
        simp_all
      · intro q hq'
        exact snap_QInv_mono m s.pub s.acked _ q (hq q hq') (fun r hr => List.mem_append_left _ hr)
    · cases h
  | commitMerge outs srcs =>
    simp only [Mem.step] at h
    split at h
    · cases h
      rename_i hg
      simp only [Bool.and_eq_true, List.all_eq_true, List.contains_iff_mem, decide_eq_true_eq] at hg
      obtain ⟨⟨⟨⟨hsc, hsn⟩, hon⟩, hol⟩, hsr⟩ := hg
      have hol' : ∀ g ∈ outs, g ∈ s.live ∧ g ∉ s.committed := by
        intro g hg
        have := hol g hg
        simp only [Bool.not_eq_true'] at this
        refine ⟨this.1, ?_⟩
        intro hc
        have := List.contains_iff_mem.2 hc
        simp_all
      refine ⟨hlp, ?_, ?_, ?_, han, hq⟩
      · show (s.committed.filter (fun f => !srcs.contains f) ++ outs).Nodup
        rw [List.nodup_append]
        refine ⟨List.Nodup.sublist List.filter_sublist hcn, hon, ?_⟩
        intro a ha b hb hab
        subst hab
        exact (hol' a hb).2 (List.mem_filter.1 ha).1
      · intro g hg
        simp only [List.mem_append] at hg
        rcases hg with hg | hg
        · exact hcl g (List.mem_filter.1 hg).1
        · exact (hol' g hg).1
      · show (snap_rows s.pub (s.committed.filter (fun f => !srcs.contains f) ++ outs)).Perm s.acked
        have h1 := snap_merge_perm (snap_content s.pub) s.committed srcs hcn hsn hsc
        have h2 : (snap_rows s.pub outs).Perm (snap_rows s.pub srcs) :=
          List.perm_iff_count.2 (snap_sameRows_count _ _ hsr)
        simp only [snap_rows, List.flatMap_append] at h2 ⊢
        exact ((List.Perm.append_left _ h2).trans h1.symm).trans hrp
    · cases h
  | tombstone f =>
    simp only [Mem.step] at h
    split at h
    · cases h
    · cases h
      rename_i hg
      have hfc : f ∉ s.committed := by
        intro hc
        exact hg (List.contains_iff_mem.2 hc)
      refine ⟨?_, hcn, ?_, hrp, han, hq⟩
      · intro g hg
        exact hlp g (List.mem_filter.1 hg).1
      · intro g hg
        show g ∈ s.live.filter (· != f)
        rw [List.mem_filter]
        refine ⟨hcl g hg, ?_⟩
        have : g ≠ f := by intro e; subst e; exact hfc hg
        simpa using this
  | qBegin =>
    simp only [Mem.step] at h
    split at h
    · cases h
    · cases h
      refine ⟨hlp, hcn, hcl, hrp, han, ?_⟩
      intro q hq'
      cases hq'
      exact ⟨fun r hr => hr, fun _ => rfl, fun snap hs => by cases hs⟩
  | qSnap =>
    simp only [Mem.step] at h
    split at h
    · rename_i q hsq
      split at h
      · cases h
      · cases h
        rename_i hns
        have hns' : q.snap = none := by cases hh : q.snap <;> simp_all
        obtain ⟨h1, h2, h3⟩ := hq q hsq
        refine ⟨hlp, hcn, hcl, hrp, han, ?_⟩
        intro q' hq'
        cases hq'
        refine ⟨h1, fun hh => (by cases hh), ?_⟩
        intro snap hs
        cases hs
        refine ⟨fun g hg => hlp g (hcl g hg), fun g hg => hg, hcn, (hrp.nodup_iff).2 han,
          fun r hr => (hrp.mem_iff).2 (h1 r hr), fun r hr => (hrp.mem_iff).1 hr, ?_⟩
        intro _
        show (q.got ++ _).Perm _
        rw [h2 hns']
        exact List.Perm.refl _
    · cases h
  | qOpen f =>
    simp only [Mem.step] at h
    split at h
    · rename_i q hsq
      obtain ⟨h1, h2, h3⟩ := hq q hsq
      split at h
      · cases h
      · rename_i hfs
        cases hsn : q.snap with
        | none => simp [hsn] at hfs
        | some snap =>
        simp only [hsn, Option.getD_some, Bool.not_eq_true', Bool.not_eq_false, List.contains_iff_mem] at hfs
        obtain ⟨a, b, c, d, e, f', g⟩ := h3 snap hsn
        have hb' : ∀ g ∈ q.todo.filter (· != f), g ∈ snap := fun g hg => b g (List.mem_filter.1 hg).1
        have hc' : (q.todo.filter (· != f)).Nodup := List.Nodup.sublist List.filter_sublist c
        split at h
        · cases h
          refine ⟨hlp, hcn, hcl, hrp, han, ?_⟩
          intro q' hq'
          cases hq'
          refine ⟨h1, fun hh => by simp [hsn] at hh, ?_⟩
          intro snap' hs'
          simp only [hsn, Option.some.injEq] at hs'
          subst hs'
          exact ⟨a, hb', hc', d, e, f', fun hh => by simp at hh⟩
        · split at h
          · cases h
            rename_i hlive htodo
            have htodo' : f ∈ q.todo := List.contains_iff_mem.1 htodo
            refine ⟨hlp, hcn, hcl, hrp, han, ?_⟩
            intro q' hq'
            cases hq'
            refine ⟨h1, fun hh => by simp [hsn] at hh, ?_⟩
            intro snap' hs'
            simp only [hsn, Option.some.injEq] at hs'
            subst hs'
            refine ⟨a, hb', hc', d, e, f', ?_⟩
            intro herr
            have g' := g herr
            have hsp := snap_split_perm (snap_content s.pub) q.todo f c htodo'
            have hsp' := hsp.filter m
            show (q.got ++ (s.content f).filter m ++ (snap_rows s.pub (q.todo.filter (· != f))).filter m).Perm _
            rw [List.filter_append] at hsp'
            rw [List.append_assoc]
            exact (List.Perm.append_left _ hsp'.symm).trans g'
          · cases h
            exact ⟨hlp, hcn, hcl, hrp, han, hq⟩
    · cases h

theorem snap_inv_init (m : Row → Bool) : snap_Inv m {} := by
  refine ⟨?_, ?_, ?_, ?_, ?_, ?_⟩ <;> simp [snap_rows]

theorem snap_mem_run_inv (m : Row → Bool) (evs : List Ev) : ∀ (s s' : St), Mem.run m s evs = some s' →
    snap_Inv m s → snap_Inv m s' := by
  induction evs with
  | nil => intro s s' h hi; simp [Mem.run] at h; subst h; exact hi
  | cons e es ih =>
    intro s s' h hi
    simp only [Mem.run] at h
    split at h
    · rename_i s1 hs1
      exact ih s1 s' h (snap_mem_step_inv m s s1 e hs1 hi)
    · cases h

theorem snap_finishedOk (s : St) (q : Query) (h : finishedOk s = some q) :
    s.q = some q ∧ (∃ snap, q.snap = some snap) ∧ q.todo = [] ∧ q.err = false := by
  unfold finishedOk at h
  split at h
  · rename_i q' hq'
    split at h
    · cases h
      rename_i hc
      simp only [Bool.and_eq_true, Bool.not_eq_true', List.isEmpty_iff] at hc
      refine ⟨hq', ?_, hc.1.2, hc.2⟩
      cases hh : q.snap <;> simp_all
    · cases h
  · cases h


/-- MemoryMetaStore: a query that completes without an error returns exactly the matching rows of its
    snapshot, the snapshot holds exactly the rows acknowledged when it was taken (each once), and every
    row acknowledged before the query began is among them. -/
theorem mem_snapshot_consistent_aux (m : Row → Bool) (evs : List Ev) (s : St) (q : Query)
    (hrun : Mem.run m {} evs = some s) (hq : finishedOk s = some q) :
    q.got.Nodup ∧
    (∀ r, r ∈ q.ackedAtStart → m r = true → r ∈ q.got) ∧
    (∀ r, r ∈ q.got → r ∈ s.acked ∧ m r = true) := by
  have hi := snap_mem_run_inv m evs {} s hrun (snap_inv_init m)
  obtain ⟨hsq, ⟨snap, hsnap⟩, htodo, herr⟩ := snap_finishedOk s q hq
  obtain ⟨_, _, h3⟩ := hi.qinv q hsq
  obtain ⟨_, _, _, d, e, f, g⟩ := h3 snap hsnap
  have g' := g herr
  rw [htodo] at g'
  simp only [snap_rows, List.flatMap_nil, List.filter_nil, List.append_nil] at g'
  refine ⟨?_, ?_, ?_⟩
  · exact (g'.nodup_iff).2 (List.Nodup.sublist List.filter_sublist d)
  · intro r hr hm
    exact (g'.mem_iff).2 (List.mem_filter.2 ⟨e r hr, hm⟩)
  · intro r hr
    have := List.mem_filter.1 ((g'.mem_iff).1 hr)
    exact ⟨f r this.1, this.2⟩

/-! Directory discipline without removals. -/

structure snap_DInv (m : Row → Bool) (s : St) : Prop where
  live_pub : ∀ f ∈ s.live, (s.pub.lookup f).isSome
  acked_live : ∀ r ∈ s.acked, ∃ f ∈ s.live, r ∈ snap_content s.pub f
  q_pre : ∀ q, s.q = some q → q.snap = none → ∀ r ∈ q.ackedAtStart, r ∈ s.acked
  q_post : ∀ q snap, s.q = some q → q.snap = some snap →
    (∀ f ∈ q.todo, f ∈ s.live) ∧
    (∀ r ∈ q.ackedAtStart, m r = true → r ∈ q.got ∨ ∃ f ∈ q.todo, r ∈ snap_content s.pub f)

theorem snap_dir_step_inv (m : Row → Bool) (s s' : St) (e : Ev) (hnt : ∀ f, e ≠ .tombstone f)
    (h : Dir.step m s e = some s') (hi : snap_DInv m s) : snap_DInv m s' := by
  obtain ⟨hlp, hal, hpre, hpost⟩ := hi
  cases e with
  | publish f rows =>
    simp only [Dir.step] at h
    split at h
    · cases h
    · cases h
      have hlp' : ∀ g ∈ s.live ++ [f], ((s.pub ++ [(f, rows)]).lookup g).isSome := by
        intro g hg
        simp only [List.mem_append, List.mem_singleton] at hg
        simp only [List.lookup_append]
        rcases hg with hg | hg
        · have := hlp g hg
          cases hl : s.pub.lookup g <;> simp_all
        · subst hg
          cases hl : s.pub.lookup g <;> simp [List.lookup]
      refine ⟨hlp', ?_, hpre, ?_⟩
      · intro r hr
        obtain ⟨g, hg, hrg⟩ := hal r hr
        refine ⟨g, List.mem_append_left _ hg, ?_⟩
        show r ∈ snap_content (s.pub ++ [(f, rows)]) g
        rw [snap_content_publish _ _ _ _ (hlp g hg)]
        exact hrg
      · intro q snap hsq hsn
        obtain ⟨a, b⟩ := hpost q snap hsq hsn
        refine ⟨fun g hg => List.mem_append_left _ (a g hg), ?_⟩
        intro r hr hm
        rcases b r hr hm with hb | ⟨g, hg, hrg⟩
        · exact Or.inl hb
        · refine Or.inr ⟨g, hg, ?_⟩
          show r ∈ snap_content (s.pub ++ [(f, rows)]) g
          rw [snap_content_publish _ _ _ _ (hlp g (a g hg))]
          exact hrg
  | commitFlush f =>
    simp only [Dir.step] at h
    split at h
    · cases h
      rename_i hfl
      have hfl' : f ∈ s.live := List.contains_iff_mem.1 hfl
      refine ⟨hlp, ?_, ?_, hpost⟩
      · intro r hr
        have hr' : r ∈ s.acked ++ s.content f := hr
        rcases List.mem_append.1 hr' with hr' | hr'
        · exact hal r hr'
        · exact ⟨f, hfl', hr'⟩
      · intro q hsq hsn r hr
        exact List.mem_append_left _ (hpre q hsq hsn r hr)
    · cases h
  | commitMerge outs srcs =>
    simp only [Dir.step] at h
    cases h
    exact ⟨hlp, hal, hpre, hpost⟩
  | tombstone f => exact absurd rfl (hnt f)
  | qBegin =>
    simp only [Dir.step] at h
    split at h
    · cases h
    · cases h
      refine ⟨hlp, hal, ?_, ?_⟩
      · intro q hsq _ r hr
        cases hsq
        exact hr
      · intro q snap hsq hsn
        cases hsq
        cases hsn
  | qSnap =>
    simp only [Dir.step] at h
    split at h
    · rename_i q hsq
      split at h
      · cases h
      · cases h
        rename_i hns
        have hns' : q.snap = none := by cases hh : q.snap <;> simp_all
        refine ⟨hlp, hal, ?_, ?_⟩
        · intro q' hsq' hsn'
          cases hsq'
          cases hsn'
        · intro q' snap hsq' hsn'
          cases hsq'
          refine ⟨fun g hg => hg, ?_⟩
          intro r hr _
          exact Or.inr (hal r (hpre q hsq hns' r hr))
    · cases h
  | qOpen f =>
    simp only [Dir.step] at h
    split at h
    · rename_i q hsq
      split at h
      · cases h
      · rename_i htodo
        simp only [Bool.not_eq_true', Bool.not_eq_false, List.contains_iff_mem] at htodo
        split at h
        · cases h
          rename_i hlive
          refine ⟨hlp, hal, ?_, ?_⟩
          · intro q' hsq' hsn'
            cases hsq'
            exact hpre q hsq hsn'
          · intro q' snap hsq' hsn'
            cases hsq'
            obtain ⟨a, b⟩ := hpost q snap hsq hsn'
            refine ⟨fun g hg => a g (List.mem_filter.1 hg).1, ?_⟩
            intro r hr hm
            show r ∈ q.got ++ (s.content f).filter m ∨ ∃ g ∈ q.todo.filter (· != f), r ∈ snap_content s.pub g
            rcases b r hr hm with hb | ⟨g, hg, hrg⟩
            · exact Or.inl (List.mem_append_left _ hb)
            · by_cases hgf : g = f
              · subst hgf
                exact Or.inl (List.mem_append_right _ (List.mem_filter.2 ⟨hrg, hm⟩))
              · exact Or.inr ⟨g, List.mem_filter.2 ⟨hg, by simpa using hgf⟩, hrg⟩
        · cases h
          rename_i hlive
          have hnl : f ∉ s.live := fun hc => hlive (List.contains_iff_mem.2 hc)
          refine ⟨hlp, hal, ?_, ?_⟩
          · intro q' hsq' hsn'
            cases hsq'
            exact hpre q hsq hsn'
          · intro q' snap hsq' hsn'
            cases hsq'
            obtain ⟨a, b⟩ := hpost q snap hsq hsn'
            exact absurd (a f htodo) hnl
    · cases h

theorem snap_dinv_init (m : Row → Bool) : snap_DInv m {} := by
  refine ⟨?_, ?_, ?_, ?_⟩ <;> simp

theorem snap_dir_run_inv (m : Row → Bool) (evs : List Ev) : ∀ (s s' : St),
    (∀ e ∈ evs, ∀ f, e ≠ .tombstone f) → Dir.run m s evs = some s' →
    snap_DInv m s → snap_DInv m s' := by
  induction evs with
  | nil => intro s s' _ h hi; simp [Dir.run] at h; subst h; exact hi
  | cons e es ih =>
    intro s s' hn h hi
    simp only [Dir.run] at h
    split at h
    · rename_i s1 hs1
      exact ih s1 s' (fun e' he' => hn e' (List.mem_cons_of_mem _ he')) h
        (snap_dir_step_inv m s s1 e (hn e (List.mem_cons_self)) hs1 hi)
    · cases h

/-- Directory as MetaStore, histories without removals (no merge, no tombstone): the same conclusion. -/
theorem dir_no_removal_consistent_aux (m : Row → Bool) (evs : List Ev) (s : St) (q : Query)
    (hnorm : ∀ e ∈ evs, (∀ f, e ≠ .tombstone f))
    (hrun : Dir.run m {} evs = some s) (hq : finishedOk s = some q) :
    (∀ r, r ∈ q.ackedAtStart → m r = true → r ∈ q.got) := by
  have hi := snap_dir_run_inv m evs {} s hnorm hrun (snap_dinv_init m)
  obtain ⟨hsq, ⟨snap, hsnap⟩, htodo, herr⟩ := snap_finishedOk s q hq
  obtain ⟨_, b⟩ := hi.q_post q snap hsq hsnap
  intro r hr hm
  rcases b r hr hm with hb | ⟨g, hg, _⟩
  · exact hb
  · rw [htodo] at hg; cases hg

/-- Omission witness for the directory discipline: the query lists [1, 2]; a merge publishes 3 (rows
    of 1 and 2) and removes 1 and 2; the query then finds neither and ends without an error, having
    returned nothing although rows 10 and 20 were acknowledged before it began. -/
theorem dir_omission_aux :
    let evs : List Ev := [.publish 1 [10], .commitFlush 1, .publish 2 [20], .commitFlush 2, .qBegin, .qSnap,
      .publish 3 [10, 20], .commitMerge [3] [1, 2], .tombstone 1, .tombstone 2, .qOpen 1, .qOpen 2]
    ∃ s q, Dir.run (fun _ => true) {} evs = some s ∧ finishedOk s = some q ∧ q.ackedAtStart = [10, 20] ∧ q.got = [] := by
  refine ⟨_, _, rfl, rfl, rfl, rfl⟩

/-- Duplication witness: the listing is taken after the merge output was published and before the
    sources are removed. -/
theorem dir_duplication_aux :
    let evs : List Ev := [.publish 1 [10], .commitFlush 1, .publish 2 [20], .commitFlush 2, .qBegin,
      .publish 3 [10, 20], .commitMerge [3] [1, 2], .qSnap, .qOpen 1, .qOpen 2, .qOpen 3, .tombstone 1, .tombstone 2]
    ∃ s q, Dir.run (fun _ => true) {} evs = some s ∧ finishedOk s = some q ∧ q.got = [10, 20, 10, 20] := by
  refine ⟨_, _, rfl, rfl, rfl⟩

/-- The same two schedules under MemoryMetaStore: the first ends in an error, the second returns each
    row once. -/
theorem mem_same_schedules_aux :
    (∃ s q, Mem.run (fun _ => true) {}
      [.publish 1 [10], .commitFlush 1, .publish 2 [20], .commitFlush 2, .qBegin, .qSnap,
       .publish 3 [10, 20], .commitMerge [3] [1, 2], .tombstone 1, .tombstone 2, .qOpen 1, .qOpen 2] = some s ∧
      s.q = some q ∧ q.err = true) ∧
    (∃ s q, Mem.run (fun _ => true) {}
      [.publish 1 [10], .commitFlush 1, .publish 2 [20], .commitFlush 2, .qBegin,
       .publish 3 [10, 20], .commitMerge [3] [1, 2], .qSnap, .qOpen 3, .tombstone 1, .tombstone 2] = some s ∧
      finishedOk s = some q ∧ q.got = [10, 20]) := by
  refine ⟨⟨_, _, rfl, rfl, rfl⟩, ⟨_, _, rfl, rfl, rfl⟩⟩

end BloomVerif.Snapshot
