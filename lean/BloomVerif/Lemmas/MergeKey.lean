/-
  Lemmas for Model/MergeKey: the length-prefixed encoding is uniquely decodable, hence injective.
-/
import BloomVerif.Model.MergeKey
namespace BloomVerif.MergeKey

theorem uvarint_ne_nil (n : Nat) : uvarint n ≠ [] := by
  unfold uvarint; split <;> simp

/-- uvarint is prefix-free: two encodings followed by anything agree only if the numbers and the rests agree. -/
theorem uvarint_append_inj (a b : Nat) (r r' : List Nat)
    (h : uvarint a ++ r = uvarint b ++ r') : a = b ∧ r = r' := by
  induction a using Nat.strongRecOn generalizing b with
  | _ a ih =>
    rw [uvarint.eq_def a, uvarint.eq_def b] at h
    by_cases ha : a < 128 <;> by_cases hb : b < 128 <;> simp only [ha, hb, if_true, if_false, List.cons_append, List.nil_append, List.cons.injEq] at h
    · exact ⟨h.1, h.2⟩
    · omega
    · omega
    · obtain ⟨h1, h2⟩ := h
      have := ih (a / 128) (by omega) (b / 128) h2
      exact ⟨by omega, this.2⟩

theorem lenPrefixed_append_inj (s s' r r' : List Nat)
    (h : lenPrefixed s ++ r = lenPrefixed s' ++ r') : s = s' ∧ r = r' := by
  unfold lenPrefixed at h
  rw [List.append_assoc, List.append_assoc] at h
  obtain ⟨hl, h2⟩ := uvarint_append_inj _ _ _ _ h
  exact List.append_inj h2 hl

theorem lenPrefixed_ne_nil (s : List Nat) : lenPrefixed s ≠ [] := by
  unfold lenPrefixed; simp [uvarint_ne_nil]

theorem flatMap_lenPrefixed_inj (ks ks' : List (List Nat))
    (h : ks.flatMap lenPrefixed = ks'.flatMap lenPrefixed) : ks = ks' := by
  induction ks generalizing ks' with
  | nil =>
    cases ks' with
    | nil => rfl
    | cons k ks' => simp [lenPrefixed_ne_nil] at h
  | cons k ks ih =>
    cases ks' with
    | nil => simp [lenPrefixed_ne_nil] at h
    | cons k' ks' =>
      simp only [List.flatMap_cons] at h
      obtain ⟨h1, h2⟩ := lenPrefixed_append_inj _ _ _ _ h
      rw [h1, ih _ h2]

theorem encodeKey_inj_aux (p p' : List Nat) (ks ks' : List (List Nat))
    (h : encodeKey p ks = encodeKey p' ks') : p = p' ∧ ks = ks' := by
  unfold encodeKey at h
  obtain ⟨h1, h2⟩ := lenPrefixed_append_inj _ _ _ _ h
  exact ⟨h1, flatMap_lenPrefixed_inj _ _ h2⟩

theorem leBytes_total (a b : List Nat) : leBytes a b || leBytes b a := by
  simp only [leBytes, Bool.or_eq_true, decide_eq_true_eq]
  exact List.le_total a b

theorem leBytes_trans (a b c : List Nat) : leBytes a b → leBytes b c → leBytes a c := by
  simp only [leBytes, decide_eq_true_eq]
  exact List.le_trans

theorem leBytes_antisymm (a b : List Nat) : leBytes a b → leBytes b a → a = b := by
  simp only [leBytes, decide_eq_true_eq]
  exact List.le_antisymm

/-- sorting with the bytewise order is canonical: permutations sort to the same list -/
theorem sort_canonical_aux (ks ks' : List (List Nat)) (h : ks.Perm ks') :
    ks.mergeSort leBytes = ks'.mergeSort leBytes := by
  apply List.Perm.eq_of_pairwise (le := fun a b => leBytes a b = true)
  · intro a b _ _ h1 h2; exact leBytes_antisymm a b h1 h2
  · exact List.pairwise_mergeSort (fun a b c => leBytes_trans a b c) (fun a b => leBytes_total a b) ks
  · exact List.pairwise_mergeSort (fun a b c => leBytes_trans a b c) (fun a b => leBytes_total a b) ks'
  · exact (List.mergeSort_perm ks _).trans (h.trans (List.mergeSort_perm ks' _).symm)

theorem blockMergeKey_eq_iff_aux (p p' : List Nat) (ks ks' : List (List Nat)) :
    blockMergeKey p ks = blockMergeKey p' ks' ↔ p = p' ∧ ks.Perm ks' := by
  unfold blockMergeKey
  constructor
  · intro h
    obtain ⟨h1, h2⟩ := encodeKey_inj_aux _ _ _ _ h
    refine ⟨h1, ?_⟩
    exact (List.mergeSort_perm ks _).symm.trans (h2 ▸ List.mergeSort_perm ks' _)
  · rintro ⟨rfl, h⟩
    rw [sort_canonical_aux _ _ h]

end BloomVerif.MergeKey
