/- Helper lemmas for C25 (expression trees mean what they say and survive serialization). -/
import BloomVerif.Model.ExprJson
import BloomVerif.Lemmas.Content
namespace BloomVerif

theorem eval_mkOr_aux {C : Type} (leaf : C → Bool) (es : List (Expr C)) :
    Expr.eval leaf (mkOr es) = es.any (Expr.eval leaf) := by
  have hOr : Expr.eval leaf (mkOr es) = Expr.evalAny leaf (flatten "OR" es) := by
    simp [mkOr, Expr.eval]
  rw [hOr, Expr.evalAny_eq_any, flatten, List.any_flatMap]
  congr 1
  funext e
  cases e with
  | mk ty cond ch =>
    show (if ty = "OR" ∧ cond.isNone = true then ch else [Expr.mk ty cond ch]).any (Expr.eval leaf)
      = Expr.eval leaf (Expr.mk ty cond ch)
    by_cases hc : ty = "OR" ∧ cond.isNone = true
    · rw [if_pos hc]
      obtain ⟨h1, _⟩ := hc
      subst h1
      simp [Expr.eval, Expr.evalAny_eq_any]
    · rw [if_neg hc]
      simp

/-- Bloom verdict carried by a builder state. -/
def bSem (leaf : BloomCond → Bool) (s : BState) : Bool :=
  if s.bloomExplicit then Expr.evalOpt leaf s.bloom else s.implicitBloom.all (Expr.eval leaf)

def bStepF (leaf : BloomCond → Bool) (cur : Bool) (op : BOp) : Bool :=
  match op with
  | .field f => cur && leaf { Kind := "FIELD", Field := f, Token := [] }
  | .token t => cur && leaf { Kind := "TOKEN", Field := [], Token := t }
  | .fieldToken f t => cur && leaf { Kind := "FIELD_TOKEN", Field := f, Token := t }
  | .matchB e => Expr.eval leaf e
  | _ => cur

def bInv (s : BState) : Prop := s.bloomExplicit = false → s.bloom = none

theorem bloomMeaning_eq (leaf : BloomCond → Bool) (ops : List BOp) :
    bloomMeaning leaf ops = ops.foldl (bStepF leaf) true := rfl

theorem addBloom_sem (leaf : BloomCond → Bool) (s : BState) (e : BloomExpr) (h : bInv s) :
    bInv (s.addBloom e) ∧ bSem leaf (s.addBloom e) = (bSem leaf s && Expr.eval leaf e) := by
  unfold bInv at *
  unfold BState.addBloom bSem
  cases hb : s.bloomExplicit
  · simp [List.all_append]
    exact h hb
  · cases hc : s.bloom <;> simp [Expr.evalOpt, eval_mkAnd]

theorem addRegex_bloom (s : BState) (e : RegexExpr) :
    (s.addRegex e).bloomExplicit = s.bloomExplicit ∧ (s.addRegex e).bloom = s.bloom ∧
    (s.addRegex e).implicitBloom = s.implicitBloom ∧ (s.addRegex e).pre = s.pre := by
  unfold BState.addRegex
  split
  · split <;> simp
  · simp

theorem step_bsem (leaf : BloomCond → Bool) (s : BState) (op : BOp) (h : bInv s) :
    bInv (s.step op) ∧ bSem leaf (s.step op) = bStepF leaf (bSem leaf s) op := by
  cases op with
  | field f => simpa [BState.step, bStepF, condB, Expr.eval] using addBloom_sem leaf s (condB "FIELD" f []) h
  | token t => simpa [BState.step, bStepF, condB, Expr.eval] using addBloom_sem leaf s (condB "TOKEN" [] t) h
  | fieldToken f t => simpa [BState.step, bStepF, condB, Expr.eval] using addBloom_sem leaf s (condB "FIELD_TOKEN" f t) h
  | matchB e => simp [BState.step, bStepF, bInv, bSem, Expr.evalOpt]
  | fieldRegex f p =>
    obtain ⟨h1, h2, h3, _⟩ := addRegex_bloom s (condR f p)
    simp only [BState.step, bStepF, bInv, bSem, h1, h2, h3]
    exact ⟨h, trivial⟩
  | matchRegex e => exact ⟨h, rfl⟩
  | matchPre e => exact ⟨h, rfl⟩

theorem fold_bsem (leaf : BloomCond → Bool) (ops : List BOp) : ∀ (s : BState), bInv s →
    bInv (ops.foldl BState.step s) ∧
      bSem leaf (ops.foldl BState.step s) = ops.foldl (bStepF leaf) (bSem leaf s) := by
  induction ops with
  | nil => intro s h; exact ⟨h, rfl⟩
  | cons op ops ih =>
    intro s h
    obtain ⟨h1, h2⟩ := step_bsem leaf s op h
    simp only [List.foldl_cons]
    rw [← h2]
    exact ih _ h1

theorem build_bsem (leaf : BloomCond → Bool) (s : BState) (h : bInv s) :
    Expr.evalOpt leaf (s.build).2.1 = bSem leaf s := by
  unfold bInv at h
  unfold BState.build bSem
  cases hb : s.bloomExplicit
  · cases hl : s.implicitBloom with
    | nil => simp [h hb, Expr.evalOpt]
    | cons a t => simp [Expr.evalOpt, eval_mkAnd]
  · simp

theorem builder_bloom_aux (leaf : BloomCond → Bool) (ops : List BOp) :
    Expr.evalOpt leaf (builderQuery ops).2.1 = bloomMeaning leaf ops := by
  have h0 : bInv {} := fun _ => rfl
  obtain ⟨h1, h2⟩ := fold_bsem leaf ops {} h0
  rw [builderQuery, build_bsem leaf _ h1, h2, bloomMeaning_eq]
  rfl


/-- Regex verdict carried by a builder state. -/
def rSem (leaf : RegexCond → Bool) (s : BState) : Bool :=
  if s.regexExplicit then Expr.evalOpt leaf s.regex else s.implicitRegex.all (Expr.eval leaf)

def rStepF (leaf : RegexCond → Bool) (cur : Bool) (op : BOp) : Bool :=
  match op with
  | .fieldRegex f p => cur && leaf { Field := f, Pattern := p }
  | .matchRegex e => Expr.eval leaf e
  | _ => cur

def rInv (s : BState) : Prop := s.regexExplicit = false → s.regex = none

theorem regexMeaning_eq (leaf : RegexCond → Bool) (ops : List BOp) :
    regexMeaning leaf ops = ops.foldl (rStepF leaf) true := rfl

theorem addRegex_sem (leaf : RegexCond → Bool) (s : BState) (e : RegexExpr) (h : rInv s) :
    rInv (s.addRegex e) ∧ rSem leaf (s.addRegex e) = (rSem leaf s && Expr.eval leaf e) := by
  unfold rInv at *
  unfold BState.addRegex rSem
  cases hb : s.regexExplicit
  · simp [List.all_append]
    exact h hb
  · cases hc : s.regex <;> simp [Expr.evalOpt, eval_mkAnd]

theorem addBloom_regex (s : BState) (e : BloomExpr) :
    (s.addBloom e).regexExplicit = s.regexExplicit ∧ (s.addBloom e).regex = s.regex ∧
    (s.addBloom e).implicitRegex = s.implicitRegex ∧ (s.addBloom e).pre = s.pre := by
  unfold BState.addBloom
  split
  · split <;> simp
  · simp

theorem step_rsem (leaf : RegexCond → Bool) (s : BState) (op : BOp) (h : rInv s) :
    rInv (s.step op) ∧ rSem leaf (s.step op) = rStepF leaf (rSem leaf s) op := by
  cases op with
  | field f =>
    obtain ⟨h1, h2, h3, _⟩ := addBloom_regex s (condB "FIELD" f [])
    simp only [BState.step, rStepF, rInv, rSem, h1, h2, h3]
    exact ⟨h, trivial⟩
  | token t =>
    obtain ⟨h1, h2, h3, _⟩ := addBloom_regex s (condB "TOKEN" [] t)
    simp only [BState.step, rStepF, rInv, rSem, h1, h2, h3]
    exact ⟨h, trivial⟩
  | fieldToken f t =>
    obtain ⟨h1, h2, h3, _⟩ := addBloom_regex s (condB "FIELD_TOKEN" f t)
    simp only [BState.step, rStepF, rInv, rSem, h1, h2, h3]
    exact ⟨h, trivial⟩
  | matchB e => exact ⟨h, rfl⟩
  | fieldRegex f p => simpa [BState.step, rStepF, condR, Expr.eval] using addRegex_sem leaf s (condR f p) h
  | matchRegex e => simp [BState.step, rStepF, rInv, rSem, Expr.evalOpt]
  | matchPre e => exact ⟨h, rfl⟩

theorem fold_rsem (leaf : RegexCond → Bool) (ops : List BOp) : ∀ (s : BState), rInv s →
    rInv (ops.foldl BState.step s) ∧
      rSem leaf (ops.foldl BState.step s) = ops.foldl (rStepF leaf) (rSem leaf s) := by
  induction ops with
  | nil => intro s h; exact ⟨h, rfl⟩
  | cons op ops ih =>
    intro s h
    obtain ⟨h1, h2⟩ := step_rsem leaf s op h
    simp only [List.foldl_cons]
    rw [← h2]
    exact ih _ h1

theorem build_rsem (leaf : RegexCond → Bool) (s : BState) (h : rInv s) :
    Expr.evalOpt leaf (s.build).2.2 = rSem leaf s := by
  unfold rInv at h
  unfold BState.build rSem
  cases hb : s.regexExplicit
  · cases hl : s.implicitRegex with
    | nil => simp [h hb, Expr.evalOpt]
    | cons a t => simp [Expr.evalOpt, eval_mkAnd]
  · simp

theorem builder_regex_aux (leaf : RegexCond → Bool) (ops : List BOp) :
    Expr.evalOpt leaf (builderQuery ops).2.2 = regexMeaning leaf ops := by
  have h0 : rInv {} := fun _ => rfl
  obtain ⟨h1, h2⟩ := fold_rsem leaf ops {} h0
  rw [builderQuery, build_rsem leaf _ h1, h2, regexMeaning_eq]
  rfl

def pStepF (leaf : PreCond → Bool) (cur : Bool) (op : BOp) : Bool :=
  match op with
  | .matchPre e => Expr.eval leaf e
  | _ => cur

theorem step_psem (leaf : PreCond → Bool) (s : BState) (op : BOp) :
    Expr.evalOpt leaf (s.step op).pre = pStepF leaf (Expr.evalOpt leaf s.pre) op := by
  cases op with
  | field f => simp only [BState.step, pStepF, (addBloom_regex s _).2.2.2]
  | token t => simp only [BState.step, pStepF, (addBloom_regex s _).2.2.2]
  | fieldToken f t => simp only [BState.step, pStepF, (addBloom_regex s _).2.2.2]
  | matchB e => rfl
  | fieldRegex f p => simp only [BState.step, pStepF, (addRegex_bloom s _).2.2.2]
  | matchRegex e => rfl
  | matchPre e => rfl

theorem fold_psem (leaf : PreCond → Bool) (ops : List BOp) : ∀ (s : BState),
    Expr.evalOpt leaf (ops.foldl BState.step s).pre
      = ops.foldl (pStepF leaf) (Expr.evalOpt leaf s.pre) := by
  induction ops with
  | nil => intro s; rfl
  | cons op ops ih =>
    intro s
    simp only [List.foldl_cons]
    rw [← step_psem]
    exact ih _

theorem builder_pre_aux (leaf : PreCond → Bool) (ops : List BOp) :
    Expr.evalOpt leaf (builderQuery ops).1 = preMeaning leaf ops := by
  have h := fold_psem leaf ops {}
  rw [builderQuery]
  show Expr.evalOpt leaf (List.foldl BState.step {} ops).pre = _
  rw [h]
  rfl

mutual
  /-- No CONDITION node lacks its condition and every node type is known (true of every tree
      built with FieldRegex / RegexAnd / RegexOr). -/
  def Expr.Proper {C : Type} : Expr C → Prop
    | .mk ty cond ch => (ty = "CONDITION" ∧ cond.isSome) ∨ ((ty = "AND" ∨ ty = "OR") ∧ Expr.ProperL ch)
  def Expr.ProperL {C : Type} : List (Expr C) → Prop
    | [] => True
    | e :: es => Expr.Proper e ∧ Expr.ProperL es
end

mutual
  theorem compileRx_proper (leaf : RegexCond → Bool) :
      ∀ e : RegexExpr, Expr.Proper e → ∃ e', compileRx e = some e' ∧ Expr.eval leaf e' = Expr.eval leaf e
    | .mk ty cond ch => by
      intro h
      simp only [Expr.Proper] at h
      rcases h with ⟨h1, h2⟩ | ⟨h1 | h1, h2⟩
      · subst h1
        cases cond with
        | none => simp at h2
        | some c => exact ⟨.mk "CONDITION" (some c) [], by simp [compileRx], by simp [Expr.eval]⟩
      · subst h1
        refine ⟨.mk "AND" none (compileRxL ch), by simp [compileRx], ?_⟩
        simp [Expr.eval, (compileRxL_proper leaf ch h2).2]
      · subst h1
        refine ⟨.mk "OR" none (compileRxL ch), by simp [compileRx], ?_⟩
        simp [Expr.eval, (compileRxL_proper leaf ch h2).1]
  theorem compileRxL_proper (leaf : RegexCond → Bool) :
      ∀ es : List RegexExpr, Expr.ProperL es →
        Expr.evalAny leaf (compileRxL es) = Expr.evalAny leaf es ∧
        Expr.evalAll leaf (compileRxL es) = Expr.evalAll leaf es
    | [] => by intro _; simp [compileRxL]
    | e :: es => by
      intro h
      simp only [Expr.ProperL] at h
      obtain ⟨e', he, hev⟩ := compileRx_proper leaf e h.1
      obtain ⟨ih1, ih2⟩ := compileRxL_proper leaf es h.2
      simp [compileRxL, he, Expr.evalAny, Expr.evalAll, hev, ih1, ih2]
end

/-- On proper trees the engine's regex compile step (which drops nil conditions) changes nothing:
    the compiled tree evaluates like the tree the caller wrote. -/
theorem compileRx_eval_aux (leaf : RegexCond → Bool) (e : RegexExpr) (h : Expr.Proper e) :
    Expr.evalOpt leaf (compileRx e) = Expr.eval leaf e := by
  obtain ⟨e', he, hev⟩ := compileRx_proper leaf e h
  rw [he]; exact hev

theorem filterMap_str' (l : List String) :
    l.filterMap ((fun x => match x with | .str s => some s | _ => none) ∘ JV.str) = l := by
  induction l with
  | nil => rfl
  | cons a t ih => simp [ih]

theorem filterMap_int' (l : List Int) :
    l.filterMap ((fun x => match x with | .int s => some s | _ => none) ∘ JV.int) = l := by
  induction l with
  | nil => rfl
  | cons a t ih => simp [ih]

theorem roundtrip_strCond_aux (c : StringCondition) : decStrCond (encStrCond c) = c := by
  obtain ⟨op, v, vs, mn, mx⟩ := c
  simp only [decStrCond, encStrCond, StringCondition.mk.injEq]
  by_cases h1 : op = "" <;> by_cases h2 : v = "" <;> by_cases h3 : vs = [] <;>
    by_cases h4 : mn = "" <;> by_cases h5 : mx = "" <;>
    (simp [getStr, getStrs, JV.get, omitStr, List.lookup, h1, h2, h3, h4, h5] <;> exact filterMap_str' _)

theorem roundtrip_numCond_aux (c : NumericCondition) : decNumCond (encNumCond c) = c := by
  obtain ⟨op, v, vs, mn, mx⟩ := c
  simp only [decNumCond, encNumCond, NumericCondition.mk.injEq]
  by_cases h1 : op = "" <;> by_cases h2 : v = 0 <;> by_cases h3 : vs = [] <;>
    by_cases h4 : mn = 0 <;> by_cases h5 : mx = 0 <;>
    (simp [getStr, getInt, getInts, JV.get, omitStr, omitInt, List.lookup, h1, h2, h3, h4, h5] <;> exact filterMap_int' _)

theorem roundtrip_bloomCond_aux (c : BloomCond) : decBloomCond (encBloomCond c) = c := by
  obtain ⟨k, f, t⟩ := c
  simp [decBloomCond, encBloomCond, getStr, getTxt, JV.get, List.lookup]

theorem roundtrip_regexCond_aux (c : RegexCond) : decRegexCond (encRegexCond c) = c := by
  obtain ⟨f, t⟩ := c
  simp [decRegexCond, encRegexCond, getTxt, JV.get, List.lookup]


theorem decObj_strCond (sc : StringCondition) :
    (match some (encStrCond sc) with
      | some (JV.obj kvs) => some (decStrCond (JV.obj kvs))
      | _ => none) = some sc := by
  have h := roundtrip_strCond_aux sc
  simp only [encStrCond] at h ⊢
  rw [h]

theorem decObj_numCond (nc : NumericCondition) :
    (match some (encNumCond nc) with
      | some (JV.obj kvs) => some (decNumCond (JV.obj kvs))
      | _ => none) = some nc := by
  have h := roundtrip_numCond_aux nc
  simp only [encNumCond] at h ⊢
  rw [h]

theorem roundtrip_preCond_aux (c : PreCond) : decPreCond (encPreCond c) = c := by
  obtain ⟨ct, pc, fn, mc⟩ := c
  simp only [decPreCond, encPreCond, PrefilterCondition.mk.injEq]
  by_cases h1 : fn = "" <;> cases pc <;> cases mc <;>
    simp [getStr, JV.get, omitStr, List.lookup, h1] <;>
    first
      | exact decObj_strCond _
      | exact decObj_numCond _
      | exact ⟨decObj_strCond _, decObj_numCond _⟩

mutual
  theorem rt_expr {C : Type} (encC : C → JV) (decC : JV → C)
      (hrt : ∀ c, decC (encC c) = c) (hobj : ∀ c, ∃ kvs, encC c = .obj kvs) :
      ∀ (e : Expr C) (fuel : Nat), Expr.depth e ≤ fuel →
        decExpr decC fuel (encExpr encC e) = some e
    | .mk ty cond ch, fuel => by
      intro hf
      cases fuel with
      | zero => simp [Expr.depth] at hf
      | succ n =>
        have hd : Expr.depthL ch ≤ n := by simp [Expr.depth] at hf; omega
        have ih := rt_exprL encC decC hrt hobj ch n hd
        cases cond with
        | none =>
          cases ch with
          | nil => simp [encExpr, decExpr, JV.get, getStr, List.lookup]
          | cons a t =>
            simp [encExpr, decExpr, JV.get, getStr, List.lookup, ih]
        | some c =>
          obtain ⟨kvs, hk⟩ := hobj c
          have hc := hrt c
          rw [hk] at hc
          cases ch with
          | nil => simp [encExpr, decExpr, JV.get, getStr, List.lookup, hk, hc]
          | cons a t =>
            simp [encExpr, decExpr, JV.get, getStr, List.lookup, ih, hk, hc]
  theorem rt_exprL {C : Type} (encC : C → JV) (decC : JV → C)
      (hrt : ∀ c, decC (encC c) = c) (hobj : ∀ c, ∃ kvs, encC c = .obj kvs) :
      ∀ (es : List (Expr C)) (fuel : Nat), Expr.depthL es ≤ fuel →
        (encExprL encC es).mapM (decExpr decC fuel) = some es
    | [], _ => by intro _; simp [encExprL]
    | e :: es, fuel => by
      intro h
      simp only [Expr.depthL] at h
      have h1 := rt_expr encC decC hrt hobj e fuel (by omega)
      have h2 := rt_exprL encC decC hrt hobj es fuel (by omega)
      simp [encExprL, List.mapM_cons, h1, h2]
end

/-- Generic expression round trip, for any condition codec that round-trips and encodes to objects. -/
theorem roundtrip_expr_aux {C : Type} (encC : C → JV) (decC : JV → C)
    (hrt : ∀ c, decC (encC c) = c) (hobj : ∀ c, ∃ kvs, encC c = .obj kvs)
    (e : Expr C) (fuel : Nat) (hf : Expr.depth e ≤ fuel) :
    decExpr decC fuel (encExpr encC e) = some e :=
  rt_expr encC decC hrt hobj e fuel hf

end BloomVerif
