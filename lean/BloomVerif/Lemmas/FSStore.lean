/- Helper lemmas for C16 (FileSystemDataStore behaves like its specification). -/
import BloomVerif.Model.FSStore
namespace BloomVerif.FSStore

/-- Discipline of the callers the refinement is stated for: a pointer is not tombstoned while its
    writer is still open, and Abort is not repeated on a writer that was already closed unpublished.
    (The engine obeys both: it tombstones only after Abort or after a failed Close, and aborts once.) -/
def Allowed (s : St) : Op → Prop
  | .tombstone b => ∀ w ∈ s.writers, w.base = b → w.closed = true
  | .abort k => ∀ w, s.writers[k]? = some w → (w.closed = false ∨ w.published = true)
  | _ => True

/-- Specification state: what each pointer should look like. Later bindings shadow earlier ones. -/
def specStep (spec : String → PStatus) (s : St) (op : Op) (res : Res) : String → PStatus :=
  match op, res with
  | .create _, .created b => fun x => if x = b then .writing [] else spec x
  | .write k bs, .ok =>
    (match s.writers[k]? with
     | some w => fun x => if x = w.base then (match spec x with | .writing old => .writing (old ++ bs) | o => o) else spec x
     | none => spec)
  | .close k, .ok =>
    (match s.writers[k]? with
     | some w => fun x => if x = w.base then (match spec x with | .writing bs => .published bs | o => o) else spec x
     | none => spec)
  | .abort k, .ok =>
    (match s.writers[k]? with
     | some w => if w.published then spec else fun x => if x = w.base then .gone else spec x
     | none => spec)
  | .tombstone b, _ => fun x => if x = b then .gone else spec x
  | _, _ => spec

/-- The directory implements the specification. The last conjunct is the index form of the one
    before it (two distinct slots of `writers` never hold open writers of the same base); the value
    form alone does not exclude the same open writer record sitting in two slots. -/
def Refines (s : St) (spec : String → PStatus) : Prop :=
  (∀ b, match spec b with
    | .gone => s.fs.lookup (dat b) = none ∧ s.fs.lookup (tmp b) = none
    | .writing bs => (∃ r, s.fs.lookup (dat b) = some r ∧ s.fs.data r = []) ∧
        (∃ w ∈ s.writers, w.base = b ∧ w.closed = false ∧ s.fs.lookup (tmp b) = some w.ino ∧ s.fs.data w.ino = bs)
    | .published bs => (∃ i, s.fs.lookup (dat b) = some i ∧ s.fs.data i = bs) ∧ s.fs.lookup (tmp b) = none) ∧
  (∀ w ∈ s.writers, w.closed = false → ∃ bs, spec w.base = .writing bs) ∧
  (∀ w1 ∈ s.writers, ∀ w2 ∈ s.writers, w1.closed = false → w2.closed = false → w1.base = w2.base → w1 = w2) ∧
  (∀ (k1 k2 : Nat) (w1 w2 : Writer), s.writers[k1]? = some w1 → s.writers[k2]? = some w2 →
    w1.closed = false → w2.closed = false → w1.base = w2.base → k1 = k2)

/-- Well-formedness of the directory the refinement needs: inode numbers in use are below `next`,
    each inode has one data entry, distinct paths are bound to distinct inodes (no hard links), and
    every allocated inode number has a data entry. -/
def FSWF (fs : FS) : Prop :=
  (∀ p i, fs.lookup p = some i → i < fs.next) ∧ (∀ i, (fs.inodes.lookup i).isSome → i < fs.next) ∧
  (fs.inodes.map (·.1)).Nodup ∧ (fs.names.map (·.1)).Nodup ∧
  (∀ p q i, fs.lookup p = some i → fs.lookup q = some i → p = q) ∧
  (∀ i, i < fs.next → (fs.inodes.lookup i).isSome)

/-! ## Assoc-list and primitive-operation lemmas -/

theorem lookup_filter_key {β} (f : String → Bool) (l : List (String × β)) (q : String) :
    (l.filter (fun x => f x.1)).lookup q = if f q then l.lookup q else none := by
  induction l with
  | nil => simp
  | cons x l ih =>
    obtain ⟨k, v⟩ := x
    by_cases hk : f k
    · simp only [List.filter_cons, hk, if_true, List.lookup_cons]
      by_cases hq : q = k
      · subst hq; simp [hk]
      · have : (q == k) = false := by simpa using hq
        simp [this, ih]
    · simp only [List.filter_cons, hk, List.lookup_cons]
      by_cases hq : q = k
      · subst hq; simp [hk, ih]
      · have : (q == k) = false := by simpa using hq
        simp [this, ih]

theorem lookup_none_iff_not_mem_keys {α β} [BEq α] [LawfulBEq α] (l : List (α × β)) (q : α) :
    l.lookup q = none ↔ q ∉ l.map (·.1) := by
  rw [List.lookup_eq_none_iff]
  simp only [List.mem_map, not_exists, not_and, bne_iff_ne, ne_eq]
  constructor
  · intro h x hx e; exact h x hx e.symm
  · intro h x hx e; exact h x hx e.symm

/-! ### remove -/
theorem lookup_remove (fs : FS) (p q : String) :
    (fs.remove p).lookup q = if q = p then none else fs.lookup q := by
  unfold FS.remove FS.lookup
  have := lookup_filter_key (fun k => k != p) fs.names q
  simp only [this]
  by_cases h : q = p <;> simp [h]

theorem data_remove (fs : FS) (p : String) (j : Nat) : (fs.remove p).data j = fs.data j := rfl

theorem FSWF_remove {fs : FS} (h : FSWF fs) (p : String) : FSWF (fs.remove p) := by
  obtain ⟨h1, h2, h3, h4, h5, h6⟩ := h
  refine ⟨?_, h2, h3, ?_, ?_, h6⟩
  · intro q i hq
    rw [lookup_remove] at hq
    split at hq
    · cases hq
    · exact h1 q i hq
  · exact List.Nodup.sublist (List.Sublist.map _ List.filter_sublist) h4
  · intro q1 q2 i hq1 hq2
    rw [lookup_remove] at hq1 hq2
    split at hq1
    · cases hq1
    · split at hq2
      · cases hq2
      · exact h5 q1 q2 i hq1 hq2

/-! ### createExcl -/
def FS.mk1 (fs : FS) (p : String) : FS :=
  { fs with names := fs.names ++ [(p, fs.next)], inodes := fs.inodes ++ [(fs.next, [])], next := fs.next + 1 }

theorem createExcl_some {fs fs1 : FS} {p : String} {i : Nat} (h : fs.createExcl p = some (fs1, i)) :
    fs.lookup p = none ∧ i = fs.next ∧ fs1 = fs.mk1 p := by
  unfold FS.createExcl at h
  split at h
  · cases h
  · rename_i hn
    simp only [Option.some.injEq, Prod.mk.injEq] at h
    exact ⟨hn, h.2.symm, h.1.symm⟩

theorem createExcl_none {fs : FS} {p : String} (h : fs.createExcl p = none) : ∃ i, fs.lookup p = some i := by
  unfold FS.createExcl at h
  split at h
  · rename_i i hi; exact ⟨i, hi⟩
  · cases h

theorem lookup_mk1 (fs : FS) (p q : String) (hp : fs.lookup p = none) :
    (fs.mk1 p).lookup q = if q = p then some fs.next else fs.lookup q := by
  unfold FS.mk1 FS.lookup at *
  simp only [List.lookup_append]
  by_cases h : q = p
  · subst h; simp [hp]
  · have : (q == p) = false := by simpa using h
    simp [h, List.lookup_cons, this]

theorem data_mk1 (fs : FS) (p : String) (j : Nat) : (fs.mk1 p).data j = fs.data j := by
  unfold FS.mk1 FS.data
  simp only [List.lookup_append]
  cases h : List.lookup j fs.inodes with
  | some v => simp
  | none =>
    by_cases hj : j = fs.next
    · simp [hj]
    · have : (j == fs.next) = false := by simpa using hj
      simp [List.lookup_cons, this]

theorem next_mk1 (fs : FS) (p : String) : (fs.mk1 p).next = fs.next + 1 := rfl

theorem FSWF_mk1 {fs : FS} (h : FSWF fs) (p : String) (hp : fs.lookup p = none) : FSWF (fs.mk1 p) := by
  obtain ⟨h1, h2, h3, h4, h5, h6⟩ := h
  have hfresh : fs.inodes.lookup fs.next = none := by
    cases hh : fs.inodes.lookup fs.next with
    | none => rfl
    | some v => have := h2 fs.next (by simp [hh]); omega
  refine ⟨?_, ?_, ?_, ?_, ?_, ?_⟩
  · intro q i hq
    rw [lookup_mk1 _ _ _ hp] at hq
    rw [next_mk1]
    split at hq
    · cases hq; omega
    · have := h1 q i hq; omega
  · intro i hi
    rw [next_mk1]
    simp only [FS.mk1, List.lookup_append] at hi
    cases hh : List.lookup i fs.inodes with
    | some v => have := h2 i (by simp [hh]); omega
    | none =>
      by_cases hj : i = fs.next
      · omega
      · have : (i == fs.next) = false := by simpa using hj
        simp [hh, List.lookup_cons, this] at hi
  · simp only [FS.mk1, List.map_append, List.map_cons, List.map_nil]
    rw [List.nodup_append]
    refine ⟨h3, by simp, ?_⟩
    intro a ha b hb
    simp at hb; subst hb
    intro e; subst e
    exact (lookup_none_iff_not_mem_keys _ _).1 hfresh ha
  · simp only [FS.mk1, List.map_append, List.map_cons, List.map_nil]
    rw [List.nodup_append]
    refine ⟨h4, by simp, ?_⟩
    intro a ha b hb
    simp at hb; subst hb
    intro e; subst e
    exact (lookup_none_iff_not_mem_keys _ _).1 hp ha
  · intro q1 q2 i hq1 hq2
    rw [lookup_mk1 _ _ _ hp] at hq1 hq2
    split at hq1
    · split at hq2
      · simp [*]
      · cases hq1; have := h1 q2 _ hq2; omega
    · split at hq2
      · cases hq2; have := h1 q1 _ hq1; omega
      · exact h5 q1 q2 i hq1 hq2
  · intro i hi
    rw [next_mk1] at hi
    simp only [FS.mk1, List.lookup_append]
    by_cases hj : i = fs.next
    · subst hj; simp [hfresh]
    · have := h6 i (by omega)
      cases hh : List.lookup i fs.inodes with
      | some v => simp
      | none => simp [hh] at this

/-! ### rename -/
def FS.mv (fs : FS) (a b : String) (i : Nat) : FS :=
  { fs with names := (fs.names.filter (fun x => x.1 != a && x.1 != b)) ++ [(b, i)] }

theorem rename_eq {fs : FS} {a : String} {i : Nat} (h : fs.lookup a = some i) (b : String) :
    fs.rename a b = some (fs.mv a b i) := by
  unfold FS.rename; rw [h]; rfl

theorem lookup_mv (fs : FS) (a b q : String) (i : Nat) :
    (fs.mv a b i).lookup q = if q = b then some i else if q = a then none else fs.lookup q := by
  unfold FS.mv FS.lookup
  simp only [List.lookup_append]
  have := lookup_filter_key (fun k => k != a && k != b) fs.names q
  simp only [this]
  by_cases hb : q = b
  · subst hb; simp
  · have hb' : (q == b) = false := by simpa using hb
    by_cases ha : q = a
    · subst ha; simp [List.lookup_cons, hb', hb]
    · simp [List.lookup_cons, hb', hb, ha]

theorem data_mv (fs : FS) (a b : String) (i j : Nat) : (fs.mv a b i).data j = fs.data j := rfl

theorem FSWF_mv {fs : FS} (h : FSWF fs) {a : String} {i : Nat} (ha : fs.lookup a = some i) (b : String) :
    FSWF (fs.mv a b i) := by
  obtain ⟨h1, h2, h3, h4, h5, h6⟩ := h
  refine ⟨?_, h2, h3, ?_, ?_, h6⟩
  · intro q j hq
    rw [lookup_mv] at hq
    show j < fs.next
    split at hq
    · cases hq; exact h1 a _ ha
    · split at hq
      · cases hq
      · exact h1 q j hq
  · simp only [FS.mv, List.map_append, List.map_cons, List.map_nil]
    rw [List.nodup_append]
    refine ⟨List.Nodup.sublist (List.Sublist.map _ List.filter_sublist) h4, by simp, ?_⟩
    intro x hx y hy
    simp at hy; subst hy
    intro e; subst e
    simp only [List.mem_map, List.mem_filter] at hx
    obtain ⟨z, ⟨_, hz⟩, rfl⟩ := hx
    simp at hz
  · intro q1 q2 j hq1 hq2
    rw [lookup_mv] at hq1 hq2
    by_cases e1 : q1 = b
    · by_cases e2 : q2 = b
      · rw [e1, e2]
      · simp only [e1, if_true, Option.some.injEq] at hq1
        simp only [e2, if_false] at hq2
        by_cases e3 : q2 = a
        · simp [e3] at hq2
        · simp only [e3, if_false] at hq2
          subst hq1
          exact absurd (h5 _ _ _ hq2 ha) e3
    · simp only [e1, if_false] at hq1
      by_cases e4 : q1 = a
      · simp [e4] at hq1
      · simp only [e4, if_false] at hq1
        by_cases e2 : q2 = b
        · simp only [e2, if_true, Option.some.injEq] at hq2
          subst hq2
          exact absurd (h5 _ _ _ hq1 ha) e4
        · simp only [e2, if_false] at hq2
          by_cases e3 : q2 = a
          · simp [e3] at hq2
          · simp only [e3, if_false] at hq2
            exact h5 q1 q2 j hq1 hq2

/-! ### append -/
theorem lookup_map_upd (l : List (Nat × Bytes)) (i j : Nat) (bs : Bytes) :
    (l.map (fun x => if x.1 == i then (i, x.2 ++ bs) else x)).lookup j =
      if j = i then (l.lookup j).map (· ++ bs) else l.lookup j := by
  induction l with
  | nil => simp
  | cons x l ih =>
    obtain ⟨k, v⟩ := x
    rw [List.map_cons]
    by_cases hk : k = i
    · subst hk
      have e : (if ((k, v).1 == k) = true then (k, (k, v).2 ++ bs) else (k, v)) = (k, v ++ bs) := by simp
      rw [e, List.lookup_cons, List.lookup_cons]
      by_cases hj : j = k
      · subst hj; simp
      · have : (j == k) = false := by simpa using hj
        rw [this]; exact ih
    · have e : (if ((k, v).1 == i) = true then (i, (k, v).2 ++ bs) else (k, v)) = (k, v) := by simp [hk]
      rw [e, List.lookup_cons, List.lookup_cons]
      by_cases hj : j = k
      · subst hj; simp [hk]
      · have : (j == k) = false := by simpa using hj
        rw [this]; exact ih

theorem keys_map_upd (l : List (Nat × Bytes)) (i : Nat) (bs : Bytes) :
    (l.map (fun x => if x.1 == i then (i, x.2 ++ bs) else x)).map (·.1) = l.map (·.1) := by
  induction l with
  | nil => rfl
  | cons x l ih =>
    simp only [List.map_cons, ih]
    by_cases hk : x.1 = i
    · simp [hk]
    · have hk' : (x.1 == i) = false := by simpa using hk
      simp [hk']

theorem lookup_append_fs (fs : FS) (i : Nat) (bs : Bytes) (p : String) :
    (fs.append i bs).lookup p = fs.lookup p := rfl

theorem data_append_ne (fs : FS) (i j : Nat) (bs : Bytes) (h : j ≠ i) :
    (fs.append i bs).data j = fs.data j := by
  unfold FS.append FS.data
  simp only [lookup_map_upd, h, if_false]

theorem data_append_self (fs : FS) (i : Nat) (bs : Bytes) (h : (fs.inodes.lookup i).isSome) :
    (fs.append i bs).data i = fs.data i ++ bs := by
  unfold FS.append FS.data
  simp only [lookup_map_upd, if_true]
  cases hh : List.lookup i fs.inodes with
  | none => simp [hh] at h
  | some v => simp

theorem FSWF_append {fs : FS} (h : FSWF fs) (i : Nat) (bs : Bytes) : FSWF (fs.append i bs) := by
  obtain ⟨h1, h2, h3, h4, h5, h6⟩ := h
  refine ⟨h1, ?_, ?_, h4, h5, ?_⟩
  · intro j hj
    apply h2 j
    simp only [FS.append, lookup_map_upd] at hj
    split at hj
    · simpa using hj
    · exact hj
  · simp only [FS.append, keys_map_upd]; exact h3
  · intro j hj
    have := h6 j hj
    simp only [FS.append, lookup_map_upd]
    split
    · simpa using this
    · exact this


theorem data_fresh {fs : FS} (h : FSWF fs) {j : Nat} (hj : fs.next ≤ j) : fs.data j = [] := by
  unfold FS.data
  cases hh : fs.inodes.lookup j with
  | none => rfl
  | some v => have := h.2.1 j (by simp [hh]); omega

/-! ## The draw loop -/

/-- The loop settles on a directory `fsc` with the same bindings and data as the initial one
    (only `next` may have grown), in which both names were free, and adds exactly the two files. -/
theorem createLoop_char (fs fs' : FS) (draws : List String) (b : String) (i : Nat)
    (h : createLoop fs draws = some (fs', b, i)) :
    fs.lookup (dat b) = none ∧ fs.lookup (tmp b) = none ∧
    ∃ fsc : FS, (∀ p, fsc.lookup p = fs.lookup p) ∧ (∀ j, fsc.data j = fs.data j) ∧ fs.next ≤ fsc.next ∧
      (FSWF fs → FSWF fsc) ∧ (fsc.mk1 (dat b)).lookup (tmp b) = none ∧
      fs' = (fsc.mk1 (dat b)).mk1 (tmp b) ∧ i = fsc.next + 1 := by
  induction draws generalizing fs with
  | nil => simp [createLoop] at h
  | cons b' rest ih =>
    unfold createLoop at h
    cases h1 : fs.createExcl (dat b') with
    | none => rw [h1] at h; exact ih fs h
    | some r1 =>
      obtain ⟨fs1, r⟩ := r1
      obtain ⟨hd, _, rfl⟩ := createExcl_some h1
      rw [h1] at h
      simp only at h
      cases h2 : (fs.mk1 (dat b')).createExcl (tmp b') with
      | none =>
        rw [h2] at h
        simp only at h
        have hsame : ∀ p, ((fs.mk1 (dat b')).remove (dat b')).lookup p = fs.lookup p := by
          intro p
          rw [lookup_remove, lookup_mk1 _ _ _ hd]
          by_cases hp : p = dat b'
          · simp [hp, hd]
          · simp [hp]
        obtain ⟨g1, g2, fsc, c1, c2, c3, c4, c5, c6, c7⟩ := ih _ h
        refine ⟨by rw [← hsame]; exact g1, by rw [← hsame]; exact g2, fsc, ?_, ?_, ?_, ?_, c5, c6, c7⟩
        · intro p; rw [c1, hsame]
        · intro j; rw [c2, data_remove, data_mk1]
        · have : ((fs.mk1 (dat b')).remove (dat b')).next = fs.next + 1 := rfl
          omega
        · intro hw; exact c4 (FSWF_remove (FSWF_mk1 hw _ hd) _)
      | some r2 =>
        obtain ⟨fs2, i'⟩ := r2
        rw [h2] at h
        simp only [Option.some.injEq, Prod.mk.injEq] at h
        obtain ⟨rfl, rfl, rfl⟩ := h
        obtain ⟨ht, hi, rfl⟩ := createExcl_some h2
        refine ⟨hd, ?_, fs, fun _ => rfl, fun _ => rfl, Nat.le_refl _, id, ht, rfl, ?_⟩
        · rw [lookup_mk1 _ _ _ hd] at ht
          split at ht
          · cases ht
          · exact ht
        · rw [hi]; rfl

theorem createLoop_frame_aux (fs fs' : FS) (draws : List String) (b : String) (i : Nat)
    (h : createLoop fs draws = some (fs', b, i)) :
    fs.lookup (dat b) = none ∧ fs.lookup (tmp b) = none ∧
    (∀ p j, fs.lookup p = some j → fs'.lookup p = some j ∧ fs'.data j = fs.data j) := by
  obtain ⟨g1, g2, fsc, c1, c2, _, _, c5, rfl, _⟩ := createLoop_char fs fs' draws b i h
  refine ⟨g1, g2, ?_⟩
  intro p j hp
  have hd : fsc.lookup (dat b) = none := by rw [c1]; exact g1
  have hpd : p ≠ dat b := by intro e; rw [e, g1] at hp; cases hp
  have hpt : p ≠ tmp b := by intro e; rw [e, g2] at hp; cases hp
  refine ⟨?_, ?_⟩
  · rw [lookup_mk1 _ _ _ c5, if_neg hpt, lookup_mk1 _ _ _ hd, if_neg hpd, c1, hp]
  · rw [data_mk1, data_mk1, c2]

/-- Everything the refinement needs to know about a successful CreateFile. -/
theorem createLoop_spec (fs fs' : FS) (draws : List String) (b : String) (i : Nat) (hw : FSWF fs)
    (h : createLoop fs draws = some (fs', b, i)) :
    fs.lookup (dat b) = none ∧ fs.lookup (tmp b) = none ∧
    (∃ r, fs'.lookup (dat b) = some r ∧ fs'.data r = []) ∧ fs'.lookup (tmp b) = some i ∧ fs'.data i = [] ∧
    (∀ p, p ≠ dat b → p ≠ tmp b → fs'.lookup p = fs.lookup p) ∧ (∀ j, fs'.data j = fs.data j) ∧
    FSWF fs' ∧ fs.next ≤ fs'.next ∧ i < fs'.next := by
  obtain ⟨g1, g2, fsc, c1, c2, c3, c4, c5, rfl, rfl⟩ := createLoop_char fs fs' draws b i h
  have hd : fsc.lookup (dat b) = none := by rw [c1]; exact g1
  have hdata : ∀ j, ((fsc.mk1 (dat b)).mk1 (tmp b)).data j = fs.data j := by
    intro j; rw [data_mk1, data_mk1, c2]
  have hne : tmp b ≠ dat b := by
    intro e
    rw [lookup_mk1 _ _ _ hd, if_pos e] at c5
    cases c5
  refine ⟨g1, g2, ⟨fsc.next, ?_, ?_⟩, ?_, ?_, ?_, hdata, ?_, ?_, ?_⟩
  · rw [lookup_mk1 _ _ _ c5, if_neg (Ne.symm hne), lookup_mk1 _ _ _ hd, if_pos rfl]
  · rw [hdata]; exact data_fresh hw c3
  · rw [lookup_mk1 _ _ _ c5, if_pos rfl]; rfl
  · rw [hdata]; exact data_fresh hw (by omega)
  · intro p hpd hpt
    rw [lookup_mk1 _ _ _ c5, if_neg hpt, lookup_mk1 _ _ _ hd, if_neg hpd, c1]
  · exact FSWF_mk1 (FSWF_mk1 (c4 hw) _ hd) _ c5
  · show fs.next ≤ fsc.next + 1 + 1
    omega
  · show fsc.next + 1 < fsc.next + 1 + 1
    omega

theorem tombstone_removes_all_aux (s : St) (b : String) :
    (step s (.tombstone b)).1.fs.lookup (dat b) = none ∧ (step s (.tombstone b)).1.fs.lookup (tmp b) = none ∧
    (∀ p, p ≠ dat b → p ≠ tmp b → (step s (.tombstone b)).1.fs.lookup p = s.fs.lookup p) := by
  simp only [step]
  refine ⟨?_, ?_, ?_⟩
  · rw [lookup_remove, lookup_remove]; simp
  · rw [lookup_remove]; simp
  · intro p h1 h2
    rw [lookup_remove, lookup_remove, if_neg h2, if_neg h1]

theorem refines_init_aux : Refines {} (fun _ => .gone) ∧ FSWF ({} : St).fs := by
  refine ⟨⟨?_, ?_, ?_, ?_⟩, ?_, ?_, ?_, ?_, ?_, ?_⟩
  · intro b; exact ⟨rfl, rfl⟩
  · intro w hw; cases hw
  · intro w hw; cases hw
  · intro k1 k2 w1 w2 h1; simp at h1
  · intro p i h; cases h
  · intro i h; cases h
  · exact List.nodup_nil
  · exact List.nodup_nil
  · intro p q i h; cases h
  · intro i h; cases h

/-! ## The refinement step -/

/-- What the directory must look like for one pointer in a given specification status. -/
def PtrOK (s : St) (st : PStatus) (b : String) : Prop :=
  match st with
  | .gone => s.fs.lookup (dat b) = none ∧ s.fs.lookup (tmp b) = none
  | .writing bs => (∃ r, s.fs.lookup (dat b) = some r ∧ s.fs.data r = []) ∧
      (∃ w ∈ s.writers, w.base = b ∧ w.closed = false ∧ s.fs.lookup (tmp b) = some w.ino ∧ s.fs.data w.ino = bs)
  | .published bs => (∃ i, s.fs.lookup (dat b) = some i ∧ s.fs.data i = bs) ∧ s.fs.lookup (tmp b) = none

theorem refines_ptr {s : St} {spec : String → PStatus} (h : Refines s spec) (b : String) :
    PtrOK s (spec b) b := h.1 b

theorem idx_to_mem {ws : List Writer}
    (h : ∀ (k1 k2 : Nat) (w1 w2 : Writer), ws[k1]? = some w1 → ws[k2]? = some w2 →
      w1.closed = false → w2.closed = false → w1.base = w2.base → k1 = k2) :
    ∀ w1 ∈ ws, ∀ w2 ∈ ws, w1.closed = false → w2.closed = false → w1.base = w2.base → w1 = w2 := by
  intro w1 h1 w2 h2 c1 c2 hb
  obtain ⟨k1, e1⟩ := List.mem_iff_getElem?.1 h1
  obtain ⟨k2, e2⟩ := List.mem_iff_getElem?.1 h2
  have := h k1 k2 w1 w2 e1 e2 c1 c2 hb
  subst this
  rw [e1] at e2
  exact Option.some.inj e2

theorem refines_intro {s : St} {spec : String → PStatus} (h1 : ∀ b, PtrOK s (spec b) b)
    (h2 : ∀ w ∈ s.writers, w.closed = false → ∃ bs, spec w.base = .writing bs)
    (h4 : ∀ (k1 k2 : Nat) (w1 w2 : Writer), s.writers[k1]? = some w1 → s.writers[k2]? = some w2 →
      w1.closed = false → w2.closed = false → w1.base = w2.base → k1 = k2) : Refines s spec :=
  ⟨h1, h2, idx_to_mem h4, h4⟩

theorem PtrOK.frame {s s' : St} {st : PStatus} {b : String} (h : PtrOK s st b)
    (hd : s'.fs.lookup (dat b) = s.fs.lookup (dat b))
    (ht : s'.fs.lookup (tmp b) = s.fs.lookup (tmp b))
    (hdata : ∀ j, (s.fs.lookup (dat b) = some j ∨ s.fs.lookup (tmp b) = some j) → s'.fs.data j = s.fs.data j)
    (hwri : ∀ w ∈ s.writers, w.base = b → w.closed = false → w ∈ s'.writers) : PtrOK s' st b := by
  cases st with
  | gone => simp only [PtrOK] at h ⊢; rw [hd, ht]; exact h
  | writing bs =>
    simp only [PtrOK] at h ⊢
    obtain ⟨⟨r, hr1, hr2⟩, w, hw1, hw2, hw3, hw4, hw5⟩ := h
    refine ⟨⟨r, by rw [hd]; exact hr1, by rw [hdata r (Or.inl hr1)]; exact hr2⟩, w, hwri w hw1 hw2 hw3, hw2, hw3,
      by rw [ht]; exact hw4, by rw [hdata _ (Or.inr hw4)]; exact hw5⟩
  | published bs =>
    simp only [PtrOK] at h ⊢
    obtain ⟨⟨r, hr1, hr2⟩, h2⟩ := h
    exact ⟨⟨r, by rw [hd]; exact hr1, by rw [hdata r (Or.inl hr1)]; exact hr2⟩, by rw [ht]; exact h2⟩

/-- The open writer at index `k` as the directory sees it. -/
theorem open_view {s : St} {spec : String → PStatus} (hr : Refines s spec) {k : Nat} {w : Writer}
    (hk : s.writers[k]? = some w) (ho : w.closed = false) :
    ∃ old r, spec w.base = .writing old ∧ s.fs.lookup (dat w.base) = some r ∧ s.fs.data r = [] ∧
      s.fs.lookup (tmp w.base) = some w.ino ∧ s.fs.data w.ino = old := by
  have hm : w ∈ s.writers := List.mem_iff_getElem?.2 ⟨k, hk⟩
  obtain ⟨old, hs⟩ := hr.2.1 w hm ho
  have hp := refines_ptr hr w.base
  rw [hs] at hp
  simp only [PtrOK] at hp
  obtain ⟨⟨r, hr1, hr2⟩, w', hw1, hw2, hw3, hw4, hw5⟩ := hp
  have : w' = w := hr.2.2.1 w' hw1 w hm hw3 ho hw2
  subst this
  exact ⟨old, r, hs, hr1, hr2, hw4, hw5⟩

theorem getElem?_set_open {l : List Writer} {k j : Nat} {x w' : Writer} (h : (l.set k x)[j]? = some w')
    (hx : x.closed = true) (ho : w'.closed = false) : j ≠ k ∧ l[j]? = some w' := by
  rw [List.getElem?_set] at h
  split at h
  · split at h
    · cases h; rw [hx] at ho; cases ho
    · cases h
  · rename_i hne; exact ⟨fun e => hne e.symm, h⟩

theorem mem_set_of_base_ne {l : List Writer} {k : Nat} {w x w' : Writer} (hk : l[k]? = some w) (hm : w' ∈ l)
    (hne : w'.base ≠ w.base) : w' ∈ l.set k x := by
  obtain ⟨j, hj⟩ := List.mem_iff_getElem?.1 hm
  have : k ≠ j := by
    intro e; subst e; rw [hk] at hj; cases hj; exact hne rfl
  exact List.mem_iff_getElem?.2 ⟨j, by rw [List.getElem?_set, if_neg this]; exact hj⟩

/-- The full inductive invariant. -/
def Good (s : St) (spec : String → PStatus) : Prop :=
  Refines s spec ∧ FSWF s.fs ∧ (∀ w ∈ s.writers, w.ino < s.fs.next)

abbrev HBase : Prop :=
  ∀ b1 b2 : String, (dat b1 = dat b2 → b1 = b2) ∧ (tmp b1 = tmp b2 → b1 = b2) ∧ dat b1 ≠ tmp b2

theorem step_create {s : St} {spec : String → PStatus} (hbase : HBase) (hg : Good s spec) (draws : List String) :
    Good (step s (.create draws)).1 (specStep spec s (.create draws) (step s (.create draws)).2) := by
  cases hc : createLoop s.fs draws with
  | none => simp only [step, hc, specStep]; exact hg
  | some r =>
    obtain ⟨fs', b, i⟩ := r
    simp only [step, hc, specStep]
    obtain ⟨hr, hw, hwr⟩ := hg
    obtain ⟨g1, g2, ⟨r, gr1, gr2⟩, g3, g4, g5, g6, g7, g8, g9⟩ := createLoop_spec _ _ _ _ _ hw hc
    -- no open writer already uses the base
    have hnob : ∀ w ∈ s.writers, w.closed = false → w.base ≠ b := by
      intro w hm ho e
      obtain ⟨k, hk⟩ := List.mem_iff_getElem?.1 hm
      obtain ⟨old, r', _, h2, _⟩ := open_view hr hk ho
      rw [e, g1] at h2; cases h2
    refine ⟨refines_intro ?_ ?_ ?_, g7, ?_⟩
    · intro x
      show PtrOK _ (if x = b then PStatus.writing [] else spec x) x
      by_cases hx : x = b
      · subst hx
        rw [if_pos rfl]
        exact ⟨⟨r, gr1, gr2⟩, ⟨x, i, false, false⟩, by simp, rfl, rfl, g3, g4⟩
      · rw [if_neg hx]
        have hd : dat x ≠ dat b := fun e => hx ((hbase x b).1 e)
        have ht : tmp x ≠ tmp b := fun e => hx ((hbase x b).2.1 e)
        refine (refines_ptr hr x).frame ?_ ?_ ?_ ?_
        · exact g5 _ hd (hbase x b).2.2
        · exact g5 _ (fun e => (hbase b x).2.2 e.symm) ht
        · intro j _; exact g6 j
        · intro w hm _ _; exact List.mem_append_left _ hm
    · intro w hm ho
      show ∃ bs, (if w.base = b then PStatus.writing [] else spec w.base) = PStatus.writing bs
      by_cases hx : w.base = b
      · exact ⟨[], by rw [if_pos hx]⟩
      · rw [if_neg hx]
        rcases List.mem_append.1 hm with hm | hm
        · exact hr.2.1 w hm ho
        · simp at hm; subst hm; exact absurd rfl hx
    · intro k1 k2 w1 w2 h1 h2 o1 o2 hb
      simp only [List.getElem?_append] at h1 h2
      split at h1
      · split at h2
        · exact hr.2.2.2 k1 k2 w1 w2 h1 h2 o1 o2 hb
        · have hm1 : w1 ∈ s.writers := List.mem_iff_getElem?.2 ⟨k1, h1⟩
          have : w2 = ⟨b, i, false, false⟩ := by
            have := List.mem_of_getElem? h2; simpa using this
          subst this
          exact absurd hb (hnob w1 hm1 o1)
      · have e1 : w1 = ⟨b, i, false, false⟩ := by
          have := List.mem_of_getElem? h1; simpa using this
        split at h2
        · have hm2 : w2 ∈ s.writers := List.mem_iff_getElem?.2 ⟨k2, h2⟩
          subst e1
          exact absurd hb.symm (hnob w2 hm2 o2)
        · have hl1 := (List.getElem?_eq_some_iff.1 h1).1
          have hl2 := (List.getElem?_eq_some_iff.1 h2).1
          simp at hl1 hl2
          omega
    · intro w hm
      show w.ino < fs'.next
      rcases List.mem_append.1 hm with hm | hm
      · have := hwr w hm; omega
      · simp at hm; subst hm; exact g9

theorem step_write {s : St} {spec : String → PStatus} (hbase : HBase) (hg : Good s spec) (k : Nat) (bs : Bytes) :
    Good (step s (.write k bs)).1 (specStep spec s (.write k bs) (step s (.write k bs)).2) := by
  cases hk : s.writers[k]? with
  | none => simp only [step, hk, specStep]; exact hg
  | some w =>
    cases hc : w.closed with
    | true => simp [step, hk, specStep, hc]; exact hg
    | false =>
      simp only [step, hk, specStep, hc, Bool.false_eq_true, if_false]
      obtain ⟨hr, hw, hwr⟩ := hg
      obtain ⟨old, r, v1, v2, v3, v4, v5⟩ := open_view hr hk hc
      have hm : w ∈ s.writers := List.mem_iff_getElem?.2 ⟨k, hk⟩
      have hinj := hw.2.2.2.2.1
      have hent := hw.2.2.2.2.2 w.ino (hwr w hm)
      refine ⟨refines_intro ?_ ?_ hr.2.2.2, FSWF_append hw _ _, hwr⟩
      · intro x
        show PtrOK _ (if x = w.base then _ else spec x) x
        by_cases hx : x = w.base
        · subst hx
          rw [if_pos rfl, v1]
          refine ⟨⟨r, v2, ?_⟩, w, hm, rfl, hc, v4, ?_⟩
          · show (s.fs.append w.ino bs).data r = []
            rw [data_append_ne _ _ _ _ ?_, v3]
            intro e; subst e
            exact (hbase w.base w.base).2.2 (hinj _ _ _ v2 v4)
          · show (s.fs.append w.ino bs).data w.ino = old ++ bs
            rw [data_append_self _ _ _ hent, v5]
        · rw [if_neg hx]
          refine (refines_ptr hr x).frame rfl rfl ?_ (fun w' hm' _ _ => hm')
          intro j hj
          apply data_append_ne
          intro e; subst e
          rcases hj with hj | hj
          · exact (hbase x w.base).2.2 (hinj _ _ _ hj v4)
          · exact hx ((hbase x w.base).2.1 (hinj _ _ _ hj v4))
      · intro w' hm' ho'
        obtain ⟨bs', hs'⟩ := hr.2.1 w' hm' ho'
        show ∃ b, (if w'.base = w.base then _ else spec w'.base) = PStatus.writing b
        by_cases hx : w'.base = w.base
        · rw [if_pos hx, hs']; exact ⟨_, rfl⟩
        · rw [if_neg hx]; exact ⟨_, hs'⟩

theorem step_close {s : St} {spec : String → PStatus} (hbase : HBase) (hg : Good s spec) (k : Nat) :
    Good (step s (.close k)).1 (specStep spec s (.close k) (step s (.close k)).2) := by
  cases hk : s.writers[k]? with
  | none => simp only [step, hk, specStep]; exact hg
  | some w =>
    cases hc : w.closed with
    | true => simp [step, hk, specStep, hc]; exact hg
    | false =>
      obtain ⟨hr, hw, hwr⟩ := hg
      obtain ⟨old, r, v1, v2, v3, v4, v5⟩ := open_view hr hk hc
      simp only [step, hk, specStep, hc, Bool.false_eq_true, if_false, rename_eq v4, setWriter]
      have hm : w ∈ s.writers := List.mem_iff_getElem?.2 ⟨k, hk⟩
      have hdt : dat w.base ≠ tmp w.base := (hbase w.base w.base).2.2
      refine ⟨refines_intro ?_ ?_ ?_, FSWF_mv hw v4 _, ?_⟩
      · intro x
        show PtrOK _ (if x = w.base then _ else spec x) x
        by_cases hx : x = w.base
        · subst hx
          rw [if_pos rfl, v1]
          refine ⟨⟨w.ino, ?_, v5⟩, ?_⟩
          · show (s.fs.mv _ _ _).lookup _ = _
            rw [lookup_mv, if_pos rfl]
          · show (s.fs.mv _ _ _).lookup _ = _
            rw [lookup_mv, if_neg (Ne.symm hdt), if_pos rfl]
        · rw [if_neg hx]
          have hd : dat x ≠ dat w.base := fun e => hx ((hbase x w.base).1 e)
          have ht : tmp x ≠ tmp w.base := fun e => hx ((hbase x w.base).2.1 e)
          refine (refines_ptr hr x).frame ?_ ?_ (fun _ _ => rfl) ?_
          · show (s.fs.mv _ _ _).lookup _ = _
            rw [lookup_mv, if_neg hd, if_neg (hbase x w.base).2.2]
          · show (s.fs.mv _ _ _).lookup _ = _
            rw [lookup_mv, if_neg (fun e => (hbase w.base x).2.2 e.symm), if_neg ht]
          · intro w' hm' hb' _
            exact mem_set_of_base_ne hk hm' (by rw [hb']; exact hx)
      · intro w' hm' ho'
        obtain ⟨j, hj⟩ := List.mem_iff_getElem?.1 hm'
        obtain ⟨hjk, hj'⟩ := getElem?_set_open hj rfl ho'
        have hm0 : w' ∈ s.writers := List.mem_iff_getElem?.2 ⟨j, hj'⟩
        obtain ⟨bs', hs'⟩ := hr.2.1 w' hm0 ho'
        have hx : w'.base ≠ w.base := fun e => hjk (hr.2.2.2 j k w' w hj' hk ho' hc e)
        show ∃ b, (if w'.base = w.base then _ else spec w'.base) = PStatus.writing b
        rw [if_neg hx]; exact ⟨_, hs'⟩
      · intro k1 k2 w1 w2 h1 h2 o1 o2 hb
        obtain ⟨_, h1'⟩ := getElem?_set_open h1 rfl o1
        obtain ⟨_, h2'⟩ := getElem?_set_open h2 rfl o2
        exact hr.2.2.2 k1 k2 w1 w2 h1' h2' o1 o2 hb
      · intro w' hm'
        show w'.ino < s.fs.next
        rcases List.mem_or_eq_of_mem_set hm' with h | h
        · exact hwr w' h
        · subst h; exact hwr w hm

theorem step_abort {s : St} {spec : String → PStatus} (hbase : HBase) (hg : Good s spec) (k : Nat)
    (ha : Allowed s (.abort k)) :
    Good (step s (.abort k)).1 (specStep spec s (.abort k) (step s (.abort k)).2) := by
  cases hk : s.writers[k]? with
  | none => simp only [step, hk, specStep]; exact hg
  | some w =>
    cases hp : w.published with
    | true => simp [step, hk, specStep, hp]; exact hg
    | false =>
      have hc : w.closed = false := by
        rcases ha w hk with h | h
        · exact h
        · rw [hp] at h; cases h
      obtain ⟨hr, hw, hwr⟩ := hg
      obtain ⟨old, r, v1, v2, v3, v4, v5⟩ := open_view hr hk hc
      simp only [step, hk, specStep, hp, Bool.false_eq_true, if_false, setWriter]
      have hm : w ∈ s.writers := List.mem_iff_getElem?.2 ⟨k, hk⟩
      have hdt : dat w.base ≠ tmp w.base := (hbase w.base w.base).2.2
      refine ⟨refines_intro ?_ ?_ ?_, FSWF_remove (FSWF_remove hw _) _, ?_⟩
      · intro x
        show PtrOK _ (if x = w.base then _ else spec x) x
        by_cases hx : x = w.base
        · subst hx
          rw [if_pos rfl]
          refine ⟨?_, ?_⟩
          · show ((s.fs.remove _).remove _).lookup _ = _
            rw [lookup_remove, if_pos rfl]
          · show ((s.fs.remove _).remove _).lookup _ = _
            rw [lookup_remove, if_neg (Ne.symm hdt), lookup_remove, if_pos rfl]
        · rw [if_neg hx]
          have hd : dat x ≠ dat w.base := fun e => hx ((hbase x w.base).1 e)
          have ht : tmp x ≠ tmp w.base := fun e => hx ((hbase x w.base).2.1 e)
          refine (refines_ptr hr x).frame ?_ ?_ (fun _ _ => rfl) ?_
          · show ((s.fs.remove _).remove _).lookup _ = _
            rw [lookup_remove, if_neg hd, lookup_remove, if_neg (hbase x w.base).2.2]
          · show ((s.fs.remove _).remove _).lookup _ = _
            rw [lookup_remove, if_neg (fun e => (hbase w.base x).2.2 e.symm), lookup_remove, if_neg ht]
          · intro w' hm' hb' _
            exact mem_set_of_base_ne hk hm' (by rw [hb']; exact hx)
      · intro w' hm' ho'
        obtain ⟨j, hj⟩ := List.mem_iff_getElem?.1 hm'
        obtain ⟨hjk, hj'⟩ := getElem?_set_open hj rfl ho'
        have hm0 : w' ∈ s.writers := List.mem_iff_getElem?.2 ⟨j, hj'⟩
        obtain ⟨bs', hs'⟩ := hr.2.1 w' hm0 ho'
        have hx : w'.base ≠ w.base := fun e => hjk (hr.2.2.2 j k w' w hj' hk ho' hc e)
        show ∃ b, (if w'.base = w.base then _ else spec w'.base) = PStatus.writing b
        rw [if_neg hx]; exact ⟨_, hs'⟩
      · intro k1 k2 w1 w2 h1 h2 o1 o2 hb
        obtain ⟨_, h1'⟩ := getElem?_set_open h1 rfl o1
        obtain ⟨_, h2'⟩ := getElem?_set_open h2 rfl o2
        exact hr.2.2.2 k1 k2 w1 w2 h1' h2' o1 o2 hb
      · intro w' hm'
        show w'.ino < s.fs.next
        rcases List.mem_or_eq_of_mem_set hm' with h | h
        · exact hwr w' h
        · subst h; exact hwr w hm

theorem step_tombstone {s : St} {spec : String → PStatus} (hbase : HBase) (hg : Good s spec) (b : String)
    (ha : Allowed s (.tombstone b)) :
    Good (step s (.tombstone b)).1 (specStep spec s (.tombstone b) (step s (.tombstone b)).2) := by
  obtain ⟨hr, hw, hwr⟩ := hg
  simp only [step, specStep]
  have hdt : dat b ≠ tmp b := (hbase b b).2.2
  refine ⟨refines_intro ?_ ?_ hr.2.2.2, FSWF_remove (FSWF_remove hw _) _, hwr⟩
  · intro x
    show PtrOK _ (if x = b then _ else spec x) x
    by_cases hx : x = b
    · subst hx
      rw [if_pos rfl]
      refine ⟨?_, ?_⟩
      · show ((s.fs.remove _).remove _).lookup _ = _
        rw [lookup_remove, if_neg hdt, lookup_remove, if_pos rfl]
      · show ((s.fs.remove _).remove _).lookup _ = _
        rw [lookup_remove, if_pos rfl]
    · rw [if_neg hx]
      have hd : dat x ≠ dat b := fun e => hx ((hbase x b).1 e)
      have ht : tmp x ≠ tmp b := fun e => hx ((hbase x b).2.1 e)
      refine (refines_ptr hr x).frame ?_ ?_ (fun _ _ => rfl) (fun w' hm' _ _ => hm')
      · show ((s.fs.remove _).remove _).lookup _ = _
        rw [lookup_remove, if_neg (hbase x b).2.2, lookup_remove, if_neg hd]
      · show ((s.fs.remove _).remove _).lookup _ = _
        rw [lookup_remove, if_neg ht, lookup_remove, if_neg (fun e => (hbase b x).2.2 e.symm)]
  · intro w' hm' ho'
    obtain ⟨bs', hs'⟩ := hr.2.1 w' hm' ho'
    have hx : w'.base ≠ b := by
      intro e; have := ha w' hm' e; rw [this] at ho'; cases ho'
    show ∃ bs, (if w'.base = b then _ else spec w'.base) = PStatus.writing bs
    rw [if_neg hx]; exact ⟨_, hs'⟩

theorem step_open {s : St} {spec : String → PStatus} (hg : Good s spec) (b : String) :
    Good (step s (.open_ b)).1 (specStep spec s (.open_ b) (step s (.open_ b)).2) := by
  cases hl : s.fs.lookup (dat b) with
  | none => simp only [step, hl, specStep]; exact hg
  | some i => simp only [step, hl, specStep]; exact hg

theorem refines_step_aux (s : St) (spec : String → PStatus) (op : Op)
    (hbase : ∀ b1 b2 : String, (dat b1 = dat b2 → b1 = b2) ∧ (tmp b1 = tmp b2 → b1 = b2) ∧ dat b1 ≠ tmp b2)
    (hr : Refines s spec) (hw : FSWF s.fs) (hwr : ∀ w ∈ s.writers, w.ino < s.fs.next) (ha : Allowed s op) :
    Refines (step s op).1 (specStep spec s op (step s op).2) ∧ FSWF (step s op).1.fs ∧
    (∀ w ∈ (step s op).1.writers, w.ino < (step s op).1.fs.next) := by
  have hg : Good s spec := ⟨hr, hw, hwr⟩
  cases op with
  | create draws => exact step_create hbase hg draws
  | write k bs => exact step_write hbase hg k bs
  | close k => exact step_close hbase hg k
  | abort k => exact step_abort hbase hg k ha
  | tombstone b => exact step_tombstone hbase hg b ha
  | open_ b => exact step_open hg b

/-- Witness of the excluded point: tombstone a pointer while its writer is open, let CreateFile
    redraw the name, then Close the first writer — it reports success and publishes the second
    writer's partial bytes under the pointer. -/
theorem tombstone_while_open_exposes_aux :
    let ops : List Op := [.create ["x"], .write 0 [1, 1], .tombstone "x", .create ["x"], .write 1 [9], .close 0, .open_ "x"]
    (runOps {} ops).2 = [.created "x", .ok, .ok, .created "x", .ok, .ok, .data [9]] := by
  decide

end BloomVerif.FSStore
