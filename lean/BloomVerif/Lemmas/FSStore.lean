/- Helper lemmas for C16 (FileSystemDataStore behaves like its specification). -/
import BloomVerif.Model.FSStore
namespace BloomVerif.FSStore

/-- Discipline of the callers the refinement is stated for: a pointer is not tombstoned while its
    writer is still open, and Abort is not repeated on a writer that was already closed unpublished.
    (The engine obeys both: it tombstones only after Abort or after a failed Close, and aborts once.) -/
def Allowed (s : St) : Op → Prop
  | .tombstone b => ∀ w ∈ s.writers, w.base = b → w.closed = true
  | .abort k => ∀ w, s.writers[k]? = some w → (w.closed = false ∨ w.published = true)
  | _ => True

/-- Specification state: what each pointer should look like. Later bindings shadow earlier ones. -/
def specStep (spec : String → PStatus) (s : St) (op : Op) (res : Res) : String → PStatus :=
  match op, res with
  | .create _, .created b => fun x => if x = b then .writing [] else spec x
  | .write k bs, .ok =>
    (match s.writers[k]? with
     | some w => fun x => if x = w.base then (match spec x with | .writing old => .writing (old ++ bs) | o => o) else spec x
     | none => spec)
  | .close k, .ok =>
    (match s.writers[k]? with
     | some w => fun x => if x = w.base then (match spec x with | .writing bs => .published bs | o => o) else spec x
     | none => spec)
  | .abort k, .ok =>
    (match s.writers[k]? with
     | some w => if w.published then spec else fun x => if x = w.base then .gone else spec x
     | none => spec)
  | .tombstone b, _ => fun x => if x = b then .gone else spec x
  | _, _ => spec

/-- The directory implements the specification. -/
def Refines (s : St) (spec : String → PStatus) : Prop :=
  (∀ b, match spec b with
    | .gone => s.fs.lookup (dat b) = none ∧ s.fs.lookup (tmp b) = none
    | .writing bs => (∃ r, s.fs.lookup (dat b) = some r ∧ s.fs.data r = []) ∧
        (∃ w ∈ s.writers, w.base = b ∧ w.closed = false ∧ s.fs.lookup (tmp b) = some w.ino ∧ s.fs.data w.ino = bs)
    | .published bs => (∃ i, s.fs.lookup (dat b) = some i ∧ s.fs.data i = bs) ∧ s.fs.lookup (tmp b) = none) ∧
  (∀ w ∈ s.writers, w.closed = false → ∃ bs, spec w.base = .writing bs) ∧
  (∀ w1 ∈ s.writers, ∀ w2 ∈ s.writers, w1.closed = false → w2.closed = false → w1.base = w2.base → w1 = w2)

theorem createLoop_frame_aux (fs fs' : FS) (draws : List String) (b : String) (i : Nat)
    (h : createLoop fs draws = some (fs', b, i)) :
    fs.lookup (dat b) = none ∧ fs.lookup (tmp b) = none ∧
    (∀ p j, fs.lookup p = some j → fs'.lookup p = some j ∧ fs'.data j = fs.data j) := by
  sorry

theorem tombstone_removes_all_aux (s : St) (b : String) :
    (step s (.tombstone b)).1.fs.lookup (dat b) = none ∧ (step s (.tombstone b)).1.fs.lookup (tmp b) = none ∧
    (∀ p, p ≠ dat b → p ≠ tmp b → (step s (.tombstone b)).1.fs.lookup p = s.fs.lookup p) := by
  sorry

/-- Well-formedness of the directory the refinement needs: inode numbers in use are below `next`
    and each inode has one data entry. -/
def FSWF (fs : FS) : Prop :=
  (∀ p i, fs.lookup p = some i → i < fs.next) ∧ (∀ i, (fs.inodes.lookup i).isSome → i < fs.next) ∧
  (fs.inodes.map (·.1)).Nodup ∧ (fs.names.map (·.1)).Nodup

theorem refines_init_aux : Refines {} (fun _ => .gone) ∧ FSWF ({} : St).fs := by
  sorry

theorem refines_step_aux (s : St) (spec : String → PStatus) (op : Op)
    (hbase : ∀ b1 b2 : String, (dat b1 = dat b2 → b1 = b2) ∧ (tmp b1 = tmp b2 → b1 = b2) ∧ dat b1 ≠ tmp b2)
    (hr : Refines s spec) (hw : FSWF s.fs) (hwr : ∀ w ∈ s.writers, w.ino < s.fs.next) (ha : Allowed s op) :
    Refines (step s op).1 (specStep spec s op (step s op).2) ∧ FSWF (step s op).1.fs ∧
    (∀ w ∈ (step s op).1.writers, w.ino < (step s op).1.fs.next) := by
  sorry

/-- Witness of the excluded point: tombstone a pointer while its writer is open, let CreateFile
    redraw the name, then Close the first writer — it reports success and publishes the second
    writer's partial bytes under the pointer. -/
theorem tombstone_while_open_exposes_aux :
    let ops : List Op := [.create ["x"], .write 0 [1, 1], .tombstone "x", .create ["x"], .write 1 [9], .close 0, .open_ "x"]
    (runOps {} ops).2 = [.created "x", .ok, .ok, .created "x", .ok, .ok, .data [9]] := by
  sorry

end BloomVerif.FSStore
