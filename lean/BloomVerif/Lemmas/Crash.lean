/- Helper lemmas for C15 (the filesystem store is crash-consistent). -/
import BloomVerif.Model.Crash
namespace BloomVerif.Crash
open BloomVerif BloomVerif.FSStore

/-- The starting point of a flush: a well-formed directory in which neither name of `b` exists,
    currently or durably. -/
def FreshFor (c : CFS) (b : String) : Prop :=
  c.cur.lookup (dat b) = none ∧ c.cur.lookup (tmp b) = none ∧ c.dur.lookup (dat b) = none ∧ c.dur.lookup (tmp b) = none ∧
  (∀ p i, c.cur.lookup p = some i → i < c.cur.next) ∧ (∀ p i, c.dur.lookup p = some i → i < c.cur.next) ∧
  (∀ i, (c.cur.inodes.lookup i).isSome → i < c.cur.next) ∧ (c.cur.inodes.map (·.1)).Nodup

/-! ### Helper lemmas -/

theorem crash_lookup_filter (l : List (String × Nat)) (a b p : String) :
    (l.filter (fun x => x.1 != a && x.1 != b)).lookup p = if p = a ∨ p = b then none else l.lookup p := by
  induction l with
  | nil => simp
  | cons x xs ih =>
    obtain ⟨k, v⟩ := x
    grind

theorem crash_lookup_filter1 (l : List (String × Nat)) (a p : String) :
    (l.filter (fun x => x.1 != a)).lookup p = if p = a then none else l.lookup p := by
  induction l with
  | nil => simp
  | cons x xs ih =>
    obtain ⟨k, v⟩ := x
    grind

theorem crash_lookup_map_append (l : List (Nat × Bytes)) (i j : Nat) (bs : Bytes) :
    (l.map (fun x => if x.1 == i then (i, x.2 ++ bs) else x)).lookup j
      = (l.lookup j).map (fun d => if j = i then d ++ bs else d) := by
  induction l with
  | nil => simp
  | cons x xs ih =>
    obtain ⟨k, v⟩ := x
    grind

/-- `G` holds at every prefix of `ops` run from `c`, and `F` at the end. -/
def crash_all (G F : CFS → Prop) : CFS → List FOp → Prop
  | c, [] => G c ∧ F c
  | c, o :: ops => G c ∧ crash_all G F (step c o) ops

theorem crash_all_spec (G F : CFS → Prop) (c : CFS) (ops : List FOp) (h : crash_all G F c ops) :
    (∀ n, G (run c (ops.take n))) ∧ F (run c ops) := by
  induction ops generalizing c with
  | nil => simpa [run, crash_all] using h
  | cons o ops ih =>
    obtain ⟨hg, h⟩ := h
    obtain ⟨h1, h2⟩ := ih _ h
    refine ⟨fun n => ?_, by simpa [run] using h2⟩
    cases n with
    | zero => simpa [run] using hg
    | succ n => simpa [run] using h1 n

/-- `b.dat` is absent or an empty reservation, in both views. -/
def crash_Empty (b : String) (c : CFS) : Prop :=
  c.dur.lookup (dat b) = none ∧
  (c.cur.lookup (dat b) = none ∨ ∃ i, c.cur.lookup (dat b) = some i ∧ c.cur.data i = [])

/-- `b.dat` is bound to the complete, fully fsynced content. -/
def crash_Full (b : String) (total : Bytes) (c : CFS) : Prop :=
  ∃ i, c.cur.lookup (dat b) = some i ∧ (c.dur.lookup (dat b) = none ∨ c.dur.lookup (dat b) = some i) ∧
    c.cur.data i = total ∧ syncedLen c i = total.length

def crash_Final (b : String) (total : Bytes) (c : CFS) : Prop :=
  ∃ i, c.cur.lookup (dat b) = some i ∧ c.dur.lookup (dat b) = some i ∧
    c.cur.data i = total ∧ syncedLen c i = total.length

theorem crash_Empty_power (b : String) (c : CFS) (r : Recovered) (h : crash_Empty b c) (hp : PowerLoss c r) :
    recoveredDat r b = none ∨ recoveredDat r b = some [] := by
  obtain ⟨hd, hc⟩ := h
  obtain ⟨h1, h2, h3⟩ := hp
  unfold recoveredDat
  cases hr : r.names.lookup (dat b) with
  | none => simp
  | some i =>
    right
    rcases h1 _ _ hr with h | h
    · rcases hc with hc | ⟨j, hj, hdj⟩
      · simp [hc] at h
      · obtain ⟨k, _, _, hk⟩ := h3 i
        have : j = i := by simpa [hj] using h
        subst this
        simp [hk, hdj]
    · simp [hd] at h

theorem crash_Empty_proc (b : String) (c : CFS) (h : crash_Empty b c) :
    recoveredDat (processCrash c) b = none ∨ recoveredDat (processCrash c) b = some [] := by
  obtain ⟨hd, hc⟩ := h
  unfold recoveredDat processCrash
  rcases hc with hc | ⟨j, hj, hdj⟩
  · left; simp only [FS.lookup] at hc; simp only [hc, Option.map_none]
  · right; simp only [FS.lookup] at hj; simp only [hj, hdj, Option.map_some]

theorem crash_Full_power (b : String) (total : Bytes) (c : CFS) (r : Recovered) (h : crash_Full b total c) (hp : PowerLoss c r) :
    recoveredDat r b = none ∨ recoveredDat r b = some total := by
  obtain ⟨j, hj, hd, hdj, hs⟩ := h
  obtain ⟨h1, h2, h3⟩ := hp
  unfold recoveredDat
  cases hr : r.names.lookup (dat b) with
  | none => simp
  | some i =>
    right
    have : i = j := by
      rcases h1 _ _ hr with h | h
      · simpa [hj] using h.symm
      · rcases hd with hd | hd
        · simp [hd] at h
        · simpa [hd] using h.symm
    subst this
    obtain ⟨k, hk1, hk2, hk⟩ := h3 i
    rw [hs] at hk1
    rw [hdj] at hk2 hk
    have : k = total.length := by omega
    simp [hk, this]

theorem crash_Full_proc (b : String) (total : Bytes) (c : CFS) (h : crash_Full b total c) :
    recoveredDat (processCrash c) b = some total := by
  obtain ⟨j, hj, hd, hdj, hs⟩ := h
  unfold recoveredDat processCrash
  simp only [FS.lookup] at hj; simp only [hj, hdj, Option.map_some]

theorem crash_Final_power (b : String) (total : Bytes) (c : CFS) (r : Recovered) (h : crash_Final b total c) (hp : PowerLoss c r) :
    recoveredDat r b = some total := by
  obtain ⟨j, hj, hd, hdj, hs⟩ := h
  have hr := hp.2.1 (dat b) (by rw [hj, hd])
  rcases crash_Full_power b total c r ⟨j, hj, Or.inr hd, hdj, hs⟩ hp with h | h
  · simp [recoveredDat, hr, hj] at h
  · exact h


def crash_Mid (b : String) (acc : Bytes) (c : CFS) : Prop :=
  ∃ i0 i1, i0 ≠ i1 ∧ c.cur.lookup (dat b) = some i0 ∧ c.cur.lookup (tmp b) = some i1 ∧
    c.cur.data i0 = [] ∧ c.cur.inodes.lookup i1 = some acc ∧ c.dur.lookup (dat b) = none

theorem crash_Mid_Empty (b : String) (acc : Bytes) (c : CFS) (h : crash_Mid b acc c) : crash_Empty b c := by
  obtain ⟨i0, i1, _, h0, _, hd, _, hdur⟩ := h
  exact ⟨hdur, Or.inr ⟨i0, h0, hd⟩⟩

theorem crash_append_inodes (fs : FS) (i j : Nat) (bs : Bytes) :
    (fs.append i bs).inodes.lookup j = (fs.inodes.lookup j).map (fun d => if j = i then d ++ bs else d) :=
  crash_lookup_map_append fs.inodes i j bs

theorem crash_step_write (c : CFS) (p : String) (i : Nat) (bs : Bytes) (h : c.cur.lookup p = some i) :
    step c (.write p bs) = { c with cur := c.cur.append i bs } := by
  simp only [step, h]

theorem crash_Mid_write (b : String) (acc ch : Bytes) (c : CFS) (h : crash_Mid b acc c) :
    crash_Mid b (acc ++ ch) (step c (.write (tmp b) ch)) := by
  obtain ⟨i0, i1, hne, h0, h1, hd, hacc, hdur⟩ := h
  rw [crash_step_write c _ i1 _ h1]
  refine ⟨i0, i1, hne, h0, h1, ?_, ?_, hdur⟩
  · simp only [FS.data, crash_append_inodes] at hd ⊢
    simp only [hne, if_false]
    cases h : List.lookup i0 c.cur.inodes <;> simp_all
  · simp only [crash_append_inodes, hacc]
    simp


def crash_G (b : String) (total : Bytes) (c : CFS) : Prop := crash_Empty b c ∨ crash_Full b total c

theorem crash_flush_tail (b : String) (acc : Bytes) (c : CFS) (h : crash_Mid b acc c) :
    crash_all (crash_G b acc) (crash_Final b acc) c [.fsync (tmp b), .rename (tmp b) (dat b), .dirsync] := by
  have hE := crash_Mid_Empty b acc c h
  obtain ⟨i0, i1, hne, h0, h1, hd, hacc, hdur⟩ := h
  have hdata : c.cur.data i1 = acc := by simp [FS.data, hacc]
  have hs1 : step c (.fsync (tmp b)) = { c with synced := (i1, acc.length) :: c.synced } := by
    simp only [step, h1, hdata]
  have hren : c.cur.rename (tmp b) (dat b) =
      some { c.cur with names := (c.cur.names.filter (fun x => x.1 != tmp b && x.1 != dat b)) ++ [(dat b, i1)] } := by
    simp only [FS.rename, h1]
  have hlk : List.lookup (dat b) ((c.cur.names.filter (fun x => x.1 != tmp b && x.1 != dat b)) ++ [(dat b, i1)]) = some i1 := by
    rw [List.lookup_append, crash_lookup_filter]; simp
  refine ⟨Or.inl hE, ?_, ?_, ?_, ?_⟩
  · rw [hs1]; exact Or.inl hE
  · rw [hs1]; simp only [step, hren]
    exact Or.inr ⟨i1, hlk, Or.inl hdur, hdata, by simp [syncedLen]⟩
  · rw [hs1]; simp only [step, hren]
    exact Or.inr ⟨i1, hlk, Or.inr hlk, hdata, by simp [syncedLen]⟩
  · rw [hs1]; simp only [step, hren]
    exact ⟨i1, hlk, hlk, hdata, by simp [syncedLen]⟩


theorem crash_all_mono (G G' F F' : CFS → Prop) (hG : ∀ c, G c → G' c) (hF : ∀ c, F c → F' c)
    (c : CFS) (ops : List FOp) (h : crash_all G F c ops) : crash_all G' F' c ops := by
  induction ops generalizing c with
  | nil => exact ⟨hG _ h.1, hF _ h.2⟩
  | cons o ops ih => exact ⟨hG _ h.1, ih _ h.2⟩

theorem crash_flush_writes (b : String) (chunks : List Bytes) (acc : Bytes) (c : CFS) (h : crash_Mid b acc c) :
    crash_all (crash_G b (acc ++ chunks.flatten)) (crash_Final b (acc ++ chunks.flatten)) c
      (chunks.map (fun ch => .write (tmp b) ch) ++ [.fsync (tmp b), .rename (tmp b) (dat b), .dirsync]) := by
  induction chunks generalizing acc c with
  | nil => simpa using crash_flush_tail b acc c h
  | cons ch rest ih =>
    refine ⟨Or.inl (crash_Mid_Empty b acc c h), ?_⟩
    have := ih (acc ++ ch) _ (crash_Mid_write b acc ch c h)
    simpa using this

theorem crash_abort_writes (b : String) (hb : dat b ≠ tmp b) (chunks : List Bytes) (acc : Bytes) (c : CFS)
    (h : crash_Mid b acc c) :
    crash_all (crash_Empty b) (fun _ => True) c
      (chunks.map (fun ch => .write (tmp b) ch) ++ [.remove (tmp b), .remove (dat b)]) := by
  induction chunks generalizing acc c with
  | nil =>
    have hE := crash_Mid_Empty b acc c h
    obtain ⟨i0, i1, hne, h0, h1, hd, hacc, hdur⟩ := h
    refine ⟨hE, ⟨hdur, Or.inr ⟨i0, ?_, hd⟩⟩, ⟨hdur, Or.inl ?_⟩, trivial⟩
    · simp only [step, FS.remove, FS.lookup, crash_lookup_filter1, if_neg hb]; exact h0
    · simp only [step, FS.remove, FS.lookup, crash_lookup_filter1, if_pos]
  | cons ch rest ih =>
    exact ⟨crash_Mid_Empty b acc c h, ih (acc ++ ch) _ (crash_Mid_write b acc ch c h)⟩

theorem crash_lookup_single {α β} [BEq α] [LawfulBEq α] [DecidableEq α] (k k' : α) (v : β) :
    List.lookup k [(k', v)] = if k = k' then some v else none := by
  by_cases h : k = k'
  · subst h; simp
  · have : (k == k') = false := by simpa using h
    simp [List.lookup_cons, this, h]

theorem crash_creates (b : String) (hb : dat b ≠ tmp b) (c : CFS) (hf : FreshFor c b) :
    crash_Empty b c ∧ crash_Empty b (step c (.createExcl (dat b))) ∧
      crash_Mid b [] (step (step c (.createExcl (dat b))) (.createExcl (tmp b))) := by
  obtain ⟨hcd, hct, hdd, hdt, hcn, hdn, hin, hnd⟩ := hf
  have hi0 : c.cur.inodes.lookup c.cur.next = none := by
    cases h : c.cur.inodes.lookup c.cur.next with
    | none => rfl
    | some x => have := hin c.cur.next (by simp [h]); omega
  have hi1 : c.cur.inodes.lookup (c.cur.next + 1) = none := by
    cases h : c.cur.inodes.lookup (c.cur.next + 1) with
    | none => rfl
    | some x => have := hin (c.cur.next + 1) (by simp [h]); omega
  have hs1 : step c (.createExcl (dat b)) = { c with cur := { c.cur with names := c.cur.names ++ [(dat b, c.cur.next)], inodes := c.cur.inodes ++ [(c.cur.next, [])], next := c.cur.next + 1 } } := by
    simp only [step, FS.createExcl, hcd]
  simp only [FS.lookup] at hcd hct
  have hl2 : List.lookup (tmp b) (c.cur.names ++ [(dat b, c.cur.next)]) = none := by
    rw [List.lookup_append, hct]; simp [crash_lookup_single, Ne.symm hb]
  refine ⟨⟨hdd, Or.inl hcd⟩, ?_, ?_⟩
  · rw [hs1]
    refine ⟨hdd, Or.inr ⟨c.cur.next, ?_, ?_⟩⟩
    · simp only [FS.lookup, List.lookup_append, hcd]; simp
    · simp only [FS.data, List.lookup_append, hi0]; simp
  · rw [hs1]
    simp only [step, FS.createExcl, FS.lookup, hl2]
    refine ⟨c.cur.next, c.cur.next + 1, by omega, ?_, ?_, ?_, ?_, hdd⟩
    · simp only [FS.lookup, List.lookup_append, hcd]; simp [crash_lookup_single]
    · simp only [FS.lookup, List.lookup_append, hct]; simp [crash_lookup_single, Ne.symm hb]
    · simp only [FS.data, List.lookup_append, hi0]; simp [crash_lookup_single]
    · simp only [List.lookup_append, hi1]; simp [crash_lookup_single]

theorem crash_flush_all (b : String) (hb : dat b ≠ tmp b) (chunks : List Bytes) (c : CFS) (hf : FreshFor c b) :
    crash_all (crash_G b chunks.flatten) (crash_Final b chunks.flatten) c (flushOps b chunks) := by
  obtain ⟨h0, h1, h2⟩ := crash_creates b hb c hf
  have := crash_flush_writes b chunks [] _ h2
  simp only [List.nil_append] at this
  exact ⟨Or.inl h0, Or.inl h1, by simpa [List.append_assoc] using this⟩

theorem crash_abort_all (b : String) (hb : dat b ≠ tmp b) (chunks : List Bytes) (c : CFS) (hf : FreshFor c b) :
    crash_all (crash_Empty b) (fun _ => True) c (abortedFlushOps b chunks) := by
  obtain ⟨h0, h1, h2⟩ := crash_creates b hb c hf
  have := crash_abort_writes b hb chunks [] _ h2
  exact ⟨h0, h1, by simpa [List.append_assoc] using this⟩


/-! ### The statements used by `Props/C15.lean` -/

/-- Process crash at any point of a flush: `b.dat` is absent, or the empty reservation, or the
    complete content. -/
theorem flush_process_crash_aux (c : CFS) (b : String) (chunks : List Bytes) (n : Nat)
    (hb : dat b ≠ tmp b) (hf : FreshFor c b) :
    let r := processCrash (run c ((flushOps b chunks).take n))
    recoveredDat r b = none ∨ recoveredDat r b = some [] ∨ recoveredDat r b = some chunks.flatten := by
  intro r
  rcases (crash_all_spec _ _ c _ (crash_flush_all b hb chunks c hf)).1 n with h | h
  · rcases crash_Empty_proc b _ h with h | h
    · exact Or.inl h
    · exact Or.inr (Or.inl h)
  · exact Or.inr (Or.inr (crash_Full_proc b _ _ h))

/-- Power loss at any point of a flush: `b.dat` is absent, or the empty reservation, or the complete
    content — never a partial file under the final name. -/
theorem flush_power_loss_aux (c : CFS) (b : String) (chunks : List Bytes) (n : Nat) (r : Recovered)
    (hb : dat b ≠ tmp b) (hf : FreshFor c b)
    (hp : PowerLoss (run c ((flushOps b chunks).take n)) r) :
    recoveredDat r b = none ∨ recoveredDat r b = some [] ∨ recoveredDat r b = some chunks.flatten := by
  rcases (crash_all_spec _ _ c _ (crash_flush_all b hb chunks c hf)).1 n with h | h
  · rcases crash_Empty_power b _ r h hp with h | h
    · exact Or.inl h
    · exact Or.inr (Or.inl h)
  · rcases crash_Full_power b _ _ r h hp with h | h
    · exact Or.inl h
    · exact Or.inr (Or.inr h)

/-- Once the flush protocol has completed (which is before the row batch is acknowledged), every
    crash state holds the complete file under the final name. -/
theorem flush_durable_after_close_aux (c : CFS) (b : String) (chunks : List Bytes) (r : Recovered)
    (hb : dat b ≠ tmp b) (hf : FreshFor c b) (hp : PowerLoss (run c (flushOps b chunks)) r) :
    recoveredDat r b = some chunks.flatten :=
  crash_Final_power b _ _ r (crash_all_spec _ _ c _ (crash_flush_all b hb chunks c hf)).2 hp

/-- An aborted flush never leaves content under the final name, at any crash point. -/
theorem aborted_flush_aux (c : CFS) (b : String) (chunks : List Bytes) (n : Nat) (r : Recovered)
    (hb : dat b ≠ tmp b) (hf : FreshFor c b)
    (hp : PowerLoss (run c ((abortedFlushOps b chunks).take n)) r) :
    recoveredDat r b = none ∨ recoveredDat r b = some [] :=
  crash_Empty_power b _ r ((crash_all_spec _ _ c _ (crash_abort_all b hb chunks c hf)).1 n) hp

theorem crash_all_append (G F F' : CFS → Prop) (c : CFS) (ops1 ops2 : List FOp)
    (h1 : crash_all G F c ops1) (h2 : ∀ c', F c' → crash_all G F' c' ops2) :
    crash_all G F' c (ops1 ++ ops2) := by
  induction ops1 generalizing c with
  | nil => exact h2 c h1.2
  | cons o ops ih => exact ⟨h1.1, ih _ h1.2⟩

theorem crash_Empty_remove (b p : String) (c : CFS) (h : crash_Empty b c) : crash_Empty b (step c (.remove p)) := by
  obtain ⟨hd, hc⟩ := h
  refine ⟨hd, ?_⟩
  simp only [step, FS.remove, FS.lookup, FS.data, crash_lookup_filter1]
  split
  · exact Or.inl rfl
  · exact hc

theorem crash_abort_all_end (b : String) (hb : dat b ≠ tmp b) (chunks : List Bytes) (c : CFS) (hf : FreshFor c b) :
    crash_all (crash_Empty b) (crash_Empty b) c (abortedFlushOps b chunks) := by
  have h := crash_abort_all b hb chunks c hf
  have key : ∀ (ops : List FOp) (c : CFS), crash_all (crash_Empty b) (fun _ => True) c ops →
      crash_all (crash_Empty b) (crash_Empty b) c ops := by
    intro ops
    induction ops with
    | nil => intro c h; exact ⟨h.1, h.1⟩
    | cons o ops ih => intro c h; exact ⟨h.1, ih _ h.2⟩
  exact key _ _ h

/-- A failed flush as the engine drives it (Abort, then TombstoneFile) never leaves content under the
    final name, at any crash point. -/
theorem failed_flush_aux (c : CFS) (b : String) (chunks : List Bytes) (n : Nat) (r : Recovered)
    (hb : dat b ≠ tmp b) (hf : FreshFor c b)
    (hp : PowerLoss (run c ((failedFlushOps b chunks).take n)) r ∨ r = processCrash (run c ((failedFlushOps b chunks).take n))) :
    recoveredDat r b = none ∨ recoveredDat r b = some [] := by
  have hall : crash_all (crash_Empty b) (crash_Empty b) c (failedFlushOps b chunks) := by
    unfold failedFlushOps
    refine crash_all_append _ _ _ c _ _ (crash_abort_all_end b hb chunks c hf) ?_
    intro c' h'
    have h1 := crash_Empty_remove b (dat b) c' h'
    have h2 := crash_Empty_remove b (tmp b) _ h1
    exact ⟨h', h1, h2, h2⟩
  have hE := (crash_all_spec _ _ c _ hall).1 n
  rcases hp with hp | hp
  · exact crash_Empty_power b _ r hE hp
  · subst hp; exact crash_Empty_proc b _ hE

/-- `FreshFor` is satisfiable: the empty state is fresh for every base. -/
example (b : String) : FreshFor {} b := by
  simp [FreshFor, FS.lookup]

/-- Witness of the merge window: right after the merge output is published and before the sources
    are removed, a crash leaves the output and both sources — every merged row twice. -/
theorem merge_window_duplicates_aux :
    let c0 := run {} (flushOps "s1" [[1]] ++ flushOps "s2" [[2]])
    let ops := mergeCommitOps "out" [[1, 2]] ["s1", "s2"]
    let r := processCrash (run c0 (ops.take (flushOps "out" [[1, 2]]).length))
    recoveredDat r "out" = some [1, 2] ∧ recoveredDat r "s1" = some [1] ∧ recoveredDat r "s2" = some [2] := by
  decide

/-- Witness for power loss after the merge finished: the removals were never fsynced, so the durable
    view still binds the sources next to the output. -/
theorem merge_power_loss_duplicates_aux :
    let c := run {} (flushOps "s1" [[1]] ++ flushOps "s2" [[2]] ++ mergeCommitOps "out" [[1, 2]] ["s1", "s2"])
    c.cur.lookup (dat "s1") = none ∧ c.dur.lookup (dat "s1") ≠ none ∧ c.dur.lookup (dat "out") ≠ none := by
  decide

end BloomVerif.Crash
