/- Helper lemmas for C17 (files describe themselves) and C19 (bounds checks). -/
import BloomVerif.Model.Format
import BloomVerif.Generated.Leaf
namespace BloomVerif

theorem u32dec_u32le_aux (n : Nat) (h : n < 4294967296) :
    (match u32le n with | [a, b, c, d] => u32dec a b c d | _ => 0) = n := by
  show u32dec _ _ _ _ = n
  simp only [u32dec, UInt8.toNat_ofNat', Nat.reducePow]
  omega

theorem u32dec_u32le' (n : Nat) (h : n < 4294967296) :
    u32dec (UInt8.ofNat (n % 256)) (UInt8.ofNat (n / 256 % 256)) (UInt8.ofNat (n / 65536 % 256))
      (UInt8.ofNat (n / 16777216 % 256)) = n := by
  simp only [u32dec, UInt8.toNat_ofNat', Nat.reducePow]
  omega

theorem scan_encode_aux (rs : List Bytes) (h : ∀ r ∈ rs, r.length < 4294967296) (fuel : Nat)
    (hf : rs.length ≤ fuel) : scanRows fuel (encodeRows rs) = .ok rs := by
  induction rs generalizing fuel with
  | nil => cases fuel <;> simp [encodeRows, scanRows]
  | cons r rs ih =>
    cases fuel with
    | zero => simp at hf
    | succ fuel =>
      have hr : r.length < 4294967296 := h r (by simp)
      have ih' := ih (fun x hx => h x (by simp [hx])) fuel (by simpa using hf)
      simp only [encodeRows, u32le, List.cons_append, List.nil_append, scanRows]
      rw [u32dec_u32le' _ hr]
      simp [ih']

theorem u32le_u32dec (a b c d : UInt8) : u32le (u32dec a b c d) = [a, b, c, d] := by
  have ha := a.toNat_lt; have hb := b.toNat_lt; have hc := c.toNat_lt; have hd := d.toNat_lt
  simp only [Nat.reducePow] at ha hb hc hd
  simp only [u32le, u32dec]
  have e1 : (a.toNat + 256 * b.toNat + 65536 * c.toNat + 16777216 * d.toNat) % 256 = a.toNat := by omega
  have e2 : (a.toNat + 256 * b.toNat + 65536 * c.toNat + 16777216 * d.toNat) / 256 % 256 = b.toNat := by omega
  have e3 : (a.toNat + 256 * b.toNat + 65536 * c.toNat + 16777216 * d.toNat) / 65536 % 256 = c.toNat := by omega
  have e4 : (a.toNat + 256 * b.toNat + 65536 * c.toNat + 16777216 * d.toNat) / 16777216 % 256 = d.toNat := by omega
  rw [e1, e2, e3, e4]
  simp only [UInt8.ofNat_toNat]

theorem encode_scan_aux (fuel : Nat) (bs : Bytes) (rs : List Bytes) (hf : bs.length < fuel)
    (h : scanRows fuel bs = .ok rs) : encodeRows rs = bs := by
  induction fuel generalizing bs rs with
  | zero => omega
  | succ fuel ih =>
    match bs, h, hf with
    | [], h, _ => simp [scanRows] at h; subst h; rfl
    | [_], h, _ => simp [scanRows] at h
    | [_, _], h, _ => simp [scanRows] at h
    | [_, _, _], h, _ => simp [scanRows] at h
    | a :: b :: c :: d :: rest, h, hf =>
      simp only [scanRows] at h
      split at h
      · simp at h
      · rename_i hn
        split at h
        · rename_i rs' hrs
          have := ih (rest.drop (u32dec a b c d)) rs' (by simp at hf ⊢; omega) hrs
          simp only [Except.ok.injEq] at h
          subst h
          simp only [encodeRows, this, List.length_take]
          rw [Nat.min_eq_left (by omega), u32le_u32dec]
          simp [List.take_append_drop]
        · simp at h

theorem scan_in_bounds_aux (fuel : Nat) (bs : Bytes) (rs : List Bytes)
    (h : scanRows fuel bs = .ok rs) : (rs.map (·.length)).sum + 4 * rs.length ≤ bs.length := by
  induction fuel generalizing bs rs with
  | zero => simp [scanRows] at h; subst h; simp
  | succ fuel ih =>
    match bs, h with
    | [], h => simp [scanRows] at h; subst h; simp
    | [_], h => simp [scanRows] at h
    | [_, _], h => simp [scanRows] at h
    | [_, _, _], h => simp [scanRows] at h
    | a :: b :: c :: d :: rest, h =>
      simp only [scanRows] at h
      split at h
      · simp at h
      · rename_i hn
        split at h
        · rename_i rs' hrs
          have := ih (rest.drop (u32dec a b c d)) rs' hrs
          simp only [Except.ok.injEq] at h
          subst h
          simp only [List.map_cons, List.sum_cons, List.length_cons, List.length_take, List.length_drop] at this ⊢
          omega
        · simp at h

theorem sumRow_cons (b : BlockSize) (t : List BlockSize) : sumRow (b :: t) = b.rowData + sumRow t := by
  simp [sumRow]
theorem sumFilter_cons (b : BlockSize) (t : List BlockSize) : sumFilter (b :: t) = b.filter + sumFilter t := by
  simp [sumFilter]
theorem sumRow_nil : sumRow [] = 0 := rfl
theorem sumFilter_nil : sumFilter [] = 0 := rfl

theorem layoutBlocks_length (region rowOff secOff : Nat) (bs : List BlockSize) :
    (layoutBlocks region rowOff secOff bs).length = bs.length := by
  induction bs generalizing rowOff secOff with
  | nil => rfl
  | cons b t ih => simp [layoutBlocks, ih]

theorem layoutBlocks_get (region rowOff secOff : Nat) (bs : List BlockSize) (i : Nat)
    (hi : i < bs.length) (hj : i < (layoutBlocks region rowOff secOff bs).length) :
    ((layoutBlocks region rowOff secOff bs)[i]).RowDataOffset = ((rowOff + sumRow (bs.take i) : Nat) : Int) ∧
    ((layoutBlocks region rowOff secOff bs)[i]).RowDataSize = (bs[i].rowData : Int) ∧
    ((layoutBlocks region rowOff secOff bs)[i]).BloomFilterOffset = ((region + secOff + sumFilter (bs.take i) : Nat) : Int) ∧
    ((layoutBlocks region rowOff secOff bs)[i]).BloomFilterSize = (bs[i].filter : Int) := by
  induction bs generalizing rowOff secOff i with
  | nil => simp at hi
  | cons b t ih =>
    cases i with
    | zero =>
      simp only [layoutBlocks, List.getElem_cons_zero, List.take_zero, sumRow_nil, sumFilter_nil]
      refine ⟨by omega, trivial, by omega, trivial⟩
    | succ i =>
      have hi' : i < t.length := by simpa using hi
      have hj' : i < (layoutBlocks region (rowOff + b.rowData) (secOff + b.filter) t).length := by
        rw [layoutBlocks_length]; exact hi'
      have := ih (rowOff + b.rowData) (secOff + b.filter) i hi' hj'
      simp only [layoutBlocks, List.getElem_cons_succ, List.take_succ_cons, sumRow_cons, sumFilter_cons]
      obtain ⟨h1, h2, h3, h4⟩ := this
      refine ⟨by rw [h1]; omega, h2, by rw [h3]; omega, h4⟩

theorem layout_contiguous_aux (bs : List BlockSize) :
    (layout bs).DataBlocks.length = bs.length ∧
    ∀ i (hi : i < bs.length) (hj : i < (layout bs).DataBlocks.length),
      ((layout bs).DataBlocks[i]).RowDataOffset = (sumRow (bs.take i) : Int) ∧
      ((layout bs).DataBlocks[i]).RowDataSize = (bs[i].rowData : Int) ∧
      ((layout bs).DataBlocks[i]).BloomFilterOffset = (sumRow bs + sumFilter (bs.take i) : Int) ∧
      ((layout bs).DataBlocks[i]).BloomFilterSize = (bs[i].filter : Int) := by
  refine ⟨layoutBlocks_length _ _ _ _, ?_⟩
  intro i hi hj
  obtain ⟨h1, h2, h3, h4⟩ := layoutBlocks_get (sumRow bs) 0 0 bs i hi hj
  refine ⟨?_, h2, ?_, h4⟩
  · show ((layoutBlocks (sumRow bs) 0 0 bs)[i]).RowDataOffset = _
    rw [h1]; omega
  · show ((layoutBlocks (sumRow bs) 0 0 bs)[i]).BloomFilterOffset = _
    rw [h3]; omega

theorem layoutBlocks_mem (region rowOff secOff : Nat) (bs : List BlockSize) :
    ∀ b ∈ layoutBlocks region rowOff secOff bs,
      (rowOff : Int) ≤ b.RowDataOffset ∧ 0 ≤ b.RowDataSize ∧
      b.RowDataOffset + b.RowDataSize ≤ ((rowOff + sumRow bs : Nat) : Int) ∧
      ((region + secOff : Nat) : Int) ≤ b.BloomFilterOffset ∧ 0 ≤ b.BloomFilterSize ∧
      b.BloomFilterOffset + b.BloomFilterSize ≤ ((region + secOff + sumFilter bs : Nat) : Int) := by
  induction bs generalizing rowOff secOff with
  | nil => intro b hb; simp [layoutBlocks] at hb
  | cons x t ih =>
    intro b hb
    simp only [layoutBlocks, List.mem_cons] at hb
    rcases hb with hb | hb
    · subst hb
      simp only [sumRow_cons, sumFilter_cons]
      refine ⟨?_, ?_, ?_, ?_, ?_, ?_⟩ <;> omega
    · have := ih (rowOff + x.rowData) (secOff + x.filter) b hb
      simp only [sumRow_cons, sumFilter_cons]
      omega

theorem layout_valid_aux (bs : List BlockSize) (dataLimit : Int)
    (h : (sumRow bs + sumFilter bs : Int) ≤ dataLimit) : validFile (layout bs) dataLimit = true := by
  simp only [validFile, layout, Bool.and_eq_true, List.all_eq_true]
  refine ⟨decide_eq_true (by omega), ?_⟩
  intro b hb
  have := layoutBlocks_mem (sumRow bs) 0 0 bs b hb
  refine ⟨decide_eq_true (by omega), ?_⟩
  unfold validSection
  split
  · omega
  · split
    · rfl
    · apply decide_eq_true; omega

theorem layout_I64_aux (bs : List BlockSize) (dataLimit : Int)
    (h : (sumRow bs + sumFilter bs : Int) ≤ dataLimit) (hd : InI64 dataLimit) : FileI64 (layout bs) := by
  unfold InI64 at hd
  refine ⟨?_, ?_, ?_⟩
  · show InI64 (sumRow bs : Int); unfold InI64; i64omega
  · show InI64 (sumFilter bs : Int); unfold InI64; i64omega
  · intro b hb
    have := layoutBlocks_mem (sumRow bs) 0 0 bs b hb
    unfold BlockI64 InI64
    i64omega

theorem wsub_id {a b : Int} (h : InI64 (a - b)) : wsub a b = a - b := wrap64_id h
theorem wadd_id {a b : Int} (h : InI64 (a + b)) : wadd a b = a + b := wrap64_id h

/- NOTE (statement change). `validSection_bridge_aux` as originally stated (hypotheses `BlockI64 b`,
   `InI64 ro`, `InI64 re` only) is FALSE: with a negative region offset, `regionEnd - offset` can exceed
   int64, the Go subtraction wraps to a negative number and the wrapping check rejects a section that the
   exact check accepts. Counterexample: offset = -5, size = 1, regionOffset = -10, regionEnd = maxInt64. -/
example : Gen.validateFilterSection { BloomFilterOffset := -5, BloomFilterSize := 1 } (-10) 9223372036854775807 = false := by decide
example : validSection { BloomFilterOffset := -5, BloomFilterSize := 1 } (-10) 9223372036854775807 = true := by decide
example : BlockI64 { BloomFilterOffset := -5, BloomFilterSize := 1 } ∧ InI64 (-10) ∧ InI64 9223372036854775807 := by
  refine ⟨⟨?_, ?_, ?_, ?_⟩, ?_, ?_⟩ <;> decide

/-- The wrapping check equals the exact check when the region span does not exceed int64
    (`h3`; this is exactly the condition under which the equality holds for every block, and it follows
    from `0 ≤ ro`). -/
theorem validSection_bridge_aux (b : DataBlockMetadata) (ro re : Int) (hb : BlockI64 b)
    (h1 : InI64 ro) (h2 : InI64 re) (h3 : re - ro ≤ maxInt64) :
    Gen.validateFilterSection b ro re = validSection b ro re := by
  have _ := h1; have _ := h2
  obtain ⟨_, _, ho, hs⟩ := hb
  unfold Gen.validateFilterSection validSection
  by_cases c1 : b.BloomFilterSize < 0
  · simp [c1]
  · by_cases c2 : b.BloomFilterSize = 0
    · simp [c2]
    · simp only [c1, c2, decide_false, Bool.false_eq_true, if_false]
      by_cases c3 : b.BloomFilterOffset < ro
      · have : ¬ (ro ≤ b.BloomFilterOffset ∧ b.BloomFilterOffset ≤ re ∧
            b.BloomFilterSize ≤ re - b.BloomFilterOffset) := by omega
        simp [c3, this]
      · by_cases c4 : b.BloomFilterOffset > re
        · have : ¬ (ro ≤ b.BloomFilterOffset ∧ b.BloomFilterOffset ≤ re ∧
              b.BloomFilterSize ≤ re - b.BloomFilterOffset) := by omega
          simp [c4, this]
        · have hw : wsub re b.BloomFilterOffset = re - b.BloomFilterOffset := by
            apply wsub_id; unfold InI64 at ho hs ⊢; i64omega
          rw [hw]
          by_cases c5 : b.BloomFilterSize > re - b.BloomFilterOffset
          · have : ¬ (ro ≤ b.BloomFilterOffset ∧ b.BloomFilterOffset ≤ re ∧
                b.BloomFilterSize ≤ re - b.BloomFilterOffset) := by omega
            simp [c5, this]
          · have : (ro ≤ b.BloomFilterOffset ∧ b.BloomFilterOffset ≤ re ∧
                b.BloomFilterSize ≤ re - b.BloomFilterOffset) := by omega
            simp [c3, c4, c5, this]

/-- Unconditional direction: acceptance by the wrapping check implies the exact check. -/
theorem validSection_sound_aux (b : DataBlockMetadata) (ro re : Int) (hb : BlockI64 b)
    (h2 : InI64 re) (h : Gen.validateFilterSection b ro re = true) :
    validSection b ro re = true := by
  obtain ⟨_, _, ho, hs⟩ := hb
  unfold Gen.validateFilterSection at h
  unfold validSection
  by_cases c1 : b.BloomFilterSize < 0
  · simp [c1] at h
  · by_cases c2 : b.BloomFilterSize = 0
    · simp [c2]
    · simp only [c1, c2, decide_false, Bool.false_eq_true, if_false] at h ⊢
      by_cases c : ((decide (b.BloomFilterOffset < ro) || decide (b.BloomFilterOffset > re)) ||
          decide (b.BloomFilterSize > wsub re b.BloomFilterOffset)) = true
      · simp [c] at h
      · simp only [Bool.or_eq_true, decide_eq_true_eq, not_or] at c
        obtain ⟨⟨c3, c4⟩, c5⟩ := c
        apply decide_eq_true
        unfold wsub wrap64 at c5
        have h2' := h2
        unfold InI64 at h2' ho hs
        i64omega

theorem ite_bool (x : Bool) : (if x = true then true else false) = x := by cases x <;> rfl
theorem ite_not_bool (x : Bool) : (if (!x) = true then false else true) = x := by cases x <;> rfl

theorem all_congr_mem {α} (l : List α) (f g : α → Bool) (h : ∀ x ∈ l, f x = g x) : l.all f = l.all g := by
  induction l with
  | nil => rfl
  | cons a t ih =>
    simp only [List.all_cons]
    rw [h a (by simp), ih (fun x hx => h x (by simp [hx]))]

theorem block_bridge (b : DataBlockMetadata) (ro re : Int) (hb : BlockI64 b)
    (h0 : 0 ≤ ro) (h1 : InI64 ro) (h2 : InI64 re) :
    (if ((decide (b.RowDataOffset < (0 : Int))) || (decide (b.RowDataSize < (0 : Int)))) then false
     else if ((decide (b.RowDataOffset > ro)) || (decide (b.RowDataSize > (wsub ro b.RowDataOffset)))) then false
     else if (!(Gen.validateFilterSection b ro re)) then false else true) =
    (decide (0 ≤ b.RowDataOffset ∧ 0 ≤ b.RowDataSize ∧ b.RowDataOffset ≤ ro ∧ b.RowDataSize ≤ ro - b.RowDataOffset) &&
      validSection b ro re) := by
  have h3 : re - ro ≤ maxInt64 := by unfold InI64 at h1 h2; i64omega
  rw [validSection_bridge_aux b ro re hb h1 h2 h3]
  obtain ⟨ho, hs, _, _⟩ := hb
  unfold InI64 at h1 h2 ho hs
  by_cases c1 : b.RowDataOffset < 0
  · have : ¬ (0 ≤ b.RowDataOffset ∧ 0 ≤ b.RowDataSize ∧ b.RowDataOffset ≤ ro ∧ b.RowDataSize ≤ ro - b.RowDataOffset) := by omega
    simp [c1, this]
  by_cases c2 : b.RowDataSize < 0
  · have : ¬ (0 ≤ b.RowDataOffset ∧ 0 ≤ b.RowDataSize ∧ b.RowDataOffset ≤ ro ∧ b.RowDataSize ≤ ro - b.RowDataOffset) := by omega
    simp [c2, this]
  by_cases c3 : b.RowDataOffset > ro
  · have : ¬ (0 ≤ b.RowDataOffset ∧ 0 ≤ b.RowDataSize ∧ b.RowDataOffset ≤ ro ∧ b.RowDataSize ≤ ro - b.RowDataOffset) := by omega
    simp [c1, c2, c3, this]
  have hw : wsub ro b.RowDataOffset = ro - b.RowDataOffset := by
    apply wsub_id; unfold InI64; i64omega
  rw [hw]
  by_cases c4 : b.RowDataSize > ro - b.RowDataOffset
  · have : ¬ (0 ≤ b.RowDataOffset ∧ 0 ≤ b.RowDataSize ∧ b.RowDataOffset ≤ ro ∧ b.RowDataSize ≤ ro - b.RowDataOffset) := by omega
    simp [c1, c2, c3, c4, this]
  · have : (0 ≤ b.RowDataOffset ∧ 0 ≤ b.RowDataSize ∧ b.RowDataOffset ≤ ro ∧ b.RowDataSize ≤ ro - b.RowDataOffset) := by omega
    simp only [c1, c2, c3, c4, this, and_self, decide_true, decide_false, Bool.or_false, Bool.false_eq_true, if_false, Bool.true_and]
    exact ite_not_bool _

theorem validate_bridge_aux (m : FileMetadata) (dataLimit : Int) (hm : FileI64 m) (hd : InI64 dataLimit) :
    Gen.validate m dataLimit = validFile m dataLimit := by
  obtain ⟨hro, hrs, hbs⟩ := hm
  unfold Gen.validate validFile
  dsimp only
  have hro' := hro; have hrs' := hrs; have hd' := hd
  unfold InI64 at hro' hrs' hd'
  by_cases c1 : m.BlockFilterRegionOffset < 0
  · have : ¬ (0 ≤ m.BlockFilterRegionOffset ∧ 0 ≤ m.BlockFilterRegionSize ∧ 0 ≤ dataLimit ∧
          m.BlockFilterRegionOffset ≤ dataLimit ∧ m.BlockFilterRegionSize ≤ dataLimit - m.BlockFilterRegionOffset) := by omega
    simp [c1, this]
  by_cases c2 : m.BlockFilterRegionSize < 0
  · have : ¬ (0 ≤ m.BlockFilterRegionOffset ∧ 0 ≤ m.BlockFilterRegionSize ∧ 0 ≤ dataLimit ∧
          m.BlockFilterRegionOffset ≤ dataLimit ∧ m.BlockFilterRegionSize ≤ dataLimit - m.BlockFilterRegionOffset) := by omega
    simp [c2, this]
  by_cases c3 : dataLimit < 0
  · have : ¬ (0 ≤ m.BlockFilterRegionOffset ∧ 0 ≤ m.BlockFilterRegionSize ∧ 0 ≤ dataLimit ∧
          m.BlockFilterRegionOffset ≤ dataLimit ∧ m.BlockFilterRegionSize ≤ dataLimit - m.BlockFilterRegionOffset) := by omega
    simp [c1, c2, c3, this]
  by_cases c4 : m.BlockFilterRegionOffset > dataLimit
  · have : ¬ (0 ≤ m.BlockFilterRegionOffset ∧ 0 ≤ m.BlockFilterRegionSize ∧ 0 ≤ dataLimit ∧
          m.BlockFilterRegionOffset ≤ dataLimit ∧ m.BlockFilterRegionSize ≤ dataLimit - m.BlockFilterRegionOffset) := by omega
    simp [c1, c2, c3, c4, this]
  have hw : wsub dataLimit m.BlockFilterRegionOffset = dataLimit - m.BlockFilterRegionOffset := by
    apply wsub_id; unfold InI64; i64omega
  rw [hw]
  by_cases c5 : m.BlockFilterRegionSize > dataLimit - m.BlockFilterRegionOffset
  · have : ¬ (0 ≤ m.BlockFilterRegionOffset ∧ 0 ≤ m.BlockFilterRegionSize ∧ 0 ≤ dataLimit ∧
          m.BlockFilterRegionOffset ≤ dataLimit ∧ m.BlockFilterRegionSize ≤ dataLimit - m.BlockFilterRegionOffset) := by omega
    simp [c1, c2, c3, c4, c5, this]
  have hP : (0 ≤ m.BlockFilterRegionOffset ∧ 0 ≤ m.BlockFilterRegionSize ∧ 0 ≤ dataLimit ∧
          m.BlockFilterRegionOffset ≤ dataLimit ∧ m.BlockFilterRegionSize ≤ dataLimit - m.BlockFilterRegionOffset) := by omega
  have hre : InI64 (m.BlockFilterRegionOffset + m.BlockFilterRegionSize) := by unfold InI64; i64omega
  have ha : wadd m.BlockFilterRegionOffset m.BlockFilterRegionSize =
      m.BlockFilterRegionOffset + m.BlockFilterRegionSize := wadd_id hre
  rw [ha]
  simp only [c1, c2, c3, c4, c5, hP, and_self, decide_true, decide_false, Bool.or_false, Bool.false_eq_true, if_false, Bool.true_and]
  rw [all_congr_mem m.DataBlocks _ _ (fun b hb => block_bridge b _ _ (hbs b hb) (by omega) hro hre)]
  exact ite_bool _

theorem validSection_pos {b : DataBlockMetadata} {rs re : Int} (h : validSection b rs re = true) :
    0 ≤ b.BloomFilterSize ∧ (b.BloomFilterSize > 0 →
      rs ≤ b.BloomFilterOffset ∧ b.BloomFilterOffset + b.BloomFilterSize ≤ re) := by
  unfold validSection at h
  split at h
  · simp at h
  · split at h
    · omega
    · have := of_decide_eq_true h
      omega

theorem valid_in_bounds_aux (m : FileMetadata) (dataLimit : Int) (h : validFile m dataLimit = true) :
    InBounds m dataLimit := by
  unfold validFile at h
  rw [Bool.and_eq_true] at h
  obtain ⟨h1, h2⟩ := h
  have h1 := of_decide_eq_true h1
  rw [List.all_eq_true] at h2
  refine ⟨by omega, by omega, by omega, ?_⟩
  intro b hb
  have hb2 := h2 b hb
  rw [Bool.and_eq_true] at hb2
  obtain ⟨h3, h4⟩ := hb2
  have h3 := of_decide_eq_true h3
  exact ⟨by omega, validSection_pos h4⟩

theorem held_section_in_buf_aux (b : DataBlockMetadata) (chunkStart bufLen lo hi : Int)
    (hlen : 0 ≤ bufLen) (hsz : 0 ≤ b.BloomFilterSize)
    (h : heldSection b chunkStart bufLen = some (lo, hi)) : 0 ≤ lo ∧ lo ≤ hi ∧ hi ≤ bufLen ∧ hi - lo = b.BloomFilterSize := by
  have _ := hlen
  unfold heldSection at h
  dsimp only at h
  split at h
  · simp at h
  · rename_i hc
    simp only [Option.some.injEq, Prod.mk.injEq] at h
    omega

theorem chunkExtend_inv (target rs re start sz : Int) (rest : List DataBlockMetadata) (e : Int)
    (h1 : e ≤ re) (h2 : e - start ≤ target ∨ e - start = sz) :
    e ≤ chunkExtend target rs re start e rest ∧ chunkExtend target rs re start e rest ≤ re ∧
    (chunkExtend target rs re start e rest - start ≤ target ∨
     chunkExtend target rs re start e rest - start = sz) := by
  induction rest generalizing e with
  | nil => simp only [chunkExtend]; omega
  | cons nb rest ih =>
    simp only [chunkExtend]
    split
    · exact ih e h1 h2
    · rename_i hz
      split
      · omega
      · rename_i hv
        simp only [Bool.not_eq_true', Bool.not_eq_false] at hv
        have hp := validSection_pos hv
        split
        · omega
        · rename_i hc
          split
          · rename_i hgt
            have := ih (nb.BloomFilterOffset + nb.BloomFilterSize) (by omega) (by omega)
            omega
          · exact ih e h1 h2

theorem chunk_within_region_aux (target rs re : Int) (b : DataBlockMetadata) (following : List DataBlockMetadata)
    (ht : 0 ≤ target) (hv : validSection b rs re = true) (hs : 0 < b.BloomFilterSize) :
    rs ≤ (chunkFor target rs re b following).1 ∧
    (chunkFor target rs re b following).1 = b.BloomFilterOffset ∧
    b.BloomFilterOffset + b.BloomFilterSize ≤ (chunkFor target rs re b following).2 ∧
    (chunkFor target rs re b following).2 ≤ re ∧
    ((chunkFor target rs re b following).2 - (chunkFor target rs re b following).1 ≤ target ∨
     (chunkFor target rs re b following).2 - (chunkFor target rs re b following).1 = b.BloomFilterSize) := by
  have _ := ht
  have hp := (validSection_pos hv).2 hs
  have := chunkExtend_inv target rs re b.BloomFilterOffset b.BloomFilterSize following
    (b.BloomFilterOffset + b.BloomFilterSize) hp.2 (by omega)
  exact ⟨hp.1, rfl, this⟩

end BloomVerif
