/- Helper lemmas for C06 (truthful acknowledgements) and C13 (merge is all-or-nothing). -/
import BloomVerif.Model.FlushProto
import BloomVerif.Model.Content
namespace BloomVerif.Proto

theorem flush_ack_iff_aux (blocks : Nat) (hasAbort : Bool) (fail : Nat → Bool) :
    (flush blocks hasAbort fail).ackOk = flushEssential blocks fail := by
  have e : 1 + flushWrites blocks + 1 = 2 + flushWrites blocks := by omega
  unfold flush at *
  try unfold flushEssential
  by_cases h0 : fail 0 = true
  · simp_all
  · cases hw : firstFailingWrite fail 1 (flushWrites blocks) with
    | some k => simp_all
    | none =>
      by_cases hc : fail (1 + flushWrites blocks) = true
      · simp_all
      · by_cases hu : fail (2 + flushWrites blocks) = true
        · simp_all
        · simp_all

theorem flush_committed_eq_ack_aux (blocks : Nat) (hasAbort : Bool) (fail : Nat → Bool) :
    (flush blocks hasAbort fail).committed = (flush blocks hasAbort fail).ackOk := by
  have e : 1 + flushWrites blocks + 1 = 2 + flushWrites blocks := by omega
  unfold flush at *
  try unfold flushEssential
  by_cases h0 : fail 0 = true
  · simp_all
  · cases hw : firstFailingWrite fail 1 (flushWrites blocks) with
    | some k => simp_all
    | none =>
      by_cases hc : fail (1 + flushWrites blocks) = true
      · simp_all
      · by_cases hu : fail (2 + flushWrites blocks) = true
        · simp_all
        · simp_all

theorem flush_ok_clean_aux (blocks : Nat) (hasAbort : Bool) (fail : Nat → Bool)
    (h : (flush blocks hasAbort fail).ackOk = true) :
    (flush blocks hasAbort fail).published = true ∧ (flush blocks hasAbort fail).tombstoned = false ∧
    (flush blocks hasAbort fail).calls = [.create] ++ List.replicate (flushWrites blocks) .write ++ [.close, .update] := by
  have e : 1 + flushWrites blocks + 1 = 2 + flushWrites blocks := by omega
  unfold flush at *
  try unfold flushEssential
  by_cases h0 : fail 0 = true
  · simp_all
  · cases hw : firstFailingWrite fail 1 (flushWrites blocks) with
    | some k => simp_all
    | none =>
      by_cases hc : fail (1 + flushWrites blocks) = true
      · simp_all
      · by_cases hu : fail (2 + flushWrites blocks) = true
        · simp_all
        · simp_all

theorem flush_err_cleanup_aux (blocks : Nat) (hasAbort : Bool) (fail : Nat → Bool)
    (h : (flush blocks hasAbort fail).ackOk = false) :
    (flush blocks hasAbort fail).committed = false ∧
    (fail 0 = false → (flush blocks hasAbort fail).tombstoned = true) ∧
    (fail 0 = true → (flush blocks hasAbort fail).calls = [.create]) := by
  have e : 1 + flushWrites blocks + 1 = 2 + flushWrites blocks := by omega
  unfold flush at *
  try unfold flushEssential
  by_cases h0 : fail 0 = true
  · simp_all
  · cases hw : firstFailingWrite fail 1 (flushWrites blocks) with
    | some k => simp_all
    | none =>
      by_cases hc : fail (1 + flushWrites blocks) = true
      · simp_all
      · by_cases hu : fail (2 + flushWrites blocks) = true
        · simp_all
        · simp_all

theorem merge_atomic_aux (p : MergePlanCalls) (fail : Nat → Bool) :
    ((merge p fail).committed = true ∧ (merge p fail).outputsTombstoned = 0 ∧
      (merge p fail).sourcesTombstoneCalls = p.sources ∧ (merge p fail).result ≠ .err) ∨
    ((merge p fail).committed = false ∧ (merge p fail).sourcesTombstoneCalls = 0 ∧
      ((merge p fail).result = .err ∨ (p.groups = [] ∧ (merge p fail).result = .ok))) := by
  unfold merge at *
  by_cases h0 : fail 0 = true
  · simp_all
  · by_cases hg' : p.groups = []
    · simp_all
    · have hne : p.groups.isEmpty = false := by simpa [List.isEmpty_iff] using hg'
      cases hm : mergeGroups fail 1 0 p.groups with
      | some dj =>
        obtain ⟨d, j⟩ := dj
        simp_all
      | none =>
        by_cases hu : fail (1 + totalCalls p.groups) = true
        · simp_all
        · by_cases ht : (List.range p.sources).any (fun j => fail (1 + totalCalls p.groups + 1 + j)) = true
          · simp_all
          · simp_all
            try (split <;> simp)

theorem merge_ok_iff_aux (p : MergePlanCalls) (fail : Nat → Bool) (hg : p.groups ≠ []) :
    (merge p fail).result = .ok ↔
      ((merge p fail).committed = true ∧
       (List.range p.sources).all (fun j => !fail (1 + totalCalls p.groups + 1 + j)) = true) := by
  unfold merge at *
  by_cases h0 : fail 0 = true
  · simp_all
  · by_cases hg' : p.groups = []
    · simp_all
    · have hne : p.groups.isEmpty = false := by simpa [List.isEmpty_iff] using hg'
      cases hm : mergeGroups fail 1 0 p.groups with
      | some dj =>
        obtain ⟨d, j⟩ := dj
        simp_all
      | none =>
        by_cases hu : fail (1 + totalCalls p.groups) = true
        · simp_all
        · by_cases ht : (List.range p.sources).any (fun j => fail (1 + totalCalls p.groups + 1 + j)) = true
          · simp_all
          · simp_all
            try (split <;> simp)

theorem merge_postcommit_iff_aux (p : MergePlanCalls) (fail : Nat → Bool) :
    (merge p fail).result = .postCommitErr ↔
      ((merge p fail).committed = true ∧
       (List.range p.sources).any (fun j => fail (1 + totalCalls p.groups + 1 + j)) = true) := by
  unfold merge at *
  by_cases h0 : fail 0 = true
  · simp_all
  · by_cases hg' : p.groups = []
    · simp_all
    · have hne : p.groups.isEmpty = false := by simpa [List.isEmpty_iff] using hg'
      cases hm : mergeGroups fail 1 0 p.groups with
      | some dj =>
        obtain ⟨d, j⟩ := dj
        simp_all
      | none =>
        by_cases hu : fail (1 + totalCalls p.groups) = true
        · simp_all
        · by_cases ht : (List.range p.sources).any (fun j => fail (1 + totalCalls p.groups + 1 + j)) = true
          · simp_all
          · simp_all
            try (split <;> simp)

theorem mergeGroups_no_fault (i d : Nat) (gs : List (List Call)) :
    mergeGroups (fun _ => false) i d gs = none := by
  induction gs generalizing i d with
  | nil => simp [mergeGroups]
  | cons g gs ih =>
    have hf : List.find? (fun _ => false) (List.range g.length) = none := by
      simp [List.find?_eq_none]
    simp [mergeGroups, ih, hf]

theorem mergeGroups_some_bound (fail : Nat → Bool) (i done : Nat) (gs : List (List Call)) (d j : Nat)
    (h : mergeGroups fail i done gs = some (d, j)) : done ≤ d ∧ d < done + gs.length := by
  induction gs generalizing i done with
  | nil => simp [mergeGroups] at h
  | cons g gs ih =>
    unfold mergeGroups at h
    split at h
    · simp at h
      simp
      omega
    · have := ih _ _ h
      simp
      omega

theorem merge_no_fault_aux (p : MergePlanCalls) (hg : p.groups ≠ []) :
    (merge p (fun _ => false)).committed = true ∧ (merge p (fun _ => false)).result = .ok := by
  have hne : p.groups.isEmpty = false := by simpa [List.isEmpty_iff] using hg
  simp [merge, hne, mergeGroups_no_fault]

/-- Orphans: whenever the merge does not commit, every output whose CreateFile succeeded has been
    tombstoned (at most one per group reached). -/
theorem merge_orphans_aux (p : MergePlanCalls) (fail : Nat → Bool) (h : (merge p fail).committed = false) :
    (merge p fail).outputsTombstoned ≤ p.groups.length := by
  unfold merge at *
  by_cases h0 : fail 0 = true
  · simp_all
  · by_cases hg' : p.groups = []
    · simp_all
    · have hne : p.groups.isEmpty = false := by simpa [List.isEmpty_iff] using hg'
      cases hm : mergeGroups fail 1 0 p.groups with
      | some dj =>
        obtain ⟨d, j⟩ := dj
        have hb := mergeGroups_some_bound fail 1 0 p.groups d j hm
        simp_all
        split <;> omega
      | none =>
        by_cases hu : fail (1 + totalCalls p.groups) = true
        · simp_all
        · simp_all

/-- Committing a flushed file makes exactly its rows visible, once, in addition to what was visible. -/
theorem flush_visible_once_aux (files : List FileM) (f : FileM) :
    allRows (files ++ [f]) = allRows files ++ f.blocks.flatMap (·.rows) := by
  simp [allRows, List.flatMap_append]

theorem query_append_aux (s : Sem) (files : List FileM) (f : FileM) (q : Query) :
    query s (files ++ [f]) q = query s files q ++ queryFile s q f := by
  simp [query, List.flatMap_append]

end BloomVerif.Proto
