/- Invariants of the pipeline LTS, proved for every reachable state (all event sequences). -/
import BloomVerif.Model.Pipeline
namespace BloomVerif.Pipeline

def unanswered (s : St) : List Nat := s.accepted.filter (fun a => !(answeredIds s).contains a)

/-- K (conservation + FIFO): the unanswered accepted batches, in acceptance order, are exactly the
    contents of worker ++ flushChan ++ parked request ++ actor buffer ++ ingestChan. -/
def InvChain (s : St) : Prop := chain s = unanswered s

/-- No batch id is accepted twice, none is answered twice, and only accepted ids are answered. -/
def InvOnce (s : St) : Prop :=
  s.accepted.Nodup ∧ (answeredIds s).Nodup ∧ ∀ a ∈ answeredIds s, a ∈ s.accepted

/-- Sizes: the ingest channel respects its capacity and no stage holds more than maxRows waiters. -/
def InvSize (c : Cfg) (s : St) : Prop :=
  s.ingestQ.length ≤ c.ingestCap ∧
  (s.mustFlush = false → s.buffered.length ≤ s.bufferedRows ∧ s.bufferedRows < c.maxRows) ∧
  s.buffered.length ≤ c.maxRows ∧ (optWaiters s.pending).length ≤ c.maxRows ∧
  (optWaiters s.flushQ).length ≤ c.maxRows ∧ (workerWaiters s.worker).length ≤ c.maxRows

/-- Lifecycle facts. The last conjunct (every queued `rows n` request has n ≥ 1, because `accept`
    rejects `rows 0`) is what makes `InvSize` inductive across `actorRecv`. -/
def InvLife (s : St) : Prop :=
  (s.actorExited = true → s.started = true ∧ s.stopped = true ∧ s.ingestQ = [] ∧ s.buffered = [] ∧ s.pending = none ∧ s.mustFlush = false) ∧
  (s.workerExited = true → s.actorExited = true ∧ s.flushQ = none ∧ s.worker = none) ∧
  (s.stopReturned = some false → s.flushCancelled = true) ∧
  (s.stopReturned.isSome = true → s.stopped = true) ∧
  (s.deadlineFired = true → s.stopCalled = true) ∧
  (s.started = false → s.buffered = [] ∧ s.pending = none ∧ s.flushQ = none ∧ s.worker = none ∧ s.mustFlush = false ∧ s.actorExited = false) ∧
  (s.stopReturned = some true → (s.started = true ∧ s.actorExited = true ∧ s.workerExited = true) ∨ (s.started = false ∧ s.ingestQ = [])) ∧
  (∀ r ∈ s.ingestQ, ∀ n, r.kind = Kind.rows n → 1 ≤ n)

def Inv (c : Cfg) (s : St) : Prop := InvChain s ∧ InvOnce s ∧ InvSize c s ∧ InvLife s

/-! ### List helpers -/

theorem filter_remove_mid (X W Y : List Nat) (h : (X ++ W ++ Y).Nodup) :
    (X ++ W ++ Y).filter (fun a => !W.contains a) = X ++ Y := by
  rw [List.nodup_append] at h
  obtain ⟨hXW, hY, hd⟩ := h
  rw [List.nodup_append] at hXW
  obtain ⟨hX, hW, hd2⟩ := hXW
  rw [List.filter_append, List.filter_append]
  have h1 : X.filter (fun a => !W.contains a) = X := by
    rw [List.filter_eq_self]; intro a ha
    simp only [Bool.not_eq_true', ← Bool.not_eq_true, List.contains_iff_mem]
    intro hw; exact hd2 a ha a hw rfl
  have h2 : W.filter (fun a => !W.contains a) = [] := by
    rw [List.filter_eq_nil_iff]; intro a ha; simp [ha]
  have h3 : Y.filter (fun a => !W.contains a) = Y := by
    rw [List.filter_eq_self]; intro a ha
    simp only [Bool.not_eq_true', ← Bool.not_eq_true, List.contains_iff_mem]
    intro hw; exact hd a (List.mem_append_right _ hw) a ha rfl
  rw [h1, h2, h3]; simp

theorem filter_not_contains_append (L A W : List Nat) :
    L.filter (fun a => !(A ++ W).contains a)
      = (L.filter (fun a => !A.contains a)).filter (fun a => !W.contains a) := by
  rw [List.filter_filter]
  apply List.filter_congr
  intro x _
  simp [Bool.and_comm]

theorem answer_segment (acc A X W Y : List Nat)
    (hch : X ++ W ++ Y = acc.filter (fun a => !A.contains a)) (hnd : acc.Nodup) :
    X ++ Y = acc.filter (fun a => !(A ++ W).contains a) := by
  rw [filter_not_contains_append, ← hch, filter_remove_mid]
  rw [hch]; exact List.Nodup.sublist List.filter_sublist hnd

theorem once_segment (acc A X W Y : List Nat)
    (hch : X ++ W ++ Y = acc.filter (fun a => !A.contains a)) (hnd : acc.Nodup)
    (hA : A.Nodup) (hsub : ∀ a ∈ A, a ∈ acc) :
    (A ++ W).Nodup ∧ ∀ a ∈ A ++ W, a ∈ acc := by
  have hnd' : (X ++ W ++ Y).Nodup := by
    rw [hch]; exact List.Nodup.sublist List.filter_sublist hnd
  have hW : ∀ a ∈ W, a ∈ acc ∧ a ∉ A := by
    intro a ha
    have : a ∈ X ++ W ++ Y := by simp [ha]
    rw [hch, List.mem_filter] at this
    refine ⟨this.1, ?_⟩
    have h2 := this.2
    simp only [Bool.not_eq_true', ← Bool.not_eq_true, List.contains_iff_mem] at h2
    exact h2
  refine ⟨?_, ?_⟩
  · rw [List.nodup_append]
    refine ⟨hA, ?_, ?_⟩
    · have := (List.nodup_append.1 hnd').1
      exact (List.nodup_append.1 this).2.1
    · intro a ha b hb hab
      subst hab
      exact (hW a hb).2 ha
  · intro a ha
    rcases List.mem_append.1 ha with h | h
    · exact hsub a h
    · exact (hW a h).1


/-! ### Step inversion -/

set_option hygiene false in
/-- Invert `hs : step c s e = some s'` after `cases e`: one goal per enabled arm, `s'` substituted. -/
macro "step_inv" : tactic => `(tactic|
  (simp only [step] at hs
   all_goals (repeat' (split at hs))
   all_goals try contradiction
   all_goals (injection hs with hs; subst hs)))

theorem life_step (c : Cfg) (s s' : St) (e : Ev) (h : InvLife s)
    (hs : step c s e = some s') : InvLife s' := by
  obtain ⟨h1, h2, h3, h4, h5, h6, h7, h8⟩ := h
  cases e <;> step_inv
  all_goals refine ⟨?_, ?_, ?_, ?_, ?_, ?_, ?_, ?_⟩
  all_goals first
    | exact h8
    | (intro r hr n hn
       first
        | (simp only [List.mem_append, List.mem_singleton] at hr
           rcases hr with hr | rfl
           · exact h8 r hr n hn
           · first | (simp_all; done) | (simp_all; omega))
        | (simp at hr; done)
        | (refine h8 r ?_ n hn; simp_all; done))
    | (simp_all [and_assoc]; done)

theorem size_step (c : Cfg) (hc : 0 < c.maxRows) (s s' : St) (e : Ev) (h : InvSize c s)
    (h8 : ∀ r ∈ s.ingestQ, ∀ n, r.kind = Kind.rows n → 1 ≤ n)
    (hs : step c s e = some s') : InvSize c s' := by
  obtain ⟨z1, z2, z3, z4, z5, z6⟩ := h
  cases e <;> step_inv
  all_goals refine ⟨?_, ?_, ?_, ?_, ?_, ?_⟩
  all_goals first
    | assumption
    | (simp_all [optWaiters, workerWaiters]; done)
    | (simp_all [optWaiters, workerWaiters]; omega)

/-! ### Conservation (InvChain) and exactly-once (InvOnce) -/

theorem co_same (s s' : St) (h : InvChain s ∧ InvOnce s) (hch : chain s' = chain s)
    (hacc : s'.accepted = s.accepted) (hans : s'.answered = s.answered) :
    InvChain s' ∧ InvOnce s' := by
  simp only [InvChain, InvOnce, unanswered, answeredIds] at h ⊢
  rw [hch, hacc, hans]; exact h

theorem co_answer (s s' : St) (X W Y : List Nat) (h : InvChain s ∧ InvOnce s)
    (hch : chain s = X ++ W ++ Y) (hch' : chain s' = X ++ Y)
    (hacc : s'.accepted = s.accepted) (hans : answeredIds s' = answeredIds s ++ W) :
    InvChain s' ∧ InvOnce s' := by
  obtain ⟨h1, h2, h3, h4⟩ := h
  simp only [InvChain, InvOnce, unanswered] at h1 ⊢
  rw [hch] at h1
  rw [hch', hacc, hans]
  exact ⟨answer_segment _ _ X W Y h1 h2, h2, once_segment _ _ X W Y h1 h2 h3 h4⟩

theorem co_accept (s s' : St) (id : Nat) (h : InvChain s ∧ InvOnce s) (hfresh : id ∉ s.accepted)
    (hch' : chain s' = chain s ++ [id]) (hacc : s'.accepted = s.accepted ++ [id])
    (hans : s'.answered = s.answered) : InvChain s' ∧ InvOnce s' := by
  obtain ⟨h1, h2, h3, h4⟩ := h
  simp only [InvChain, InvOnce, unanswered, answeredIds] at h1 h3 h4 ⊢
  rw [hch', hacc, hans]
  have hna : id ∉ s.answered.map (·.1) := fun hm => hfresh (h4 id hm)
  refine ⟨?_, ?_, h3, ?_⟩
  · rw [List.filter_append, ← h1]
    congr 1
    have hp : (!(List.map (fun x => x.fst) s.answered).contains id) = true := by
      simp only [Bool.not_eq_true', ← Bool.not_eq_true, List.contains_iff_mem]; exact hna
    refine (List.filter_eq_self.2 ?_).symm
    intro a ha
    simp only [List.mem_singleton] at ha
    subst ha; exact hp
  · rw [List.nodup_append]
    refine ⟨h2, by simp, ?_⟩
    intro a ha b hb hab
    simp only [List.mem_singleton] at hb
    subst hb; subst hab; exact hfresh ha
  · intro a ha
    exact List.mem_append_left _ (h4 a ha)

theorem answeredIds_append_map (s : St) (ans : List (Nat × Bool)) (W : List Nat) (b : Bool)
    (h : ans = s.answered ++ W.map (fun w => (w, b))) :
    ans.map (·.1) = answeredIds s ++ W := by
  subst h
  simp [answeredIds, List.map_append, List.map_map, Function.comp_def]

theorem co_step (c : Cfg) (s s' : St) (e : Ev) (h : InvChain s ∧ InvOnce s)
    (hs : step c s e = some s') : InvChain s' ∧ InvOnce s' := by
  cases e with
  | accept r =>
    step_inv
    all_goals
      refine co_accept s _ r.id h ?_ ?_ rfl rfl
      · simp_all
      · simp [chain, List.append_assoc]
  | actorRecv id =>
    step_inv
    · -- empty
      rename_i rest hq hid _ _
      refine co_answer s _ (workerWaiters s.worker ++ optWaiters s.flushQ ++ optWaiters s.pending ++ s.buffered)
        [id] (List.map Req.id rest) h ?_ ?_ rfl ?_
      · simp [chain, hq, List.append_assoc]; simp_all
      · simp [chain, List.append_assoc]
      · simp [answeredIds]
    · -- bad
      rename_i rest hq hid _ _
      refine co_answer s _ (workerWaiters s.worker ++ optWaiters s.flushQ ++ optWaiters s.pending ++ s.buffered)
        [id] (List.map Req.id rest) h ?_ ?_ rfl ?_
      · simp [chain, hq, List.append_assoc]; simp_all
      · simp [chain, List.append_assoc]
      · simp [answeredIds]
    all_goals
      refine co_same s _ h ?_ rfl rfl
      simp_all [chain, List.append_assoc]
  | enqueueAbandoned =>
    step_inv
    rename_i r hp _
    refine co_answer s _ (workerWaiters s.worker ++ optWaiters s.flushQ) r.waiters
      (s.buffered ++ s.ingestQ.map (·.id)) h ?_ ?_ rfl ?_
    · simp [chain, hp, optWaiters, List.append_assoc]
    · simp [chain, optWaiters, List.append_assoc]
    · exact answeredIds_append_map s _ _ false rfl
  | flushAbandon =>
    step_inv
    rename_i r hw _
    refine co_answer s _ [] r.waiters
      (optWaiters s.flushQ ++ optWaiters s.pending ++ s.buffered ++ s.ingestQ.map (·.id)) h ?_ ?_ rfl ?_
    · simp [chain, hw, workerWaiters, List.append_assoc]
    · simp [chain, workerWaiters, List.append_assoc]
    · exact answeredIds_append_map s _ _ false rfl
  | flushDone ok =>
    step_inv
    all_goals
      rename_i r hw _
      refine co_answer s _ [] r.waiters
        (optWaiters s.flushQ ++ optWaiters s.pending ++ s.buffered ++ s.ingestQ.map (·.id)) h ?_ ?_ rfl ?_
      · simp [chain, hw, workerWaiters, List.append_assoc]
      · simp [chain, workerWaiters, List.append_assoc]
      · exact answeredIds_append_map s _ _ ok rfl
  | stopDrain =>
    step_inv
    refine co_answer s _ (workerWaiters s.worker ++ optWaiters s.flushQ ++ optWaiters s.pending ++ s.buffered)
      (s.ingestQ.map (·.id)) [] h ?_ ?_ rfl ?_
    · simp [chain, List.append_assoc]
    · simp [chain, List.append_assoc]
    · exact answeredIds_append_map s _ _ false rfl
  | _ =>
    step_inv
    all_goals
      refine co_same s _ h ?_ rfl rfl
      simp_all [chain, optWaiters, workerWaiters, List.append_assoc]

/-! ### The invariant is inductive -/

theorem inv_init_aux (c : Cfg) (hc : 0 < c.maxRows) : Inv c init := by
  refine ⟨?_, ?_, ?_, ?_⟩
  · simp [InvChain, chain, unanswered, init, workerWaiters, optWaiters]
  · simp [InvOnce, init, answeredIds]
  · simp [InvSize, init, optWaiters, workerWaiters]; omega
  · simp [InvLife, init]

theorem inv_step_aux (c : Cfg) (hc : 0 < c.maxRows) (s s' : St) (e : Ev) (h : Inv c s)
    (hs : step c s e = some s') : Inv c s' := by
  obtain ⟨h1, h2, h3, h4⟩ := h
  have hco := co_step c s s' e ⟨h1, h2⟩ hs
  exact ⟨hco.1, hco.2, size_step c hc s s' e h3 h4.2.2.2.2.2.2.2 hs, life_step c s s' e h4 hs⟩

theorem run_inv (c : Cfg) (hc : 0 < c.maxRows) :
    ∀ (tr : List Ev) (s0 s : St), Inv c s0 → run c s0 tr = some s → Inv c s
  | [], s0, s, h, hr => by
    simp only [run, Option.some.injEq] at hr; subst hr; exact h
  | e :: es, s0, s, h, hr => by
    simp only [run] at hr
    split at hr
    · contradiction
    · rename_i s1 hs1
      exact run_inv c hc es s1 s (inv_step_aux c hc s0 s1 e h hs1) hr

/-- Everything holds in every reachable state. -/
theorem reachable_inv_aux (c : Cfg) (hc : 0 < c.maxRows) (s : St) (hr : Reachable c s) : Inv c s := by
  obtain ⟨tr, htr⟩ := hr
  exact run_inv c hc tr init s (inv_init_aux c hc) htr

theorem unanswered_nodup (s : St) (h : InvOnce s) : (unanswered s).Nodup :=
  List.Nodup.sublist List.filter_sublist h.1

theorem chain_nodup_aux (c : Cfg) (hc : 0 < c.maxRows) (s : St) (hr : Reachable c s) : (chain s).Nodup := by
  have h := reachable_inv_aux c hc s hr
  rw [h.1]; exact unanswered_nodup s h.2.1

theorem step_cancel_mono (c : Cfg) (s s' : St) (e : Ev) (h : s.flushCancelled = true)
    (hs : step c s e = some s') : s'.flushCancelled = true ∧ Ev.flushBegin ≠ e := by
  cases e <;> step_inv <;> simp_all

/-- Once the flush context is cancelled it stays cancelled and store work never begins again. -/
theorem no_begin_after_cancel_aux (c : Cfg) (s : St) (tr : List Ev) (s' : St)
    (h : s.flushCancelled = true) (hr : run c s tr = some s') :
    s'.flushCancelled = true ∧ Ev.flushBegin ∉ tr := by
  induction tr generalizing s with
  | nil =>
    simp only [run, Option.some.injEq] at hr; subst hr
    exact ⟨h, List.not_mem_nil⟩
  | cons e es ih =>
    simp only [run] at hr
    split at hr
    · contradiction
    · rename_i s1 hs1
      have h1 := step_cancel_mono c s s1 e h hs1
      have h2 := ih s1 h1.1 hr
      refine ⟨h2.1, ?_⟩
      intro hm
      rcases List.mem_cons.1 hm with hm | hm
      · exact h1.2 hm
      · exact h2.2 hm

theorem step_stopped_mono (c : Cfg) (s s' : St) (e : Ev) (h : s.stopped = true)
    (hs : step c s e = some s') : s'.stopped = true := by
  cases e <;> step_inv <;> simp_all

/-- `stopped` is permanent, so is a returned Stop. -/
theorem stopped_stable_aux (c : Cfg) (s : St) (tr : List Ev) (s' : St)
    (h : s.stopped = true) (hr : run c s tr = some s') : s'.stopped = true := by
  induction tr generalizing s with
  | nil =>
    simp only [run, Option.some.injEq] at hr; subst hr; exact h
  | cons e es ih =>
    simp only [run] at hr
    split at hr
    · contradiction
    · rename_i s1 hs1
      exact ih s1 (step_stopped_mono c s s1 e h hs1) hr

/-- Graceful stop: Stop returned nil ⇒ nothing accepted is unanswered. -/
theorem graceful_stop_aux (c : Cfg) (hc : 0 < c.maxRows) (s : St) (hr : Reachable c s)
    (h : s.stopReturned = some true) : ∀ a ∈ s.accepted, a ∈ answeredIds s := by
  obtain ⟨hch, _, _, hl⟩ := reachable_inv_aux c hc s hr
  obtain ⟨l1, l2, _, _, _, l6, l7, _⟩ := hl
  have hnil : chain s = [] := by
    rcases l7 h with ⟨_, ha, hw⟩ | ⟨hns, hq⟩
    · obtain ⟨_, _, a3, a4, a5, _⟩ := l1 ha
      obtain ⟨_, w2, w3⟩ := l2 hw
      simp [chain, a3, a4, a5, w2, w3, optWaiters, workerWaiters]
    · obtain ⟨b1, b2, b3, b4, _, _⟩ := l6 hns
      simp [chain, hq, b1, b2, b3, b4, optWaiters, workerWaiters]
  rw [hch, unanswered, List.filter_eq_nil_iff] at hnil
  intro a ha
  have := hnil a ha
  simp only [Bool.not_eq_true', Bool.not_eq_false, List.contains_iff_mem] at this
  exact this

/-- The request whose store work is running holds the *oldest* unanswered batches. -/
theorem worker_prefix_aux (c : Cfg) (hc : 0 < c.maxRows) (s : St) (hr : Reachable c s)
    (r : FlushReq) (b : Bool) (hw : s.worker = some (r, b)) :
    ∃ post, unanswered s = r.waiters ++ post := by
  have h := (reachable_inv_aux c hc s hr).1
  refine ⟨optWaiters s.flushQ ++ optWaiters s.pending ++ s.buffered ++ s.ingestQ.map (·.id), ?_⟩
  rw [← h]
  simp [chain, hw, workerWaiters, List.append_assoc]

theorem prefix_closed (A B R C : List Nat) (w a : Nat) (he : A ++ w :: B = R ++ C)
    (hnd : (R ++ C).Nodup) (hw : w ∈ R) (ha : a ∈ A) : a ∈ R := by
  rcases List.append_eq_append_iff.1 he with ⟨as, h1, _⟩ | ⟨bs, h1, h2⟩
  · rw [h1]; exact List.mem_append_left _ ha
  · exfalso
    have hwc : w ∈ C := by rw [h2]; simp
    exact (List.nodup_append.1 hnd).2.2 w hw w hwc rfl

/-- C07 on one step: when the flush worker delivers its verdict, every batch accepted before any
    waiter of the request is answered once the step is done (earlier waiters of the same request are
    delivered first, in order). -/
theorem flushDone_order_aux (c : Cfg) (hc : 0 < c.maxRows) (s s' : St) (ok : Bool) (hr : Reachable c s)
    (hs : step c s (.flushDone ok) = some s') :
    ∀ r b, s.worker = some (r, b) → ∀ w ∈ r.waiters, ∀ pre post, s.accepted = pre ++ w :: post →
      ∀ a ∈ pre, a ∈ answeredIds s' := by
  intro r b hw w hwr pre post hacc a ha
  have hinv := reachable_inv_aux c hc s hr
  obtain ⟨rest, hpre⟩ := worker_prefix_aux c hc s hr r b hw
  have hnd : (r.waiters ++ rest).Nodup := hpre ▸ unanswered_nodup s hinv.2.1
  have hans : answeredIds s' = answeredIds s ++ r.waiters := by
    step_inv
    all_goals
      rename_i r' hw' _
      rw [hw'] at hw
      injection hw with hw; injection hw with hw1 hw2; subst hw1
      exact answeredIds_append_map s _ _ ok rfl
  rw [hans, List.mem_append]
  by_cases hA : a ∈ answeredIds s
  · exact Or.inl hA
  · right
    -- `w` is unanswered in `s`
    have hwu : w ∈ unanswered s := by rw [hpre]; exact List.mem_append_left _ hwr
    have hpw : (!(answeredIds s).contains w) = true := (List.mem_filter.1 hwu).2
    have hpa : (!(answeredIds s).contains a) = true := by
      simp only [Bool.not_eq_true', ← Bool.not_eq_true, List.contains_iff_mem]; exact hA
    have hsplit : List.filter (fun a => !(answeredIds s).contains a) pre
        ++ w :: List.filter (fun a => !(answeredIds s).contains a) post = r.waiters ++ rest := by
      rw [← hpre, unanswered, hacc, List.filter_append]
      congr 1
      exact (List.filter_cons_of_pos (p := fun a => !(answeredIds s).contains a) hpw).symm
    exact prefix_closed _ _ _ _ w a hsplit hnd hwr (List.mem_filter.2 ⟨ha, hpa⟩)

/-- C09: the number of accepted-but-unanswered batches is bounded by the configuration. -/
theorem backlog_bound_aux (c : Cfg) (hc : 0 < c.maxRows) (s : St) (hr : Reachable c s) :
    (unanswered s).length ≤ c.ingestCap + 4 * c.maxRows := by
  obtain ⟨hch, _, ⟨z1, _, z3, z4, z5, z6⟩, _⟩ := reachable_inv_aux c hc s hr
  rw [← hch]
  simp only [chain, List.length_append, List.length_map]
  omega

end BloomVerif.Pipeline
