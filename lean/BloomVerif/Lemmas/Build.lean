/- Helper lemmas for C18 (indexes cover their data) and C11 (merging preserves content). -/
import BloomVerif.Lemmas.Exact
namespace BloomVerif

/-- Well-formed minmax metadata: every stored range is ordered and within int64. -/
def MDWF (m : DataBlockMetadata) : Prop :=
  ∀ k mm, lookupMM k m.MinMaxIndexes = some mm → mm.Min ≤ mm.Max ∧ InI64 mm.Min ∧ InI64 mm.Max

theorem mkBlock_WF_aux (s : Sem) (build : List Str → (Str → Bool)) (hb : SoundBuild build)
    (keys : List String) (pid : String) (rows : List Row)
    (hp : ∀ r ∈ rows, r.pre.pid = pid)
    (hk : ∀ r ∈ rows, ∀ f v, r.pre.vals f = some v → f ∈ keys) :
    BlockWF s (mkBlock s build keys pid rows) := by
  sorry

theorem flush_WF_aux (s : Sem) (build : List Str → (Str → Bool)) (hb : SoundBuild build)
    (keys : List String) (parts : List (String × List Row))
    (hp : ∀ p ∈ parts, ∀ r ∈ p.2, r.pre.pid = p.1)
    (hk : ∀ p ∈ parts, ∀ r ∈ p.2, ∀ f v, r.pre.vals f = some v → f ∈ keys) :
    FileWF s (flushFile s build keys parts) := by
  sorry

theorem minmax_keys_exact_aux (keys : List String) (rows : List Row) (k : String) :
    ((blockMinMax keys rows).lookup k).isSome = true ↔
      (k ∈ keys ∧ ∃ r ∈ rows, (r.pre.vals k).isSome = true) := by
  sorry

theorem mergeGroup_WF_aux (s : Sem) (build : List Str → (Str → Bool)) (hb : SoundBuild build)
    (g : List Block) (b' : Block) (hg : ValidGroup g) (hwf : ∀ b ∈ g, BlockWF s b)
    (h : mergeGroup s build g = some b') : BlockWF s b' := by
  sorry

theorem merge_WF_aux (s : Sem) (build : List Str → (Str → Bool)) (hb : SoundBuild build)
    (groups : List (List Block)) (hg : ∀ g ∈ groups, ValidGroup g)
    (hwf : ∀ g ∈ groups, ∀ b ∈ g, BlockWF s b) :
    FileWF s (mergeFile s build groups) := by
  sorry

theorem merge_rows_preserved_aux (s : Sem) (build : List Str → (Str → Bool))
    (groups : List (List Block)) (hg : ∀ g ∈ groups, g ≠ []) :
    allRows [mergeFile s build groups] = (groups.flatMap id).flatMap (·.rows) := by
  sorry

/-- A row that was in the pre-merge answer of a prefiltered query (its source block satisfied the
    prefilter, and the row matches) is in the post-merge answer. -/
theorem merge_query_superset_aux (s : Sem) (build : List Str → (Str → Bool)) (hb : SoundBuild build)
    (reOK : Str → Bool) (groups : List (List Block)) (q : Query)
    (hg : ∀ g ∈ groups, ValidGroup g) (hwf : ∀ g ∈ groups, ∀ b ∈ g, BlockWF s b)
    (hmd : ∀ g ∈ groups, ∀ b ∈ g, MDWF b.md) (hv : q.Valid reOK)
    (g : List Block) (b : Block) (r : Row) (hgm : g ∈ groups) (hbm : b ∈ g) (hr : r ∈ b.rows)
    (hpre : evalPre b.md q.pre = true) (hm : rowMatches s q r = true) :
    r ∈ query s [mergeFile s build groups] q := by
  sorry

end BloomVerif
