/- Helper lemmas for C18 (indexes cover their data) and C11 (merging preserves content). -/
import BloomVerif.Lemmas.Exact
namespace BloomVerif

/-- Well-formed minmax metadata: every stored range is ordered and within int64. -/
def MDWF (m : DataBlockMetadata) : Prop :=
  ∀ k mm, lookupMM k m.MinMaxIndexes = some mm → mm.Min ≤ mm.Max ∧ InI64 mm.Min ∧ InI64 mm.Max

-- ---------------------------------------------------------------- mmInsert

/-- Full characterisation of `lookup` after `mmInsert`. -/
theorem lookup_mmInsert (k : String) (lo hi : Int) (acc : List (String × MinMaxIndex)) (k' : String) :
    List.lookup k' (mmInsert k lo hi acc) =
      if k' = k then
        some (match List.lookup k acc with
              | none => (⟨lo, hi⟩ : MinMaxIndex)
              | some mm => updateMinMax mm lo hi)
      else List.lookup k' acc := by
  induction acc with
  | nil =>
    by_cases h : k' = k
    · subst h; simp [mmInsert]
    · have : (k' == k) = false := beq_eq_false_iff_ne.mpr h
      simp [mmInsert, List.lookup_cons, h, this]
  | cons p r ih =>
    obtain ⟨a, m⟩ := p
    by_cases ha : a = k
    · subst ha
      by_cases h : k' = a
      · subst h; simp [mmInsert]
      · have : (k' == a) = false := beq_eq_false_iff_ne.mpr h
        simp [mmInsert, List.lookup_cons, h, this]
    · by_cases h : k' = k
      · subst h
        have : (k' == a) = false := beq_eq_false_iff_ne.mpr (Ne.symm ha)
        simp [mmInsert, List.lookup_cons, ha, this, ih]
      · by_cases h2 : k' = a
        · subst h2; simp [mmInsert, ha]
        · have : (k' == a) = false := beq_eq_false_iff_ne.mpr h2
          simp [mmInsert, List.lookup_cons, ha, this, ih, h]

/-- `b` lists every key of `a` with a range at least as wide. -/
def MMLe (a b : List (String × MinMaxIndex)) : Prop :=
  ∀ k mm, a.lookup k = some mm → ∃ mm', b.lookup k = some mm' ∧ mm'.Min ≤ mm.Min ∧ mm.Max ≤ mm'.Max

theorem MMLe.refl (a : List (String × MinMaxIndex)) : MMLe a a :=
  fun _ mm h => ⟨mm, h, Int.le_refl _, Int.le_refl _⟩

theorem MMLe.trans {a b c : List (String × MinMaxIndex)} (h1 : MMLe a b) (h2 : MMLe b c) : MMLe a c := by
  intro k mm h
  obtain ⟨mm1, e1, l1, u1⟩ := h1 k mm h
  obtain ⟨mm2, e2, l2, u2⟩ := h2 k mm1 e1
  exact ⟨mm2, e2, Int.le_trans l2 l1, Int.le_trans u1 u2⟩

/-- (a) after inserting, the key is present with a range containing the inserted one. -/
theorem mmInsert_self (k : String) (lo hi : Int) (acc : List (String × MinMaxIndex)) :
    ∃ mm, List.lookup k (mmInsert k lo hi acc) = some mm ∧ mm.Min ≤ lo ∧ hi ≤ mm.Max := by
  rw [lookup_mmInsert, if_pos rfl]
  cases List.lookup k acc with
  | none => exact ⟨_, rfl, Int.le_refl _, Int.le_refl _⟩
  | some mm =>
    have := C04.update_covers mm lo hi
    exact ⟨_, rfl, this.2.2.1, this.2.2.2⟩

/-- (b) inserting only widens what is there. -/
theorem mmInsert_le (k : String) (lo hi : Int) (acc : List (String × MinMaxIndex)) :
    MMLe acc (mmInsert k lo hi acc) := by
  intro k' mm0 h
  rw [lookup_mmInsert]
  by_cases hk : k' = k
  · subst hk
    rw [if_pos rfl, h]
    have := C04.update_covers mm0 lo hi
    exact ⟨_, rfl, this.1, this.2.1⟩
  · rw [if_neg hk]; exact ⟨mm0, h, Int.le_refl _, Int.le_refl _⟩

theorem mmInsert_isSome (k : String) (lo hi : Int) (acc : List (String × MinMaxIndex)) (k' : String) :
    (List.lookup k' (mmInsert k lo hi acc)).isSome = true ↔ k' = k ∨ (List.lookup k' acc).isSome = true := by
  rw [lookup_mmInsert]
  by_cases hk : k' = k
  · simp [hk]
  · simp [hk]

theorem foldl_MMLe {α : Type} (f : List (String × MinMaxIndex) → α → List (String × MinMaxIndex))
    (hf : ∀ acc x, MMLe acc (f acc x)) (l : List α) (acc : List (String × MinMaxIndex)) :
    MMLe acc (l.foldl f acc) := by
  induction l generalizing acc with
  | nil => exact MMLe.refl _
  | cons x t ih => exact MMLe.trans (hf acc x) (ih (f acc x))

/-- If the step for `x` makes `k` covered (whatever the accumulator) and steps only widen, the
    fold over a list containing `x` leaves `k` covered. -/
theorem foldl_covers {α : Type} (f : List (String × MinMaxIndex) → α → List (String × MinMaxIndex))
    (hf : ∀ acc x, MMLe acc (f acc x)) (k : String) (lo hi : Int) (x : α)
    (hx : ∀ acc, ∃ mm, List.lookup k (f acc x) = some mm ∧ mm.Min ≤ lo ∧ hi ≤ mm.Max)
    (l : List α) (hm : x ∈ l) (acc : List (String × MinMaxIndex)) :
    ∃ mm, List.lookup k (l.foldl f acc) = some mm ∧ mm.Min ≤ lo ∧ hi ≤ mm.Max := by
  induction l generalizing acc with
  | nil => cases hm
  | cons y t ih =>
    rw [List.foldl_cons]
    rcases List.mem_cons.mp hm with h | h
    · subst h
      obtain ⟨mm, e, l1, u1⟩ := hx acc
      obtain ⟨mm', e', l2, u2⟩ := foldl_MMLe f hf t _ k mm e
      exact ⟨mm', e', Int.le_trans l2 l1, Int.le_trans u1 u2⟩
    · exact ih h _

-- ---------------------------------------------------------------- blockMinMax

/-- One row's contribution to the minmax map. -/
def rowStep (keys : List String) (acc : List (String × MinMaxIndex)) (r : Row) : List (String × MinMaxIndex) :=
  keys.foldl (fun acc k => match r.pre.vals k with
    | none => acc
    | some v => mmInsert k (toRange v).1 (toRange v).2 acc) acc

theorem blockMinMax_eq (keys : List String) (rows : List Row) :
    blockMinMax keys rows = rows.foldl (rowStep keys) [] := rfl

theorem keyStep_le (r : Row) (acc : List (String × MinMaxIndex)) (k : String) :
    MMLe acc (match r.pre.vals k with
      | none => acc
      | some v => mmInsert k (toRange v).1 (toRange v).2 acc) := by
  cases r.pre.vals k with
  | none => exact MMLe.refl _
  | some v => exact mmInsert_le _ _ _ _

theorem rowStep_le (keys : List String) (acc : List (String × MinMaxIndex)) (r : Row) :
    MMLe acc (rowStep keys acc r) :=
  foldl_MMLe _ (fun acc k => keyStep_le r acc k) keys acc

theorem rowStep_covers (keys : List String) (r : Row) (k : String) (v : NumVal) (hk : k ∈ keys)
    (hv : r.pre.vals k = some v) (acc : List (String × MinMaxIndex)) :
    ∃ mm, List.lookup k (rowStep keys acc r) = some mm ∧ mm.Min ≤ (toRange v).1 ∧ (toRange v).2 ≤ mm.Max := by
  refine foldl_covers _ (fun acc k => keyStep_le r acc k) k _ _ k ?_ keys hk acc
  intro acc
  simp only [hv]
  exact mmInsert_self _ _ _ _

theorem blockMinMax_covers (keys : List String) (rows : List Row) (r : Row) (hr : r ∈ rows)
    (k : String) (v : NumVal) (hk : k ∈ keys) (hv : r.pre.vals k = some v) :
    ∃ mm, List.lookup k (blockMinMax keys rows) = some mm ∧
      mm.Min ≤ (toRange v).1 ∧ (toRange v).2 ≤ mm.Max :=
  foldl_covers (rowStep keys) (rowStep_le keys) k _ _ r (rowStep_covers keys r k v hk hv) rows hr []

-- ---------------------------------------------------------------- filters

theorem filtCoversList_build (build : List Str → (Str → Bool)) (hb : SoundBuild build)
    (l l' : List Str) (h : ∀ x ∈ l', x ∈ l) : FiltCoversList (some (build l)) l' := by
  intro g hg x hx
  cases hg
  exact hb l x (h x hx)

theorem buildFilt_covers (build : List Str → (Str → Bool)) (hb : SoundBuild build)
    (ens : List Entries) (en : Entries) (h : en ∈ ens) :
    FiltCovers (buildFilt build (unionEntries ens)) en := by
  refine ⟨?_, ?_, ?_⟩
  · exact filtCoversList_build build hb _ _ (fun x hx => List.mem_flatMap.mpr ⟨en, h, hx⟩)
  · exact filtCoversList_build build hb _ _ (fun x hx => List.mem_flatMap.mpr ⟨en, h, hx⟩)
  · exact filtCoversList_build build hb _ _ (fun x hx => List.mem_flatMap.mpr ⟨en, h, hx⟩)

theorem mkBlock_WF_aux (s : Sem) (build : List Str → (Str → Bool)) (hb : SoundBuild build)
    (keys : List String) (pid : String) (rows : List Row)
    (hp : ∀ r ∈ rows, r.pre.pid = pid)
    (hk : ∀ r ∈ rows, ∀ f v, r.pre.vals f = some v → f ∈ keys) :
    BlockWF s (mkBlock s build keys pid rows) := by
  intro r hr
  have hr' : r ∈ rows := hr
  refine ⟨⟨(hp r hr').symm, ?_⟩, ?_⟩
  · intro f v hv
    exact blockMinMax_covers keys rows r hr' f v (hk r hr' f v hv) hv
  · exact buildFilt_covers build hb _ _ (List.mem_map.mpr ⟨r, hr', rfl⟩)

theorem flush_WF_aux (s : Sem) (build : List Str → (Str → Bool)) (hb : SoundBuild build)
    (keys : List String) (parts : List (String × List Row))
    (hp : ∀ p ∈ parts, ∀ r ∈ p.2, r.pre.pid = p.1)
    (hk : ∀ p ∈ parts, ∀ r ∈ p.2, ∀ f v, r.pre.vals f = some v → f ∈ keys) :
    FileWF s (flushFile s build keys parts) := by
  intro b hbm
  obtain ⟨p, hpm, rfl⟩ := List.mem_map.mp hbm
  refine ⟨mkBlock_WF_aux s build hb keys p.1 p.2 (hp p hpm) (hk p hpm), ?_⟩
  intro r hr
  have hr' : r ∈ p.2 := hr
  exact buildFilt_covers build hb _ _
    (List.mem_flatMap.mpr ⟨p, hpm, List.mem_map.mpr ⟨r, hr', rfl⟩⟩)

theorem rowStep_isSome (keys : List String) (r : Row) (k : String) (acc : List (String × MinMaxIndex)) :
    (List.lookup k (rowStep keys acc r)).isSome = true ↔
      (k ∈ keys ∧ (r.pre.vals k).isSome = true) ∨ (List.lookup k acc).isSome = true := by
  unfold rowStep
  induction keys generalizing acc with
  | nil => simp
  | cons a t ih =>
    rw [List.foldl_cons, ih]
    cases hv : r.pre.vals a with
    | none =>
      simp only [List.mem_cons]
      constructor
      · rintro (⟨h1, h2⟩ | h)
        · exact Or.inl ⟨Or.inr h1, h2⟩
        · exact Or.inr h
      · rintro (⟨h1 | h1, h2⟩ | h)
        · subst h1; rw [hv] at h2; cases h2
        · exact Or.inl ⟨h1, h2⟩
        · exact Or.inr h
    | some v =>
      simp only [mmInsert_isSome, List.mem_cons]
      constructor
      · rintro (⟨h1, h2⟩ | h | h)
        · exact Or.inl ⟨Or.inr h1, h2⟩
        · subst h; exact Or.inl ⟨Or.inl rfl, by rw [hv]; rfl⟩
        · exact Or.inr h
      · rintro (⟨h1 | h1, h2⟩ | h)
        · exact Or.inr (Or.inl h1)
        · exact Or.inl ⟨h1, h2⟩
        · exact Or.inr (Or.inr h)

theorem foldRows_isSome (keys : List String) (rows : List Row) (k : String) (acc : List (String × MinMaxIndex)) :
    (List.lookup k (rows.foldl (rowStep keys) acc)).isSome = true ↔
      (k ∈ keys ∧ ∃ r ∈ rows, (r.pre.vals k).isSome = true) ∨ (List.lookup k acc).isSome = true := by
  induction rows generalizing acc with
  | nil => simp
  | cons a t ih =>
    rw [List.foldl_cons, ih, rowStep_isSome]
    constructor
    · rintro (⟨h1, r, hr, h2⟩ | ⟨h1, h2⟩ | h)
      · exact Or.inl ⟨h1, r, List.mem_cons_of_mem _ hr, h2⟩
      · exact Or.inl ⟨h1, a, List.mem_cons_self, h2⟩
      · exact Or.inr h
    · rintro (⟨h1, r, hr, h2⟩ | h)
      · rcases List.mem_cons.mp hr with e | e
        · subst e; exact Or.inr (Or.inl ⟨h1, h2⟩)
        · exact Or.inl ⟨h1, r, e, h2⟩
      · exact Or.inr (Or.inr h)

theorem minmax_keys_exact_aux (keys : List String) (rows : List Row) (k : String) :
    ((blockMinMax keys rows).lookup k).isSome = true ↔
      (k ∈ keys ∧ ∃ r ∈ rows, (r.pre.vals k).isSome = true) := by
  rw [blockMinMax_eq, foldRows_isSome]
  simp

-- ---------------------------------------------------------------- mergeMM / mergeGroup

theorem assoc_lookup_mem {α : Type} (k : String) (l : List (String × α)) (v : α)
    (h : List.lookup k l = some v) : (k, v) ∈ l := by
  induction l with
  | nil => cases h
  | cons p t ih =>
    obtain ⟨a, m⟩ := p
    rw [List.lookup_cons] at h
    cases hb : (k == a) with
    | true =>
      rw [hb] at h
      have : k = a := eq_of_beq hb
      cases h; subst this; exact List.mem_cons_self
    | false =>
      rw [hb] at h
      exact List.mem_cons_of_mem _ (ih h)

theorem mergeMM_le (a b : List (String × MinMaxIndex)) : MMLe a (mergeMM a b) :=
  foldl_MMLe (fun acc (p : String × MinMaxIndex) => mmInsert p.1 p.2.Min p.2.Max acc)
    (fun acc p => mmInsert_le p.1 p.2.Min p.2.Max acc) b a

theorem mergeMM_covers (a b : List (String × MinMaxIndex)) (k : String) (mm : MinMaxIndex)
    (h : (k, mm) ∈ b) :
    ∃ mm', List.lookup k (mergeMM a b) = some mm' ∧ mm'.Min ≤ mm.Min ∧ mm.Max ≤ mm'.Max :=
  foldl_covers (fun acc (p : String × MinMaxIndex) => mmInsert p.1 p.2.Min p.2.Max acc)
    (fun acc p => mmInsert_le p.1 p.2.Min p.2.Max acc) k mm.Min mm.Max (k, mm)
    (fun acc => mmInsert_self k mm.Min mm.Max acc) b h a

/-- The minmax map of a merged block. -/
def groupMM (b : Block) (rest : List Block) : List (String × MinMaxIndex) :=
  rest.foldl (fun acc x => mergeMM acc x.md.MinMaxIndexes) b.md.MinMaxIndexes

theorem groupMM_le (b : Block) (rest : List Block) (x : Block) (hx : x ∈ b :: rest) :
    MMLe x.md.MinMaxIndexes (groupMM b rest) := by
  rcases List.mem_cons.mp hx with h | h
  · subst h
    exact foldl_MMLe _ (fun acc y => mergeMM_le acc y.md.MinMaxIndexes) rest _
  · intro k mm hl
    exact foldl_covers _ (fun acc y => mergeMM_le acc y.md.MinMaxIndexes) k mm.Min mm.Max x
      (fun acc => mergeMM_covers acc _ k mm (assoc_lookup_mem k _ mm hl)) rest h _

theorem mergeGroup_multi (s : Sem) (build : List Str → (Str → Bool)) (b b2 : Block) (rest : List Block) :
    mergeGroup s build (b :: b2 :: rest) =
      some { md := { PartitionID := b.md.PartitionID,
                     Rows := ((b :: b2 :: rest).flatMap (·.rows)).length,
                     MinMaxIndexes := groupMM b (b2 :: rest) },
             rows := (b :: b2 :: rest).flatMap (·.rows),
             filt := buildFilt build (unionEntries (((b :: b2 :: rest).flatMap (·.rows)).map
                       (fun r => rowEntries s.tok r.json))) } := rfl

theorem mergeGroup_isSome (s : Sem) (build : List Str → (Str → Bool)) (g : List Block) (hg : g ≠ []) :
    ∃ b', mergeGroup s build g = some b' := by
  cases g with
  | nil => exact absurd rfl hg
  | cons b t =>
    cases t with
    | nil => exact ⟨b, rfl⟩
    | cons b2 rest => exact ⟨_, mergeGroup_multi s build b b2 rest⟩

theorem mergeGroup_rows (s : Sem) (build : List Str → (Str → Bool)) (g : List Block) (b' : Block)
    (h : mergeGroup s build g = some b') : b'.rows = g.flatMap (·.rows) := by
  cases g with
  | nil => cases h
  | cons b t =>
    cases t with
    | nil => cases h; simp
    | cons b2 rest => rw [mergeGroup_multi] at h; cases h; rfl

theorem mergeGroup_pid (s : Sem) (build : List Str → (Str → Bool)) (g : List Block) (b' : Block)
    (h : mergeGroup s build g = some b') : ∃ b0 ∈ g, b'.md.PartitionID = b0.md.PartitionID := by
  cases g with
  | nil => cases h
  | cons b t =>
    cases t with
    | nil => cases h; exact ⟨_, List.mem_cons_self, rfl⟩
    | cons b2 rest => rw [mergeGroup_multi] at h; cases h; exact ⟨b, List.mem_cons_self, rfl⟩

theorem mergeGroup_le (s : Sem) (build : List Str → (Str → Bool)) (g : List Block) (b' : Block)
    (h : mergeGroup s build g = some b') :
    ∀ x ∈ g, MMLe x.md.MinMaxIndexes b'.md.MinMaxIndexes := by
  cases g with
  | nil => cases h
  | cons b t =>
    cases t with
    | nil =>
      cases h; intro x hx
      rw [List.mem_singleton] at hx; subst hx; exact MMLe.refl _
    | cons b2 rest =>
      rw [mergeGroup_multi] at h; cases h
      intro x hx; exact groupMM_le b (b2 :: rest) x hx

/-- The metadata of the merged block covers every row any block of the group covered. -/
theorem mergeGroup_covers (s : Sem) (build : List Str → (Str → Bool)) (g : List Block) (b' : Block)
    (hg : ValidGroup g) (h : mergeGroup s build g = some b') (x : Block) (hx : x ∈ g) (r : RowPre)
    (hc : Covers x.md r) : Covers b'.md r := by
  obtain ⟨b0, hb0, hp⟩ := mergeGroup_pid s build g b' h
  refine ⟨?_, ?_⟩
  · rw [hp, (hg.2 b0 hb0 x hx).1]; exact hc.1
  · intro f v hv
    obtain ⟨mm, hl, h1, h2⟩ := hc.2 f v hv
    obtain ⟨mm', hl', h1', h2'⟩ := mergeGroup_le s build g b' h x hx f mm hl
    exact ⟨mm', hl', Int.le_trans h1' h1, Int.le_trans h2 h2'⟩

theorem mergeGroup_WF_aux (s : Sem) (build : List Str → (Str → Bool)) (hb : SoundBuild build)
    (g : List Block) (b' : Block) (hg : ValidGroup g) (hwf : ∀ b ∈ g, BlockWF s b)
    (h : mergeGroup s build g = some b') : BlockWF s b' := by
  intro r hr
  rw [mergeGroup_rows s build g b' h] at hr
  obtain ⟨x, hx, hrx⟩ := List.mem_flatMap.mp hr
  refine ⟨mergeGroup_covers s build g b' hg h x hx r.pre (hwf x hx r hrx).1, ?_⟩
  cases g with
  | nil => cases h
  | cons b t =>
    cases t with
    | nil =>
      cases h
      rw [List.mem_singleton] at hx; subst hx
      exact (hwf x List.mem_cons_self r hrx).2
    | cons b2 rest =>
      rw [mergeGroup_multi] at h; cases h
      exact buildFilt_covers build hb _ _ (List.mem_map.mpr ⟨r, hr, rfl⟩)

theorem merge_WF_aux (s : Sem) (build : List Str → (Str → Bool)) (hb : SoundBuild build)
    (groups : List (List Block)) (hg : ∀ g ∈ groups, ValidGroup g)
    (hwf : ∀ g ∈ groups, ∀ b ∈ g, BlockWF s b) :
    FileWF s (mergeFile s build groups) := by
  intro b' hb'
  obtain ⟨g, hgm, hmg⟩ := List.mem_filterMap.mp hb'
  refine ⟨mergeGroup_WF_aux s build hb g b' (hg g hgm) (hwf g hgm) hmg, ?_⟩
  intro r hr
  rw [mergeGroup_rows s build g b' hmg] at hr
  obtain ⟨x, hx, hrx⟩ := List.mem_flatMap.mp hr
  refine buildFilt_covers build hb _ _ (List.mem_flatMap.mpr ⟨x, ?_, List.mem_map.mpr ⟨r, hrx, rfl⟩⟩)
  exact List.mem_flatMap.mpr ⟨g, hgm, hx⟩

theorem merge_rows_preserved_aux (s : Sem) (build : List Str → (Str → Bool))
    (groups : List (List Block)) (hg : ∀ g ∈ groups, g ≠ []) :
    allRows [mergeFile s build groups] = (groups.flatMap id).flatMap (·.rows) := by
  have key : (groups.filterMap (mergeGroup s build)).flatMap (·.rows) =
      (groups.flatMap id).flatMap (·.rows) := by
    induction groups with
    | nil => rfl
    | cons g gs ih =>
      obtain ⟨b', hb'⟩ := mergeGroup_isSome s build g (hg g List.mem_cons_self)
      rw [List.filterMap_cons, hb']
      simp only [List.flatMap_cons, List.flatMap_append, id]
      rw [ih (fun g' h' => hg g' (List.mem_cons_of_mem _ h')), mergeGroup_rows s build g b' hb']
  simp only [allRows, List.flatMap_cons, List.flatMap_nil, List.append_nil]
  exact key

-- ---------------------------------------------------------------- query answers after a merge

/-- Every range the map yields is within int64. -/
def MMIn (a : List (String × MinMaxIndex)) : Prop :=
  ∀ k mm, a.lookup k = some mm → InI64 mm.Min ∧ InI64 mm.Max

theorem updateMinMax_in (e : MinMaxIndex) (lo hi : Int) (he : InI64 e.Min ∧ InI64 e.Max)
    (hlo : InI64 lo) (hhi : InI64 hi) :
    InI64 (updateMinMax e lo hi).Min ∧ InI64 (updateMinMax e lo hi).Max := by
  unfold updateMinMax
  constructor
  · show InI64 (if lo < e.Min then lo else e.Min)
    split
    · exact hlo
    · exact he.1
  · show InI64 (if hi > e.Max then hi else e.Max)
    split
    · exact hhi
    · exact he.2

theorem mmInsert_in (k : String) (lo hi : Int) (acc : List (String × MinMaxIndex))
    (ha : MMIn acc) (hlo : InI64 lo) (hhi : InI64 hi) : MMIn (mmInsert k lo hi acc) := by
  intro k' mm h
  rw [lookup_mmInsert] at h
  by_cases hk : k' = k
  · rw [if_pos hk] at h
    cases hl : List.lookup k acc with
    | none => rw [hl] at h; cases h; exact ⟨hlo, hhi⟩
    | some m0 => rw [hl] at h; cases h; exact updateMinMax_in m0 lo hi (ha k m0 hl) hlo hhi
  · rw [if_neg hk] at h; exact ha k' mm h

theorem mergeMM_in (a b : List (String × MinMaxIndex)) (ha : MMIn a)
    (hb : ∀ p ∈ b, InI64 p.2.Min ∧ InI64 p.2.Max) : MMIn (mergeMM a b) := by
  unfold mergeMM
  induction b generalizing a with
  | nil => exact ha
  | cons p t ih =>
    rw [List.foldl_cons]
    exact ih _ (mmInsert_in _ _ _ _ ha (hb p List.mem_cons_self).1 (hb p List.mem_cons_self).2)
      (fun p' hp' => hb p' (List.mem_cons_of_mem _ hp'))

theorem groupMM_in (b : Block) (rest : List Block) (hb : MMIn b.md.MinMaxIndexes)
    (hr : ∀ x ∈ rest, ∀ p ∈ x.md.MinMaxIndexes, InI64 p.2.Min ∧ InI64 p.2.Max) :
    MMIn (groupMM b rest) := by
  unfold groupMM
  generalize b.md.MinMaxIndexes = acc at hb
  induction rest generalizing acc with
  | nil => exact hb
  | cons x t ih =>
    rw [List.foldl_cons]
    exact ih (fun y hy => hr y (List.mem_cons_of_mem _ hy)) _
      (mergeMM_in _ _ hb (hr x List.mem_cons_self))

theorem MDWF.mmIn {m : DataBlockMetadata} (h : MDWF m) : MMIn m.MinMaxIndexes :=
  fun k mm hl => (h k mm hl).2

theorem mergeGroup_in (s : Sem) (build : List Str → (Str → Bool)) (g : List Block) (b' : Block)
    (h : mergeGroup s build g = some b') (hmd : ∀ x ∈ g, MDWF x.md)
    (hpairs : ∀ x ∈ g, ∀ p ∈ x.md.MinMaxIndexes, InI64 p.2.Min ∧ InI64 p.2.Max) :
    MMIn b'.md.MinMaxIndexes := by
  cases g with
  | nil => cases h
  | cons b t =>
    cases t with
    | nil => cases h; exact (hmd _ List.mem_cons_self).mmIn
    | cons b2 rest =>
      rw [mergeGroup_multi] at h; cases h
      exact groupMM_in b (b2 :: rest) (hmd b List.mem_cons_self).mmIn
        (fun x hx => hpairs x (List.mem_cons_of_mem _ hx))

/-- With unique keys (a Go map), `MDWF` already bounds every stored pair. -/
theorem pairs_in_of_nodup (m : DataBlockMetadata) (hn : (m.MinMaxIndexes.map Prod.fst).Nodup)
    (h : MDWF m) : ∀ p ∈ m.MinMaxIndexes, InI64 p.2.Min ∧ InI64 p.2.Max := by
  unfold MDWF lookupMM at h
  generalize m.MinMaxIndexes = l at hn h
  induction l with
  | nil => intro p hp; cases hp
  | cons q t ih =>
    obtain ⟨a, mq⟩ := q
    rw [List.map_cons, List.nodup_cons] at hn
    intro p hp
    rcases List.mem_cons.mp hp with e | e
    · subst e
      exact (h a mq (by simp)).2
    · refine ih hn.2 ?_ p e
      intro k mm hl
      apply h k mm
      have hne : (k == a) = false := by
        apply beq_eq_false_iff_ne.mpr
        intro e'; subst e'
        exact hn.1 (List.mem_map.mpr ⟨(k, mm), assoc_lookup_mem k t mm hl, rfl⟩)
      rw [List.lookup_cons, hne]; exact hl


/-- Same partition ID, every key still present with a wider range: the prefilter leaf verdict can
    only go from false to true, provided widening never flips the minmax leaf (`hmm`). -/
theorem evalPreCond_mono (m m' : DataBlockMetadata) (hp : m.PartitionID = m'.PartitionID)
    (hle : MMLe m.MinMaxIndexes m'.MinMaxIndexes) (c : PreCond)
    (hmm : ∀ nc mm mm', c.MinMaxCondition = some nc →
      lookupMM c.MinMaxFieldName m.MinMaxIndexes = some mm →
      lookupMM c.MinMaxFieldName m'.MinMaxIndexes = some mm' →
      mm'.Min ≤ mm.Min → mm.Max ≤ mm'.Max → evalMinMax mm nc = true → evalMinMax mm' nc = true)
    (h : evalPreCond m c = true) : evalPreCond m' c = true := by
  unfold evalPreCond at h ⊢
  rw [← hp]
  by_cases h1 : c.ConditionType = "PARTITION"
  · rw [if_pos h1] at h ⊢; exact h
  · rw [if_neg h1] at h ⊢
    by_cases h2 : c.ConditionType = "MINMAX"
    · rw [if_pos h2] at h ⊢
      cases hnc : c.MinMaxCondition with
      | none => rfl
      | some nc =>
        rw [hnc] at h
        cases hl : lookupMM c.MinMaxFieldName m.MinMaxIndexes with
        | none => rw [hl] at h; cases h
        | some mm =>
          rw [hl] at h
          obtain ⟨mm', hl', l1, u1⟩ := hle _ mm hl
          have hl'' : lookupMM c.MinMaxFieldName m'.MinMaxIndexes = some mm' := hl'
          simp only [hl'']
          exact hmm nc mm mm' hnc hl hl'' l1 u1 h
    · rw [if_neg h2] at h; cases h

/-- Widening a well-formed range never flips the minmax leaf when the *operands* are int64, even
    if the widened range is not (variant of `C04.evalMinMax_mono`). -/
theorem evalMinMax_mono_wf (mm mm' : MinMaxIndex) (c : NumericCondition) (hc : c.WF)
    (hI : InI64 mm.Min ∧ InI64 mm.Max)
    (hle : mm.Min ≤ mm.Max) (h1 : mm'.Min ≤ mm.Min) (h2 : mm.Max ≤ mm'.Max)
    (h : evalMinMax mm c = true) : evalMinMax mm' c = true := by
  obtain ⟨hV, hMin, hMax, _⟩ := hc
  unfold evalMinMax at *
  unfold InI64 at hI hV hMin hMax
  obtain ⟨hI1, hI2⟩ := hI
  dsimp only at *
  cases hop : parseOp c.Operator with
  | none => simp [hop] at h
  | some op =>
    simp only [hop] at h ⊢
    cases op <;> simp only [Bool.and_eq_true, Bool.or_eq_true, decide_eq_true_eq, List.any_eq_true] at h ⊢
    case isIn =>
      obtain ⟨x, hx, a, b⟩ := h
      exact ⟨x, hx, by omega, by omega⟩
    all_goals i64omega

/-- Common part of the two superset theorems: once the merged block is known to pass the
    prefilter, the row comes back. -/
theorem merge_query_superset_core (s : Sem) (build : List Str → (Str → Bool)) (hb : SoundBuild build)
    (reOK : Str → Bool) (groups : List (List Block)) (q : Query)
    (hg : ∀ g ∈ groups, ValidGroup g) (hwf : ∀ g ∈ groups, ∀ b ∈ g, BlockWF s b)
    (hv : q.Valid reOK)
    (g : List Block) (b : Block) (r : Row) (hgm : g ∈ groups) (hbm : b ∈ g) (hr : r ∈ b.rows)
    (hpre : evalPre b.md q.pre = true) (hm : rowMatches s q r = true)
    (P : PreCond → Prop) (hall : Expr.ForallOpt P q.pre)
    (hleaf : ∀ b', mergeGroup s build g = some b' → b.md.PartitionID = b'.md.PartitionID →
      MMLe b.md.MinMaxIndexes b'.md.MinMaxIndexes →
      ∀ c, P c → evalPreCond b.md c = true → evalPreCond b'.md c = true) :
    r ∈ query s [mergeFile s build groups] q := by
  obtain ⟨b', hb'⟩ := mergeGroup_isSome s build g (hg g hgm).1
  have hrb' : r ∈ b'.rows := by
    rw [mergeGroup_rows s build g b' hb']; exact List.mem_flatMap.mpr ⟨b, hbm, hr⟩
  have hmem : b' ∈ (mergeFile s build groups).blocks := List.mem_filterMap.mpr ⟨g, hgm, hb'⟩
  have hpre' : evalPre b'.md q.pre = true := by
    obtain ⟨b0, hb0, hp0⟩ := mergeGroup_pid s build g b' hb'
    have hpid : b.md.PartitionID = b'.md.PartitionID := by
      rw [hp0]; exact ((hg g hgm).2 b hbm b0 hb0).1
    exact Expr.evalOpt_mono (evalPreCond b.md) (evalPreCond b'.md) P
      (fun c hP hc => hleaf b' hb' hpid (mergeGroup_le s build g b' hb' b hbm) c hP hc) q.pre hall hpre
  have hfw := merge_WF_aux s build hb groups hg hwf b' hmem
  have hen := match_entries s reOK q r hv hm
  have hff : evalFilt (mergeFile s build groups).filt q.prune = true :=
    filt_ge_entries _ _ _ (hfw.2 r hrb') hen
  have hbf : evalFilt b'.filt q.prune = true :=
    filt_ge_entries _ _ _ (hfw.1 r hrb').2 hen
  have hkept : b' ∈ keptBlocks q (mergeFile s build groups) :=
    List.mem_filter.mpr ⟨hmem, hpre'⟩
  have hne : (keptBlocks q (mergeFile s build groups)).isEmpty = false := by
    cases hk : keptBlocks q (mergeFile s build groups) with
    | nil => rw [hk] at hkept; cases hkept
    | cons _ _ => rfl
  unfold query
  rw [List.flatMap_cons, List.flatMap_nil, List.append_nil]
  unfold queryFile
  simp only [hne, hff, Bool.false_eq_true, if_false, Bool.not_true]
  refine List.mem_flatMap.mpr ⟨b', hkept, ?_⟩
  simp only [hbf, Bool.not_true, Bool.false_eq_true, if_false]
  exact List.mem_filter.mpr ⟨hrb', hm⟩

/-- A row that was in the pre-merge answer of a prefiltered query (its source block satisfied the
    prefilter, and the row matches) is in the post-merge answer.

    STATEMENT CHANGE: `hpairs` is new. `MDWF` only constrains the binding `lookup` finds; `mergeMM`
    folds *every* pair of the later blocks' association lists, shadowed duplicates included, so a
    shadowed out-of-int64 pair could push the merged range beyond int64 and un-saturate it
    (`MergeCE.original_statement_false` below). `hpairs` follows from `MDWF` when keys are unique
    (`pairs_in_of_nodup`). -/
theorem merge_query_superset_aux (s : Sem) (build : List Str → (Str → Bool)) (hb : SoundBuild build)
    (reOK : Str → Bool) (groups : List (List Block)) (q : Query)
    (hg : ∀ g ∈ groups, ValidGroup g) (hwf : ∀ g ∈ groups, ∀ b ∈ g, BlockWF s b)
    (hmd : ∀ g ∈ groups, ∀ b ∈ g, MDWF b.md)
    (hpairs : ∀ g ∈ groups, ∀ b ∈ g, ∀ p ∈ b.md.MinMaxIndexes, InI64 p.2.Min ∧ InI64 p.2.Max)
    (hv : q.Valid reOK)
    (g : List Block) (b : Block) (r : Row) (hgm : g ∈ groups) (hbm : b ∈ g) (hr : r ∈ b.rows)
    (hpre : evalPre b.md q.pre = true) (hm : rowMatches s q r = true) :
    r ∈ query s [mergeFile s build groups] q := by
  have hall : Expr.ForallOpt (fun _ : PreCond => True) q.pre := by
    cases q.pre with
    | none => trivial
    | some e => exact forall_true e
  refine merge_query_superset_core s build hb reOK groups q hg hwf hv g b r hgm hbm hr hpre hm
    (fun _ => True) hall ?_
  intro b' hb' hpid hle c _ hc
  refine evalPreCond_mono b.md b'.md hpid hle c ?_ hc
  intro nc mm mm' _ hl hl' l1 u1 h
  obtain ⟨o, i1, i2⟩ := hmd g hgm b hbm _ mm hl
  exact C04.evalMinMax_mono mm mm' nc ⟨i1, i2⟩
    (mergeGroup_in s build g b' hb' (hmd g hgm) (hpairs g hgm) _ mm' hl') o l1 u1 h

/-- Alternative to `merge_query_superset_aux`: instead of bounding every stored pair (`hpairs`),
    assume the query's numeric operands are int64 (`PreCond.WF`, as in C04). -/
theorem merge_query_superset_aux_wfq (s : Sem) (build : List Str → (Str → Bool)) (hb : SoundBuild build)
    (reOK : Str → Bool) (groups : List (List Block)) (q : Query)
    (hg : ∀ g ∈ groups, ValidGroup g) (hwf : ∀ g ∈ groups, ∀ b ∈ g, BlockWF s b)
    (hmd : ∀ g ∈ groups, ∀ b ∈ g, MDWF b.md) (hq : Expr.ForallOpt PreCond.WF q.pre)
    (hv : q.Valid reOK)
    (g : List Block) (b : Block) (r : Row) (hgm : g ∈ groups) (hbm : b ∈ g) (hr : r ∈ b.rows)
    (hpre : evalPre b.md q.pre = true) (hm : rowMatches s q r = true) :
    r ∈ query s [mergeFile s build groups] q := by
  refine merge_query_superset_core s build hb reOK groups q hg hwf hv g b r hgm hbm hr hpre hm
    PreCond.WF hq ?_
  intro b' _ hpid hle c hcwf hc
  refine evalPreCond_mono b.md b'.md hpid hle c ?_ hc
  intro nc mm mm' hnc hl _ l1 u1 h
  obtain ⟨o, i1, i2⟩ := hmd g hgm b hbm _ mm hl
  exact evalMinMax_mono_wf mm mm' nc (hcwf nc hnc) ⟨i1, i2⟩ o l1 u1 h

-- ---------------------------------------------------------------- why `hpairs` is needed

/- Counterexample to `merge_query_superset_aux` without `hpairs` (or `PreCond.WF`): block 2 has a
    shadowed duplicate binding of "k" beyond int64, invisible to `MDWF`; merging pushes the range
    of block 1 (saturated at `maxInt64`) to `maxInt64 + 1`, and `GT maxInt64 + 5` then prunes. -/
namespace MergeCE

def sem : Sem := { tok := fun _ => [], re := fun _ _ => true }
def build : List Str → (Str → Bool) := fun l x => l.contains x
def row : Row := { json := .null, pre := { pid := "p", vals := fun _ => none } }
def b1 : Block :=
  { md := { PartitionID := "p", Rows := 1, MinMaxIndexes := [("k", ⟨0, maxInt64⟩)] },
    rows := [row], filt := {} }
def b2 : Block :=
  { md := { PartitionID := "p", Rows := 0,
            MinMaxIndexes := [("k", ⟨0, 0⟩), ("k", ⟨0, maxInt64 + 1⟩)] },
    rows := [], filt := {} }
def nc : NumericCondition := { Operator := "GT", Value := maxInt64 + 5 }
def pc : PreCond := { ConditionType := "MINMAX", MinMaxFieldName := "k", MinMaxCondition := some nc }
def q : Query := { pre := some (Expr.mk "CONDITION" (some pc) []) }

theorem filtCovers_empty (en : Entries) : FiltCovers {} en := by
  refine ⟨?_, ?_, ?_⟩ <;> (intro g h; cases h)

theorem original_statement_false :
    ¬ (∀ (s : Sem) (build : List Str → (Str → Bool)) (_ : SoundBuild build)
        (reOK : Str → Bool) (groups : List (List Block)) (q : Query)
        (_ : ∀ g ∈ groups, ValidGroup g) (_ : ∀ g ∈ groups, ∀ b ∈ g, BlockWF s b)
        (_ : ∀ g ∈ groups, ∀ b ∈ g, MDWF b.md) (_ : q.Valid reOK)
        (g : List Block) (b : Block) (r : Row) (_ : g ∈ groups) (_ : b ∈ g) (_ : r ∈ b.rows)
        (_ : evalPre b.md q.pre = true) (_ : rowMatches s q r = true),
        r ∈ query s [mergeFile s build groups] q) := by
  intro H
  have hsb : SoundBuild build := by
    intro l x h; simp [build, h]
  have hmem : ∀ g ∈ [[b1, b2]], ∀ b ∈ g, b = b1 ∨ b = b2 := by
    intro g hg b hb
    rw [List.mem_singleton] at hg; subst hg
    simpa using hb
  have hg : ∀ g ∈ [[b1, b2]], ValidGroup g := by
    intro g hgm
    refine ⟨by rw [List.mem_singleton] at hgm; subst hgm; simp, ?_⟩
    intro x hx y hy
    have key : sameKeys b1.md.MinMaxIndexes b2.md.MinMaxIndexes := by
      intro k
      simp only [b1, b2, List.lookup_cons, List.lookup_nil]
      cases (k == "k") <;> rfl
    rcases hmem g hgm x hx with rfl | rfl <;> rcases hmem g hgm y hy with rfl | rfl
    · exact ⟨rfl, fun _ => rfl⟩
    · exact ⟨rfl, key⟩
    · exact ⟨rfl, fun k => (key k).symm⟩
    · exact ⟨rfl, fun _ => rfl⟩
  have hwf : ∀ g ∈ [[b1, b2]], ∀ b ∈ g, BlockWF sem b := by
    intro g hgm b hb r hr
    rcases hmem g hgm b hb with rfl | rfl
    · have : r = row := by simpa [b1] using hr
      subst this
      exact ⟨⟨rfl, fun f v hv => by simp [row] at hv⟩, filtCovers_empty _⟩
    · simp [b2] at hr
  have hmd : ∀ g ∈ [[b1, b2]], ∀ b ∈ g, MDWF b.md := by
    intro g hgm b hb k mm hl
    unfold lookupMM at hl
    rcases hmem g hgm b hb with rfl | rfl
    · simp only [b1, List.lookup_cons, List.lookup_nil] at hl
      cases hk : (k == "k") <;> rw [hk] at hl
      · cases hl
      · cases hl; decide
    · simp only [b2, List.lookup_cons, List.lookup_nil] at hl
      cases hk : (k == "k") <;> rw [hk] at hl
      · cases hl
      · cases hl; decide
  have hv : q.Valid (fun _ => true) := fun e he => nomatch he
  have h := H sem build hsb (fun _ => true) [[b1, b2]] q hg hwf hmd hv [b1, b2] b1 row
    List.mem_cons_self List.mem_cons_self List.mem_cons_self rfl rfl
  have e : query sem [mergeFile sem build [[b1, b2]]] q = [] := by rfl
  rw [e] at h
  cases h

end MergeCE

end BloomVerif
