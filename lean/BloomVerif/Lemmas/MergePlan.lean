/- Helper lemmas for C12 (merge output respects the layout limits). -/
import BloomVerif.Model.MergePlan
import BloomVerif.Generated.Leaf
namespace BloomVerif

/-- The regenerated (wrapping) limit check equals the exact one when the sums cannot overflow. -/
theorem within_bridge_aux (cfg : EngineConfig) (a b : BShape)
    (ha : InI64 (a.rows + b.rows)) (hb : InI64 (a.size + b.size)) :
    Gen.blocksWithinMergeLimits ⟨cfg⟩ ⟨a.rows, a.size⟩ ⟨b.rows, b.size⟩ = within cfg a b := by
  simp only [Gen.blocksWithinMergeLimits, within, wadd, wrap64_id ha, wrap64_id hb]

theorem sumRows_cons (a : BShape) (l : List BShape) : sumRows (a :: l) = a.rows + sumRows l := by
  simp [sumRows]
theorem sumSize_cons (a : BShape) (l : List BShape) : sumSize (a :: l) = a.size + sumSize l := by
  simp [sumSize]

theorem greedyTake_cons (cfg : EngineConfig) (seed o : BShape) (cr cs : Int) (r : List BShape) :
    greedyTake cfg seed cr cs (o :: r) =
      if within cfg seed o && decide (cr + o.rows ≤ cfg.MaxRowGroupRows) &&
         decide (cs + o.size ≤ cfg.MaxRowGroupBytes) then
        (o :: (greedyTake cfg seed (cr + o.rows) (cs + o.size) r).1,
          (greedyTake cfg seed (cr + o.rows) (cs + o.size) r).2)
      else
        ((greedyTake cfg seed cr cs r).1, o :: (greedyTake cfg seed cr cs r).2) := by
  rw [greedyTake]

theorem greedyTake_limits (cfg : EngineConfig) (seed : BShape) :
    ∀ (l : List BShape) (cr cs : Int), (greedyTake cfg seed cr cs l).1 ≠ [] →
      cr + sumRows (greedyTake cfg seed cr cs l).1 ≤ cfg.MaxRowGroupRows ∧
      cs + sumSize (greedyTake cfg seed cr cs l).1 ≤ cfg.MaxRowGroupBytes
  | [], _, _ => by simp [greedyTake]
  | o :: r, cr, cs => by
    rw [greedyTake_cons]
    split
    next hc =>
      intro _
      simp only [Bool.and_eq_true, decide_eq_true_eq] at hc
      simp only [sumRows_cons, sumSize_cons]
      by_cases he : (greedyTake cfg seed (cr + o.rows) (cs + o.size) r).1 = []
      · rw [he]; simp [sumRows, sumSize]; omega
      · have := greedyTake_limits cfg seed r _ _ he
        omega
    next hc =>
      intro h
      exact greedyTake_limits cfg seed r cr cs h

theorem greedyTake_mem (cfg : EngineConfig) (seed : BShape) :
    ∀ (l : List BShape) (cr cs : Int), (greedyTake cfg seed cr cs l).1 ++ (greedyTake cfg seed cr cs l).2 |>.Perm l
  | [], _, _ => by simp [greedyTake]
  | o :: r, cr, cs => by
    rw [greedyTake_cons]
    split
    · exact (greedyTake_mem cfg seed r _ _).cons o
    · exact List.perm_middle.trans ((greedyTake_mem cfg seed r _ _).cons o)

theorem greedyTake_length (cfg : EngineConfig) (seed : BShape) (l : List BShape) (cr cs : Int) :
    (greedyTake cfg seed cr cs l).2.length ≤ l.length := by
  have := (greedyTake_mem cfg seed l cr cs).length_eq
  simp only [List.length_append] at this
  omega

theorem greedyGroupsFuel_group (cfg : EngineConfig) :
    ∀ (f : Nat) (l : List BShape), ∀ g ∈ greedyGroupsFuel cfg f l,
      g ≠ [] ∧ (2 ≤ g.length → sumRows g ≤ cfg.MaxRowGroupRows ∧ sumSize g ≤ cfg.MaxRowGroupBytes) ∧
      (∀ a ∈ g, a ∈ l)
  | 0, _ => by simp [greedyGroupsFuel]
  | _ + 1, [] => by simp [greedyGroupsFuel]
  | f + 1, s :: rest => by
    intro g hg
    rw [greedyGroupsFuel] at hg
    simp only [List.mem_cons] at hg
    have hperm := greedyTake_mem cfg s rest s.rows s.size
    rcases hg with hg | hg
    · subst hg
      refine ⟨by simp, ?_, ?_⟩
      · intro h2
        have hne : (greedyTake cfg s s.rows s.size rest).1 ≠ [] := by
          intro he; rw [he] at h2; simp at h2
        have := greedyTake_limits cfg s rest _ _ hne
        simp only [sumRows_cons, sumSize_cons]
        exact this
      · intro a ha
        rcases List.mem_cons.mp ha with ha | ha
        · subst ha; simp
        · exact List.mem_cons_of_mem _ (hperm.subset (List.mem_append_left _ ha))
    · obtain ⟨h1, h2, h3⟩ := greedyGroupsFuel_group cfg f _ g hg
      refine ⟨h1, h2, fun a ha => ?_⟩
      exact List.mem_cons_of_mem _ (hperm.subset (List.mem_append_right _ (h3 a ha)))

theorem greedyGroupsFuel_perm (cfg : EngineConfig) :
    ∀ (f : Nat) (l : List BShape), l.length ≤ f → ((greedyGroupsFuel cfg f l).flatMap id).Perm l
  | 0, l => by
    intro h
    have : l = [] := List.eq_nil_of_length_eq_zero (by omega)
    subst this; simp [greedyGroupsFuel]
  | _ + 1, [] => by simp [greedyGroupsFuel]
  | f + 1, s :: rest => by
    intro h
    rw [greedyGroupsFuel]
    simp only [List.flatMap_cons, id, List.cons_append]
    have hlen := greedyTake_length cfg s rest s.rows s.size
    have ih := greedyGroupsFuel_perm cfg f (greedyTake cfg s s.rows s.size rest).2
      (by simp only [List.length_cons] at h; omega)
    exact (((List.Perm.append_left _ ih).trans (greedyTake_mem cfg s rest s.rows s.size))).cons s

theorem bucketInsert_key (b : BShape) :
    ∀ (acc : List (String × List BShape)), (∀ p ∈ acc, ∀ a ∈ p.2, a.key = p.1) →
      ∀ p ∈ bucketInsert b acc, ∀ a ∈ p.2, a.key = p.1
  | [], _ => by
    intro p hp a ha
    simp only [bucketInsert, List.mem_singleton] at hp
    subst hp
    simp only [List.mem_singleton] at ha
    subst ha; rfl
  | (k, l) :: r, hacc => by
    intro p hp a ha
    rw [bucketInsert] at hp
    split at hp
    next hk =>
      rcases List.mem_cons.mp hp with hp | hp
      · subst hp
        rcases List.mem_append.mp ha with ha | ha
        · exact hacc (k, l) (by simp) a ha
        · simp only [List.mem_singleton] at ha; subst ha; exact hk.symm
      · exact hacc p (List.mem_cons_of_mem _ hp) a ha
    next hk =>
      rcases List.mem_cons.mp hp with hp | hp
      · subst hp; exact hacc (k, l) (by simp) a ha
      · exact bucketInsert_key b r (fun q hq => hacc q (List.mem_cons_of_mem _ hq)) p hp a ha

theorem bucketInsert_perm (b : BShape) :
    ∀ (acc : List (String × List BShape)),
      ((bucketInsert b acc).flatMap (·.2)).Perm (acc.flatMap (·.2) ++ [b])
  | [] => by simp [bucketInsert]
  | (k, l) :: r => by
    rw [bucketInsert]
    split
    · simp only [List.flatMap_cons]
      rw [List.append_assoc, List.append_assoc]
      exact List.Perm.append_left _ List.perm_append_comm
    · simp only [List.flatMap_cons]
      rw [List.append_assoc]
      exact List.Perm.append_left _ (bucketInsert_perm b r)

theorem foldl_bucket_key : ∀ (blocks : List BShape) (acc : List (String × List BShape)),
    (∀ p ∈ acc, ∀ a ∈ p.2, a.key = p.1) →
    ∀ p ∈ blocks.foldl (fun acc b => bucketInsert b acc) acc, ∀ a ∈ p.2, a.key = p.1
  | [], _, h => by simpa using h
  | b :: bs, acc, h => by
    simp only [List.foldl_cons]
    exact foldl_bucket_key bs _ (bucketInsert_key b acc h)

theorem foldl_bucket_perm : ∀ (blocks : List BShape) (acc : List (String × List BShape)),
    ((blocks.foldl (fun acc b => bucketInsert b acc) acc).flatMap (·.2)).Perm
      (acc.flatMap (·.2) ++ blocks)
  | [], _ => by simp
  | b :: bs, acc => by
    simp only [List.foldl_cons]
    refine (foldl_bucket_perm bs _).trans ?_
    refine ((bucketInsert_perm b acc).append_right bs).trans ?_
    simp

theorem bucketize_key (blocks : List BShape) :
    ∀ p ∈ bucketize blocks, ∀ a ∈ p.2, a.key = p.1 :=
  foldl_bucket_key blocks [] (by simp)

theorem bucketize_perm (blocks : List BShape) :
    ((bucketize blocks).flatMap (·.2)).Perm blocks := by
  have := foldl_bucket_perm blocks []
  simpa [bucketize] using this

theorem flatMap_flatMap_perm {α β : Type} (f : α → List (List β)) (g : α → List β) :
    ∀ (L : List α), (∀ p ∈ L, ((f p).flatMap id).Perm (g p)) →
      ((L.flatMap f).flatMap id).Perm (L.flatMap g)
  | [], _ => by simp
  | p :: L, h => by
    simp only [List.flatMap_cons, List.flatMap_append]
    exact (h p (by simp)).append
      (flatMap_flatMap_perm f g L (fun q hq => h q (List.mem_cons_of_mem _ hq)))

theorem blockGroups_group (cfg : EngineConfig) (blocks : List BShape) (g : List BShape)
    (hg : g ∈ blockGroups cfg blocks) :
    g ≠ [] ∧ (2 ≤ g.length → sumRows g ≤ cfg.MaxRowGroupRows ∧ sumSize g ≤ cfg.MaxRowGroupBytes) ∧
      (∀ a ∈ g, ∀ b ∈ g, a.key = b.key) := by
  unfold blockGroups at hg
  obtain ⟨p, hp, hgp⟩ := List.mem_flatMap.mp hg
  obtain ⟨h1, h2, h3⟩ := greedyGroupsFuel_group cfg _ _ g hgp
  refine ⟨h1, h2, fun a ha b hb => ?_⟩
  rw [bucketize_key blocks p hp a (h3 a ha), bucketize_key blocks p hp b (h3 b hb)]

theorem group_within_limits_aux (cfg : EngineConfig) (blocks : List BShape) (g : List BShape)
    (hg : g ∈ blockGroups cfg blocks) (h2 : 2 ≤ g.length) :
    sumRows g ≤ cfg.MaxRowGroupRows ∧ sumSize g ≤ cfg.MaxRowGroupBytes :=
  (blockGroups_group cfg blocks g hg).2.1 h2

theorem group_same_key_aux (cfg : EngineConfig) (blocks : List BShape) (g : List BShape)
    (hg : g ∈ blockGroups cfg blocks) : ∀ a ∈ g, ∀ b ∈ g, a.key = b.key :=
  (blockGroups_group cfg blocks g hg).2.2

theorem groups_nonempty_aux (cfg : EngineConfig) (blocks : List BShape) (g : List BShape)
    (hg : g ∈ blockGroups cfg blocks) : g ≠ [] :=
  (blockGroups_group cfg blocks g hg).1

theorem groups_partition_aux (cfg : EngineConfig) (blocks : List BShape) :
    ((blockGroups cfg blocks).flatMap id).Perm blocks := by
  unfold blockGroups
  refine (flatMap_flatMap_perm _ (·.2) _ ?_).trans (bucketize_perm blocks)
  intro p _
  exact greedyGroupsFuel_perm cfg _ _ (Nat.le_refl _)

theorem sumTotal_cons (a : Cand) (l : List Cand) : sumTotal (a :: l) = a.totalSize + sumTotal l := by
  simp [sumTotal]

theorem fileTake_cons (cfg : EngineConfig) (total glen cur : Int) (gb : List BShape) (c : Cand)
    (r : List Cand) :
    fileTake cfg total glen cur gb (c :: r) =
      if total + glen + 1 > cfg.MaxFilesToMergePerOperation then ([], c :: r)
      else if cur + c.totalSize > cfg.MaxFileSize then
        ((fileTake cfg total glen cur gb r).1, c :: (fileTake cfg total glen cur gb r).2)
      else if hasPair cfg gb c.blocks then
        (c :: (fileTake cfg total (glen + 1) (cur + c.totalSize) (gb ++ c.blocks) r).1,
          (fileTake cfg total (glen + 1) (cur + c.totalSize) (gb ++ c.blocks) r).2)
      else
        ((fileTake cfg total glen cur gb r).1, c :: (fileTake cfg total glen cur gb r).2) := by
  rw [fileTake]

theorem fileTake_spec (cfg : EngineConfig) (total : Int) :
    ∀ (l : List Cand) (glen cur : Int) (gb : List BShape),
      (total + glen ≤ cfg.MaxFilesToMergePerOperation →
        total + glen + ((fileTake cfg total glen cur gb l).1.length : Int) ≤
          cfg.MaxFilesToMergePerOperation) ∧
      ((fileTake cfg total glen cur gb l).1 ≠ [] →
        cur + sumTotal (fileTake cfg total glen cur gb l).1 ≤ cfg.MaxFileSize) ∧
      ((fileTake cfg total glen cur gb l).1 ++ (fileTake cfg total glen cur gb l).2).Perm l
  | [], _, _, _ => by simp [fileTake]
  | c :: r, glen, cur, gb => by
    rw [fileTake_cons]
    split
    · simp
    · split
      · obtain ⟨h1, h2, h3⟩ := fileTake_spec cfg total r glen cur gb
        exact ⟨h1, h2, List.perm_middle.trans (h3.cons c)⟩
      · split
        · obtain ⟨h1, h2, h3⟩ :=
            fileTake_spec cfg total r (glen + 1) (cur + c.totalSize) (gb ++ c.blocks)
          refine ⟨fun h => ?_, fun _ => ?_, h3.cons c⟩
          · simp only [List.length_cons]
            have := h1 (by omega)
            omega
          · simp only [sumTotal_cons]
            by_cases he : (fileTake cfg total (glen + 1) (cur + c.totalSize) (gb ++ c.blocks) r).1 = []
            · rw [he]; simp [sumTotal]; omega
            · have := h2 he; omega
        · obtain ⟨h1, h2, h3⟩ := fileTake_spec cfg total r glen cur gb
          exact ⟨h1, h2, List.perm_middle.trans (h3.cons c)⟩

theorem fileGroupsFuel_cons (cfg : EngineConfig) (f : Nat) (total : Int) (c : Cand) (rest : List Cand) :
    fileGroupsFuel cfg (f + 1) total (c :: rest) =
      if total ≥ cfg.MaxFilesToMergePerOperation then []
      else if (fileTake cfg total 1 c.totalSize c.blocks rest).1.isEmpty then
        fileGroupsFuel cfg f total (fileTake cfg total 1 c.totalSize c.blocks rest).2
      else (c :: (fileTake cfg total 1 c.totalSize c.blocks rest).1) ::
        fileGroupsFuel cfg f (total + 1 + (fileTake cfg total 1 c.totalSize c.blocks rest).1.length)
          (fileTake cfg total 1 c.totalSize c.blocks rest).2 := by
  rw [fileGroupsFuel]

theorem fileGroupsFuel_spec (cfg : EngineConfig) :
    ∀ (f : Nat) (total : Int) (l : List Cand),
      (total + (((fileGroupsFuel cfg f total l).map List.length).sum : Int) ≤
        max cfg.MaxFilesToMergePerOperation total) ∧
      (∀ g ∈ fileGroupsFuel cfg f total l, 2 ≤ g.length ∧ sumTotal g ≤ cfg.MaxFileSize) ∧
      (∃ lo, ((fileGroupsFuel cfg f total l).flatMap id ++ lo).Perm l)
  | 0, _, l => by
    simp only [fileGroupsFuel]
    refine ⟨by simp; omega, by simp, l, by simp⟩
  | _ + 1, _, [] => by
    simp only [fileGroupsFuel]
    refine ⟨by simp; omega, by simp, [], by simp⟩
  | f + 1, total, c :: rest => by
    rw [fileGroupsFuel_cons]
    obtain ⟨t1, t2, t3⟩ := fileTake_spec cfg total rest 1 c.totalSize c.blocks
    split
    · refine ⟨by simp; omega, by simp, c :: rest, by simp⟩
    · split
      next hlt he =>
        obtain ⟨h1, h2, lo, h3⟩ := fileGroupsFuel_spec cfg f total
          (fileTake cfg total 1 c.totalSize c.blocks rest).2
        refine ⟨h1, h2, c :: lo, ?_⟩
        have he' : (fileTake cfg total 1 c.totalSize c.blocks rest).1 = [] :=
          List.isEmpty_iff.mp he
        rw [he'] at t3
        simp only [List.nil_append] at t3
        exact List.perm_middle.trans ((h3.trans t3).cons c)
      next hlt he =>
        obtain ⟨h1, h2, lo, h3⟩ := fileGroupsFuel_spec cfg f
          (total + 1 + (fileTake cfg total 1 c.totalSize c.blocks rest).1.length)
          (fileTake cfg total 1 c.totalSize c.blocks rest).2
        have hne : (fileTake cfg total 1 c.totalSize c.blocks rest).1 ≠ [] := by
          intro h; rw [h] at he; simp at he
        refine ⟨?_, ?_, lo, ?_⟩
        · simp only [List.map_cons, List.sum_cons, List.length_cons]
          have := t1 (by omega)
          omega
        · intro g hg
          rcases List.mem_cons.mp hg with hg | hg
          · subst hg
            refine ⟨?_, ?_⟩
            · have := List.length_pos_iff.mpr hne
              simp only [List.length_cons]; omega
            · rw [sumTotal_cons]; exact t2 hne
          · exact h2 g hg
        · simp only [List.flatMap_cons, id, List.cons_append, List.append_assoc]
          exact ((List.Perm.append_left _ h3).trans t3).cons c

theorem file_groups_count_aux (cfg : EngineConfig) (cands : List Cand) :
    (((fileGroups cfg cands).map List.length).sum : Int) ≤ max cfg.MaxFilesToMergePerOperation 0 := by
  unfold fileGroups
  split
  · simp; omega
  · have := (fileGroupsFuel_spec cfg cands.length 0 cands).1
    omega

theorem file_group_size_aux (cfg : EngineConfig) (cands : List Cand) (g : List Cand)
    (hg : g ∈ fileGroups cfg cands) : 2 ≤ g.length ∧ sumTotal g ≤ cfg.MaxFileSize := by
  unfold fileGroups at hg
  split at hg
  · simp at hg
  · exact (fileGroupsFuel_spec cfg cands.length 0 cands).2.1 g hg

theorem file_groups_members_aux (cfg : EngineConfig) (cands : List Cand) :
    ((fileGroups cfg cands).flatMap id).Sublist cands ∨
    ∃ l, ((fileGroups cfg cands).flatMap id).Perm l ∧ l.Sublist cands := by
  right
  unfold fileGroups
  split
  · exact ⟨[], by simp, by simp⟩
  · obtain ⟨lo, h⟩ := (fileGroupsFuel_spec cfg cands.length 0 cands).2.2
    obtain ⟨l, hl1, hl2⟩ := List.exists_perm_sublist (List.sublist_append_left _ lo) h
    exact ⟨l, hl1.symm, hl2⟩

end BloomVerif
