import BloomVerif.Model.Stats
namespace BloomVerif.Stats
open BloomVerif.ReadPlan

theorem addEntry_comm (t : Totals) (a b : Entry) : addEntry (addEntry t a) b = addEntry (addEntry t b) a := by
  unfold addEntry
  cases a.skipped <;> cases b.skipped <;> simp <;> omega

theorem foldl_addEntry_perm (l1 l2 : List Entry) (h : l1.Perm l2) (t : Totals) :
    l1.foldl addEntry t = l2.foldl addEntry t := by
  induction h generalizing t with
  | nil => rfl
  | cons x _ ih => simp only [List.foldl_cons]; exact ih _
  | swap x y l => simp only [List.foldl_cons]; rw [addEntry_comm]
  | trans _ _ ih1 ih2 => exact (ih1 t).trans (ih2 t)

/-- the fold as explicit sums -/
theorem totals_eq_sums_aux (es : List Entry) (t : Totals) :
    es.foldl addEntry t =
      { rowsScanned := t.rowsScanned + ((es.filter (!·.skipped)).map (·.rowsProcessed)).sum,
        bytesScanned := t.bytesScanned + ((es.filter (!·.skipped)).map (·.bytesProcessed)).sum,
        blocksProcessed := t.blocksProcessed + (es.filter (!·.skipped)).length,
        blocksSkipped := t.blocksSkipped + (es.filter (·.skipped)).length } := by
  induction es generalizing t with
  | nil => simp
  | cons e es ih =>
    simp only [List.foldl_cons]
    rw [ih]
    unfold addEntry
    cases h : e.skipped <;> simp [h] <;> omega

theorem returned_length (hb : Bool) (bs : List SBlock) : (returned hb bs).length = rowsMatched hb bs := by
  unfold returned rowsMatched
  induction evaluated bs with
  | nil => rfl
  | cons b t ih =>
    simp only [List.flatMap_cons, List.length_append, List.map_cons, List.sum_cons, ih]
    cases blockStat hb b.q <;> simp

end BloomVerif.Stats
