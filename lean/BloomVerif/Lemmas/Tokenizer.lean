/- The fast tokenizer path equals the reference whenever lowering preserves the space class; the
   hypothesis is proved for the regenerated Unicode tables by kernel evaluation over the whole table. -/
import BloomVerif.Model.Tokenizer
namespace BloomVerif

theorem fieldsGo_map (sp : Char → Bool) (lo : Char → Char) (h : ∀ c, sp (lo c) = sp c) :
    ∀ (s cur : Str), fieldsGo sp (s.map lo) (cur.map lo) = (fieldsGo sp s cur).map (·.map lo)
  | [], cur => by
    simp only [List.map, fieldsGo]
    by_cases hc : cur = []
    · simp [hc]
    · have : cur.map lo ≠ [] := by simpa using hc
      simp [hc, List.map_reverse]
  | c :: r, cur => by
    simp only [List.map, fieldsGo, h]
    by_cases hp : sp c = true
    · simp only [hp, if_true]
      by_cases hc : cur = []
      · have ih := fieldsGo_map sp lo h r []
        simp only [List.map] at ih
        simp [hc, ih]
      · have : cur.map lo ≠ [] := by simpa using hc
        have ih := fieldsGo_map sp lo h r []
        simp only [List.map] at ih
        simp [hc, ih, List.map_reverse]
    · have ih := fieldsGo_map sp lo h r (c :: cur)
      simp only [List.map] at ih
      simp [hp, ih]

/-- **fast_tokenizer_eq**: split-then-fold equals fold-then-split for every text. -/
theorem fast_tokenizer_eq (sp : Char → Bool) (lo : Char → Char) (h : ∀ c, sp (lo c) = sp c) (s : Str) :
    tokFast sp lo s = tokRef sp lo s := by
  unfold tokFast tokRef fieldsOn
  have := fieldsGo_map sp lo h s []
  simpa using this.symm

/-- Kernel-checked over the whole regenerated table: no case mapping touches a space rune. -/
theorem lowerPairs_no_space :
    Gen.lowerPairs.all (fun p => !(Gen.spaceCps.contains p.1) && !(Gen.spaceCps.contains p.2)) = true := by
  decide +kernel

theorem lookup_mem {α β} [BEq α] [LawfulBEq α] (l : List (α × β)) (a : α) (b : β)
    (h : l.lookup a = some b) : (a, b) ∈ l := by
  induction l with
  | nil => simp at h
  | cons x t ih =>
    obtain ⟨x1, x2⟩ := x
    simp only [List.lookup] at h
    by_cases hx : a == x1
    · simp only [hx] at h
      have : a = x1 := by simpa using hx
      simp_all
    · simp only [hx] at h
      exact List.mem_cons_of_mem _ (ih h)

theorem isSpaceCp_lowerCp (n : Nat) : isSpaceCp (lowerCp n) = isSpaceCp n := by
  unfold lowerCp
  cases h : Gen.lowerPairs.lookup n with
  | none => rfl
  | some m =>
    have hm := lookup_mem _ _ _ h
    have hall := List.all_eq_true.mp lowerPairs_no_space (n, m) hm
    simp only [Bool.and_eq_true, Bool.not_eq_true'] at hall
    simp only [isSpaceCp, hall.1, hall.2]

theorem lowerCp_lt (n : Nat) (h : n < 0x110000) : lowerCp n < 0x110000 := by
  unfold lowerCp
  cases hl : Gen.lowerPairs.lookup n with
  | none => exact h
  | some m =>
    have hm := lookup_mem _ _ _ hl
    have : Gen.lowerPairs.all (fun p => decide (p.2 < 0x110000)) = true := by decide +kernel
    have := List.all_eq_true.mp this (n, m) hm
    simpa using this

end BloomVerif
