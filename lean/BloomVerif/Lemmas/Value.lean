/- Helper lemmas for C03. -/
import BloomVerif.Model.Value
namespace BloomVerif

theorem dedupFirst_nodup_aux (kvs : List (Str × J)) (h : (kvs.map (·.1)).Nodup) : dedupFirst kvs = kvs := by
  induction kvs with
  | nil => rfl
  | cons p r ih =>
    obtain ⟨k, v⟩ := p
    simp only [List.map_cons, List.nodup_cons] at h
    obtain ⟨hk, hr⟩ := h
    simp only [dedupFirst, ih hr]
    congr 1
    rw [List.filter_eq_self]
    intro a ha
    simp only [bne_iff_ne, ne_eq]
    intro e
    exact hk (e ▸ List.mem_map_of_mem (f := (·.1)) ha)

theorem dedupLast_nodup_aux (kvs : List (Str × J)) (h : (kvs.map (·.1)).Nodup) : dedupLast kvs = kvs := by
  induction kvs with
  | nil => rfl
  | cons p r ih =>
    obtain ⟨k, v⟩ := p
    simp only [List.map_cons, List.nodup_cons] at h
    obtain ⟨hk, hr⟩ := h
    have hany : r.any (fun p => p.1 == k) = false := by
      rw [List.any_eq_false]
      intro a ha
      simp only [beq_iff_eq]
      intro e
      exact hk (e ▸ List.mem_map_of_mem (f := (·.1)) ha)
    simp [dedupLast, hany, ih hr]

theorem valueFirstKV_keys (kvs : List (Str × J)) : (valueFirstKV kvs).map (·.1) = kvs.map (·.1) := by
  induction kvs with
  | nil => simp [valueFirstKV]
  | cons p r ih => obtain ⟨k, v⟩ := p; simp [valueFirstKV, ih]

theorem valueLastKV_keys (kvs : List (Str × J)) : (valueLastKV kvs).map (·.1) = kvs.map (·.1) := by
  induction kvs with
  | nil => simp [valueLastKV]
  | cons p r ih => obtain ⟨k, v⟩ := p; simp [valueLastKV, ih]

mutual
  theorem value_agree_J : ∀ (t : J), NoDupKeys t → valueFirst t = valueLast t
    | .obj kvs, h => by
      simp only [NoDupKeys] at h
      obtain ⟨hnd, hkv⟩ := h
      have e := value_agree_KV kvs hkv
      simp only [valueFirst, valueLast]
      rw [dedupFirst_nodup_aux _ (by rw [valueFirstKV_keys]; exact hnd),
          dedupLast_nodup_aux _ (by rw [valueLastKV_keys]; exact hnd), e]
    | .arr xs, h => by
      simp only [NoDupKeys] at h
      simp only [valueFirst, valueLast, value_agree_L xs h]
    | .null, _ => by simp [valueFirst, valueLast]
    | .bool _, _ => by simp [valueFirst, valueLast]
    | .num _, _ => by simp [valueFirst, valueLast]
    | .str _, _ => by simp [valueFirst, valueLast]
  theorem value_agree_KV : ∀ (kvs : List (Str × J)), NoDupKeysKV kvs → valueFirstKV kvs = valueLastKV kvs
    | [], _ => by simp [valueFirstKV, valueLastKV]
    | (k, v) :: r, h => by
      simp only [NoDupKeysKV] at h
      simp only [valueFirstKV, valueLastKV, value_agree_J v h.1, value_agree_KV r h.2]
  theorem value_agree_L : ∀ (xs : List J), NoDupKeysL xs → valueFirstL xs = valueLastL xs
    | [], _ => by simp [valueFirstL, valueLastL]
    | v :: r, h => by
      simp only [NoDupKeysL] at h
      simp only [valueFirstL, valueLastL, value_agree_J v h.1, value_agree_L r h.2]
end

theorem value_agree_aux (t : J) (h : NoDupKeys t) : valueFirst t = valueLast t :=
  value_agree_J t h

theorem dup_key_differs_aux :
    valueFirst (.obj [(['a'], .num ['1']), (['a'], .num ['2'])]) ≠ valueLast (.obj [(['a'], .num ['1']), (['a'], .num ['2'])]) := by
  simp [valueFirst, valueLast, valueFirstKV, valueLastKV, dedupFirst, dedupLast]

theorem scanRowsOps_mem (b : Nat) (matched : Nat → Bool) (n i : Nat) (op : ScanOp)
    (h : op ∈ scanRowsOps b matched i n) : (∃ r, op = .view b r) ∨ (∃ r, op = .copy b r) := by
  induction n generalizing i with
  | zero => simp [scanRowsOps] at h
  | succ n ih =>
    simp only [scanRowsOps, List.mem_append, List.mem_singleton] at h
    rcases h with (h | h) | h
    · exact .inl ⟨i, h⟩
    · split at h
      · exact .inr ⟨i, by simpa using h⟩
      · simp at h
    · exact ih _ h

theorem deliveries_mem (matched : Nat → Bool) (n i : Nat) (op : ScanOp)
    (h : op ∈ deliveries matched i n) : ∃ r, op = .deliver r ∧ matched r = true ∧ i ≤ r ∧ r < i + n := by
  induction n generalizing i with
  | zero => simp [deliveries] at h
  | succ n ih =>
    simp only [deliveries, List.mem_append] at h
    rcases h with h | h
    · split at h
      · rename_i hm
        exact ⟨i, by simpa using h, hm, Nat.le_refl _, by omega⟩
      · simp at h
    · obtain ⟨r, h1, h2, h3, h4⟩ := ih _ h
      exact ⟨r, h1, h2, by omega, by omega⟩

theorem copy_mem_scanRowsOps (b : Nat) (matched : Nat → Bool) (n i r : Nat)
    (hm : matched r = true) (h1 : i ≤ r) (h2 : r < i + n) : ScanOp.copy b r ∈ scanRowsOps b matched i n := by
  induction n generalizing i with
  | zero => omega
  | succ n ih =>
    simp only [scanRowsOps, List.mem_append]
    by_cases e : i = r
    · subst e
      left; right
      simp [hm]
    · right
      exact ih (i + 1) (by omega) (by omega)

theorem noUseAfterPut_append_put (b : Nat) (l : List ScanOp) (h : ∀ op ∈ l, ∀ b', op ≠ .put b') :
    NoUseAfterPut b (l ++ [.put b]) := by
  induction l with
  | nil => simp [NoUseAfterPut]
  | cons op l ih =>
    have ih' := ih (fun o ho => h o (List.mem_cons_of_mem _ ho))
    cases op with
    | put b' => exact absurd rfl (h _ List.mem_cons_self b')
    | _ => simpa [NoUseAfterPut] using ih'

theorem scan_no_use_after_put_aux (b : Nat) (matched : Nat → Bool) (n : Nat) :
    NoUseAfterPut b (scanTrace b matched n) := by
  unfold scanTrace
  apply noUseAfterPut_append_put
  intro op hop b'
  simp only [List.mem_append, List.mem_cons, List.not_mem_nil, or_false] at hop
  rcases hop with ((h | h) | h) | h
  · subst h; simp
  · subst h; simp
  · rcases scanRowsOps_mem _ _ _ _ _ h with ⟨r, e⟩ | ⟨r, e⟩ <;> subst e <;> simp
  · obtain ⟨r, e, _⟩ := deliveries_mem _ _ _ _ h
    subst e; simp

/-- Every delivered row was copied out of the buffer before (deliveries come from copies). -/
theorem deliver_after_copy_aux (b : Nat) (matched : Nat → Bool) (n : Nat) (r : Nat)
    (h : ScanOp.deliver r ∈ scanTrace b matched n) : ScanOp.copy b r ∈ scanTrace b matched n := by
  unfold scanTrace at h ⊢
  simp only [List.mem_append, List.mem_cons, List.not_mem_nil, or_false] at h
  have hd : ScanOp.deliver r ∈ deliveries matched 0 n := by
    rcases h with (((h | h) | h) | h) | h
    · cases h
    · cases h
    · rcases scanRowsOps_mem _ _ _ _ _ h with ⟨r', e⟩ | ⟨r', e⟩ <;> cases e
    · exact h
    · cases h
  obtain ⟨r', e, hm, h1, h2⟩ := deliveries_mem _ _ _ _ hd
  cases e
  have := copy_mem_scanRowsOps b matched n 0 r hm h1 h2
  simp only [List.mem_append]
  exact .inl (.inl (.inr this))

end BloomVerif
