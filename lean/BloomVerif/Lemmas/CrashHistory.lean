/- C15 over histories: a flush (successful or failed) of one pointer never disturbs the durable files of
   other pointers, so every file whose flush completed stays complete in every crash state at every later
   mutation boundary. -/
import BloomVerif.Lemmas.Crash
namespace BloomVerif.Crash
open BloomVerif BloomVerif.FSStore

/-- The names of `b'` are disjoint from the names of `b`. -/
def NamesApart (b b' : String) : Prop :=
  dat b' ≠ dat b ∧ dat b' ≠ tmp b ∧ tmp b' ≠ dat b ∧ tmp b' ≠ tmp b


/-! ### Helpers: per-step invariants -/

/-- The inode well-formedness conjuncts of `FreshFor`. -/
def crashH_WF (c : CFS) : Prop :=
  (∀ p i, c.cur.lookup p = some i → i < c.cur.next) ∧ (∀ p i, c.dur.lookup p = some i → i < c.cur.next) ∧
  (∀ i, (c.cur.inodes.lookup i).isSome → i < c.cur.next) ∧ (c.cur.inodes.map (·.1)).Nodup

/-- Path `p` is bound in neither view. -/
def crashH_Absent (p : String) (c : CFS) : Prop := c.cur.lookup p = none ∧ c.dur.lookup p = none

theorem crashH_FreshFor_iff (c : CFS) (b : String) :
    FreshFor c b ↔ crashH_WF c ∧ crashH_Absent (dat b) c ∧ crashH_Absent (tmp b) c := by
  unfold FreshFor crashH_WF crashH_Absent
  constructor
  · rintro ⟨h1, h2, h3, h4, h5, h6, h7, h8⟩; exact ⟨⟨h5, h6, h7, h8⟩, ⟨h1, h3⟩, ⟨h2, h4⟩⟩
  · rintro ⟨⟨h5, h6, h7, h8⟩, ⟨h1, h3⟩, ⟨h2, h4⟩⟩; exact ⟨h1, h2, h3, h4, h5, h6, h7, h8⟩

theorem crashH_lookup_isSome_of_mem {β : Type} (l : List (Nat × β)) (i : Nat) (h : i ∈ l.map (·.1)) :
    (l.lookup i).isSome := by
  induction l with
  | nil => simp at h
  | cons x xs ih =>
    obtain ⟨k, v⟩ := x
    grind

theorem crashH_run_append (c : CFS) (a b : List FOp) : run c (a ++ b) = run (run c a) b := by
  simp [run, List.foldl_append]

/-- A step-invariant lifts to runs. -/
theorem crashH_run_inv (P : CFS → Prop) (Q : FOp → Prop) (hstep : ∀ c op, Q op → P c → P (step c op))
    (ops : List FOp) (hall : ∀ op ∈ ops, Q op) (c : CFS) (h : P c) : P (run c ops) := by
  induction ops generalizing c with
  | nil => simpa [run] using h
  | cons o ops ih =>
    have := ih (fun op hop => hall op (List.mem_cons_of_mem _ hop)) (step c o) (hstep c o (hall o List.mem_cons_self) h)
    simpa [run] using this

theorem crashH_run_inv_take (P : CFS → Prop) (Q : FOp → Prop) (hstep : ∀ c op, Q op → P c → P (step c op))
    (ops : List FOp) (hall : ∀ op ∈ ops, Q op) (n : Nat) (c : CFS) (h : P c) : P (run c (ops.take n)) :=
  crashH_run_inv P Q hstep _ (fun op hop => hall op (List.mem_of_mem_take hop)) c h

/-- Every step preserves inode well-formedness. -/
theorem crashH_WF_step (c : CFS) (op : FOp) (h : crashH_WF c) : crashH_WF (step c op) := by
  obtain ⟨h1, h2, h3, h4⟩ := h
  cases op with
  | createExcl p =>
    cases hl : c.cur.lookup p with
    | some j => simp only [step, FS.createExcl, hl]; exact ⟨h1, h2, h3, h4⟩
    | none =>
      simp only [step, FS.createExcl, hl]
      refine ⟨?_, ?_, ?_, ?_⟩
      · intro q i hq
        simp only [FS.lookup, List.lookup_append] at hq
        cases hq' : List.lookup q c.cur.names with
        | some j =>
          have := h1 q j hq'
          simp [hq'] at hq
          show _ < c.cur.next + 1; omega
        | none =>
          simp only [hq', Option.none_or, crash_lookup_single] at hq
          split at hq
          · simp at hq; show _ < c.cur.next + 1; omega
          · simp at hq
      · intro q i hq; have := h2 q i hq; show _ < c.cur.next + 1; omega
      · intro i hi
        simp only [List.lookup_append] at hi
        cases hi' : List.lookup i c.cur.inodes with
        | some x => have := h3 i (by simp [hi']); show _ < c.cur.next + 1; omega
        | none =>
          simp only [hi', Option.none_or, crash_lookup_single] at hi
          split at hi
          · show _ < c.cur.next + 1; omega
          · simp at hi
      · simp only [List.map_append, List.map_cons, List.map_nil]
        rw [List.nodup_append]
        refine ⟨h4, by simp, ?_⟩
        intro a ha b hb
        simp at hb
        subst hb
        have := h3 a (crashH_lookup_isSome_of_mem _ _ ha)
        omega
  | write p bs =>
    cases hl : c.cur.lookup p with
    | none => simp only [step, hl]; exact ⟨h1, h2, h3, h4⟩
    | some j =>
      simp only [step, hl]
      refine ⟨h1, h2, ?_, ?_⟩
      · intro i hi
        rw [crash_append_inodes] at hi
        exact h3 i (by simpa using hi)
      · have : (c.cur.append j bs).inodes.map (·.1) = c.cur.inodes.map (·.1) := by
          simp only [FS.append, List.map_map]
          apply List.map_congr_left
          intro x _
          simp only [Function.comp]
          split <;> simp_all
        rw [this]; exact h4
  | fsync p =>
    cases hl : c.cur.lookup p with
    | none => simp only [step, hl]; exact ⟨h1, h2, h3, h4⟩
    | some j => simp only [step, hl]; exact ⟨h1, h2, h3, h4⟩
  | rename a b =>
    cases hl : c.cur.lookup a with
    | none => simp only [step, FS.rename, hl]; exact ⟨h1, h2, h3, h4⟩
    | some j =>
      simp only [step, FS.rename, hl]
      refine ⟨?_, h2, h3, h4⟩
      intro q i hq
      simp only [FS.lookup, List.lookup_append, crash_lookup_filter, crash_lookup_single] at hq
      have hj := h1 a j hl
      have hq' := h1 q
      simp only [FS.lookup] at hq'
      grind
  | remove p =>
    simp only [step, FS.remove]
    refine ⟨?_, h2, h3, h4⟩
    intro q i hq
    simp only [FS.lookup, crash_lookup_filter1] at hq
    have hq' := h1 q
    simp only [FS.lookup] at hq'
    grind
  | dirsync =>
    simp only [step]
    exact ⟨h1, h1, h3, h4⟩

/-- The operation does not mention path `p`. -/
def crashH_avoids (p : String) : FOp → Prop
  | .createExcl q => q ≠ p
  | .write q _ => q ≠ p
  | .fsync q => q ≠ p
  | .rename a b => a ≠ p ∧ b ≠ p
  | .remove q => q ≠ p
  | .dirsync => True

/-- The operation belongs to the flush protocol (successful or failed) of pointer `b`. -/
def crashH_own (b : String) : FOp → Prop
  | .createExcl q => q = dat b ∨ q = tmp b
  | .write q _ => q = tmp b
  | .fsync q => q = tmp b
  | .rename a q => a = tmp b ∧ q = dat b
  | .remove q => q = dat b ∨ q = tmp b
  | .dirsync => True

theorem crashH_own_avoids (b p : String) (op : FOp) (h : crashH_own b op) (h1 : p ≠ dat b) (h2 : p ≠ tmp b) :
    crashH_avoids p op := by
  cases op <;> simp only [crashH_own, crashH_avoids] at h ⊢ <;> grind

/-- A path that is absent stays absent under operations that do not mention it. -/
theorem crashH_Absent_step (p : String) (c : CFS) (op : FOp) (hav : crashH_avoids p op) (h : crashH_Absent p c) :
    crashH_Absent p (step c op) := by
  obtain ⟨h1, h2⟩ := h
  simp only [FS.lookup] at h1
  cases op with
  | createExcl q =>
    simp only [crashH_avoids] at hav
    cases hl : c.cur.lookup q with
    | some j => simp only [step, FS.createExcl, hl]; exact ⟨h1, h2⟩
    | none =>
      simp only [step, FS.createExcl, hl]
      refine ⟨?_, h2⟩
      simp only [FS.lookup, List.lookup_append, h1, Option.none_or, crash_lookup_single]
      simp [Ne.symm hav]
  | write q bs =>
    cases hl : c.cur.lookup q with
    | none => simp only [step, hl]; exact ⟨h1, h2⟩
    | some j => simp only [step, hl]; exact ⟨h1, h2⟩
  | fsync q =>
    cases hl : c.cur.lookup q with
    | none => simp only [step, hl]; exact ⟨h1, h2⟩
    | some j => simp only [step, hl]; exact ⟨h1, h2⟩
  | rename a b =>
    simp only [crashH_avoids] at hav
    cases hl : c.cur.lookup a with
    | none => simp only [step, FS.rename, hl]; exact ⟨h1, h2⟩
    | some j =>
      simp only [step, FS.rename, hl]
      refine ⟨?_, h2⟩
      simp only [FS.lookup, List.lookup_append, crash_lookup_filter, crash_lookup_single, h1]
      simp [Ne.symm hav.2]
  | remove q =>
    simp only [step, FS.remove]
    refine ⟨?_, h2⟩
    simp only [FS.lookup, crash_lookup_filter1, h1]
    simp
  | dirsync =>
    simp only [step]
    exact ⟨h1, h1⟩

/-- The frame invariant while pointer `b` is being flushed: `b'.dat` is bound, currently and durably, to
    inode `i` holding the complete fsynced content `d`; `i` is an allocated inode number; and the inode
    `b`'s writes go to (the one bound to `b.tmp`, if any) is not `i`. -/
def crashH_J (b b' : String) (d : Bytes) (i : Nat) (c : CFS) : Prop :=
  c.cur.lookup (dat b') = some i ∧ c.dur.lookup (dat b') = some i ∧ c.cur.data i = d ∧ syncedLen c i = d.length ∧
  i < c.cur.next ∧ ∀ j, c.cur.lookup (tmp b) = some j → j ≠ i

theorem crashH_J_step (b b' : String) (d : Bytes) (i : Nat) (ha : NamesApart b b') (c : CFS) (op : FOp)
    (hown : crashH_own b op) (h : crashH_J b b' d i c) : crashH_J b b' d i (step c op) := by
  obtain ⟨a1, a2, a3, a4⟩ := ha
  obtain ⟨h1, h2, h3, h4, h5, h6⟩ := h
  have h1' := h1
  simp only [FS.lookup] at h1'
  cases op with
  | createExcl q =>
    simp only [crashH_own] at hown
    have hq : dat b' ≠ q := by rcases hown with rfl | rfl <;> assumption
    cases hl : c.cur.lookup q with
    | some j => simp only [step, FS.createExcl, hl]; exact ⟨h1, h2, h3, h4, h5, h6⟩
    | none =>
      simp only [step, FS.createExcl, hl]
      refine ⟨?_, h2, ?_, h4, ?_, ?_⟩
      · simp only [FS.lookup, List.lookup_append, h1', Option.some_or]
      · simp only [FS.data, List.lookup_append] at h3 ⊢
        cases hi : List.lookup i c.cur.inodes with
        | some x => simpa [hi] using h3
        | none =>
          have hne : i ≠ c.cur.next := by omega
          simpa [hi, crash_lookup_single, hne] using h3
      · show _ < c.cur.next + 1; omega
      · intro j hj
        simp only [FS.lookup, List.lookup_append] at hj
        cases ht : List.lookup (tmp b) c.cur.names with
        | some x =>
          simp only [ht, Option.some_or, Option.some.injEq] at hj
          subst hj
          exact h6 x ht
        | none =>
          simp only [ht, Option.none_or, crash_lookup_single] at hj
          split at hj
          · simp at hj; omega
          · simp at hj
  | write q bs =>
    simp only [crashH_own] at hown
    subst hown
    cases hl : c.cur.lookup (tmp b) with
    | none => simp only [step, hl]; exact ⟨h1, h2, h3, h4, h5, h6⟩
    | some j =>
      have hne : i ≠ j := Ne.symm (h6 j hl)
      simp only [step, hl]
      refine ⟨h1, h2, ?_, h4, h5, h6⟩
      simp only [FS.data, crash_append_inodes] at h3 ⊢
      simpa [hne] using h3
  | fsync q =>
    simp only [crashH_own] at hown
    subst hown
    cases hl : c.cur.lookup (tmp b) with
    | none => simp only [step, hl]; exact ⟨h1, h2, h3, h4, h5, h6⟩
    | some j =>
      have hne : i ≠ j := Ne.symm (h6 j hl)
      simp only [step, hl]
      refine ⟨h1, h2, h3, ?_, h5, h6⟩
      simp only [syncedLen] at h4 ⊢
      have : (i == j) = false := by simpa using hne
      simpa [List.lookup_cons, this] using h4
  | rename a q =>
    simp only [crashH_own] at hown
    obtain ⟨rfl, rfl⟩ := hown
    cases hl : c.cur.lookup (tmp b) with
    | none => simp only [step, FS.rename, hl]; exact ⟨h1, h2, h3, h4, h5, h6⟩
    | some j =>
      have hne : j ≠ i := h6 j hl
      simp only [step, FS.rename, hl]
      refine ⟨?_, h2, h3, h4, h5, ?_⟩
      · simp only [FS.lookup, List.lookup_append, crash_lookup_filter, h1']
        simp [a1, a2]
      · intro k hk
        simp only [FS.lookup, List.lookup_append, crash_lookup_filter, crash_lookup_single] at hk
        simp only [true_or, if_true, Option.none_or] at hk
        split at hk
        · simp at hk; omega
        · simp at hk
  | remove q =>
    simp only [crashH_own] at hown
    have hq : dat b' ≠ q := by rcases hown with rfl | rfl <;> assumption
    simp only [step, FS.remove]
    refine ⟨?_, h2, h3, h4, h5, ?_⟩
    · simp only [FS.lookup, crash_lookup_filter1, hq, if_false]; exact h1
    · intro k hk
      simp only [FS.lookup, crash_lookup_filter1] at hk
      split at hk
      · simp at hk
      · exact h6 k hk
  | dirsync =>
    simp only [step]
    exact ⟨h1, h1, h3, h4, h5, h6⟩

theorem crashH_own_flushOps (b : String) (chunks : List Bytes) : ∀ op ∈ flushOps b chunks, crashH_own b op := by
  intro op hop
  simp only [flushOps, List.mem_append, List.mem_cons, List.mem_map, List.not_mem_nil, or_false] at hop
  rcases hop with ((rfl | rfl) | ⟨ch, _, rfl⟩) | rfl | rfl | rfl <;> simp [crashH_own]

theorem crashH_own_failedFlushOps (b : String) (chunks : List Bytes) :
    ∀ op ∈ failedFlushOps b chunks, crashH_own b op := by
  intro op hop
  simp only [failedFlushOps, abortedFlushOps, List.mem_append, List.mem_cons, List.mem_map, List.not_mem_nil,
    or_false] at hop
  rcases hop with (((rfl | rfl) | ⟨ch, _, rfl⟩) | rfl | rfl) | rfl | rfl <;> simp [crashH_own]

theorem crashH_J_init (c : CFS) (b b' : String) (d : Bytes) (hf : FreshFor c b) (hfin : crash_Final b' d c) :
    ∃ i, crashH_J b b' d i c := by
  obtain ⟨i, h1, h2, h3, h4⟩ := hfin
  refine ⟨i, h1, h2, h3, h4, hf.2.2.2.2.1 _ _ h1, ?_⟩
  intro j hj
  rw [hf.2.1] at hj
  simp at hj

theorem crashH_J_Final (b b' : String) (d : Bytes) (i : Nat) (c : CFS) (h : crashH_J b b' d i c) :
    crash_Final b' d c :=
  ⟨i, h.1, h.2.1, h.2.2.1, h.2.2.2.1⟩

theorem crashH_Final_frame_own (c : CFS) (b b' : String) (ops : List FOp) (d : Bytes)
    (hops : ∀ op ∈ ops, crashH_own b op) (hf : FreshFor c b) (ha : NamesApart b b') (hfin : crash_Final b' d c) :
    crash_Final b' d (run c ops) := by
  obtain ⟨i, hJ⟩ := crashH_J_init c b b' d hf hfin
  exact crashH_J_Final b b' d i _
    (crashH_run_inv (crashH_J b b' d i) (crashH_own b) (crashH_J_step b b' d i ha) ops hops c hJ)

/-- Frame: while pointer `b` is being flushed (any prefix of its operations), a durable complete file of
    another pointer stays durable and complete. -/
theorem crash_Final_frame_flush (c : CFS) (b b' : String) (chunks : List Bytes) (d : Bytes) (n : Nat)
    (hb : dat b ≠ tmp b) (hf : FreshFor c b) (ha : NamesApart b b') (hfin : crash_Final b' d c) :
    crash_Final b' d (run c ((flushOps b chunks).take n)) := by
  have _ := hb
  exact crashH_Final_frame_own c b b' _ d
    (fun op hop => crashH_own_flushOps b chunks op (List.mem_of_mem_take hop)) hf ha hfin

/-- The same for a failed flush (Abort, then TombstoneFile). -/
theorem crash_Final_frame_failed (c : CFS) (b b' : String) (chunks : List Bytes) (d : Bytes) (n : Nat)
    (hb : dat b ≠ tmp b) (hf : FreshFor c b) (ha : NamesApart b b') (hfin : crash_Final b' d c) :
    crash_Final b' d (run c ((failedFlushOps b chunks).take n)) := by
  have _ := hb
  exact crashH_Final_frame_own c b b' _ d
    (fun op hop => crashH_own_failedFlushOps b chunks op (List.mem_of_mem_take hop)) hf ha hfin

/-- One flush of a history: base name, the chunks written, and whether it succeeded. -/
structure Flush where
  base : String
  chunks : List Bytes
  ok : Bool

def Flush.ops (f : Flush) : List FOp := if f.ok then flushOps f.base f.chunks else failedFlushOps f.base f.chunks

def historyOps (fs : List Flush) : List FOp := fs.flatMap Flush.ops

/-- The flushes of a history use pairwise disjoint names, each with `dat ≠ tmp`. -/
def GoodNames : List Flush → Prop
  | [] => True
  | f :: rest => dat f.base ≠ tmp f.base ∧ (∀ g ∈ rest, NamesApart f.base g.base ∧ NamesApart g.base f.base) ∧ GoodNames rest


/-! ### Helpers: invariants over a history -/

theorem crashH_historyOps_cons (f : Flush) (rest : List Flush) :
    historyOps (f :: rest) = f.ops ++ historyOps rest := by
  simp [historyOps]

theorem crashH_own_ops (f : Flush) : ∀ op ∈ f.ops, crashH_own f.base op := by
  intro op hop
  unfold Flush.ops at hop
  split at hop
  · exact crashH_own_flushOps _ _ op hop
  · exact crashH_own_failedFlushOps _ _ op hop

/-- What must hold of the state from which the flushes `fs` are run: inodes are well-formed and no name of
    any flush still to come is bound, currently or durably. -/
def crashH_Pre (fs : List Flush) (c : CFS) : Prop :=
  crashH_WF c ∧ ∀ g ∈ fs, crashH_Absent (dat g.base) c ∧ crashH_Absent (tmp g.base) c

theorem crashH_Pre_fresh (f : Flush) (rest : List Flush) (c : CFS) (h : crashH_Pre (f :: rest) c) :
    FreshFor c f.base :=
  (crashH_FreshFor_iff c f.base).2 ⟨h.1, h.2 f List.mem_cons_self⟩

theorem crashH_WF_run (c : CFS) (ops : List FOp) (h : crashH_WF c) : crashH_WF (run c ops) :=
  crashH_run_inv crashH_WF (fun _ => True) (fun c op _ h => crashH_WF_step c op h) ops (fun _ _ => trivial) c h

theorem crashH_Absent_own (b p : String) (ops : List FOp) (hops : ∀ op ∈ ops, crashH_own b op)
    (h1 : p ≠ dat b) (h2 : p ≠ tmp b) (c : CFS) (h : crashH_Absent p c) : crashH_Absent p (run c ops) :=
  crashH_run_inv (crashH_Absent p) (crashH_avoids p) (crashH_Absent_step p) ops
    (fun op hop => crashH_own_avoids b p op (hops op hop) h1 h2) c h

/-- After any prefix of the first flush, the preconditions hold for the remaining flushes. -/
theorem crashH_Pre_next (f : Flush) (rest : List Flush) (c : CFS) (n : Nat) (hg : GoodNames (f :: rest))
    (h : crashH_Pre (f :: rest) c) : crashH_Pre rest (run c (f.ops.take n)) := by
  refine ⟨crashH_WF_run c _ h.1, ?_⟩
  intro g hgm
  obtain ⟨a1, a2, a3, a4⟩ := (hg.2.1 g hgm).1
  have hops : ∀ op ∈ f.ops.take n, crashH_own f.base op :=
    fun op hop => crashH_own_ops f op (List.mem_of_mem_take hop)
  have hab := h.2 g (List.mem_cons_of_mem _ hgm)
  exact ⟨crashH_Absent_own f.base _ _ hops a1 a2 c hab.1, crashH_Absent_own f.base _ _ hops a3 a4 c hab.2⟩

theorem crashH_flush_end_ok (f : Flush) (c : CFS) (hb : dat f.base ≠ tmp f.base) (hf : FreshFor c f.base)
    (hok : f.ok = true) : crash_Final f.base f.chunks.flatten (run c f.ops) := by
  unfold Flush.ops
  rw [if_pos hok]
  exact (crash_all_spec _ _ c _ (crash_flush_all _ hb _ c hf)).2

/-- A failed flush leaves an empty-or-absent `b.dat` at every boundary and no `b.dat` at all at the end. -/
theorem crashH_failed_all (b : String) (hb : dat b ≠ tmp b) (chunks : List Bytes) (c : CFS) (hf : FreshFor c b) :
    crash_all (crash_Empty b) (crashH_Absent (dat b)) c (failedFlushOps b chunks) := by
  unfold failedFlushOps
  refine crash_all_append _ _ _ c _ _ (crash_abort_all_end b hb chunks c hf) ?_
  intro c' h'
  have h1 := crash_Empty_remove b (dat b) c' h'
  have h2 := crash_Empty_remove b (tmp b) _ h1
  refine ⟨h', h1, h2, ?_, ?_⟩
  · simp only [step, FS.remove, FS.lookup, crash_lookup_filter1]
    simp
  · exact h'.1

/-- A durable complete file of a pointer outside the history stays so at every boundary of the history. -/
theorem crashH_Final_history (fs : List Flush) (b' : String) (d : Bytes) :
    ∀ (c : CFS) (n : Nat), GoodNames fs → crashH_Pre fs c → (∀ g ∈ fs, NamesApart g.base b') →
      crash_Final b' d c → crash_Final b' d (run c ((historyOps fs).take n)) := by
  induction fs with
  | nil => intro c n _ _ _ h; simpa [historyOps, run] using h
  | cons f rest ih =>
    intro c n hg hpre hap hfin
    rw [crashH_historyOps_cons, List.take_append, crashH_run_append]
    refine ih _ _ hg.2.2 (crashH_Pre_next f rest c n hg hpre) (fun g hg' => hap g (List.mem_cons_of_mem _ hg')) ?_
    exact crashH_Final_frame_own c f.base b' _ d
      (fun op hop => crashH_own_ops f op (List.mem_of_mem_take hop))
      (crashH_Pre_fresh f rest c hpre) (hap f List.mem_cons_self) hfin

/-- A path no flush of the history mentions stays absent at every boundary of the history. -/
theorem crashH_Absent_history (fs : List Flush) (p : String) (hp : ∀ g ∈ fs, p ≠ dat g.base ∧ p ≠ tmp g.base)
    (c : CFS) (n : Nat) (h : crashH_Absent p c) : crashH_Absent p (run c ((historyOps fs).take n)) := by
  refine crashH_run_inv_take (crashH_Absent p) (crashH_avoids p) (crashH_Absent_step p) _ ?_ n c h
  intro op hop
  simp only [historyOps, List.mem_flatMap] at hop
  obtain ⟨g, hg, hop⟩ := hop
  exact crashH_own_avoids g.base p op (crashH_own_ops g op hop) (hp g hg).1 (hp g hg).2

theorem crashH_completed (fs : List Flush) :
    ∀ (c : CFS) (k n : Nat) (f : Flush), GoodNames fs → crashH_Pre fs c →
      (historyOps (fs.take k)).length ≤ n → f ∈ fs.take k → f.ok = true →
      crash_Final f.base f.chunks.flatten (run c ((historyOps fs).take n)) := by
  induction fs with
  | nil => intro c k n f _ _ _ hmem; simp at hmem
  | cons g rest ih =>
    intro c k n f hg hpre hn hmem hok
    cases k with
    | zero => simp at hmem
    | succ k =>
      simp only [List.take_succ_cons] at hn hmem
      rw [crashH_historyOps_cons, List.length_append] at hn
      rw [crashH_historyOps_cons, List.take_append, crashH_run_append]
      have hfull : g.ops.take n = g.ops := List.take_of_length_le (by omega)
      have hpre' := crashH_Pre_next g rest c n hg hpre
      rw [hfull] at hpre' ⊢
      rcases List.mem_cons.1 hmem with rfl | hmem
      · refine crashH_Final_history rest _ _ _ _ hg.2.2 hpre' ?_ ?_
        · intro g' hg'; exact (hg.2.1 g' hg').2
        · exact crashH_flush_end_ok f c hg.1 (crashH_Pre_fresh f rest c hpre) hok
      · exact ih _ k _ f hg.2.2 hpre' (by omega) hmem hok

theorem crashH_failed (fs : List Flush) :
    ∀ (c : CFS) (n : Nat) (f : Flush), GoodNames fs → crashH_Pre fs c → f ∈ fs → f.ok = false →
      crash_Empty f.base (run c ((historyOps fs).take n)) := by
  induction fs with
  | nil => intro c n f _ _ hmem; simp at hmem
  | cons g rest ih =>
    intro c n f hg hpre hmem hok
    rw [crashH_historyOps_cons, List.take_append, crashH_run_append]
    have hpre' := crashH_Pre_next g rest c n hg hpre
    rcases List.mem_cons.1 hmem with rfl | hmem
    · have hops : f.ops = failedFlushOps f.base f.chunks := by simp [Flush.ops, hok]
      have hall := crash_all_spec _ _ c _ (crashH_failed_all f.base hg.1 f.chunks c (crashH_Pre_fresh f rest c hpre))
      by_cases hlt : n ≤ f.ops.length
      · have h0 : n - f.ops.length = 0 := by omega
        rw [h0]
        simp only [List.take_zero, run, List.foldl_nil]
        rw [hops]
        exact hall.1 n
      · have hfull : f.ops.take n = f.ops := List.take_of_length_le (by omega)
        rw [hfull]
        have habs : crashH_Absent (dat f.base) (run c f.ops) := by rw [hops]; exact hall.2
        have := crashH_Absent_history rest (dat f.base)
          (fun g' hg' => ⟨(hg.2.1 g' hg').2.1, (hg.2.1 g' hg').2.2.1⟩) _ (n - f.ops.length) habs
        exact ⟨this.2, Or.inl this.1⟩
    · exact ih _ _ f hg.2.2 hpre' hmem hok

theorem crashH_Pre_empty (fs : List Flush) : crashH_Pre fs {} := by
  refine ⟨⟨?_, ?_, ?_, ?_⟩, ?_⟩ <;> simp [crashH_Absent, FS.lookup]

/-- History theorem: starting from the empty directory, run any sequence of successful and failed flushes
    with distinct names and stop at ANY mutation boundary `n` of the whole history. Every flush that has
    completed successfully before that boundary is durable and complete there (so, by
    `crash_Final_power` / `crash_Final_proc`, it survives a process crash and every power-loss state).
    `k` counts completed flushes: the boundary `n` lies at or after the end of the first `k` flushes. -/
theorem history_completed_flushes_durable (fs : List Flush) (k n : Nat) (f : Flush)
    (hg : GoodNames fs) (hk : k ≤ fs.length) (hn : (historyOps (fs.take k)).length ≤ n)
    (hmem : f ∈ fs.take k) (hok : f.ok = true) :
    crash_Final f.base f.chunks.flatten (run {} ((historyOps fs).take n)) := by
  have _ := hk
  exact crashH_completed fs {} k n f hg (crashH_Pre_empty fs) hn hmem hok

/-- The hypotheses of `history_completed_flushes_durable` are satisfiable by a non-trivial history: two
    successful flushes "a" and "c" with a failed flush "b" in between. The boundary 17 lies inside the third
    flush (the first two take 7 + 7 operations); the first flush is complete there. -/
def crashH_exampleHistory : List Flush :=
  [⟨"a", [[1], [2]], true⟩, ⟨"b", [[3]], false⟩, ⟨"c", [[4, 5]], true⟩]

example : GoodNames crashH_exampleHistory := by
  simp [crashH_exampleHistory, GoodNames, NamesApart, dat, tmp]

example : crash_Final "a" [1, 2] (run {} ((historyOps crashH_exampleHistory).take 17)) :=
  history_completed_flushes_durable crashH_exampleHistory 2 17 ⟨"a", [[1], [2]], true⟩
    (by simp [crashH_exampleHistory, GoodNames, NamesApart, dat, tmp])
    (by simp [crashH_exampleHistory])
    (by decide)
    (by simp [crashH_exampleHistory])
    rfl

/-- … and a flush that failed never leaves content under its final name at any boundary of the history. -/
theorem history_failed_flushes_invisible (fs : List Flush) (n : Nat) (f : Flush)
    (hg : GoodNames fs) (hmem : f ∈ fs) (hok : f.ok = false) :
    crash_Empty f.base (run {} ((historyOps fs).take n)) :=
  crashH_failed fs {} n f hg (crashH_Pre_empty fs) hmem hok

example : crash_Empty "b" (run {} ((historyOps crashH_exampleHistory).take 17)) :=
  history_failed_flushes_invisible crashH_exampleHistory 17 ⟨"b", [[3]], false⟩
    (by simp [crashH_exampleHistory, GoodNames, NamesApart, dat, tmp])
    (by simp [crashH_exampleHistory])
    rfl

end BloomVerif.Crash
