/- Helper lemmas for C04: how exact comparisons of a numeric value transfer to its int64 range. -/
import BloomVerif.Model.NumVal
namespace BloomVerif

theorem floor_le_ceil (q : Rat) : q.floor ≤ q.ceil := by
  have h1 := Rat.floor_le q
  have h2 := @Rat.le_ceil q
  exact Rat.intCast_le_intCast.mp (Rat.le_trans h1 h2)

theorem toRange_le (v : NumVal) : (toRange v).1 ≤ (toRange v).2 := by
  cases v with
  | int i => simp [toRange]
  | rat q =>
    simp only [toRange]
    have := floor_le_ceil q
    rcases clamp_spec q.floor with c | c | c <;> rcases clamp_spec q.ceil with d | d | d <;>
      i64omega
  | posInf => simp [toRange]
  | negInf => simp [toRange]

/-- value > k ⇒ the range's upper end is above k, or saturated. -/
theorem gt_transfer (v : NumVal) (k : Int) (h : v.gt k) :
    (toRange v).2 > k ∨ (toRange v).2 = maxInt64 := by
  cases v with
  | int i =>
    simp only [toRange, NumVal.gt] at *
    rcases clamp_spec i with c | c | c <;> i64omega
  | rat q =>
    simp only [toRange, NumVal.gt] at *
    have hc : k < q.ceil := Rat.lt_ceil_iff.mpr h
    rcases clamp_spec q.ceil with c | c | c <;> i64omega
  | posInf => right; rfl
  | negInf => exact absurd h (by simp [NumVal.gt])

/-- value < k ⇒ the range's lower end is below k, or saturated. -/
theorem lt_transfer (v : NumVal) (k : Int) (h : v.lt k) :
    (toRange v).1 < k ∨ (toRange v).1 = minInt64 := by
  cases v with
  | int i =>
    simp only [toRange, NumVal.lt] at *
    rcases clamp_spec i with c | c | c <;> i64omega
  | rat q =>
    simp only [toRange, NumVal.lt] at *
    have hc : q.floor < k := Rat.floor_lt_iff.mpr h
    rcases clamp_spec q.floor with c | c | c <;> i64omega
  | posInf => exact absurd h (by simp [NumVal.lt])
  | negInf => right; rfl

/-- value ≥ k (k an int64) ⇒ the range's upper end is ≥ k. -/
theorem not_lt_transfer (v : NumVal) (k : Int) (hk : InI64 k) (h : ¬ v.lt k) :
    (toRange v).2 ≥ k := by
  unfold InI64 at hk
  cases v with
  | int i =>
    simp only [toRange, NumVal.lt] at *
    rcases clamp_spec i with c | c | c <;> i64omega
  | rat q =>
    simp only [toRange, NumVal.lt] at *
    have h' : (k : Rat) ≤ q := Rat.not_lt.mp h
    have hc : k ≤ q.ceil := Rat.intCast_le_intCast.mp (Rat.le_trans h' Rat.le_ceil)
    rcases clamp_spec q.ceil with c | c | c <;> i64omega
  | posInf => simp only [toRange]; exact hk.2
  | negInf => exact absurd trivial h

/-- value ≤ k (k an int64) ⇒ the range's lower end is ≤ k. -/
theorem not_gt_transfer (v : NumVal) (k : Int) (hk : InI64 k) (h : ¬ v.gt k) :
    (toRange v).1 ≤ k := by
  unfold InI64 at hk
  cases v with
  | int i =>
    simp only [toRange, NumVal.gt] at *
    rcases clamp_spec i with c | c | c <;> i64omega
  | rat q =>
    simp only [toRange, NumVal.gt] at *
    have h' : q ≤ (k : Rat) := Rat.not_lt.mp h
    have hc : q.floor ≤ k := Rat.intCast_le_intCast.mp (Rat.le_trans (Rat.floor_le q) h')
    rcases clamp_spec q.floor with c | c | c <;> i64omega
  | posInf => exact absurd trivial h
  | negInf => simp only [toRange]; exact hk.1

theorem eq_not_lt (v : NumVal) (k : Int) (h : v.eq k) : ¬ v.lt k := by
  cases v with
  | int i => simp only [NumVal.eq, NumVal.lt] at *; omega
  | rat q => simp only [NumVal.eq, NumVal.lt] at *; rw [h]; exact Rat.not_lt.mpr (Rat.le_refl)
  | posInf => simp [NumVal.lt]
  | negInf => simp [NumVal.eq] at h

theorem eq_not_gt (v : NumVal) (k : Int) (h : v.eq k) : ¬ v.gt k := by
  cases v with
  | int i => simp only [NumVal.eq, NumVal.gt] at *; omega
  | rat q => simp only [NumVal.eq, NumVal.gt] at *; rw [h]; exact Rat.not_lt.mpr (Rat.le_refl)
  | posInf => simp [NumVal.eq] at h
  | negInf => simp [NumVal.gt]

/-- A degenerate range strictly inside int64 pins the exact value. -/
theorem range_point_eq (v : NumVal) (k : Int) (h1 : (toRange v).1 = k) (h2 : (toRange v).2 = k)
    (hlo : minInt64 < k) (hhi : k < maxInt64) : v.eq k := by
  cases v with
  | int i =>
    simp only [toRange, NumVal.eq] at *
    rcases clamp_spec i with c | c | c <;> i64omega
  | rat q =>
    simp only [toRange, NumVal.eq] at *
    have hf : q.floor = k := by
      rcases clamp_spec q.floor with c | c | c <;> i64omega
    have hc : q.ceil = k := by
      rcases clamp_spec q.ceil with c | c | c <;> i64omega
    have a := Rat.floor_le q
    have b := @Rat.le_ceil q
    rw [hf] at a; rw [hc] at b
    exact Rat.le_antisymm b a
  | posInf => simp only [toRange] at h1; i64omega
  | negInf => simp only [toRange] at h2; i64omega

end BloomVerif
