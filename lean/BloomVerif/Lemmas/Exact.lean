/- Helper lemmas for C02 (exactness of query results). -/
import BloomVerif.Lemmas.Content
namespace BloomVerif

-- ---------------------------------------------------------------- list helpers

theorem flatMap_sublist_pointwise {α β : Type} (g h : α → List β) :
    ∀ l : List α, (∀ x ∈ l, (g x).Sublist (h x)) → (l.flatMap g).Sublist (l.flatMap h)
  | [], _ => by simp
  | a :: t, H => by
    simp only [List.flatMap_cons]
    exact List.Sublist.append (H a (List.mem_cons_self ..))
      (flatMap_sublist_pointwise g h t (fun x hx => H x (List.mem_cons_of_mem _ hx)))

theorem filter_flatMap_sublist {α β : Type} (p : α → Bool) (h : α → List β) :
    ∀ l : List α, ((l.filter p).flatMap h).Sublist (l.flatMap h)
  | [] => by simp
  | a :: t => by
    have ih := filter_flatMap_sublist p h t
    simp only [List.filter_cons, List.flatMap_cons]
    split
    · simp only [List.flatMap_cons]
      exact List.Sublist.append (List.Sublist.refl _) ih
    · exact List.Sublist.trans ih (List.sublist_append_right _ _)

theorem flatMap_congr_mem {α β : Type} (g h : α → List β) :
    ∀ l : List α, (∀ x ∈ l, g x = h x) → l.flatMap g = l.flatMap h
  | [], _ => by simp
  | a :: t, H => by
    simp only [List.flatMap_cons]
    rw [H a (List.mem_cons_self ..),
      flatMap_congr_mem g h t (fun x hx => H x (List.mem_cons_of_mem _ hx))]

-- ---------------------------------------------------------------- per-file facts

theorem keptBlocks_subset (q : Query) (f : FileM) (b : Block) (h : b ∈ keptBlocks q f) :
    b ∈ f.blocks := by
  unfold keptBlocks at h
  exact (List.mem_filter.mp h).1

theorem queryFile_sublist (s : Sem) (q : Query) (f : FileM) :
    (queryFile s q f).Sublist (f.blocks.flatMap (·.rows)) := by
  unfold queryFile
  simp only
  split
  · exact List.nil_sublist _
  · split
    · exact List.nil_sublist _
    · refine List.Sublist.trans ?_ (filter_flatMap_sublist (fun b => evalPre b.md q.pre) (·.rows) f.blocks)
      unfold keptBlocks
      apply flatMap_sublist_pointwise
      intro b _
      split
      · exact List.nil_sublist _
      · exact List.filter_sublist

theorem queryFile_matches (s : Sem) (q : Query) (f : FileM) (r : Row) (h : r ∈ queryFile s q f) :
    rowMatches s q r = true := by
  unfold queryFile at h
  simp only at h
  split at h
  · cases h
  · split at h
    · cases h
    · obtain ⟨b, _, hb⟩ := List.mem_flatMap.mp h
      split at hb
      · cases hb
      · exact (List.mem_filter.mp hb).2

theorem queryFile_eq (s : Sem) (reOK : Str → Bool) (q : Query) (f : FileM)
    (hwf : FileWF s f) (hv : q.Valid reOK) :
    queryFile s q f = ((keptBlocks q f).flatMap (·.rows)).filter (rowMatches s q) := by
  rw [List.filter_flatMap]
  unfold queryFile
  simp only
  split
  · rename_i he
    rw [List.isEmpty_iff.mp he]; simp
  · split
    · rename_i hf
      symm
      rw [List.flatMap_eq_nil_iff]
      intro b hb
      rw [List.filter_eq_nil_iff]
      intro r hr hm
      have hbf := keptBlocks_subset q f b hb
      have hc := (hwf b hbf).2 r hr
      have := filt_ge_entries f.filt _ q.prune hc (match_entries s reOK q r hv hm)
      rw [this] at hf
      simp at hf
    · apply flatMap_congr_mem
      intro b hb
      split
      · rename_i hf
        symm
        rw [List.filter_eq_nil_iff]
        intro r hr hm
        have hbf := keptBlocks_subset q f b hb
        have hc := ((hwf b hbf).1 r hr).2
        have := filt_ge_entries b.filt _ q.prune hc (match_entries s reOK q r hv hm)
        rw [this] at hf
        simp at hf
      · rfl

-- ---------------------------------------------------------------- the C02 lemmas

theorem query_sublist_aux (s : Sem) (files : List FileM) (q : Query) :
    (query s files q).Sublist (allRows files) := by
  unfold query allRows
  exact flatMap_sublist_pointwise _ _ files (fun f _ => queryFile_sublist s q f)

theorem query_sound_aux (s : Sem) (files : List FileM) (q : Query) (r : Row)
    (h : r ∈ query s files q) : r ∈ allRows files ∧ rowMatches s q r = true := by
  refine ⟨(query_sublist_aux s files q).subset h, ?_⟩
  unfold query at h
  obtain ⟨f, _, hf⟩ := List.mem_flatMap.mp h
  exact queryFile_matches s q f r hf

theorem block_granular_aux (s : Sem) (reOK : Str → Bool) (files : List FileM) (q : Query)
    (hwf : ∀ f ∈ files, FileWF s f) (hv : q.Valid reOK) :
    query s files q = (selectedRows files q).filter (rowMatches s q) := by
  unfold query selectedRows
  rw [List.filter_flatMap]
  exact flatMap_congr_mem _ _ files (fun f hf => queryFile_eq s reOK q f (hwf f hf) hv)

theorem exact_no_prefilter_aux (s : Sem) (reOK : Str → Bool) (files : List FileM) (q : Query)
    (hwf : ∀ f ∈ files, FileWF s f) (hv : q.Valid reOK) (hpre : q.pre = none) :
    query s files q = (allRows files).filter (rowMatches s q) := by
  rw [block_granular_aux s reOK files q hwf hv]
  have : selectedRows files q = allRows files := by
    unfold selectedRows allRows
    apply flatMap_congr_mem
    intro f _
    have hk : keptBlocks q f = f.blocks := by
      unfold keptBlocks
      rw [List.filter_eq_self]
      intro b _
      rw [hpre]
      rfl
    rw [hk]
  rw [this]

theorem missing_partition_false_aux (m : DataBlockMetadata) (c : PreCond) (sc : StringCondition)
    (hm : m.PartitionID = "") (ht : c.ConditionType = "PARTITION") (hc : c.PartitionCondition = some sc) :
    evalPreCond m c = false := by
  unfold evalPreCond
  rw [ht, hc, hm]
  simp

theorem missing_minmax_false_aux (m : DataBlockMetadata) (c : PreCond) (nc : NumericCondition)
    (hm : lookupMM c.MinMaxFieldName m.MinMaxIndexes = none) (ht : c.ConditionType = "MINMAX")
    (hc : c.MinMaxCondition = some nc) : evalPreCond m c = false := by
  unfold evalPreCond
  rw [ht, hc, hm]
  simp

end BloomVerif
