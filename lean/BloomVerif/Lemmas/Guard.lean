/- Helper lemmas about the path walker: every delimiter-bounded prefix of an emitted path is
   itself an emitted path (so a regex condition that is true of a row implies its Field guard). -/
import BloomVerif.Model.Json
namespace BloomVerif

/-- Membership in `dotPrefixes`: exactly the prefixes that end just before a delimiter. -/
theorem mem_dotPrefixes : ∀ (k p : Str), p ∈ dotPrefixes k ↔ ∃ b, k = p ++ '.' :: b
  | [], p => by simp [dotPrefixes]
  | c :: r, p => by
    simp only [dotPrefixes, List.mem_append, List.mem_map]
    constructor
    · rintro (h | ⟨p', hp', rfl⟩)
      · by_cases hc : c = '.'
        · subst hc
          simp at h
          subst h
          exact ⟨r, rfl⟩
        · simp [hc] at h
      · obtain ⟨b, hb⟩ := (mem_dotPrefixes r p').1 hp'
        exact ⟨b, by simp [hb]⟩
    · rintro ⟨b, hb⟩
      cases p with
      | nil =>
        simp at hb
        left
        simp [hb.1]
      | cons x p' =>
        simp at hb
        right
        exact ⟨p', (mem_dotPrefixes r p').2 ⟨b, hb.2⟩, by rw [hb.1]⟩

/-- Splitting `p ++ "." ++ k` at another delimiter. -/
theorem append_dot_split (p k F t : Str) (h : p ++ '.' :: k = F ++ '.' :: t) :
    (∃ t', p = F ++ '.' :: t') ∨ F = p ∨ (∃ a b, k = a ++ '.' :: b ∧ F = p ++ '.' :: a) := by
  rcases List.append_eq_append_iff.1 h with ⟨a', hF, hk⟩ | ⟨c', hp, ht⟩
  · cases a' with
    | nil => right; left; simpa using hF
    | cons x a'' =>
      simp at hk
      right; right
      exact ⟨a'', t, hk.2, by rw [hF, hk.1]⟩
  · cases c' with
    | nil => right; left; simpa using hp.symm
    | cons x c'' =>
      simp at ht
      left
      exact ⟨c'', by rw [hp, ← ht.1]⟩

theorem mem_paths_keyPrefixEms (buf k a : Str) (ha : a ∈ dotPrefixes k)
    (hne : joinPath buf a ≠ []) : joinPath buf a ∈ paths (keyPrefixEms buf k) := by
  unfold paths keyPrefixEms
  exact List.mem_map.2 ⟨⟨joinPath buf a, false, none⟩,
    List.mem_filterMap.2 ⟨a, ha, by simp [hne]⟩, rfl⟩

theorem path_of_mem_keyPrefixEms (buf k : Str) (e : Em) (he : e ∈ keyPrefixEms buf k) :
    ∃ p ∈ dotPrefixes k, e.path = joinPath buf p := by
  unfold keyPrefixEms at he
  obtain ⟨p, hp, hpe⟩ := List.mem_filterMap.1 he
  refine ⟨p, hp, ?_⟩
  by_cases h : joinPath buf p = []
  · simp [h] at hpe
  · simp [h] at hpe
    rw [← hpe]

/-- A delimiter-bounded prefix of `joinPath buf q`, where every delimiter-bounded prefix of `q`
    is a dot-prefix of `k`. -/
theorem join_split (buf k q F t : Str)
    (hq : ∀ a b, q = a ++ '.' :: b → a ∈ dotPrefixes k) (hF : F ≠ [])
    (h : joinPath buf q = F ++ '.' :: t) :
    F ∈ paths (keyPrefixEms buf k) ∨ F = buf ∨ (∃ t', buf = F ++ '.' :: t') := by
  by_cases hb : buf = []
  · subst hb
    simp [joinPath] at h
    left
    have := mem_paths_keyPrefixEms [] k F (hq F t h) (by simpa [joinPath] using hF)
    simpa [joinPath] using this
  · simp [joinPath, hb] at h
    rcases append_dot_split buf q F t h with h1 | h2 | ⟨a, b, hqa, hFa⟩
    · exact Or.inr (Or.inr h1)
    · exact Or.inr (Or.inl h2)
    · left
      have hj : joinPath buf a = F := by simp [joinPath, hb, hFa]
      have := mem_paths_keyPrefixEms buf k a (hq a b hqa) (by rw [hj]; exact hF)
      rwa [hj] at this

theorem paths_append (l₁ l₂ : List Em) : paths (l₁ ++ l₂) = paths l₁ ++ paths l₂ := by
  simp [paths]

mutual
  theorem guard_walk_aux (buf : Str) : (v : J) → ∀ e ∈ walk buf v, ∀ F t, F ≠ [] →
      e.path = F ++ '.' :: t →
      F ∈ paths (walk buf v) ∨ (∃ t', buf = F ++ '.' :: t')
    | .obj kvs => by
      intro e he F t hF hp
      simp only [walk, List.mem_append] at he
      simp only [walk, paths_append, List.mem_append]
      rcases he with he | he
      · by_cases hb : buf = []
        · simp [containerEm, hb] at he
        · simp [containerEm, hb] at he
          subst he
          exact Or.inr ⟨t, hp⟩
      · rcases guard_walkObj_aux buf kvs e he F t hF hp with h | h | h
        · exact Or.inl (Or.inr h)
        · subst h
          left; left
          simp [containerEm, hF, paths]
        · exact Or.inr h
    | .arr xs => by
      intro e he F t hF hp
      simp only [walk, List.mem_append] at he
      simp only [walk, paths_append, List.mem_append]
      rcases he with he | he
      · by_cases hb : buf = []
        · simp [containerEm, hb] at he
        · simp [containerEm, hb] at he
          subst he
          exact Or.inr ⟨t, hp⟩
      · rcases guard_walkArr_aux buf xs e he F t hF hp with h | h | h
        · exact Or.inl (Or.inr h)
        · subst h
          left; left
          simp [containerEm, hF, paths]
        · exact Or.inr h
    | .null => by
      intro e he F t hF hp
      by_cases hb : buf = []
      · simp [walk, hb] at he
      · simp [walk, hb] at he
        subst he
        exact Or.inr ⟨t, hp⟩
    | .bool b => by
      intro e he F t hF hp
      by_cases hb : buf = []
      · simp [walk, hb] at he
      · simp [walk, hb] at he
        subst he
        exact Or.inr ⟨t, hp⟩
    | .num r => by
      intro e he F t hF hp
      by_cases hb : buf = []
      · simp [walk, hb] at he
      · simp [walk, hb] at he
        subst he
        exact Or.inr ⟨t, hp⟩
    | .str s => by
      intro e he F t hF hp
      by_cases hb : buf = []
      · simp [walk, hb] at he
      · simp [walk, hb] at he
        subst he
        exact Or.inr ⟨t, hp⟩
  theorem guard_walkObj_aux (buf : Str) : (kvs : List (Str × J)) → ∀ e ∈ walkObj buf kvs,
      ∀ F t, F ≠ [] → e.path = F ++ '.' :: t →
      F ∈ paths (walkObj buf kvs) ∨ F = buf ∨ (∃ t', buf = F ++ '.' :: t')
    | [] => by
      intro e he
      simp [walkObj] at he
    | (k, v) :: r => by
      intro e he F t hF hp
      simp only [walkObj, List.mem_append] at he
      simp only [walkObj, paths_append, List.mem_append]
      rcases he with (he | he) | he
      · obtain ⟨p, hpk, hpe⟩ := path_of_mem_keyPrefixEms buf k e he
        obtain ⟨b, hb⟩ := (mem_dotPrefixes k p).1 hpk
        have hq : ∀ a b', p = a ++ '.' :: b' → a ∈ dotPrefixes k := by
          intro a b' hab
          exact (mem_dotPrefixes k a).2 ⟨b' ++ '.' :: b, by rw [hb, hab]; simp⟩
        rcases join_split buf k p F t hq hF (by rw [← hpe, hp]) with h | h | h
        · exact Or.inl (Or.inl (Or.inl h))
        · exact Or.inr (Or.inl h)
        · exact Or.inr (Or.inr h)
      · rcases guard_walk_aux (joinPath buf k) v e he F t hF hp with h | ⟨t', ht'⟩
        · exact Or.inl (Or.inl (Or.inr h))
        · have hq : ∀ a b', k = a ++ '.' :: b' → a ∈ dotPrefixes k := by
            intro a b' hab
            exact (mem_dotPrefixes k a).2 ⟨b', hab⟩
          rcases join_split buf k k F t' hq hF ht' with h | h | h
          · exact Or.inl (Or.inl (Or.inl h))
          · exact Or.inr (Or.inl h)
          · exact Or.inr (Or.inr h)
      · rcases guard_walkObj_aux buf r e he F t hF hp with h | h | h
        · exact Or.inl (Or.inr h)
        · exact Or.inr (Or.inl h)
        · exact Or.inr (Or.inr h)
  theorem guard_walkArr_aux (buf : Str) : (xs : List J) → ∀ e ∈ walkArr buf xs,
      ∀ F t, F ≠ [] → e.path = F ++ '.' :: t →
      F ∈ paths (walkArr buf xs) ∨ F = buf ∨ (∃ t', buf = F ++ '.' :: t')
    | [] => by
      intro e he
      simp [walkArr] at he
    | v :: r => by
      intro e he F t hF hp
      simp only [walkArr, List.mem_append] at he
      simp only [walkArr, paths_append, List.mem_append]
      rcases he with he | he
      · rcases guard_walk_aux buf v e he F t hF hp with h | h
        · exact Or.inl (Or.inl h)
        · exact Or.inr (Or.inr h)
      · rcases guard_walkArr_aux buf r e he F t hF hp with h | h | h
        · exact Or.inl (Or.inr h)
        · exact Or.inr (Or.inl h)
        · exact Or.inr (Or.inr h)
end

/-- For every emission `e` of `walk buf v` and every non-empty `F` such that
    `F ++ "." ++ t = e.path`, `F` is itself an emitted path, unless it is a prefix of the buffer the
    walk started with (then an ancestor level emitted it). -/
theorem guard_walk (buf : Str) (v : J) :
    ∀ e ∈ walk buf v, ∀ F t, F ≠ [] → e.path = F ++ '.' :: t →
      F ∈ paths (walk buf v) ∨ (∃ t', buf = F ++ '.' :: t') :=
  guard_walk_aux buf v

/-- Corollary at the root. -/
theorem guard_root (row : J) (e : Em) (he : e ∈ emissions row) (F t : Str) (hF : F ≠ [])
    (hp : e.path = F ++ '.' :: t) : F ∈ paths (emissions row) := by
  rcases guard_walk [] row e he F t hF hp with h | ⟨t', ht'⟩
  · exact h
  · simp at ht'

end BloomVerif
