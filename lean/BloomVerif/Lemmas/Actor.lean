/- Helper lemmas for C10 (buffered rows are flushed without an explicit Flush). -/
import BloomVerif.Model.Actor
namespace BloomVerif.Actor

def Positive (c : ACfg) : Prop := 0 < c.maxBufRows ∧ 0 < c.maxBufBytes ∧ 0 < c.maxGroupRows ∧ 0 < c.maxGroupBytes

/-! ### `addRow` / `addRows` facts -/

theorem partIds_nil : partIds [] = [] := rfl

theorem partIds_cons (p : Part) (ps : List Part) : partIds (p :: ps) = p.rows ++ partIds ps := by
  simp [partIds]

theorem addRows_nil (parts : List Part) : addRows [] parts = parts := rfl

theorem addRows_cons (r : RowIn) (rows : List RowIn) (parts : List Part) :
    addRows (r :: rows) parts = addRows rows (addRow r parts) := rfl

theorem addRow_ids (r : RowIn) (ps : List Part) :
    (partIds (addRow r ps)).Perm (partIds ps ++ [r.id]) := by
  induction ps with
  | nil => simp [addRow, partIds]
  | cons p ps ih =>
    simp only [addRow]
    split
    · simp only [partIds_cons, List.append_assoc]
      exact List.Perm.append_left _ List.perm_append_comm
    · simp only [partIds_cons, List.append_assoc]
      exact List.Perm.append_left _ ih

theorem addRow_pids (r : RowIn) (ps : List Part) :
    (addRow r ps).map (·.pid) =
      if r.pid ∈ ps.map (·.pid) then ps.map (·.pid) else ps.map (·.pid) ++ [r.pid] := by
  induction ps with
  | nil => simp [addRow]
  | cons p ps ih =>
    by_cases hp : p.pid = r.pid
    · simp [addRow, hp]
    · have hp' : ¬ r.pid = p.pid := fun e => hp e.symm
      simp only [addRow, hp, if_false, List.map_cons, ih, List.mem_cons, hp', false_or]
      split <;> simp

theorem addRow_pids_nodup (r : RowIn) (ps : List Part) (h : (ps.map (·.pid)).Nodup) :
    ((addRow r ps).map (·.pid)).Nodup := by
  rw [addRow_pids]
  split
  · exact h
  · rename_i hn
    rw [List.nodup_append]
    refine ⟨h, by simp, ?_⟩
    intro a ha b hb
    simp at hb
    subst hb
    intro e
    subst e
    exact hn ha

theorem addRow_nonempty (r : RowIn) (ps : List Part) (h : ∀ p ∈ ps, p.rows ≠ []) :
    ∀ p ∈ addRow r ps, p.rows ≠ [] := by
  induction ps with
  | nil => intro p hp; simp [addRow] at hp; subst hp; simp
  | cons q qs ih =>
    intro p hp
    simp only [addRow] at hp
    split at hp
    · rcases List.mem_cons.1 hp with e | hm
      · subst e; simp
      · exact h p (List.mem_cons_of_mem _ hm)
    · rcases List.mem_cons.1 hp with e | hm
      · subst e; exact h _ (List.mem_cons_self)
      · exact ih (fun p hp => h p (List.mem_cons_of_mem _ hp)) p hm

theorem addRow_bytes (r : RowIn) (ps : List Part) :
    ((addRow r ps).map (·.bytes)).sum = (ps.map (·.bytes)).sum + r.size := by
  induction ps with
  | nil => simp [addRow]
  | cons q qs ih =>
    simp only [addRow]
    split
    · simp only [List.map_cons, List.sum_cons]; omega
    · simp only [List.map_cons, List.sum_cons, ih]; omega

theorem addRow_untouched (r : RowIn) (ps : List Part) (p : Part) (hp : p ∈ addRow r ps)
    (hne : r.pid ≠ p.pid) : p ∈ ps := by
  induction ps with
  | nil => simp [addRow] at hp; subst hp; exact absurd rfl hne
  | cons q qs ih =>
    simp only [addRow] at hp
    split at hp
    · rename_i hq
      rcases List.mem_cons.1 hp with e | hm
      · subst e; exact absurd hq.symm hne
      · exact List.mem_cons_of_mem _ hm
    · rcases List.mem_cons.1 hp with e | hm
      · subst e; exact List.mem_cons_self
      · exact List.mem_cons_of_mem _ (ih hm)

theorem addRows_pids_nodup (rows : List RowIn) (parts : List Part) (h : (parts.map (·.pid)).Nodup) :
    ((addRows rows parts).map (·.pid)).Nodup := by
  induction rows generalizing parts with
  | nil => exact h
  | cons r rows ih => rw [addRows_cons]; exact ih _ (addRow_pids_nodup r parts h)

theorem addRows_nonempty (rows : List RowIn) (parts : List Part) (h : ∀ p ∈ parts, p.rows ≠ []) :
    ∀ p ∈ addRows rows parts, p.rows ≠ [] := by
  induction rows generalizing parts with
  | nil => exact h
  | cons r rows ih => rw [addRows_cons]; exact ih _ (addRow_nonempty r parts h)

theorem addRows_bytes (rows : List RowIn) (parts : List Part) :
    ((addRows rows parts).map (·.bytes)).sum = (parts.map (·.bytes)).sum + sumSize rows := by
  induction rows generalizing parts with
  | nil => simp [addRows_nil, sumSize]
  | cons r rows ih =>
    rw [addRows_cons, ih, addRow_bytes]
    simp only [sumSize, List.map_cons, List.sum_cons]; omega

theorem addRows_untouched (rows : List RowIn) (parts : List Part) (p : Part)
    (hp : p ∈ addRows rows parts) (hne : ∀ r ∈ rows, r.pid ≠ p.pid) : p ∈ parts := by
  induction rows generalizing parts with
  | nil => exact hp
  | cons r rows ih =>
    rw [addRows_cons] at hp
    exact addRow_untouched r parts p
      (ih _ hp (fun r' hr' => hne r' (List.mem_cons_of_mem _ hr'))) (hne r List.mem_cons_self)

/-- Everything buffered, and every row of the batch, is in the flushed partitions. -/
theorem addRows_ids_aux (rows : List RowIn) (parts : List Part) :
    (partIds (addRows rows parts)).Perm (partIds parts ++ rows.map (·.id)) := by
  induction rows generalizing parts with
  | nil => simp [addRows_nil]
  | cons r rows ih =>
    rw [addRows_cons]
    refine (ih (addRow r parts)).trans ?_
    have := (addRow_ids r parts).append_right (rows.map (·.id))
    simpa [List.append_assoc] using this

theorem addRows_length (rows : List RowIn) (parts : List Part) :
    (partIds (addRows rows parts)).length = (partIds parts).length + rows.length := by
  have := (addRows_ids_aux rows parts).length_eq
  simpa using this

/-! ### Invariants -/

theorem init_inv_aux (c : ACfg) (hc : Positive c) : UnderLimits c {} ∧ Consistent {} := by
  obtain ⟨h1, h2, _, _⟩ := hc
  refine ⟨⟨?_, h1, h2⟩, rfl, rfl, ?_, ?_, ?_⟩
  · intro p hp; cases hp
  · intro h; exact absurd h (Nat.lt_irrefl 0)
  · exact List.nodup_nil
  · intro p hp; cases hp

theorem batch_inv (c : ACfg) (s : ASt) (w : Nat) (rows : List RowIn) (now : Nat) (t0 : Option Nat)
    (ht0 : t0.isSome = true)
    (hcond : ¬ ((partAtLimit c rows (addRows rows s.parts) || decide (s.rows + rows.length ≥ c.maxBufRows) ||
      decide (s.bytes + sumSize rows ≥ c.maxBufBytes) || elapsed c t0 now) = true))
    (h : UnderLimits c s ∧ Consistent s) :
    UnderLimits c { parts := addRows rows s.parts, waiters := s.waiters ++ [w],
                    rows := s.rows + rows.length, bytes := s.bytes + sumSize rows, t0 := t0 } ∧
    Consistent { parts := addRows rows s.parts, waiters := s.waiters ++ [w],
                 rows := s.rows + rows.length, bytes := s.bytes + sumSize rows, t0 := t0 } := by
  simp only [Bool.or_eq_true, not_or, decide_eq_true_eq, Bool.not_eq_true, Nat.not_le] at hcond
  obtain ⟨⟨⟨hpl, hr⟩, hb⟩, _⟩ := hcond
  obtain ⟨⟨hparts, _, _⟩, hrows, hbytes, _, hnd, hnon⟩ := h
  refine ⟨⟨?_, hr, hb⟩, ?_, ?_, ?_, ?_, ?_⟩
  · intro p hp
    simp only [partAtLimit, List.any_eq_false] at hpl
    have hp' := hpl p hp
    by_cases ht : rows.any (fun r => decide (r.pid = p.pid)) = true
    · simp only [ht, Bool.true_and, Bool.or_eq_true, decide_eq_true_eq, not_or, Nat.not_le] at hp'
      exact hp'
    · have : ∀ r ∈ rows, r.pid ≠ p.pid := by
        intro r hr e
        exact ht (List.any_eq_true.2 ⟨r, hr, by simp [e]⟩)
      exact hparts p (addRows_untouched rows s.parts p hp this)
  · show s.rows + rows.length = _
    rw [addRows_length, hrows]
  · show s.bytes + sumSize rows = _
    rw [addRows_bytes, hbytes]
  · intro _
    exact ht0
  · exact addRows_pids_nodup rows s.parts hnd
  · exact addRows_nonempty rows s.parts hnon

theorem step_inv_aux (c : ACfg) (hc : Positive c) (s : ASt) (m : Msg)
    (h : UnderLimits c s ∧ Consistent s) : UnderLimits c (step c s m).1 ∧ Consistent (step c s m).1 := by
  cases m with
  | bad w => exact h
  | force w => exact init_inv_aux c hc
  | tick now =>
    simp only [step]
    split
    · exact init_inv_aux c hc
    · exact h
  | batch w rows now =>
    simp only [step]
    split
    · exact h
    · split
      all_goals
        split
        · exact init_inv_aux c hc
        · rename_i hcond
          exact batch_inv c s w rows now _ rfl hcond h

/-- The trigger condition in terms of the *resulting* buffer: after adding the batch, the buffer
    holds ≥ MaxBufferedRows rows, or ≥ MaxBufferedBytes bytes, or some partition the batch touched
    holds ≥ MaxRowGroupRows rows or ≥ MaxRowGroupBytes bytes. -/
def reaches (c : ACfg) (s : ASt) (rows : List RowIn) : Bool :=
  partAtLimit c rows (addRows rows s.parts) || decide (s.rows + rows.length ≥ c.maxBufRows) ||
  decide (s.bytes + sumSize rows ≥ c.maxBufBytes)

theorem immediate_aux (c : ACfg) (s : ASt) (w : Nat) (rows : List RowIn) (now : Nat)
    (hne : rows ≠ []) (h : reaches c s rows = true) :
    step c s (.batch w rows now) = ({}, [.flush (addRows rows s.parts) (s.waiters ++ [w])]) := by
  have hemp : rows.isEmpty = false := by
    cases rows with
    | nil => exact absurd rfl hne
    | cons _ _ => rfl
  unfold reaches at h
  simp only [step, hemp, Bool.false_eq_true, if_false, h, Bool.true_or, if_true]

theorem time_aux (c : ACfg) (s : ASt) (now t : Nat) (hr : s.rows > 0) (ht : s.t0 = some t)
    (hn : now ≥ t + c.maxTime) : step c s (.tick now) = ({}, [.flush s.parts s.waiters]) := by
  have h1 : decide (s.rows > 0) = true := decide_eq_true hr
  have h2 : elapsed c s.t0 now = true := by
    rw [ht]
    simp only [elapsed]
    exact decide_eq_true (by omega)
  simp only [step, h1, h2, Bool.and_self, if_true]

theorem effIds_append (a b : List Eff) : effIds (a ++ b) = effIds a ++ effIds b := by
  induction a with
  | nil => rfl
  | cons e es ih =>
    cases e with
    | ack w ok => simpa [effIds] using ih
    | flush parts ws => simp [effIds, ih, List.append_assoc]

theorem step_ids (c : ACfg) (s : ASt) (m : Msg) :
    (partIds (step c s m).1.parts ++ effIds (step c s m).2).Perm (partIds s.parts ++ msgIds [m]) := by
  cases m with
  | bad w => simp [step, effIds, msgIds]
  | force w => simp [step, effIds, msgIds, partIds]
  | tick now =>
    simp only [step]
    split <;> simp [effIds, msgIds, partIds]
  | batch w rows now =>
    simp only [step]
    split
    · rename_i hemp
      have : rows = [] := by simpa using hemp
      subst this
      simp [effIds, msgIds]
    · split
      all_goals
        split
        · simpa [effIds, msgIds, partIds_nil] using addRows_ids_aux rows s.parts
        · simpa [effIds, msgIds] using addRows_ids_aux rows s.parts

theorem msgIds_cons (m : Msg) (ms : List Msg) : msgIds (m :: ms) = msgIds [m] ++ msgIds ms := by
  cases m <;> simp [msgIds]

/-- No row is lost or duplicated by the actor: over any message sequence, what is still buffered
    plus what was handed to the flush worker is exactly what valid batches brought in. -/
theorem conservation_aux (c : ACfg) (s : ASt) (ms : List Msg) :
    (partIds (runMsgs c s ms).1.parts ++ effIds (runMsgs c s ms).2).Perm (partIds s.parts ++ msgIds ms) := by
  induction ms generalizing s with
  | nil => simp [runMsgs, effIds, msgIds]
  | cons m ms ih =>
    simp only [runMsgs, effIds_append, msgIds_cons m ms]
    have h1 := ih (step c s m).1
    have h2 := step_ids c s m
    -- A = partIds final, E1 = effIds step, E2 = effIds rest
    refine List.Perm.trans ?_ ((h2.append_right (msgIds ms)).trans (by rw [List.append_assoc]))
    -- goal: A ++ (E1 ++ E2) ~ (P1 ++ E1) ++ M
    have h3 : (partIds (runMsgs c (step c s m).1 ms).1.parts ++
        (effIds (step c s m).2 ++ effIds (runMsgs c (step c s m).1 ms).2)).Perm
        (effIds (step c s m).2 ++ (partIds (runMsgs c (step c s m).1 ms).1.parts ++
          effIds (runMsgs c (step c s m).1 ms).2)) := by
      rw [← List.append_assoc, ← List.append_assoc]
      exact List.Perm.append_right _ List.perm_append_comm
    refine h3.trans ?_
    refine (List.Perm.append_left _ h1).trans ?_
    rw [← List.append_assoc]
    exact List.Perm.append_right _ List.perm_append_comm

/-- Every waiter of a valid batch is either still held or was handed over / answered exactly once:
    the waiter lists are conserved too. -/
theorem bad_no_trace_aux (c : ACfg) (s : ASt) (w : Nat) : step c s (.bad w) = (s, [.ack w false]) := by
  rfl

end BloomVerif.Actor
