/- Helper lemmas for the content-level properties (C01, C02, C11, C18). -/
import BloomVerif.Model.Content
import BloomVerif.Lemmas.Guard
import BloomVerif.Lemmas.Tokenizer
import BloomVerif.Props.C04
namespace BloomVerif

-- ---------------------------------------------------------------- bloom conditions on entries

theorem bloomCond_entries (tok : Str → List Str) (es : List Em) (c : BloomCond)
    (h : matchBloomCond tok es c = true) : entryCond (entriesOf tok es) c = true := by
  unfold matchBloomCond at h
  unfold entryCond entriesOf
  by_cases h1 : c.Kind = "FIELD"
  · rw [if_pos h1] at h ⊢
    obtain ⟨e, he, hp⟩ := List.any_eq_true.1 h
    have hp' : e.path = c.Field := by simpa using hp
    exact List.contains_iff_mem.2 (List.mem_map.2 ⟨e, he, hp'⟩)
  · rw [if_neg h1] at h ⊢
    by_cases h2 : c.Kind = "TOKEN"
    · rw [if_pos h2] at h ⊢
      obtain ⟨e, he, hp⟩ := List.any_eq_true.1 h
      exact List.contains_iff_mem.2 (List.mem_flatMap.2 ⟨e, he, List.contains_iff_mem.1 hp⟩)
    · rw [if_neg h2] at h ⊢
      by_cases h3 : c.Kind = "FIELD_TOKEN"
      · rw [if_pos h3] at h ⊢
        obtain ⟨e, he, hp⟩ := List.any_eq_true.1 h
        simp only [Bool.and_eq_true, beq_iff_eq] at hp
        refine List.contains_iff_mem.2 (List.mem_flatMap.2 ⟨e, he, ?_⟩)
        exact List.mem_map.2 ⟨c.Token, List.contains_iff_mem.1 hp.2, by rw [hp.1]⟩
      · rw [if_neg h3] at h
        exact absurd h (by simp)

-- ---------------------------------------------------------------- regex field guard

theorem guardOf_none_of_compileRx_none (e : RegexExpr) (h : compileRx e = none) : guardOf e = none := by
  cases e with
  | mk ty cond ch =>
    simp only [compileRx] at h
    simp only [guardOf]
    by_cases h1 : ty = "CONDITION"
    · rw [if_pos h1] at h ⊢
      cases cond with
      | none => rfl
      | some c => simp at h
    · rw [if_neg h1] at h ⊢
      by_cases h2 : ty = "AND"
      · rw [if_pos h2] at h; simp at h
      · rw [if_neg h2] at h ⊢
        by_cases h3 : ty = "OR"
        · rw [if_pos h3] at h; simp at h
        · rw [if_neg h3]

theorem regexCond_guard (tok : Str → List Str) (re : Str → Str → Bool) (row : J) (c : RegexCond)
    (h : matchRegexCond re (emissions row) c = true) :
    entryCond (rowEntries tok row) { Kind := "FIELD", Field := c.Field } = true := by
  unfold matchRegexCond at h
  simp only [Bool.and_eq_true, Bool.not_eq_true', List.any_eq_true, Bool.or_eq_true, beq_iff_eq] at h
  obtain ⟨hne, e, he, ⟨_, hp⟩, _⟩ := h
  have hF : c.Field ≠ [] := by
    intro h0; rw [h0] at hne; simp at hne
  have hmem : c.Field ∈ paths (emissions row) := by
    rcases hp with hp | hp
    · exact List.mem_map.2 ⟨e, he, hp⟩
    · obtain ⟨t, ht⟩ := List.isPrefixOf_iff_prefix.1 hp
      exact guard_root row e he c.Field t hF (by rw [← ht]; simp)
  simp only [entryCond, if_true, rowEntries, entriesOf]
  exact List.contains_iff_mem.2 hmem

mutual
  theorem guard_expr (l1 : RegexCond → Bool) (l2 : BloomCond → Bool)
      (hl : ∀ c, l1 c = true → l2 { Kind := "FIELD", Field := c.Field } = true) :
      ∀ (e e' : RegexExpr), compileRx e = some e' → Expr.eval l1 e' = true →
        ∃ g, guardOf e = some g ∧ Expr.eval l2 g = true
    | .mk ty cond ch, e' => by
      intro hc hev
      simp only [compileRx] at hc
      simp only [guardOf]
      by_cases h1 : ty = "CONDITION"
      · rw [if_pos h1] at hc ⊢
        cases cond with
        | none => simp at hc
        | some c =>
          simp only [Option.some.injEq] at hc
          subst hc
          refine ⟨_, rfl, ?_⟩
          simp only [Expr.eval, if_pos h1] at hev
          simp only [Expr.eval, if_true]
          exact hl c hev
      · rw [if_neg h1] at hc ⊢
        by_cases h2 : ty = "AND"
        · rw [if_pos h2] at hc ⊢
          simp only [Option.some.injEq] at hc
          subst hc
          refine ⟨_, rfl, ?_⟩
          subst h2
          simp only [Expr.eval] at hev ⊢
          simp at hev ⊢
          exact guard_all l1 l2 hl ch hev
        · rw [if_neg h2] at hc ⊢
          by_cases h3 : ty = "OR"
          · rw [if_pos h3] at hc ⊢
            simp only [Option.some.injEq] at hc
            subst hc
            refine ⟨_, rfl, ?_⟩
            subst h3
            simp only [Expr.eval] at hev ⊢
            simp at hev ⊢
            exact guard_any l1 l2 hl ch hev
          · rw [if_neg h3] at hc; simp at hc
  theorem guard_any (l1 : RegexCond → Bool) (l2 : BloomCond → Bool)
      (hl : ∀ c, l1 c = true → l2 { Kind := "FIELD", Field := c.Field } = true) :
      ∀ ch : List RegexExpr, Expr.evalAny l1 (compileRxL ch) = true → Expr.evalAny l2 (guardL ch) = true
    | [] => by simp [compileRxL, Expr.evalAny]
    | e :: es => by
      intro h
      simp only [compileRxL] at h
      simp only [guardL]
      cases hc : compileRx e with
      | none =>
        rw [hc] at h
        rw [guardOf_none_of_compileRx_none e hc]
        exact guard_any l1 l2 hl es h
      | some e' =>
        rw [hc] at h
        simp only [Expr.evalAny, Bool.or_eq_true] at h
        rcases h with h | h
        · obtain ⟨g, hg, hgv⟩ := guard_expr l1 l2 hl e e' hc h
          rw [hg]
          simp only [Expr.evalAny, hgv, Bool.true_or]
        · have ih := guard_any l1 l2 hl es h
          cases hg : guardOf e with
          | none => exact ih
          | some g => simp only [Expr.evalAny, ih, Bool.or_true]
  theorem guard_all (l1 : RegexCond → Bool) (l2 : BloomCond → Bool)
      (hl : ∀ c, l1 c = true → l2 { Kind := "FIELD", Field := c.Field } = true) :
      ∀ ch : List RegexExpr, Expr.evalAll l1 (compileRxL ch) = true → Expr.evalAll l2 (guardL ch) = true
    | [] => by simp [guardL, Expr.evalAll]
    | e :: es => by
      intro h
      simp only [compileRxL] at h
      simp only [guardL]
      cases hc : compileRx e with
      | none =>
        rw [hc] at h
        rw [guardOf_none_of_compileRx_none e hc]
        exact guard_all l1 l2 hl es h
      | some e' =>
        rw [hc] at h
        simp only [Expr.evalAll, Bool.and_eq_true] at h
        obtain ⟨g, hg, hgv⟩ := guard_expr l1 l2 hl e e' hc h.1
        rw [hg]
        simp only [Expr.evalAll, hgv, Bool.true_and]
        exact guard_all l1 l2 hl es h.2
end

theorem guard_sound_aux (tok : Str → List Str) (re : Str → Str → Bool) (reOK : Str → Bool) (row : J)
    (rx : RegexExpr) (hv : rxValid reOK rx = true)
    (h : matchRegex re (emissions row) (some rx) = true) :
    Expr.evalOpt (entryCond (rowEntries tok row)) (guardOf rx) = true := by
  have _ := hv  -- validity is not needed: `compileRx` and `guardOf` drop exactly the same nodes
  simp only [matchRegex] at h
  cases hc : compileRx rx with
  | none => rw [guardOf_none_of_compileRx_none rx hc]; rfl
  | some e' =>
    rw [hc] at h
    obtain ⟨g, hg, hgv⟩ := guard_expr (matchRegexCond re (emissions row)) (entryCond (rowEntries tok row))
      (fun c hc => regexCond_guard tok re row c hc) rx e' hc h
    rw [hg]; exact hgv

-- ---------------------------------------------------------------- default tokenizer

theorem toNat_ofNat_valid (n : Nat) (h : n.isValidChar) : (Char.ofNat n).toNat = n := by
  have hlt : n < 4294967296 := by
    rcases h with h | h <;> omega
  simp only [Char.ofNat, dif_pos h, Char.ofNatAux, Char.toNat, UInt32.toNat]
  simp [BitVec.toNat_ofNatLT]

theorem lowerPairs_no_surrogate :
    Gen.lowerPairs.all (fun p => decide (p.2 < 0xD800 ∨ 0xDFFF < p.2)) = true := by
  decide +kernel

theorem lowerCp_valid (n : Nat) (h : n.isValidChar) : (lowerCp n).isValidChar := by
  have hlt : lowerCp n < 0x110000 := lowerCp_lt n (by rcases h with h | h <;> omega)
  have hs : lowerCp n < 0xD800 ∨ 0xDFFF < lowerCp n := by
    unfold lowerCp
    cases hl : Gen.lowerPairs.lookup n with
    | none => show n < 0xD800 ∨ 0xDFFF < n; rcases h with h | h <;> omega
    | some m =>
      have hm := lookup_mem _ _ _ hl
      have := List.all_eq_true.mp lowerPairs_no_surrogate (n, m) hm
      simpa using this
  unfold Nat.isValidChar
  omega

theorem isSpaceC_lowerC (c : Char) : isSpaceC (lowerC c) = isSpaceC c := by
  unfold isSpaceC lowerC
  have hc : c.toNat.isValidChar := c.valid
  rw [toNat_ofNat_valid _ (lowerCp_valid _ hc)]
  exact isSpaceCp_lowerCp _

theorem defaultTokFast_eq (s : Str) : defaultTokFast s = defaultTok s :=
  fast_tokenizer_eq isSpaceC lowerC isSpaceC_lowerC s

-- ---------------------------------------------------------------- generic tree facts

mutual
  theorem forall_true {C : Type} : ∀ e : Expr C, Expr.Forall (fun _ => True) e
    | .mk _ _ ch => ⟨fun _ _ => trivial, forallL_true ch⟩
  theorem forallL_true {C : Type} : ∀ es : List (Expr C), Expr.ForallL (fun _ => True) es
    | [] => trivial
    | e :: es => ⟨forall_true e, forallL_true es⟩
end

theorem forallOpt_true {C : Type} (e : Option (Expr C)) : Expr.ForallOpt (fun _ => True) e := by
  cases e with
  | none => trivial
  | some e => exact forall_true e

/-- `And(...)` evaluates to the conjunction of its arguments (flattening is transparent). -/
theorem eval_mkAnd {C : Type} (leaf : C → Bool) (es : List (Expr C)) :
    Expr.eval leaf (mkAnd es) = es.all (Expr.eval leaf) := by
  have hAnd : Expr.eval leaf (mkAnd es) = Expr.evalAll leaf (flatten "AND" es) := by
    simp [mkAnd, Expr.eval]
  rw [hAnd, Expr.evalAll_eq_all, flatten, List.all_flatMap]
  congr 1
  funext e
  cases e with
  | mk ty cond ch =>
    show (if ty = "AND" ∧ cond.isNone = true then ch else [Expr.mk ty cond ch]).all (Expr.eval leaf)
      = Expr.eval leaf (Expr.mk ty cond ch)
    by_cases hc : ty = "AND" ∧ cond.isNone = true
    · rw [if_pos hc]
      obtain ⟨h1, _⟩ := hc
      subst h1
      simp [Expr.eval, Expr.evalAll_eq_all]
    · rw [if_neg hc]
      simp

theorem match_entries (s : Sem) (reOK : Str → Bool) (q : Query) (r : Row)
    (hv : q.Valid reOK) (h : rowMatches s q r = true) :
    Expr.evalOpt (entryCond (rowEntries s.tok r.json)) q.prune = true := by
  simp only [rowMatches, matchRow, Bool.and_eq_true] at h
  obtain ⟨hb, hr⟩ := h
  have hb' : Expr.evalOpt (entryCond (rowEntries s.tok r.json)) q.bloom = true :=
    Expr.evalOpt_mono _ _ (fun _ => True)
      (fun c _ hc => bloomCond_entries s.tok (emissions r.json) c hc) q.bloom (forallOpt_true _) hb
  have hr' : Expr.evalOpt (entryCond (rowEntries s.tok r.json)) (q.regex.bind guardOf) = true := by
    cases hx : q.regex with
    | none => rfl
    | some rx =>
      rw [hx] at hr
      exact guard_sound_aux s.tok s.re reOK r.json rx (hv rx hx) hr
  simp only [Query.prune, pruneBloom]
  cases hl : q.bloom with
  | none => simpa [andBloom] using hr'
  | some l =>
    rw [hl] at hb'
    cases hg : q.regex.bind guardOf with
    | none => simpa [andBloom] using hb'
    | some g =>
      rw [hg] at hr'
      simp only [andBloom, Expr.evalOpt, eval_mkAnd] at hb' hr' ⊢
      simp [hb', hr']

theorem filtCond_of_entryCond (f : Filt) (en : Entries) (hc : FiltCovers f en) (c : BloomCond)
    (h : entryCond en c = true) : filtCond f c = true := by
  have key : ∀ (t : Option (Str → Bool)) (l : List Str) (x : Str),
      FiltCoversList t l → l.contains x = true → testOpt t x = true := by
    intro t l x hcl hx
    cases t with
    | none => rfl
    | some g => exact hcl g rfl x (List.contains_iff_mem.1 hx)
  unfold entryCond at h
  unfold filtCond
  by_cases h1 : c.Kind = "FIELD"
  · rw [if_pos h1] at h ⊢
    exact key _ _ _ hc.1 h
  · rw [if_neg h1] at h ⊢
    by_cases h2 : c.Kind = "TOKEN"
    · rw [if_pos h2] at h ⊢
      exact key _ _ _ hc.2.1 h
    · rw [if_neg h2] at h ⊢
      by_cases h3 : c.Kind = "FIELD_TOKEN"
      · rw [if_pos h3] at h ⊢
        exact key _ _ _ hc.2.2 h
      · rw [if_neg h3] at h
        exact absurd h (by simp)

theorem filt_ge_entries (f : Filt) (en : Entries) (p : Option BloomExpr) (hc : FiltCovers f en)
    (h : Expr.evalOpt (entryCond en) p = true) : evalFilt f p = true :=
  Expr.evalOpt_mono (entryCond en) (filtCond f) (fun _ => True)
    (fun c _ hcc => filtCond_of_entryCond f en hc c hcc) p (forallOpt_true _) h

theorem no_false_negatives (s : Sem) (reOK : Str → Bool) (files : List FileM) (q : Query)
    (f : FileM) (b : Block) (r : Row)
    (hwf : ∀ f ∈ files, FileWF s f) (hf : f ∈ files) (hb : b ∈ f.blocks) (hr : r ∈ b.rows)
    (hv : q.Valid reOK) (hpre : Expr.ForallOpt PreCond.WF q.pre)
    (hm : rowMatches s q r = true) (hp : rowSatPre r.pre q.pre = true) :
    r ∈ query s files q := by
  obtain ⟨hbwf, hfcov⟩ := hwf f hf b hb
  obtain ⟨hcov, hbcov⟩ := hbwf r hr
  have hent := match_entries s reOK q r hv hm
  have hfile : evalFilt f.filt q.prune = true := filt_ge_entries _ _ _ (hfcov r hr) hent
  have hblock : evalFilt b.filt q.prune = true := filt_ge_entries _ _ _ hbcov hent
  have hkept : b ∈ keptBlocks q f :=
    List.mem_filter.2 ⟨hb, C04.C04_tree b.md r.pre q.pre hcov hpre hp⟩
  have hne : (keptBlocks q f).isEmpty = false := by
    cases hk : keptBlocks q f with
    | nil => rw [hk] at hkept; simp at hkept
    | cons _ _ => rfl
  unfold query
  refine List.mem_flatMap.2 ⟨f, hf, ?_⟩
  simp only [queryFile, hne, hfile, Bool.not_true, if_false, Bool.false_eq_true]
  refine List.mem_flatMap.2 ⟨b, hkept, ?_⟩
  simp only [hblock, Bool.not_true, if_false, Bool.false_eq_true]
  exact List.mem_filter.2 ⟨hr, hm⟩

end BloomVerif
