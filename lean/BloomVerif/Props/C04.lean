/-
  C04 — Prefilters never prune a block holding a row that satisfies them.
  Property theorems only; helpers live in Lemmas/.
-/
import BloomVerif.Model.PreTree
import BloomVerif.Lemmas.NumVal
import BloomVerif.Bridge.Leaf
import BloomVerif.Bridge.TreePre
namespace BloomVerif.C04
open BloomVerif

/-- Range cover, per operator: if the exact value satisfies the condition and the block's range
    contains the value's int64 range, the minmax evaluation keeps the block — for every operator,
    operand, saturation state, integers beyond ±2^63, fractional values and ±∞. -/
theorem C04_minmax_cover (c : NumericCondition) (v : NumVal) (mm : MinMaxIndex)
    (hc : c.WF) (hsat : satNum c v)
    (hlo : mm.Min ≤ (toRange v).1) (hhi : (toRange v).2 ≤ mm.Max) :
    evalMinMax mm c = true := by
  obtain ⟨hV, hMin, hMax, hVs⟩ := hc
  have hle := toRange_le v
  unfold satNum at hsat
  unfold evalMinMax
  dsimp only
  split at hsat
  all_goals (rename_i hop; simp only [hop])
  · -- EQ
    have a := not_gt_transfer v _ hV (eq_not_gt v _ hsat)
    have b := not_lt_transfer v _ hV (eq_not_lt v _ hsat)
    simp only [Bool.and_eq_true, decide_eq_true_eq]; omega
  · -- NE
    simp only [Bool.or_eq_true, decide_eq_true_eq]
    by_cases h1 : mm.Min = c.Value
    · by_cases h2 : mm.Max = c.Value
      · by_cases h3 : c.Value = maxInt64
        · left; right; omega
        · by_cases h4 : c.Value = minInt64
          · right; omega
          · exfalso
            unfold InI64 at hV
            apply hsat
            apply range_point_eq v c.Value <;> i64omega
      · left; left; right; exact h2
    · left; left; left; exact h1
  · -- GT
    have a := gt_transfer v _ hsat
    unfold InI64 at hV
    simp only [Bool.or_eq_true, decide_eq_true_eq]
    rcases a with a | a
    · left; omega
    · by_cases h : mm.Max = maxInt64
      · right; exact h
      · left; i64omega
  · -- GTE
    have a := not_lt_transfer v _ hV hsat
    simp only [decide_eq_true_eq]; omega
  · -- LT
    have a := lt_transfer v _ hsat
    unfold InI64 at hV
    simp only [Bool.or_eq_true, decide_eq_true_eq]
    rcases a with a | a
    · left; omega
    · by_cases h : mm.Min = minInt64
      · right; exact h
      · left; i64omega
  · -- LTE
    have a := not_gt_transfer v _ hV hsat
    simp only [decide_eq_true_eq]; omega
  · -- IN
    obtain ⟨x, hx, hxe⟩ := hsat
    have a := not_gt_transfer v _ (hVs x hx) (eq_not_gt v _ hxe)
    have b := not_lt_transfer v _ (hVs x hx) (eq_not_lt v _ hxe)
    simp only [List.any_eq_true, Bool.and_eq_true, decide_eq_true_eq]
    exact ⟨x, hx, by omega, by omega⟩
  · -- BETWEEN
    have a := not_lt_transfer v _ hMin hsat.1
    have b := not_gt_transfer v _ hMax hsat.2
    simp only [Bool.and_eq_true, decide_eq_true_eq]; omega
  · -- NOT_BETWEEN
    unfold InI64 at hMin hMax
    simp only [Bool.or_eq_true, decide_eq_true_eq]
    rcases hsat with h | h
    · rcases lt_transfer v _ h with a | a
      · left; left; left; omega
      · by_cases h' : mm.Min = minInt64
        · right; exact h'
        · left; left; left; i64omega
    · rcases gt_transfer v _ h with a | a
      · left; left; right; omega
      · by_cases h' : mm.Max = maxInt64
        · left; right; exact h'
        · left; left; right; i64omega
  · -- unknown operator: satisfied by nothing
    exact absurd hsat id

/-- non-vacuity: the fractional value 7/2 (int64 range [3, 4]) under `NOT_BETWEEN 4 AND 10` in a block with range [-10, 4] meets every premise; the block is kept -/
example :
    let c : NumericCondition := { Operator := "NOT_BETWEEN", Min := 4, Max := 10 }
    let v : NumVal := .rat (Rat.divInt 7 2)
    let mm : MinMaxIndex := { Min := -10, Max := 4 }
    (c.WF ∧ satNum c v ∧ mm.Min ≤ (toRange v).1 ∧ (toRange v).2 ≤ mm.Max) ∧ evalMinMax mm c = true := by
  intro c v mm
  have h : c.WF ∧ satNum c v ∧ mm.Min ≤ (toRange v).1 ∧ (toRange v).2 ≤ mm.Max :=
    ⟨⟨by decide, by decide, by decide, by simp [c]⟩, by decide, by decide, by decide⟩
  exact ⟨h, C04_minmax_cover c v mm h.1 h.2.1 h.2.2.1 h.2.2.2⟩

/-- The same statement about the function *regenerated from /repo's Go source on this run*. -/
theorem C04_minmax_cover_generated (c : NumericCondition) (v : NumVal) (mm : MinMaxIndex)
    (hc : c.WF) (hsat : satNum c v)
    (hlo : mm.Min ≤ (toRange v).1) (hhi : (toRange v).2 ≤ mm.Max) :
    Gen.EvaluateMinMaxCondition mm c = true := by
  rw [Bridge.evalMinMax_bridge]; exact C04_minmax_cover c v mm hc hsat hlo hhi

/-- non-vacuity: -∞ under `LT minInt64` in a block saturated below meets every premise; the regenerated function keeps the block by saturation, not by comparison -/
example :
    let c : NumericCondition := { Operator := "LT", Value := minInt64, Values := [1, 2] }
    let v : NumVal := .negInf
    let mm : MinMaxIndex := { Min := minInt64, Max := 0 }
    (c.WF ∧ satNum c v ∧ mm.Min ≤ (toRange v).1 ∧ (toRange v).2 ≤ mm.Max) ∧
    decide (mm.Min < c.Value) = false ∧ Gen.EvaluateMinMaxCondition mm c = true := by
  intro c v mm
  have h : c.WF ∧ satNum c v ∧ mm.Min ≤ (toRange v).1 ∧ (toRange v).2 ≤ mm.Max :=
    ⟨⟨by decide, by decide, by decide, by decide⟩, by decide, by decide, by decide⟩
  exact ⟨h, by decide, C04_minmax_cover_generated c v mm h.1 h.2.1 h.2.2.1 h.2.2.2⟩

/-- One prefilter condition: a row that satisfies it keeps every block that covers the row. -/
theorem C04_condition (m : DataBlockMetadata) (r : RowPre) (c : PreCond)
    (hcov : Covers m r) (hwf : c.WF) (h : rowSatCond r c = true) : evalPreCond m c = true := by
  unfold rowSatCond at h
  unfold evalPreCond
  split at h
  · rename_i ht; simp only [ht, if_true]
    cases hpc : c.PartitionCondition with
    | none => rfl
    | some sc =>
      simp only [hpc, Bool.and_eq_true, decide_eq_true_eq] at h
      simp [hcov.1, h.1, h.2]
  · split at h
    · rename_i hnt ht; simp only [ht, if_true]
      cases hmc : c.MinMaxCondition with
      | none => rfl
      | some nc =>
        simp only [hmc] at h
        cases hv : r.vals c.MinMaxFieldName with
        | none => simp [hv] at h
        | some v =>
          simp only [hv, decide_eq_true_eq] at h
          obtain ⟨mm, hl, h1, h2⟩ := hcov.2 _ _ hv
          simp only [hl]
          exact C04_minmax_cover nc v mm (hwf nc hmc) h h1 h2
    · exact absurd h (by simp)

/-- non-vacuity: a row in partition "p" with values k = 7 and t = 5/2, a block listing both keys with covering ranges, and the leaf `k IN [3, 7]`: covered, well-formed, satisfied -/
example :
    let r : RowPre := { pid := "p", vals := fun f =>
      if f = "k" then some (.int 7) else if f = "t" then some (.rat (Rat.divInt 5 2)) else none }
    let m : DataBlockMetadata :=
      { PartitionID := "p", Rows := 4, MinMaxIndexes := [("k", ⟨3, 9⟩), ("u", ⟨0, 0⟩), ("t", ⟨2, 3⟩)] }
    let c : PreCond := { ConditionType := "MINMAX", MinMaxFieldName := "k",
                         MinMaxCondition := some ({ Operator := "IN", Values := [3, 7] } : NumericCondition) }
    (Covers m r ∧ c.WF ∧ rowSatCond r c = true) ∧ evalPreCond m c = true := by
  intro r m c
  have hcov : Covers m r := by
    refine ⟨rfl, fun f v h => ?_⟩
    simp only [r] at h
    split at h
    · subst f; cases h; exact ⟨⟨3, 9⟩, by decide, by decide, by decide⟩
    · split at h
      · subst f; cases h; exact ⟨⟨2, 3⟩, by decide, by decide, by decide⟩
      · cases h
  have hwf : c.WF := by
    intro nc h; cases h; exact ⟨by decide, by decide, by decide, by decide⟩
  exact ⟨⟨hcov, hwf, by decide⟩, C04_condition m r c hcov hwf (by decide)⟩

/-- **C04**: every AND/OR combination inherits it — a block whose metadata covers a row is kept
    by every prefilter tree the row's own values satisfy (nil, empty and unknown nodes included). -/
theorem C04_tree (m : DataBlockMetadata) (r : RowPre) (e : Option PreExpr)
    (hcov : Covers m r) (hwf : Expr.ForallOpt PreCond.WF e)
    (h : rowSatPre r e = true) : evalPre m e = true :=
  Expr.evalOpt_mono (rowSatCond r) (evalPreCond m) PreCond.WF
    (fun c hc hs => C04_condition m r c hcov hc hs) e hwf h

/-- **C04 on the regenerated code**: the same statement about the functions re-translated from
    `evaluatePrefilterExpression` and `evaluatePrefilterCondition` on every run (tree walk: nil test, case
    constants, empty-OR test, both loops' early returns and the default all read off the Go text). -/
theorem C04_tree_generated (m : DataBlockMetadata) (r : RowPre) (e : Option PreExpr)
    (hcov : Covers m r) (hwf : Expr.ForallOpt PreCond.WF e)
    (h : rowSatPre r e = true) :
    Gen.evaluatePrefilterExpressionPtr (Gen.evaluatePrefilterCondition m) e = true := by
  rw [Bridge.evalPre_generated]; exact C04_tree m r e hcov hwf h

/-- non-vacuity (of `C04_tree` and `C04_tree_generated`): the same covered row under AND [ partition = "p", OR [ k BETWEEN 7 AND 8, t > 100 ], CONDITION nil ] meets every premise of both -/
example :
    let r : RowPre := { pid := "p", vals := fun f =>
      if f = "k" then some (.int 7) else if f = "t" then some (.rat (Rat.divInt 5 2)) else none }
    let m : DataBlockMetadata :=
      { PartitionID := "p", Rows := 4, MinMaxIndexes := [("k", ⟨3, 9⟩), ("u", ⟨0, 0⟩), ("t", ⟨2, 3⟩)] }
    let e : Option PreExpr := some (.mk "AND" none
      [.mk "CONDITION" (some { ConditionType := "PARTITION", PartitionCondition := some ({ Operator := "EQ", Value := "p" } : StringCondition) }) [],
       .mk "OR" none
         [.mk "CONDITION" (some { ConditionType := "MINMAX", MinMaxFieldName := "k", MinMaxCondition := some ({ Operator := "BETWEEN", Min := 7, Max := 8 } : NumericCondition) }) [],
          .mk "CONDITION" (some { ConditionType := "MINMAX", MinMaxFieldName := "t", MinMaxCondition := some ({ Operator := "GT", Value := 100 } : NumericCondition) }) []],
       .mk "CONDITION" none []])
    (Covers m r ∧ Expr.ForallOpt PreCond.WF e ∧ rowSatPre r e = true) ∧ evalPre m e = true ∧
    Gen.evaluatePrefilterExpressionPtr (Gen.evaluatePrefilterCondition m) e = true := by
  intro r m e
  have hcov : Covers m r := by
    refine ⟨rfl, fun f v h => ?_⟩
    simp only [r] at h
    split at h
    · subst f; cases h; exact ⟨⟨3, 9⟩, by decide, by decide, by decide⟩
    · split at h
      · subst f; cases h; exact ⟨⟨2, 3⟩, by decide, by decide, by decide⟩
      · cases h
  have hwf : Expr.ForallOpt PreCond.WF e := by
    simp [e, Expr.ForallOpt, Expr.Forall, Expr.ForallL, PreCond.WF, NumericCondition.WF]
    decide
  exact ⟨⟨hcov, hwf, by decide⟩, C04_tree m r e hcov hwf (by decide), C04_tree_generated m r e hcov hwf (by decide)⟩

/-- `UpdateMinMaxIndex` only widens: the updated range contains the old range and the new value. -/
theorem update_covers (e : MinMaxIndex) (a b : Int) :
    (updateMinMax e a b).Min ≤ e.Min ∧ e.Max ≤ (updateMinMax e a b).Max ∧
    (updateMinMax e a b).Min ≤ a ∧ b ≤ (updateMinMax e a b).Max := by
  unfold updateMinMax; simp only; refine ⟨?_, ?_, ?_, ?_⟩ <;> split <;> omega

/-- Widening a (well-formed) range never turns a kept block into a pruned one (used by C11). -/
theorem evalMinMax_mono (mm mm' : MinMaxIndex) (c : NumericCondition)
    (hI : InI64 mm.Min ∧ InI64 mm.Max) (hI' : InI64 mm'.Min ∧ InI64 mm'.Max)
    (hle : mm.Min ≤ mm.Max) (h1 : mm'.Min ≤ mm.Min) (h2 : mm.Max ≤ mm'.Max)
    (h : evalMinMax mm c = true) : evalMinMax mm' c = true := by
  unfold evalMinMax at *
  unfold InI64 at hI hI'
  dsimp only at *
  cases hop : parseOp c.Operator with
  | none => simp [hop] at h
  | some op =>
    simp only [hop] at h ⊢
    cases op <;> simp only [Bool.and_eq_true, Bool.or_eq_true, decide_eq_true_eq, List.any_eq_true] at h ⊢
    case isIn =>
      obtain ⟨x, hx, a, b⟩ := h
      exact ⟨x, hx, by omega, by omega⟩
    all_goals i64omega

/-- non-vacuity: widening the in-range block range [3, 9] to [1, 12] under `GT 5` (kept before, kept after) -/
example :
    let mm : MinMaxIndex := { Min := 3, Max := 9 }
    let mm' : MinMaxIndex := { Min := 1, Max := 12 }
    let c : NumericCondition := { Operator := "GT", Value := 5 }
    ((InI64 mm.Min ∧ InI64 mm.Max) ∧ (InI64 mm'.Min ∧ InI64 mm'.Max) ∧ mm.Min ≤ mm.Max ∧ mm'.Min ≤ mm.Min ∧
      mm.Max ≤ mm'.Max ∧ evalMinMax mm c = true) ∧ evalMinMax mm' c = true := by
  intro mm mm' c
  exact ⟨by decide, evalMinMax_mono mm mm' c (by decide) (by decide) (by decide) (by decide) (by decide) (by decide)⟩

/-- Non-vacuity: a uint64 value beyond int64, a saturated block range and a GT condition at the
    int64 maximum meet every hypothesis of `C04_minmax_cover`. -/
example :
    let c : NumericCondition := { Operator := "GT", Value := maxInt64 }
    let v : NumVal := .int 9223372036854775812
    let mm : MinMaxIndex := { Min := 5, Max := maxInt64 }
    c.WF ∧ satNum c v ∧ mm.Min ≤ (toRange v).1 ∧ (toRange v).2 ≤ mm.Max := by
  refine ⟨⟨by decide, by decide, by decide, by simp⟩, by decide, by decide, by decide⟩

/-- Non-vacuity of `C04_tree`: a two-level tree with a partition and a minmax leaf. -/
example :
    let r : RowPre := { pid := "p", vals := (fun f => if f = "k" then some (NumVal.int 7) else none) }
    let m : DataBlockMetadata := { PartitionID := "p", MinMaxIndexes := [("k", ⟨3, 9⟩)] }
    let e : Option PreExpr := some (.mk "AND" none
      [.mk "CONDITION" (some { ConditionType := "PARTITION", PartitionCondition := some ({ Operator := "EQ", Value := "p" } : StringCondition) }) [],
       .mk "OR" none [.mk "CONDITION" (some { ConditionType := "MINMAX", MinMaxFieldName := "k", MinMaxCondition := some ({ Operator := "BETWEEN", Min := 7, Max := 8 } : NumericCondition) }) []]])
    rowSatPre r e = true ∧ evalPre m e = true := by
  decide

end BloomVerif.C04
