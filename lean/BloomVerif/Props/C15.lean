/-
  C15 — The filesystem store is crash-consistent. PARTIAL: proved for flushes and aborted flushes
  (every filesystem mutation boundary, process crash and power loss); for merges with
  FileSystemDataStore as MetaStore the statement is false of the unchanged code (witnesses proved
  below, replayed on the implementation by the check, recorded as a known finding).
-/
import BloomVerif.Lemmas.Crash
namespace BloomVerif.C15
open BloomVerif BloomVerif.FSStore BloomVerif.Crash

/-- At every mutation boundary of a flush, after a process crash or a power loss, the pointer's final
    name is absent, an empty reservation (which no scan accepts) or the complete file: a new engine
    sees only complete files. -/
theorem C15_flush_partial (c : CFS) (b : String) (chunks : List Bytes) (n : Nat) (r : Recovered)
    (hb : dat b ≠ tmp b) (hf : FreshFor c b)
    (hp : PowerLoss (run c ((flushOps b chunks).take n)) r ∨ r = processCrash (run c ((flushOps b chunks).take n))) :
    recoveredDat r b = none ∨ recoveredDat r b = some [] ∨ recoveredDat r b = some chunks.flatten := by
  rcases hp with hp | hp
  · exact flush_power_loss_aux c b chunks n r hb hf hp
  · subst hp; exact flush_process_crash_aux c b chunks n hb hf

/-- Every row acknowledged before the crash survives it: the acknowledgement comes after Close
    returned, i.e. after the whole protocol including the directory fsync. -/
theorem acknowledged_rows_survive (c : CFS) (b : String) (chunks : List Bytes) (r : Recovered)
    (hb : dat b ≠ tmp b) (hf : FreshFor c b) (hp : PowerLoss (run c (flushOps b chunks)) r) :
    recoveredDat r b = some chunks.flatten :=
  flush_durable_after_close_aux c b chunks r hb hf hp

/-- A failed (aborted) flush never surfaces content: no row that was answered with an error can
    appear after a crash. -/
theorem aborted_flush_invisible (c : CFS) (b : String) (chunks : List Bytes) (n : Nat) (r : Recovered)
    (hb : dat b ≠ tmp b) (hf : FreshFor c b)
    (hp : PowerLoss (run c ((abortedFlushOps b chunks).take n)) r) :
    recoveredDat r b = none ∨ recoveredDat r b = some [] :=
  aborted_flush_aux c b chunks n r hb hf hp

/-- The same for the whole failure path the engine drives: Abort followed by TombstoneFile. -/
theorem failed_flush_invisible (c : CFS) (b : String) (chunks : List Bytes) (n : Nat) (r : Recovered)
    (hb : dat b ≠ tmp b) (hf : FreshFor c b)
    (hp : PowerLoss (run c ((failedFlushOps b chunks).take n)) r ∨ r = processCrash (run c ((failedFlushOps b chunks).take n))) :
    recoveredDat r b = none ∨ recoveredDat r b = some [] :=
  failed_flush_aux c b chunks n r hb hf hp

/-- The full statement is false for merges: a crash in the window between publishing the output and
    removing the sources shows every merged row twice … -/
theorem C15_merge_counterexample :
    let c0 := run {} (flushOps "s1" [[1]] ++ flushOps "s2" [[2]])
    let ops := mergeCommitOps "out" [[1, 2]] ["s1", "s2"]
    let r := processCrash (run c0 (ops.take (flushOps "out" [[1, 2]]).length))
    recoveredDat r "out" = some [1, 2] ∧ recoveredDat r "s1" = some [1] ∧ recoveredDat r "s2" = some [2] :=
  merge_window_duplicates_aux

/-- … and so does a power loss after the merge returned, because the removals are not fsynced. -/
theorem C15_merge_power_loss_counterexample :
    let c := run {} (flushOps "s1" [[1]] ++ flushOps "s2" [[2]] ++ mergeCommitOps "out" [[1, 2]] ["s1", "s2"])
    c.cur.lookup (dat "s1") = none ∧ c.dur.lookup (dat "s1") ≠ none ∧ c.dur.lookup (dat "out") ≠ none :=
  merge_power_loss_duplicates_aux

end BloomVerif.C15
