/-
  C15 — The filesystem store is crash-consistent. PARTIAL: proved for flushes and aborted flushes
  (every filesystem mutation boundary, process crash and power loss); for merges with
  FileSystemDataStore as MetaStore the statement is false of the unchanged code (witnesses proved
  below, replayed on the implementation by the check, recorded as a known finding).
-/
import BloomVerif.Lemmas.Crash
import BloomVerif.Lemmas.CrashHistory
namespace BloomVerif.C15
open BloomVerif BloomVerif.FSStore BloomVerif.Crash

/-- The side condition `dat b ≠ tmp b` of the theorems below is a fact about string append. -/
theorem dat_ne_tmp (b : String) : dat b ≠ tmp b := by
  intro h
  have h' := congrArg (fun s => s.toList.getLast?) h
  simp [dat, tmp, String.toList_append] at h'

/-- At every mutation boundary of a flush, after a process crash or a power loss, the pointer's final
    name is absent, an empty reservation (which no scan accepts) or the complete file: a new engine
    sees only complete files. -/
theorem C15_flush_partial (c : CFS) (b : String) (chunks : List Bytes) (n : Nat) (r : Recovered)
    (hb : dat b ≠ tmp b) (hf : FreshFor c b)
    (hp : PowerLoss (run c ((flushOps b chunks).take n)) r ∨ r = processCrash (run c ((flushOps b chunks).take n))) :
    recoveredDat r b = none ∨ recoveredDat r b = some [] ∨ recoveredDat r b = some chunks.flatten := by
  rcases hp with hp | hp
  · exact flush_power_loss_aux c b chunks n r hb hf hp
  · subst hp; exact flush_process_crash_aux c b chunks n hb hf

/-- witness directory: it already holds one flushed, durable file -/
private def nv_c0 : CFS := run {} (flushOps "s1" [[7]])
/-- witness power loss: every name reverts to the last directory fsync, every inode to its fsynced prefix -/
private def nv_revert (c : CFS) : Recovered := ⟨c.dur, fun i => (c.cur.data i).take (syncedLen c i)⟩
/-- witness power loss: the current names survive, but of every inode only its fsynced prefix -/
private def nv_torn (c : CFS) : Recovered := ⟨c.cur.names, fun i => (c.cur.data i).take (syncedLen c i)⟩

/-- non-vacuity: the premises of `C15_flush_partial` hold for a two-chunk flush into a directory that already holds a durable file, cut after the rename and before the directory fsync, under a power loss that reverts the names (first disjunct; the second is `Or.inr rfl`); the pointer is then absent -/
example : ∃ r, dat "out" ≠ tmp "out" ∧ FreshFor nv_c0 "out" ∧
    PowerLoss (run nv_c0 ((flushOps "out" [[1, 2], [3]]).take 6)) r ∧
    (PowerLoss (run nv_c0 ((flushOps "out" [[1, 2], [3]]).take 6)) r ∨
      r = processCrash (run nv_c0 ((flushOps "out" [[1, 2], [3]]).take 6))) ∧
    recoveredDat r "out" = none := by
  have hfresh : FreshFor nv_c0 "out" := by
    have e : nv_c0 = ⟨⟨[("s1.dat", 1)], [(0, []), (1, [7])], 2⟩, [("s1.dat", 1)], [(1, 1)]⟩ := by decide
    rw [e]
    refine ⟨by decide, by decide, by decide, by decide, ?_, ?_, ?_, by decide⟩
    · intro p i h; show i < 2
      simp only [FS.lookup, List.lookup_cons, List.lookup_nil] at h
      split at h <;> simp at h; omega
    · intro p i h; show i < 2
      simp only [List.lookup_cons, List.lookup_nil] at h
      split at h <;> simp at h; omega
    · intro i h; show i < 2
      simp only [List.lookup_cons, List.lookup_nil] at h
      split at h
      · simp_all
      · split at h <;> simp_all
  have hp : PowerLoss (run nv_c0 ((flushOps "out" [[1, 2], [3]]).take 6))
      (nv_revert (run nv_c0 ((flushOps "out" [[1, 2], [3]]).take 6))) := by
    have e : run nv_c0 ((flushOps "out" [[1, 2], [3]]).take 6) =
      ⟨⟨[("s1.dat", 1), ("out.dat", 3)], [(0, []), (1, [7]), (2, []), (3, [1, 2, 3])], 4⟩,
        [("s1.dat", 1)], [(3, 3), (1, 1)]⟩ := by decide
    rw [e]
    refine ⟨fun p i h => Or.inr h, fun p h => h.symm, fun i => ⟨_, Nat.le_refl _, ?_, rfl⟩⟩
    by_cases h3 : i = 3
    · subst h3; decide
    by_cases h1 : i = 1
    · subst h1; decide
    have h3' : (i == 3) = false := by simpa using h3
    have h1' : (i == 1) = false := by simpa using h1
    simp only [syncedLen, List.lookup_cons, List.lookup_nil, h3', h1']
    exact Nat.zero_le _
  exact ⟨_, by decide, hfresh, hp, Or.inl hp, by decide⟩

/-- non-vacuity: the process-crash disjunct of `C15_flush_partial` at the same cut; the theorem applies and the complete file is seen -/
example : recoveredDat (processCrash (run nv_c0 ((flushOps "out" [[1, 2], [3]]).take 6))) "out" = some [1, 2, 3] := by decide

/-- Every row acknowledged before the crash survives it: the acknowledgement comes after Close
    returned, i.e. after the whole protocol including the directory fsync. -/
theorem acknowledged_rows_survive (c : CFS) (b : String) (chunks : List Bytes) (r : Recovered)
    (hb : dat b ≠ tmp b) (hf : FreshFor c b) (hp : PowerLoss (run c (flushOps b chunks)) r) :
    recoveredDat r b = some chunks.flatten :=
  flush_durable_after_close_aux c b chunks r hb hf hp

/-- non-vacuity: the premises of `acknowledged_rows_survive` hold for the completed two-chunk flush into a directory holding a durable file, under the most destructive power loss (names revert to the last directory fsync, data to the fsynced prefix); the complete file survives -/
example : ∃ r, dat "out" ≠ tmp "out" ∧ FreshFor nv_c0 "out" ∧
    PowerLoss (run nv_c0 (flushOps "out" [[1, 2], [3]])) r ∧ recoveredDat r "out" = some [1, 2, 3] := by
  have hfresh : FreshFor nv_c0 "out" := by
    have e : nv_c0 = ⟨⟨[("s1.dat", 1)], [(0, []), (1, [7])], 2⟩, [("s1.dat", 1)], [(1, 1)]⟩ := by decide
    rw [e]
    refine ⟨by decide, by decide, by decide, by decide, ?_, ?_, ?_, by decide⟩
    · intro p i h; show i < 2
      simp only [FS.lookup, List.lookup_cons, List.lookup_nil] at h
      split at h <;> simp at h; omega
    · intro p i h; show i < 2
      simp only [List.lookup_cons, List.lookup_nil] at h
      split at h <;> simp at h; omega
    · intro i h; show i < 2
      simp only [List.lookup_cons, List.lookup_nil] at h
      split at h
      · simp_all
      · split at h <;> simp_all
  have hp : PowerLoss (run nv_c0 (flushOps "out" [[1, 2], [3]])) (nv_revert (run nv_c0 (flushOps "out" [[1, 2], [3]]))) := by
    have e : run nv_c0 (flushOps "out" [[1, 2], [3]]) =
      ⟨⟨[("s1.dat", 1), ("out.dat", 3)], [(0, []), (1, [7]), (2, []), (3, [1, 2, 3])], 4⟩,
        [("s1.dat", 1), ("out.dat", 3)], [(3, 3), (1, 1)]⟩ := by decide
    rw [e]
    refine ⟨fun p i h => Or.inr h, fun p h => h.symm, fun i => ⟨_, Nat.le_refl _, ?_, rfl⟩⟩
    by_cases h3 : i = 3
    · subst h3; decide
    by_cases h1 : i = 1
    · subst h1; decide
    have h3' : (i == 3) = false := by simpa using h3
    have h1' : (i == 1) = false := by simpa using h1
    simp only [syncedLen, List.lookup_cons, List.lookup_nil, h3', h1']
    exact Nat.zero_le _
  exact ⟨_, by decide, hfresh, hp, acknowledged_rows_survive nv_c0 "out" [[1, 2], [3]] _ (by decide) hfresh hp⟩

/-- A failed (aborted) flush never surfaces content: no row that was answered with an error can
    appear after a crash. -/
theorem aborted_flush_invisible (c : CFS) (b : String) (chunks : List Bytes) (n : Nat) (r : Recovered)
    (hb : dat b ≠ tmp b) (hf : FreshFor c b)
    (hp : PowerLoss (run c ((abortedFlushOps b chunks).take n)) r) :
    recoveredDat r b = none ∨ recoveredDat r b = some [] :=
  aborted_flush_aux c b chunks n r hb hf hp

/-- non-vacuity: the premises of `aborted_flush_invisible` hold for a two-chunk flush aborted after both writes, cut before the removals, under a power loss that keeps the names but drops unsynced data; the pointer is an empty reservation -/
example : ∃ r, dat "out" ≠ tmp "out" ∧ FreshFor nv_c0 "out" ∧
    PowerLoss (run nv_c0 ((abortedFlushOps "out" [[1, 2], [3]]).take 4)) r ∧ recoveredDat r "out" = some [] := by
  have hfresh : FreshFor nv_c0 "out" := by
    have e : nv_c0 = ⟨⟨[("s1.dat", 1)], [(0, []), (1, [7])], 2⟩, [("s1.dat", 1)], [(1, 1)]⟩ := by decide
    rw [e]
    refine ⟨by decide, by decide, by decide, by decide, ?_, ?_, ?_, by decide⟩
    · intro p i h; show i < 2
      simp only [FS.lookup, List.lookup_cons, List.lookup_nil] at h
      split at h <;> simp at h; omega
    · intro p i h; show i < 2
      simp only [List.lookup_cons, List.lookup_nil] at h
      split at h <;> simp at h; omega
    · intro i h; show i < 2
      simp only [List.lookup_cons, List.lookup_nil] at h
      split at h
      · simp_all
      · split at h <;> simp_all
  have hp : PowerLoss (run nv_c0 ((abortedFlushOps "out" [[1, 2], [3]]).take 4))
      (nv_torn (run nv_c0 ((abortedFlushOps "out" [[1, 2], [3]]).take 4))) := by
    have e : run nv_c0 ((abortedFlushOps "out" [[1, 2], [3]]).take 4) =
      ⟨⟨[("s1.dat", 1), ("out.dat", 2), ("out.tmp", 3)], [(0, []), (1, [7]), (2, []), (3, [1, 2, 3])], 4⟩,
        [("s1.dat", 1)], [(1, 1)]⟩ := by decide
    rw [e]
    refine ⟨fun p i h => Or.inl h, fun p _ => rfl, fun i => ⟨_, Nat.le_refl _, ?_, rfl⟩⟩
    by_cases h1 : i = 1
    · subst h1; decide
    have h1' : (i == 1) = false := by simpa using h1
    simp only [syncedLen, List.lookup_cons, List.lookup_nil, h1']
    exact Nat.zero_le _
  exact ⟨_, by decide, hfresh, hp, by decide⟩

/-- The same for the whole failure path the engine drives: Abort followed by TombstoneFile. -/
theorem failed_flush_invisible (c : CFS) (b : String) (chunks : List Bytes) (n : Nat) (r : Recovered)
    (hb : dat b ≠ tmp b) (hf : FreshFor c b)
    (hp : PowerLoss (run c ((failedFlushOps b chunks).take n)) r ∨ r = processCrash (run c ((failedFlushOps b chunks).take n))) :
    recoveredDat r b = none ∨ recoveredDat r b = some [] :=
  failed_flush_aux c b chunks n r hb hf hp

/-- `C15_flush_partial`, `acknowledged_rows_survive` and `failed_flush_invisible` with the side condition on
    the names discharged. -/
theorem C15_flush_partial' (c : CFS) (b : String) (chunks : List Bytes) (n : Nat) (r : Recovered) (hf : FreshFor c b)
    (hp : PowerLoss (run c ((flushOps b chunks).take n)) r ∨ r = processCrash (run c ((flushOps b chunks).take n))) :
    recoveredDat r b = none ∨ recoveredDat r b = some [] ∨ recoveredDat r b = some chunks.flatten :=
  C15_flush_partial c b chunks n r (dat_ne_tmp b) hf hp

theorem acknowledged_rows_survive' (c : CFS) (b : String) (chunks : List Bytes) (r : Recovered) (hf : FreshFor c b)
    (hp : PowerLoss (run c (flushOps b chunks)) r) : recoveredDat r b = some chunks.flatten :=
  acknowledged_rows_survive c b chunks r (dat_ne_tmp b) hf hp

theorem failed_flush_invisible' (c : CFS) (b : String) (chunks : List Bytes) (n : Nat) (r : Recovered) (hf : FreshFor c b)
    (hp : PowerLoss (run c ((failedFlushOps b chunks).take n)) r ∨ r = processCrash (run c ((failedFlushOps b chunks).take n))) :
    recoveredDat r b = none ∨ recoveredDat r b = some [] :=
  failed_flush_invisible c b chunks n r (dat_ne_tmp b) hf hp

/-- Over whole histories: run any sequence of successful and failed flushes with distinct names from the
    empty directory and stop at ANY filesystem mutation boundary `n`. Every flush that completed before
    that boundary is bound, currently and durably, to its complete fsynced content there … -/
theorem C15_history_acknowledged_durable (fs : List Flush) (k n : Nat) (f : Flush)
    (hg : GoodNames fs) (hk : k ≤ fs.length) (hn : (historyOps (fs.take k)).length ≤ n)
    (hmem : f ∈ fs.take k) (hok : f.ok = true) :
    crash_Final f.base f.chunks.flatten (run {} ((historyOps fs).take n)) :=
  history_completed_flushes_durable fs k n f hg hk hn hmem hok

theorem dat_ne_tmp' (a b : String) : dat a ≠ tmp b := by
  intro h
  have h' := congrArg (fun s => s.toList.getLast?) h
  simp [dat, tmp, String.toList_append] at h'

/-- Distinct base names are all the history theorems need: `GoodNames` follows. -/
theorem goodNames_of_nodup : ∀ fs : List Flush, (fs.map (·.base)).Nodup → GoodNames fs
  | [], _ => trivial
  | f :: rest, h => by
    have hn : f.base ∉ rest.map (·.base) := (List.nodup_cons.mp h).1
    refine ⟨dat_ne_tmp f.base, ?_, goodNames_of_nodup rest (List.nodup_cons.mp h).2⟩
    intro g hg
    have hne : g.base ≠ f.base := fun e => hn (List.mem_map.mpr ⟨g, hg, e⟩)
    have inj_dat : ∀ a b : String, dat a = dat b → a = b := fun a b h => (String.append_left_inj ".dat").mp h
    have inj_tmp : ∀ a b : String, tmp a = tmp b → a = b := fun a b h => (String.append_left_inj ".tmp").mp h
    refine ⟨⟨fun e => hne (inj_dat _ _ e), dat_ne_tmp' _ _, fun e => dat_ne_tmp' _ _ e.symm, fun e => hne (inj_tmp _ _ e)⟩,
            ⟨fun e => hne (inj_dat _ _ e).symm, dat_ne_tmp' _ _, fun e => dat_ne_tmp' _ _ e.symm, fun e => hne (inj_tmp _ _ e).symm⟩⟩

/-- … hence survives a process crash and every power-loss state at that boundary … -/
theorem C15_history_survives_crash (fs : List Flush) (k n : Nat) (f : Flush) (r : Recovered)
    (hg : GoodNames fs) (hk : k ≤ fs.length) (hn : (historyOps (fs.take k)).length ≤ n)
    (hmem : f ∈ fs.take k) (hok : f.ok = true)
    (hp : PowerLoss (run {} ((historyOps fs).take n)) r ∨ r = processCrash (run {} ((historyOps fs).take n))) :
    recoveredDat r f.base = some f.chunks.flatten := by
  have hfin := history_completed_flushes_durable fs k n f hg hk hn hmem hok
  rcases hp with hp | hp
  · exact crash_Final_power f.base _ _ r hfin hp
  · subst hp
    obtain ⟨i, h1, _, h3, _⟩ := hfin
    simp [recoveredDat, processCrash, FS.lookup] at *
    exact ⟨i, h1, h3⟩

/-- … and a flush that failed never has content under its final name at any boundary of the history. -/
theorem C15_history_failed_invisible (fs : List Flush) (n : Nat) (f : Flush) (r : Recovered)
    (hg : GoodNames fs) (hmem : f ∈ fs) (hok : f.ok = false)
    (hp : PowerLoss (run {} ((historyOps fs).take n)) r) :
    recoveredDat r f.base = none ∨ recoveredDat r f.base = some [] :=
  crash_Empty_power f.base _ r (history_failed_flushes_invisible fs n f hg hmem hok) hp

/-- non-vacuity: the premises of `failed_flush_invisible` hold for a two-chunk flush that fails after both writes, cut after Abort removed the temp file, under a power loss that keeps the names but drops unsynced data (first disjunct; the second is `Or.inr rfl`); the pointer is an empty reservation -/
example : ∃ r, dat "out" ≠ tmp "out" ∧ FreshFor nv_c0 "out" ∧
    (PowerLoss (run nv_c0 ((failedFlushOps "out" [[1, 2], [3]]).take 5)) r ∨
      r = processCrash (run nv_c0 ((failedFlushOps "out" [[1, 2], [3]]).take 5))) ∧
    recoveredDat r "out" = some [] := by
  have hfresh : FreshFor nv_c0 "out" := by
    have e : nv_c0 = ⟨⟨[("s1.dat", 1)], [(0, []), (1, [7])], 2⟩, [("s1.dat", 1)], [(1, 1)]⟩ := by decide
    rw [e]
    refine ⟨by decide, by decide, by decide, by decide, ?_, ?_, ?_, by decide⟩
    · intro p i h; show i < 2
      simp only [FS.lookup, List.lookup_cons, List.lookup_nil] at h
      split at h <;> simp at h; omega
    · intro p i h; show i < 2
      simp only [List.lookup_cons, List.lookup_nil] at h
      split at h <;> simp at h; omega
    · intro i h; show i < 2
      simp only [List.lookup_cons, List.lookup_nil] at h
      split at h
      · simp_all
      · split at h <;> simp_all
  have hp : PowerLoss (run nv_c0 ((failedFlushOps "out" [[1, 2], [3]]).take 5))
      (nv_torn (run nv_c0 ((failedFlushOps "out" [[1, 2], [3]]).take 5))) := by
    have e : run nv_c0 ((failedFlushOps "out" [[1, 2], [3]]).take 5) =
      ⟨⟨[("s1.dat", 1), ("out.dat", 2)], [(0, []), (1, [7]), (2, []), (3, [1, 2, 3])], 4⟩,
        [("s1.dat", 1)], [(1, 1)]⟩ := by decide
    rw [e]
    refine ⟨fun p i h => Or.inl h, fun p _ => rfl, fun i => ⟨_, Nat.le_refl _, ?_, rfl⟩⟩
    by_cases h1 : i = 1
    · subst h1; decide
    have h1' : (i == 1) = false := by simpa using h1
    simp only [syncedLen, List.lookup_cons, List.lookup_nil, h1']
    exact Nat.zero_le _
  exact ⟨_, by decide, hfresh, Or.inl hp, by decide⟩

/-- The full statement is false for merges: a crash in the window between publishing the output and
    removing the sources shows every merged row twice … -/
theorem C15_merge_counterexample :
    let c0 := run {} (flushOps "s1" [[1]] ++ flushOps "s2" [[2]])
    let ops := mergeCommitOps "out" [[1, 2]] ["s1", "s2"]
    let r := processCrash (run c0 (ops.take (flushOps "out" [[1, 2]]).length))
    recoveredDat r "out" = some [1, 2] ∧ recoveredDat r "s1" = some [1] ∧ recoveredDat r "s2" = some [2] :=
  merge_window_duplicates_aux

/-- … and so does a power loss after the merge returned, because the removals are not fsynced. -/
theorem C15_merge_power_loss_counterexample :
    let c := run {} (flushOps "s1" [[1]] ++ flushOps "s2" [[2]] ++ mergeCommitOps "out" [[1, 2]] ["s1", "s2"])
    c.cur.lookup (dat "s1") = none ∧ c.dur.lookup (dat "s1") ≠ none ∧ c.dur.lookup (dat "out") ≠ none :=
  merge_power_loss_duplicates_aux

end BloomVerif.C15
