/-
  C09 — Ingest applies bounded backpressure when flushing stalls.
-/
import BloomVerif.Lemmas.Pipeline
namespace BloomVerif.C09
open BloomVerif.Pipeline

/-- **C09**: whatever the stores do (a stalled store is simply a `flushDone` that never comes), the
    number of accepted but unanswered batches never exceeds IngestBufferSize + 4·MaxBufferedRows:
    the ingest channel plus at most MaxBufferedRows waiters each in the actor buffer, the parked
    request, the flush channel and the request being written. Further callers block. -/
theorem C09_bound (c : Cfg) (hc : 0 < c.maxRows) (s : St) (hr : Reachable c s) :
    (unanswered s).length ≤ c.ingestCap + 4 * c.maxRows :=
  backlog_bound_aux c hc s hr

/-- Witness trace for the non-vacuity example: a stalled store (a flush that began and never finishes) with
    requests piling up behind it. -/
private def nv_stalled : List Ev :=
  [.accept ⟨1, .rows 1⟩, .start, .accept ⟨2, .bad⟩, .actorRecv 1, .actorRecv 2, .accept ⟨3, .rows 1⟩, .actorRecv 3,
   .flushTrigger, .enqueued, .workerTake, .flushBegin, .accept ⟨4, .force⟩, .actorRecv 4, .flushTrigger, .enqueued,
   .accept ⟨5, .force⟩, .actorRecv 5, .flushTrigger, .accept ⟨6, .rows 3⟩, .accept ⟨7, .empty⟩]

/-- non-vacuity: the premises of `C09_bound` hold for that state: the worker, the flush channel, the parked
    request and the ingest channel are all occupied and six batches are unanswered; the theorem bounds them by 2 + 4·2 -/
example : ∃ s, 0 < (⟨2, 2⟩ : Cfg).maxRows ∧ Reachable ⟨2, 2⟩ s ∧ s.ingestQ.length = 2 ∧ s.pending.isSome = true ∧
    s.flushQ.isSome = true ∧ s.worker.isSome = true ∧ (unanswered s).length = 6 ∧ (unanswered s).length ≤ 2 + 4 * 2 :=
  ⟨_, by decide, ⟨nv_stalled, rfl⟩, rfl, rfl, rfl, rfl, by decide, C09_bound ⟨2, 2⟩ (by decide) _ ⟨nv_stalled, rfl⟩⟩

/-- Acceptance is impossible while the ingest channel is full (the caller blocks or fails). -/
theorem full_channel_blocks (c : Cfg) (s : St) (r : Req) (h : s.ingestQ.length ≥ c.ingestCap) :
    step c s (.accept r) = none := by
  simp [step, h]

/-- non-vacuity: the premise of `full_channel_blocks` holds once two batches sit in an ingest channel of
    capacity 2 on a running, not stopped engine; a third, fresh, well-formed batch is not accepted -/
example : ∃ s, run ⟨2, 5⟩ init [.start, .accept ⟨1, .rows 1⟩, .actorRecv 1, .accept ⟨2, .rows 1⟩, .accept ⟨3, .force⟩]
      = some s ∧ s.ingestQ.length ≥ (⟨2, 5⟩ : Cfg).ingestCap ∧ s.stopped = false ∧
    step ⟨2, 5⟩ s (.accept ⟨4, .rows 1⟩) = none :=
  ⟨_, rfl, by decide, rfl, full_channel_blocks ⟨2, 5⟩ _ ⟨4, .rows 1⟩ (by decide)⟩

end BloomVerif.C09
