/-
  C09 — Ingest applies bounded backpressure when flushing stalls.
-/
import BloomVerif.Lemmas.Pipeline
namespace BloomVerif.C09
open BloomVerif.Pipeline

/-- **C09**: whatever the stores do (a stalled store is simply a `flushDone` that never comes), the
    number of accepted but unanswered batches never exceeds IngestBufferSize + 4·MaxBufferedRows:
    the ingest channel plus at most MaxBufferedRows waiters each in the actor buffer, the parked
    request, the flush channel and the request being written. Further callers block. -/
theorem C09_bound (c : Cfg) (hc : 0 < c.maxRows) (s : St) (hr : Reachable c s) :
    (unanswered s).length ≤ c.ingestCap + 4 * c.maxRows :=
  backlog_bound_aux c hc s hr

/-- Acceptance is impossible while the ingest channel is full (the caller blocks or fails). -/
theorem full_channel_blocks (c : Cfg) (s : St) (r : Req) (h : s.ingestQ.length ≥ c.ingestCap) :
    step c s (.accept r) = none := by
  simp [step, h]

end BloomVerif.C09
