/-
  C06 — Acknowledgements are truthful: nil means durable, error means absent.
  For a failure injected at any store call (any set of calls: `fail` is an arbitrary predicate on
  call positions, which covers single faults and pairs), with or without an Abort-capable writer.
-/
import BloomVerif.Lemmas.Proto
namespace BloomVerif.C06
open BloomVerif BloomVerif.Proto

/-- nil is delivered exactly when CreateFile, every Write, Close and MetaStore.Update succeeded … -/
theorem ack_nil_iff (blocks : Nat) (hasAbort : Bool) (fail : Nat → Bool) :
    (flush blocks hasAbort fail).ackOk = flushEssential blocks fail :=
  flush_ack_iff_aux blocks hasAbort fail

/-- … and exactly then the file is referenced by the MetaStore: **nil ⇔ committed**. -/
theorem C06_nil_means_committed (blocks : Nat) (hasAbort : Bool) (fail : Nat → Bool) :
    (flush blocks hasAbort fail).committed = (flush blocks hasAbort fail).ackOk :=
  flush_committed_eq_ack_aux blocks hasAbort fail

/-- A committed flush published its file, tombstoned nothing and issued exactly the fault-free
    call sequence (the acknowledgement comes after Close and after Update). -/
theorem nil_is_clean (blocks : Nat) (hasAbort : Bool) (fail : Nat → Bool)
    (h : (flush blocks hasAbort fail).ackOk = true) :
    (flush blocks hasAbort fail).published = true ∧ (flush blocks hasAbort fail).tombstoned = false ∧
    (flush blocks hasAbort fail).calls = [.create] ++ List.replicate (flushWrites blocks) .write ++ [.close, .update] :=
  flush_ok_clean_aux blocks hasAbort fail h

/-- non-vacuity: the premise of `nil_is_clean` holds for a two-block flush whose only fault hits a call that is
    never issued (position 12, after Update), and the theorem gives its 12-call log -/
example : (flush 2 false (fun k => k == 12)).ackOk = true ∧
    (flush 2 false (fun k => k == 12)).calls =
      [.create, .write, .write, .write, .write, .write, .write, .write, .write, .write, .close, .update] :=
  ⟨by decide, (nil_is_clean 2 false (fun k => k == 12) (by decide)).2.2⟩

/-- **Error ⇒ absent**: an error acknowledgement means nothing was committed, and whatever was
    created has been tombstoned (so with an atomic MetaStore.Update no row of the batch can ever
    become visible). -/
theorem C06_err_means_absent (blocks : Nat) (hasAbort : Bool) (fail : Nat → Bool)
    (h : (flush blocks hasAbort fail).ackOk = false) :
    (flush blocks hasAbort fail).committed = false ∧
    (fail 0 = false → (flush blocks hasAbort fail).tombstoned = true) ∧
    (fail 0 = true → (flush blocks hasAbort fail).calls = [.create]) :=
  flush_err_cleanup_aux blocks hasAbort fail h

/-- non-vacuity: the premise of `C06_err_means_absent` holds for a two-block flush whose Close fails (writer
    without Abort), with `fail 0 = false`, so the tombstone conclusion is exercised -/
example : (flush 2 false (fun k => k == 10)).ackOk = false ∧ (fun k => k == 10) 0 = false ∧
    (flush 2 false (fun k => k == 10)).tombstoned = true :=
  ⟨by decide, by decide, (C06_err_means_absent 2 false (fun k => k == 10) (by decide)).2.1 (by decide)⟩

/-- non-vacuity: … and for a three-block flush whose CreateFile and MetaStore.Update fail (`fail 0 = true`) -/
example : (flush 3 true (fun k => k == 0 || k == 12)).ackOk = false ∧ (fun k => k == 0 || k == 12) 0 = true ∧
    (flush 3 true (fun k => k == 0 || k == 12)).calls = [.create] :=
  ⟨by decide, by decide, (C06_err_means_absent 3 true (fun k => k == 0 || k == 12) (by decide)).2.2 (by decide)⟩

/-- Committing the flushed file makes exactly its rows visible, exactly once, on any engine that
    reads the same MetaStore (the content model has no engine-local state). -/
theorem committed_rows_visible_once (files : List FileM) (f : FileM) :
    allRows (files ++ [f]) = allRows files ++ f.blocks.flatMap (·.rows) :=
  flush_visible_once_aux files f

theorem committed_query_adds_only_its_rows (s : Sem) (files : List FileM) (f : FileM) (q : Query) :
    query s (files ++ [f]) q = query s files q ++ queryFile s q f :=
  query_append_aux s files f q

/-- Non-vacuity: a fault at the third write of a two-block flush with an Abort-capable writer. -/
example : flush 2 true (fun k => k == 3) =
    { calls := [.create, .write, .write, .write, .abort, .tombstone], ackOk := false, committed := false,
      published := false, tombstoned := true } := by decide

end BloomVerif.C06
