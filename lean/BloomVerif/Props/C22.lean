/-
  C22 — Query I/O stays within MaxQueryConcurrency (safety bound; "others complete" is liveness,
  sampled on the implementation).
-/
import BloomVerif.Lemmas.Cursor
namespace BloomVerif.C22
open BloomVerif.Slots

/-- **C22**: in every state reachable by any interleaving of any number of workers of any number
    of queries, the reads in progress never exceed the semaphore capacity. -/
theorem C22_bound (cap : Nat) (tr : List Ev) (s' : St) (hr : run ⟨cap, []⟩ tr = some s') :
    readingCount s' ≤ cap := by
  have h := held_le_cap_aux ⟨cap, []⟩ tr s' (by simp [heldCount]) hr
  have := reading_le_held_aux s'
  have hc : s'.cap = cap := h.2
  have h1 := h.1
  rw [hc] at h1
  omega

/-- non-vacuity: the premise of `C22_bound` holds for three workers on a two-slot semaphore, two of them inside reads (the bound is attained), the third still idle -/
example : ∃ s', run ⟨2, []⟩ [.spawn, .spawn, .spawn, .acquire 0, .readBegin 0, .acquire 1, .readBegin 1] = some s' ∧
    s'.workers = [.reading, .reading, .idle] ∧ readingCount s' = 2 :=
  ⟨_, rfl, rfl, rfl⟩

/-- witness helper: an interleaving of three workers on two slots -/
private def nv_tr : List Ev := [.spawn, .spawn, .spawn, .acquire 0, .readBegin 0, .acquire 1, .readBegin 1,
  .readEnd 0, .block 0, .acquire 2, .readBegin 2, .unblock 0, .readEnd 1, .release 1, .exit 1]

/-- non-vacuity: a longer interleaving (read ends, worker 0 blocks on delivery and gives its slot to worker 2) also satisfies the premise, and `C22_bound` applied to it gives the bound -/
example : ∃ s', run ⟨2, []⟩ nv_tr = some s' ∧ nv_tr.length = 15 ∧
    s'.workers = [.idle, .done, .reading] ∧ readingCount s' ≤ 2 :=
  ⟨_, rfl, rfl, rfl, C22_bound 2 nv_tr _ rfl⟩

/-- non-vacuity: the premise is a real restriction — a third acquire while both slots are held is not a run -/
example : run ⟨2, []⟩ [.spawn, .spawn, .spawn, .acquire 0, .acquire 1, .acquire 2] = none := rfl

/-- A worker blocked on delivery or dispatch holds no slot. -/
theorem blocked_holds_nothing : held .blocked = false := rfl

end BloomVerif.C22
