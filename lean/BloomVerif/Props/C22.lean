/-
  C22 — Query I/O stays within MaxQueryConcurrency (safety bound; "others complete" is liveness,
  sampled on the implementation).
-/
import BloomVerif.Lemmas.Cursor
namespace BloomVerif.C22
open BloomVerif.Slots

/-- **C22**: in every state reachable by any interleaving of any number of workers of any number
    of queries, the reads in progress never exceed the semaphore capacity. -/
theorem C22_bound (cap : Nat) (tr : List Ev) (s' : St) (hr : run ⟨cap, []⟩ tr = some s') :
    readingCount s' ≤ cap := by
  have h := held_le_cap_aux ⟨cap, []⟩ tr s' (by simp [heldCount]) hr
  have := reading_le_held_aux s'
  have hc : s'.cap = cap := h.2
  have h1 := h.1
  rw [hc] at h1
  omega

/-- A worker blocked on delivery or dispatch holds no slot. -/
theorem blocked_holds_nothing : held .blocked = false := rfl

end BloomVerif.C22
