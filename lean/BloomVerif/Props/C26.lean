/-
  C26 — Bloom filters meet the configured false-positive rate at any volume.
  The rate itself is a statement about hashing statistics (bits-and-blooms), not about this code
  path; what the engine contributes is the sizing discipline: every filter is built from exactly the
  distinct entries of the rows it covers (so its capacity argument, `max |S| 1`, is the measured
  count). These theorems state that for the model; the correspondence check compares (m, k) of every
  written filter with EstimateParameters(max |S| 1, p), |S| computed with the Lean entries.
-/
import BloomVerif.Model.Content
namespace BloomVerif.C26
open BloomVerif

/-- A flushed block's filters are built from exactly the entries of its rows. -/
theorem block_filters_from_measured (s : Sem) (build : List Str → (Str → Bool)) (keys : List String)
    (pid : String) (rows : List Row) :
    (mkBlock s build keys pid rows).filt =
      buildFilt build (unionEntries (rows.map (fun r => rowEntries s.tok r.json))) := rfl

/-- A flushed file's filters are built from exactly the entries of all rows of all its blocks. -/
theorem file_filters_from_measured (s : Sem) (build : List Str → (Str → Bool)) (keys : List String)
    (parts : List (String × List Row)) :
    (flushFile s build keys parts).filt =
      buildFilt build (unionEntries (parts.flatMap (fun p => p.2.map (fun r => rowEntries s.tok r.json)))) := rfl

/-- A merge output file's filters are rebuilt from every row, copied blocks included. -/
theorem merge_file_filters_from_measured (s : Sem) (build : List Str → (Str → Bool)) (groups : List (List Block)) :
    (mergeFile s build groups).filt =
      buildFilt build (unionEntries ((groups.flatMap id).flatMap (fun b => b.rows.map (fun r => rowEntries s.tok r.json)))) := rfl

/-- The entry list a filter is built from contains every entry of every covered row and nothing
    else (so its distinct count is the measured count). -/
theorem union_exact (ens : List Entries) (x : Str) :
    x ∈ (unionEntries ens).tokens ↔ ∃ e ∈ ens, x ∈ e.tokens := by
  simp [unionEntries, List.mem_flatMap]

end BloomVerif.C26
