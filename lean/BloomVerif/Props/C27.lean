/-
  C27 — The engine is silent by default.
  The quantifier over "all operation histories" is discharged by a finite one: whatever history runs,
  the only places the package's own code can reach standard output / standard error are the call
  sites listed in `Gen.outputSinks` (regenerated from /repo's non-test sources on every run: fmt.Print*,
  print/println, log.*, package-level slog.*, os.Stdout/os.Stderr) and the configured logger, which
  `NewBloomSearchEngine` replaces by the discard handler when nil (`Gen.nilLoggerIsDiscard`).
  Third-party code is observed at run time (fd 1/2 capture), not modelled.
-/
import BloomVerif.Generated.Sinks
namespace BloomVerif.C27
open BloomVerif

/-- What one engine operation writes to stdout/stderr: the output of the sink call sites it reaches
    plus, unless the logger discards, its log records. -/
def opOutput (hit : List (String × String)) (loggerDiscards : Bool) (logged : List String) : List String :=
  hit.map (·.2) ++ (if loggerDiscards then [] else logged)

/-- The regenerated table is empty and a nil logger discards (kernel-evaluated on the table). -/
theorem no_sinks : Gen.outputSinks = [] ∧ Gen.nilLoggerIsDiscard = true := by decide

/-- **C27**: for every history (list of operations), each reaching any subset of the package's sink
    call sites and logging anything, nothing is written when no logger is configured. -/
theorem silent (history : List (List (String × String) × List String))
    (h : ∀ op ∈ history, ∀ x ∈ op.1, x ∈ Gen.outputSinks) :
    history.flatMap (fun op => opOutput op.1 Gen.nilLoggerIsDiscard op.2) = [] := by
  have hs := no_sinks
  have hall : ∀ op ∈ history, opOutput op.1 Gen.nilLoggerIsDiscard op.2 = [] := by
    intro op hop
    have h1 : op.1 = [] := by
      cases hc : op.1 with
      | nil => rfl
      | cons x xs =>
        have := h op hop x (by rw [hc]; exact List.mem_cons_self ..)
        rw [hs.1] at this; cases this
    simp [opOutput, h1, hs.2]
  induction history with
  | nil => rfl
  | cons op rest ih =>
    rw [List.flatMap_cons, hall op (List.mem_cons_self ..), List.nil_append]
    exact ih (fun o ho => h o (List.mem_cons_of_mem _ ho)) (fun o ho => hall o (List.mem_cons_of_mem _ ho))

/-- non-vacuity: the premise of `silent` holds for a three-operation history whose operations log records but reach no sink call site; the theorem applies. NOTE: because the regenerated table `Gen.outputSinks` is empty, the premise is satisfiable ONLY by histories whose operations reach no sink (next example) — the `hit` component of every witness is necessarily `[]`. -/
example : (∀ op ∈ [(([] : List (String × String)), ["flushed 2 rows", "merge started"]), ([], []), ([], ["query done"])],
      ∀ x ∈ op.1, x ∈ Gen.outputSinks) ∧
    ([(([] : List (String × String)), ["flushed 2 rows", "merge started"]), ([], []), ([], ["query done"])].flatMap
      (fun op => opOutput op.1 Gen.nilLoggerIsDiscard op.2) = []) := by
  have h : ∀ op ∈ [(([] : List (String × String)), ["flushed 2 rows", "merge started"]), ([], []), ([], ["query done"])],
      ∀ x ∈ op.1, x ∈ Gen.outputSinks := by
    intro op hop x hx
    simp only [List.mem_cons, List.not_mem_nil, or_false] at hop
    rcases hop with rfl | rfl | rfl <;> cases hx
  exact ⟨h, silent _ h⟩

/-- non-vacuity (degeneracy made explicit): with the current (empty) sink table the premise of `silent` forces every operation's reached-sink list to be empty, so the theorem's content is carried by `no_sinks` (the table is empty, a nil logger discards) and by the logged records being dropped. -/
example (history : List (List (String × String) × List String))
    (h : ∀ op ∈ history, ∀ x ∈ op.1, x ∈ Gen.outputSinks) : ∀ op ∈ history, op.1 = [] := by
  intro op hop
  cases hc : op.1 with
  | nil => rfl
  | cons x xs =>
    have := h op hop x (by rw [hc]; exact List.mem_cons_self ..)
    rw [no_sinks.1] at this; cases this

end BloomVerif.C27
