/-
  C19 — Corrupted or malformed files fail cleanly (bounds part): whatever values the framing fields
  hold (any int64), metadata accepted by the reader's validation — the function regenerated from
  /repo's Go source — drives no read, slice or allocation outside the file, and no intermediate
  addition or subtraction of the validation overflows.
-/
import BloomVerif.Lemmas.Format
namespace BloomVerif.C19
open BloomVerif

/-- The regenerated (wrapping, int64) validation equals the exact-arithmetic model on every int64
    input: no subtraction or addition on its path overflows. -/
theorem validate_no_overflow (m : FileMetadata) (dataLimit : Int) (hm : FileI64 m) (hd : InI64 dataLimit) :
    Gen.validate m dataLimit = validFile m dataLimit :=
  validate_bridge_aux m dataLimit hm hd

theorem validateFilterSection_no_overflow (b : DataBlockMetadata) (ro re : Int) (hb : BlockI64 b)
    (h1 : InI64 ro) (h2 : InI64 re) (h3 : re - ro ≤ maxInt64) :
    Gen.validateFilterSection b ro re = validSection b ro re :=
  validSection_bridge_aux b ro re hb h1 h2 h3

/-- **Acceptance implies in-bounds**, for all values of the framing fields: the region lies in the
    data area, every block's row data lies before the region, every filter section lies inside the
    region — so every extent a reader seeks to or allocates for is at most the file's size. -/
theorem C19_validate_ok_in_bounds (m : FileMetadata) (dataLimit : Int) (hm : FileI64 m) (hd : InI64 dataLimit)
    (h : Gen.validate m dataLimit = true) : InBounds m dataLimit := by
  rw [validate_no_overflow m dataLimit hm hd] at h
  exact valid_in_bounds_aux m dataLimit h

/-- A section served from the chunk in hand is sliced inside the chunk buffer. -/
theorem held_section_in_buf (b : DataBlockMetadata) (chunkStart bufLen lo hi : Int)
    (hlen : 0 ≤ bufLen) (hsz : 0 ≤ b.BloomFilterSize)
    (h : heldSection b chunkStart bufLen = some (lo, hi)) :
    0 ≤ lo ∧ lo ≤ hi ∧ hi ≤ bufLen ∧ hi - lo = b.BloomFilterSize :=
  held_section_in_buf_aux b chunkStart bufLen lo hi hlen hsz h

/-- A chunk read for a validated section starts at that section, covers it, stays inside the
    region, and is no larger than the chunk target unless the section alone is. -/
theorem chunk_within_region (target rs re : Int) (b : DataBlockMetadata) (following : List DataBlockMetadata)
    (ht : 0 ≤ target) (hv : validSection b rs re = true) (hs : 0 < b.BloomFilterSize) :
    rs ≤ (chunkFor target rs re b following).1 ∧
    (chunkFor target rs re b following).1 = b.BloomFilterOffset ∧
    b.BloomFilterOffset + b.BloomFilterSize ≤ (chunkFor target rs re b following).2 ∧
    (chunkFor target rs re b following).2 ≤ re ∧
    ((chunkFor target rs re b following).2 - (chunkFor target rs re b following).1 ≤ target ∨
     (chunkFor target rs re b following).2 - (chunkFor target rs re b following).1 = b.BloomFilterSize) :=
  chunk_within_region_aux target rs re b following ht hv hs

/-- The row scanner never consumes more than the section holds: a corrupt length prefix is an
    error, not an oversized read. -/
theorem scanner_in_bounds (fuel : Nat) (bs : Bytes) (rs : List Bytes)
    (h : scanRows fuel bs = .ok rs) : (rs.map (·.length)).sum + 4 * rs.length ≤ bs.length :=
  scan_in_bounds_aux fuel bs rs h

/-- Non-vacuity: an accepted non-trivial file. -/
example : Gen.validate (layout [⟨10, 3⟩, ⟨0, 0⟩, ⟨7, 5⟩]) 30 = true := by decide

/-- Non-vacuity: offsets near the int64 extremes are rejected rather than wrapped. -/
example : Gen.validate { BlockFilterRegionOffset := 5, BlockFilterRegionSize := 9223372036854775807, DataBlocks := [] } 9223372036854775807 = false := by
  decide

end BloomVerif.C19

