/-
  C19 — Corrupted or malformed files fail cleanly (bounds part): whatever values the framing fields
  hold (any int64), metadata accepted by the reader's validation — the function regenerated from
  /repo's Go source — drives no read, slice or allocation outside the file, and no intermediate
  addition or subtraction of the validation overflows.
-/
import BloomVerif.Lemmas.Format
import BloomVerif.Bridge.Scanner
import BloomVerif.Bridge.ScannerList
import BloomVerif.Bridge.Held
import BloomVerif.Bridge.Chunk
namespace BloomVerif.C19
open BloomVerif

/-- The regenerated (wrapping, int64) validation equals the exact-arithmetic model on every int64
    input: no subtraction or addition on its path overflows. -/
theorem validate_no_overflow (m : FileMetadata) (dataLimit : Int) (hm : FileI64 m) (hd : InI64 dataLimit) :
    Gen.validate m dataLimit = validFile m dataLimit :=
  validate_bridge_aux m dataLimit hm hd

/-- witness metadata: every framing field at an int64 extreme (a hostile footer) -/
private def nv_hostile : FileMetadata :=
  { BlockFilterRegionOffset := 9223372036854775807, BlockFilterRegionSize := 9223372036854775807,
    DataBlocks := [{ RowDataOffset := -9223372036854775808, RowDataSize := 9223372036854775807,
                     BloomFilterOffset := 9223372036854775807, BloomFilterSize := 9223372036854775807 }] }

/-- non-vacuity: the premises of `validate_no_overflow` hold for the metadata of a written three-block file and for a footer with every field at an int64 extreme; on the latter both sides are `false` -/
example : (FileI64 (layout [⟨10, 3⟩, ⟨0, 0⟩, ⟨7, 5⟩]) ∧ InI64 30) ∧
    (FileI64 nv_hostile ∧ InI64 9223372036854775807) ∧
    Gen.validate nv_hostile 9223372036854775807 = false ∧ validFile nv_hostile 9223372036854775807 = false := by
  refine ⟨⟨?_, by decide⟩, ⟨?_, by decide⟩, by decide, by decide⟩
  · unfold FileI64 BlockI64; decide
  · unfold FileI64 BlockI64; decide

theorem validateFilterSection_no_overflow (b : DataBlockMetadata) (ro re : Int) (hb : BlockI64 b)
    (h1 : InI64 ro) (h2 : InI64 re) (h3 : re - ro ≤ maxInt64) :
    Gen.validateFilterSection b ro re = validSection b ro re :=
  validSection_bridge_aux b ro re hb h1 h2 h3

/-- non-vacuity: the premises of `validateFilterSection_no_overflow` hold for an ordinary section inside its region and for a section with offset and size at `maxInt64` in the widest admissible region `[0, maxInt64]`; the latter is rejected by both sides -/
example : (BlockI64 { BloomFilterOffset := 12, BloomFilterSize := 5 } ∧ InI64 10 ∧ InI64 20 ∧ (20 : Int) - 10 ≤ maxInt64) ∧
    (BlockI64 { BloomFilterOffset := 9223372036854775807, BloomFilterSize := 9223372036854775807 } ∧
      InI64 0 ∧ InI64 9223372036854775807 ∧ (9223372036854775807 : Int) - 0 ≤ maxInt64) ∧
    Gen.validateFilterSection { BloomFilterOffset := 12, BloomFilterSize := 5 } 10 20 = true ∧
    Gen.validateFilterSection { BloomFilterOffset := 9223372036854775807, BloomFilterSize := 9223372036854775807 }
      0 9223372036854775807 = false := by
  refine ⟨⟨?_, by decide, by decide, by decide⟩, ⟨?_, by decide, by decide, by decide⟩, by decide, by decide⟩
  · unfold BlockI64; decide
  · unfold BlockI64; decide

/-- **Acceptance implies in-bounds**, for all values of the framing fields: the region lies in the
    data area, every block's row data lies before the region, every filter section lies inside the
    region — so every extent a reader seeks to or allocates for is at most the file's size. -/
theorem C19_validate_ok_in_bounds (m : FileMetadata) (dataLimit : Int) (hm : FileI64 m) (hd : InI64 dataLimit)
    (h : Gen.validate m dataLimit = true) : InBounds m dataLimit := by
  rw [validate_no_overflow m dataLimit hm hd] at h
  exact valid_in_bounds_aux m dataLimit h

/-- non-vacuity: the premises of `C19_validate_ok_in_bounds` hold for the metadata of a written three-block file (one block without a filter section) with 15 bytes to spare; the theorem applies -/
example : FileI64 (layout [⟨10, 3⟩, ⟨0, 0⟩, ⟨7, 5⟩]) ∧ InI64 40 ∧
    Gen.validate (layout [⟨10, 3⟩, ⟨0, 0⟩, ⟨7, 5⟩]) 40 = true ∧ InBounds (layout [⟨10, 3⟩, ⟨0, 0⟩, ⟨7, 5⟩]) 40 := by
  have hm : FileI64 (layout [⟨10, 3⟩, ⟨0, 0⟩, ⟨7, 5⟩]) := by unfold FileI64 BlockI64; decide
  exact ⟨hm, by decide, by decide, C19_validate_ok_in_bounds _ 40 hm (by decide) (by decide)⟩

/-- A section served from the chunk in hand is sliced inside the chunk buffer. -/
theorem held_section_in_buf (b : DataBlockMetadata) (chunkStart bufLen lo hi : Int)
    (hlen : 0 ≤ bufLen) (hsz : 0 ≤ b.BloomFilterSize)
    (h : heldSection b chunkStart bufLen = some (lo, hi)) :
    0 ≤ lo ∧ lo ≤ hi ∧ hi ≤ bufLen ∧ hi - lo = b.BloomFilterSize :=
  held_section_in_buf_aux b chunkStart bufLen lo hi hlen hsz h

/-- non-vacuity: the premises of `held_section_in_buf` hold for a 16-byte section at offset 120 served from a 64-byte chunk read at 100; the slice is `[20, 36)` -/
example : (0 : Int) ≤ 64 ∧ (0 : Int) ≤ ({ BloomFilterOffset := 120, BloomFilterSize := 16 } : DataBlockMetadata).BloomFilterSize ∧
    heldSection { BloomFilterOffset := 120, BloomFilterSize := 16 } 100 64 = some (20, 36) := by decide

/-- A chunk read for a validated section starts at that section, covers it, stays inside the
    region, and is no larger than the chunk target unless the section alone is. -/
theorem chunk_within_region (target rs re : Int) (b : DataBlockMetadata) (following : List DataBlockMetadata)
    (ht : 0 ≤ target) (hv : validSection b rs re = true) (hs : 0 < b.BloomFilterSize) :
    rs ≤ (chunkFor target rs re b following).1 ∧
    (chunkFor target rs re b following).1 = b.BloomFilterOffset ∧
    b.BloomFilterOffset + b.BloomFilterSize ≤ (chunkFor target rs re b following).2 ∧
    (chunkFor target rs re b following).2 ≤ re ∧
    ((chunkFor target rs re b following).2 - (chunkFor target rs re b following).1 ≤ target ∨
     (chunkFor target rs re b following).2 - (chunkFor target rs re b following).1 = b.BloomFilterSize) :=
  chunk_within_region_aux target rs re b following ht hv hs

/-- non-vacuity: the premises of `chunk_within_region` hold for a valid 10-byte section followed by an empty section, an adjacent 8-byte section (absorbed) and a distant one (past the 32-byte target); the chunk is `[110, 128)` -/
example : (0 : Int) ≤ 32 ∧ validSection { BloomFilterOffset := 110, BloomFilterSize := 10 } 100 200 = true ∧
    (0 : Int) < ({ BloomFilterOffset := 110, BloomFilterSize := 10 } : DataBlockMetadata).BloomFilterSize ∧
    chunkFor 32 100 200 { BloomFilterOffset := 110, BloomFilterSize := 10 }
      [{ BloomFilterOffset := 120, BloomFilterSize := 0 }, { BloomFilterOffset := 120, BloomFilterSize := 8 },
       { BloomFilterOffset := 150, BloomFilterSize := 20 }] = (110, 128) := by decide

/-- The row scanner never consumes more than the section holds: a corrupt length prefix is an
    error, not an oversized read. -/
theorem scanner_in_bounds (fuel : Nat) (bs : Bytes) (rs : List Bytes)
    (h : scanRows fuel bs = .ok rs) : (rs.map (·.length)).sum + 4 * rs.length ≤ bs.length :=
  scan_in_bounds_aux fuel bs rs h

/-- non-vacuity: the premise of `scanner_in_bounds` holds for the section written for three rows (one empty); the theorem applies: 4 payload bytes + 3 prefixes ≤ 16 bytes -/
example : scanRows 10 (encodeRows [[1, 2, 3], [], [9]]) = .ok [[1, 2, 3], [], [9]] ∧
    (([[1, 2, 3], [], [9]] : List Bytes).map (·.length)).sum + 4 * ([[1, 2, 3], [], [9]] : List Bytes).length ≤
      (encodeRows [[1, 2, 3], [], [9]]).length :=
  ⟨rfl, scanner_in_bounds 10 _ _ rfl⟩

/-- Non-vacuity: an accepted non-trivial file. -/
example : Gen.validate (layout [⟨10, 3⟩, ⟨0, 0⟩, ⟨7, 5⟩]) 30 = true := by decide

/-- Non-vacuity: offsets near the int64 extremes are rejected rather than wrapped. -/
example : Gen.validate { BlockFilterRegionOffset := 5, BlockFilterRegionSize := 9223372036854775807, DataBlocks := [] } 9223372036854775807 = false := by
  decide

/-- **The row scanner as regenerated from `BlockRowScanner.Next`** (every slice and the 4-byte read of the Go
    text turned into an explicit bounds obligation): from any cursor inside a section of any length, whatever
    32-bit word stands at the cursor, a step never indexes out of range; a returned row lies inside the
    section right behind its prefix, and the cursor moves strictly forward to the row's end. -/
theorem scanner_generated_in_bounds (n pos : Int) (word : Int → Int)
    (hn : n ≤ 9223372036854775807) (hp : 0 ≤ pos) (hpn : pos ≤ n)
    (hw : 0 ≤ word pos) (hw' : word pos < 4294967296) :
    Gen.BlockRowScanner_Next n pos word ≠ .panic ∧
    ∀ lo hi p', Gen.BlockRowScanner_Next n pos word = .row lo hi p' →
      lo = pos + 4 ∧ hi = lo + word pos ∧ hi ≤ n ∧ p' = hi ∧ pos < p' :=
  ⟨Bridge.scanner_step_no_panic n pos word hn hp hpn hw hw',
   fun lo hi p' h => Bridge.scanner_step_row n pos word lo hi p' hn hp hpn hw hw' h⟩

/-- non-vacuity: a 10-byte section whose prefix announces 6 bytes yields the row [4,10); announcing 7 is an
    error, not an out-of-range slice; 3 trailing bytes are an error too -/
example : Gen.BlockRowScanner_Next 10 0 (fun _ => 6) = .row 4 10 10 ∧ Gen.BlockRowScanner_Next 10 0 (fun _ => 7) = .err ∧
    Gen.BlockRowScanner_Next 10 7 (fun _ => 0) = .err ∧ Gen.BlockRowScanner_Next 10 10 (fun _ => 0) = .done ∧
    (Gen.BlockRowScanner_Next 10 0 (fun _ => 6) ≠ .panic ∧ ∀ lo hi p', Gen.BlockRowScanner_Next 10 0 (fun _ => 6) = .row lo hi p' →
      lo = 0 + 4 ∧ hi = lo + 6 ∧ hi ≤ 10 ∧ p' = hi ∧ 0 < p') :=
  ⟨by decide, by decide, by decide, by decide,
   scanner_generated_in_bounds 10 0 (fun _ => 6) (by decide) (by decide) (by decide) (by decide) (by decide)⟩

/-- The regenerated step is the step of the byte-list model: for any section that fits an int and any cursor in
    it, one unfolding of `scanRows` (which `scanner_in_bounds` here and the round-trip theorems of C17 are about)
    is exactly what the regenerated `BlockRowScanner.Next` does at that cursor - same end, same errors, same
    row, same next cursor. -/
theorem scanner_generated_is_model (fuel : Nat) (data : Bytes) (pos : Nat) (hp : pos ≤ data.length)
    (hn : (data.length : Int) ≤ 9223372036854775807) :
    scanRows (fuel + 1) (data.drop pos) =
      match Gen.BlockRowScanner_Next data.length pos (fun o => Bridge.wordAt data o.toNat) with
      | .done => .ok []
      | .err => .error (if data.length - pos < 4 then .truncatedPrefix else .lengthExceeds)
      | .row lo hi p' =>
        (match scanRows fuel (data.drop p'.toNat) with
         | .ok rs => .ok (((data.drop lo.toNat).take (hi - lo).toNat) :: rs)
         | .error e => .error e)
      | .panic => .error .truncatedPrefix :=
  Bridge.scanRows_generated_step fuel data pos hp hn

/-- non-vacuity: the section written for two rows, scanned from the second row's prefix (cursor 5) -/
example : scanRows 3 ((encodeRows [[7], [8, 9]]).drop 5) = .ok [[8, 9]] ∧
    5 ≤ (encodeRows [[7], [8, 9]]).length ∧ ((encodeRows [[7], [8, 9]]).length : Int) ≤ 9223372036854775807 ∧
    Gen.BlockRowScanner_Next (encodeRows [[7], [8, 9]]).length 5 (fun o => Bridge.wordAt (encodeRows [[7], [8, 9]]) o.toNat) = .row 9 11 11 := by
  refine ⟨by rfl, by decide, by decide, by decide⟩

/-- **`heldSection` as regenerated from the Go text** (the returned slice `c.buf[offset : offset+size]` made an
    explicit bounds obligation): for every chunk position and length and every section whose size is not
    negative (what `validateFilterSection` establishes first), it never slices out of range, and it is the
    model's `heldSection` that `held_section_in_buf` is about - a section that starts before the chunk in hand,
    ends behind it or is larger than it is answered "not held". -/
theorem held_section_generated (bufNil : Bool) (bufLen chunkStart : Int) (b : DataBlockMetadata)
    (hl : 0 ≤ bufLen) (hl' : bufLen ≤ 9223372036854775807)
    (hc : InI64 chunkStart) (ho : InI64 b.BloomFilterOffset) (hd : InI64 (b.BloomFilterOffset - chunkStart))
    (hs : 0 ≤ b.BloomFilterSize) (hs' : b.BloomFilterSize ≤ 9223372036854775807) :
    Gen.heldSection bufNil bufLen chunkStart b ≠ .panic ∧
    Gen.heldSection false bufLen chunkStart b =
      (match heldSection b chunkStart bufLen with | none => .none | some (lo, hi) => .some lo hi) :=
  ⟨Bridge.heldSection_no_panic bufNil bufLen chunkStart b hl hl' hc ho hd hs hs',
   Bridge.heldSection_bridge bufLen chunkStart b hl hl' hc ho hd hs hs'⟩

/-- non-vacuity: a 100-byte chunk at 400; a section at [430,460) is held as [30,60), a section starting before
    the chunk (at 380) is not held, and neither is one ending behind it -/
example :
    Gen.heldSection false 100 400 { BloomFilterOffset := 430, BloomFilterSize := 30 } = .some 30 60 ∧
    Gen.heldSection false 100 400 { BloomFilterOffset := 380, BloomFilterSize := 30 } = .none ∧
    Gen.heldSection false 100 400 { BloomFilterOffset := 480, BloomFilterSize := 30 } = .none ∧
    (Gen.heldSection false 100 400 { BloomFilterOffset := 380, BloomFilterSize := 30 } ≠ .panic ∧
     Gen.heldSection false 100 400 { BloomFilterOffset := 380, BloomFilterSize := 30 } =
       (match heldSection { BloomFilterOffset := 380, BloomFilterSize := 30 } 400 100 with | none => .none | some (lo, hi) => .some lo hi)) :=
  ⟨by decide, by decide, by decide,
   held_section_generated false 100 400 { BloomFilterOffset := 380, BloomFilterSize := 30 } (by decide) (by decide)
     (by decide) (by decide) (by decide) (by decide) (by decide)⟩

/-- **The chunk `readChunkFrom` reads, as regenerated from the Go text** (its extension loop with continue / break
    and both accumulators): for a region inside int64, a valid non-empty section to start from and any blocks
    after it, the extent read starts at that section, covers it, stays inside the block filter region, and is
    no longer than the target unless the section alone is. -/
theorem chunk_generated_within_region (target rs re : Int) (b : DataBlockMetadata) (following : List DataBlockMetadata)
    (hrs : 0 ≤ rs) (hre : re ≤ maxInt64) (ht0 : 0 ≤ target) (ht : target ≤ maxInt64)
    (hv : validSection b rs re = true) (hs : 0 < b.BloomFilterSize) (hall : ∀ x ∈ following, BlockI64 x) :
    let start := (Gen.readChunkFrom_extent target rs re b following).1
    let stop := (Gen.readChunkFrom_extent target rs re b following).2.1
    rs ≤ start ∧ start = b.BloomFilterOffset ∧ b.BloomFilterOffset + b.BloomFilterSize ≤ stop ∧ stop ≤ re ∧
    (stop - start ≤ target ∨ stop - start = b.BloomFilterSize) := by
  intro start stop
  have hg := Bridge.chunkFor_generated target rs re b following hrs hre ht0 ht hv hs hall
  have hw := chunk_within_region target rs re b following ht0 hv hs
  have h1 : start = (chunkFor target rs re b following).1 := congrArg Prod.fst hg
  have h2 : stop = (chunkFor target rs re b following).2 := congrArg Prod.snd hg
  rw [h1, h2]; exact hw

/-- non-vacuity: a valid 10-byte section at 110 in the region [100,200), followed by an empty section, an adjacent
    8-byte one (absorbed: the chunk grows to 128), one behind the start (ends the extension) - target 32 -/
example :
    let fol : List DataBlockMetadata := [{ BloomFilterOffset := 0, BloomFilterSize := 0 }, { BloomFilterOffset := 120, BloomFilterSize := 8 },
      { BloomFilterOffset := 104, BloomFilterSize := 4 }, { BloomFilterOffset := 128, BloomFilterSize := 2 }]
    Gen.readChunkFrom_extent 32 100 200 { BloomFilterOffset := 110, BloomFilterSize := 10 } fol = (110, (128, 2)) ∧
    ((100 : Int) ≤ 110 ∧ (128 : Int) ≤ 200) := by
  intro fol
  have h := chunk_generated_within_region 32 100 200 { BloomFilterOffset := 110, BloomFilterSize := 10 } fol
    (by decide) (by decide) (by decide) (by decide) (by decide) (by decide)
    (by intro x hx; simp only [fol, List.mem_cons, List.mem_nil_iff, or_false] at hx
        rcases hx with rfl | rfl | rfl | rfl <;> (refine ⟨?_, ?_, ?_, ?_⟩ <;> decide))
  have e : Gen.readChunkFrom_extent 32 100 200 { BloomFilterOffset := 110, BloomFilterSize := 10 } fol = (110, (128, 2)) := by decide
  rw [e] at h
  exact ⟨e, h.1, h.2.2.2.1⟩

end BloomVerif.C19

