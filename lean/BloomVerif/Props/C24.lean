/-
  C24 — Pruning is effective: disqualified data is never read (model: failure-free, uncancelled
  runs; the extents actually read are compared with the plan on the implementation).
-/
import BloomVerif.Model.ReadPlan
namespace BloomVerif.C24
open BloomVerif.ReadPlan

/-- A file is opened only if it has prefilter-surviving blocks and (when there are bloom/regex
    conditions) its file-level filters do not rule out the query. -/
theorem open_requires (hb : Bool) (f : QFile) (h : (filePlan hb f).opened = true) :
    kept f ≠ [] ∧ (hb = true → f.fileFilt = true) := by
  unfold filePlan at h
  dsimp only at h
  split at h
  · simp at h
  · rename_i hk
    split at h
    · simp at h
    · rename_i hf
      refine ⟨by intro e; simp [e] at hk, ?_⟩
      intro hbt
      simp only [hbt, Bool.true_and, Bool.not_eq_true', Bool.not_eq_false] at hf
      cases hff : f.fileFilt <;> simp_all

/-- non-vacuity: the premise of `open_requires` holds for a three-block file with bloom conditions whose file-level filters pass; two of its blocks survive the prefilter -/
example : ∃ f : QFile, (filePlan true f).opened = true ∧ f.blocks.length = 3 ∧ (kept f).length = 2 :=
  ⟨⟨true, [⟨0, 5, true, false, 9⟩, ⟨40, 3, true, true, 9⟩, ⟨80, 1, false, true, 9⟩]⟩, by decide, by decide, by decide⟩

/-- non-vacuity: the premise also holds without bloom conditions for a file whose file-level filters would have ruled the query out -/
example : ∃ f : QFile, (filePlan false f).opened = true ∧ f.fileFilt = false ∧ (kept f).length = 1 :=
  ⟨⟨false, [⟨0, 5, true, false, 9⟩, ⟨40, 3, false, true, 0⟩]⟩, by decide, by decide, by decide⟩

/-- Row data of a block is read only if its metadata satisfies the prefilter and its filters do
    not rule the query out. -/
theorem rowread_requires (hb : Bool) (f : QFile) (o : Nat) (h : o ∈ rowReads (filePlan hb f)) :
    ∃ b ∈ f.blocks, b.off = o ∧ b.pre = true ∧ (hb = true → b.secSize > 0 → b.filt = true) := by
  unfold rowReads filePlan at h
  dsimp only at h
  split at h
  · simp at h
  · split at h
    · simp at h
    · simp only [List.mem_map, List.mem_filter] at h
      obtain ⟨⟨o', st⟩, ⟨hm, hp⟩, ho⟩ := h
      obtain ⟨b, hbk, hbe⟩ := hm
      unfold kept at hbk
      rw [List.mem_filter] at hbk
      have h1 : b.off = o' := (Prod.mk.inj hbe).1
      have h2 : blockStat hb b = st := (Prod.mk.inj hbe).2
      simp only at ho hp
      refine ⟨b, hbk.1, by rw [h1, ho], hbk.2, ?_⟩
      intro hbt hsz
      rw [← h2] at hp
      unfold blockStat at hp
      cases hf : b.filt
      · simp [hbt, hsz, hf] at hp
      · rfl

/-- non-vacuity: the premise of `rowread_requires` holds for block 40 of a three-block file (block 0 is pruned by its filters, block 80 by the prefilter) -/
example : ∃ (f : QFile) (o : Nat), o ∈ rowReads (filePlan true f) ∧ o = 40 ∧ f.blocks.length = 3 :=
  ⟨⟨true, [⟨0, 5, true, false, 9⟩, ⟨40, 3, true, true, 9⟩, ⟨80, 1, false, true, 9⟩]⟩, 40, by decide, by decide, by decide⟩

/-- Without bloom or regex conditions no block filter region is read. -/
theorem no_region_read_without_conditions (f : QFile) : (filePlan false f).regionRead = false := by
  unfold filePlan
  dsimp only
  split
  · rfl
  · split <;> simp

/-- Non-vacuity: one block pruned by its filters, one scanned, one dropped by the prefilter. -/
example : filePlan true ⟨true, [⟨0, 5, true, false, 9⟩, ⟨40, 3, true, true, 9⟩, ⟨80, 1, false, true, 9⟩]⟩ =
    ⟨true, true, [(0, .skipped), (40, .processed)]⟩ := by decide

end BloomVerif.C24
