/-
  C10 — Buffered rows are flushed without an explicit Flush (logic part; the wall-clock allowance
  is the ticker period and is monitored on the implementation).
-/
import BloomVerif.Lemmas.Actor
namespace BloomVerif.C10
open BloomVerif.Actor

/-- Between messages every buffered partition and the whole buffer are strictly under all four
    limits — for every message sequence. -/
theorem under_limits_invariant (c : ACfg) (hc : Positive c) (ms : List Msg) :
    UnderLimits c (runMsgs c {} ms).1 ∧ Consistent (runMsgs c {} ms).1 := by
  suffices h : ∀ s, UnderLimits c s ∧ Consistent s → UnderLimits c (runMsgs c s ms).1 ∧ Consistent (runMsgs c s ms).1 from
    h {} (init_inv_aux c hc)
  induction ms with
  | nil => intro s h; exact h
  | cons m ms ih => intro s h; exact ih _ (step_inv_aux c hc s m h)

/-- **Immediately**: if processing a batch makes buffered rows, buffered bytes, or a touched
    partition's rows or bytes reach its limit, the step hands *all* buffered data (and every waiter)
    to the flush worker and leaves the buffer empty. -/
theorem C10_immediate (c : ACfg) (s : ASt) (w : Nat) (rows : List RowIn) (now : Nat)
    (hne : rows ≠ []) (h : reaches c s rows = true) :
    step c s (.batch w rows now) = ({}, [.flush (addRows rows s.parts) (s.waiters ++ [w])]) ∧
    (partIds (addRows rows s.parts)).Perm (partIds s.parts ++ rows.map (·.id)) :=
  ⟨immediate_aux c s w rows now hne h, addRows_ids_aux rows s.parts⟩

/-- **By time**: with rows buffered since `t`, any tick at or after `t + MaxBufferedTime` flushes
    everything; with tick period τ the request is enqueued by `t + MaxBufferedTime + τ`. -/
theorem C10_time (c : ACfg) (s : ASt) (now t : Nat) (hr : s.rows > 0) (ht : s.t0 = some t)
    (hn : now ≥ t + c.maxTime) : step c s (.tick now) = ({}, [.flush s.parts s.waiters]) :=
  time_aux c s now t hr ht hn

/-- Rows are buffered with a start time, so `C10_time` always applies to a non-empty buffer. -/
theorem buffered_has_start (c : ACfg) (hc : Positive c) (ms : List Msg) :
    (runMsgs c {} ms).1.rows > 0 → (runMsgs c {} ms).1.t0.isSome = true :=
  (under_limits_invariant c hc ms).2.2.2.1

/-- No row is lost or duplicated on the way to the flush worker. -/
theorem conservation (c : ACfg) (ms : List Msg) :
    (partIds (runMsgs c {} ms).1.parts ++ effIds (runMsgs c {} ms).2).Perm (msgIds ms) := by
  simpa [partIds] using conservation_aux c {} ms

/-- (C06) A batch with an unmarshalable row leaves no trace in the buffers. -/
theorem reject_leaves_no_trace (c : ACfg) (s : ASt) (w : Nat) : step c s (.bad w) = (s, [.ack w false]) :=
  bad_no_trace_aux c s w

/-- Non-vacuity: a batch crossing the partition row limit flushes both buffered partitions. -/
example :
    let c : ACfg := ⟨10, 1000, 2, 1000, 100⟩
    (runMsgs c {} [.batch 1 [⟨1, "a", 10⟩, ⟨2, "b", 10⟩] 0, .batch 2 [⟨3, "a", 10⟩] 5]).2 =
      [.flush [⟨"a", [1, 3], 20⟩, ⟨"b", [2], 10⟩] [1, 2]] := by decide

end BloomVerif.C10
