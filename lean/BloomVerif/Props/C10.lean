/-
  C10 — Buffered rows are flushed without an explicit Flush (logic part; the wall-clock allowance
  is the ticker period and is monitored on the implementation).
-/
import BloomVerif.Lemmas.Actor
namespace BloomVerif.C10
open BloomVerif.Actor

/-- Between messages every buffered partition and the whole buffer are strictly under all four
    limits — for every message sequence. -/
theorem under_limits_invariant (c : ACfg) (hc : Positive c) (ms : List Msg) :
    UnderLimits c (runMsgs c {} ms).1 ∧ Consistent (runMsgs c {} ms).1 := by
  suffices h : ∀ s, UnderLimits c s ∧ Consistent s → UnderLimits c (runMsgs c s ms).1 ∧ Consistent (runMsgs c s ms).1 from
    h {} (init_inv_aux c hc)
  induction ms with
  | nil => intro s h; exact h
  | cons m ms ih => intro s h; exact ih _ (step_inv_aux c hc s m h)

/-- Witness config for the non-vacuity examples: all limits positive (10 rows, 1000 bytes, 2 rows and 1000 bytes
    per partition, 100 time units). -/
private def nv_cfg : ACfg := ⟨10, 1000, 2, 1000, 100⟩

/-- Witness state: the actor after a rejected batch, a two-row batch for two partitions at time 7, and a quiet tick. -/
private def nv_buffered : ASt :=
  (runMsgs nv_cfg {} [.bad 9, .batch 1 [⟨1, "a", 10⟩, ⟨2, "b", 10⟩] 7, .tick 50]).1

/-- non-vacuity: the premise of `under_limits_invariant` holds for that config, and for the message sequence above
    the invariant speaks about a non-empty buffer (two partitions, two rows, 20 bytes, start time 7) -/
example : Positive nv_cfg ∧
    nv_buffered = { parts := [⟨"a", [1], 10⟩, ⟨"b", [2], 10⟩], waiters := [1], rows := 2, bytes := 20, t0 := some 7 } ∧
    (UnderLimits nv_cfg nv_buffered ∧ Consistent nv_buffered) :=
  ⟨⟨by decide, by decide, by decide, by decide⟩, by decide,
   under_limits_invariant nv_cfg ⟨by decide, by decide, by decide, by decide⟩ [.bad 9, .batch 1 [⟨1, "a", 10⟩, ⟨2, "b", 10⟩] 7, .tick 50]⟩

/-- **Immediately**: if processing a batch makes buffered rows, buffered bytes, or a touched
    partition's rows or bytes reach its limit, the step hands *all* buffered data (and every waiter)
    to the flush worker and leaves the buffer empty. -/
theorem C10_immediate (c : ACfg) (s : ASt) (w : Nat) (rows : List RowIn) (now : Nat)
    (hne : rows ≠ []) (h : reaches c s rows = true) :
    step c s (.batch w rows now) = ({}, [.flush (addRows rows s.parts) (s.waiters ++ [w])]) ∧
    (partIds (addRows rows s.parts)).Perm (partIds s.parts ++ rows.map (·.id)) :=
  ⟨immediate_aux c s w rows now hne h, addRows_ids_aux rows s.parts⟩

/-- non-vacuity: the premises of `C10_immediate` hold for the buffered state above and a one-row batch that brings
    partition "a" to its row-group limit (2); the step flushes both partitions and both waiters -/
example : ([⟨3, "a", 10⟩] : List RowIn) ≠ [] ∧ reaches nv_cfg nv_buffered [⟨3, "a", 10⟩] = true ∧
    step nv_cfg nv_buffered (.batch 2 [⟨3, "a", 10⟩] 60) = ({}, [.flush [⟨"a", [1, 3], 20⟩, ⟨"b", [2], 10⟩] [1, 2]]) :=
  ⟨by decide, by decide, (C10_immediate nv_cfg nv_buffered 2 [⟨3, "a", 10⟩] 60 (by decide) (by decide)).1⟩

/-- **By time**: with rows buffered since `t`, any tick at or after `t + MaxBufferedTime` flushes
    everything; with tick period τ the request is enqueued by `t + MaxBufferedTime + τ`. -/
theorem C10_time (c : ACfg) (s : ASt) (now t : Nat) (hr : s.rows > 0) (ht : s.t0 = some t)
    (hn : now ≥ t + c.maxTime) : step c s (.tick now) = ({}, [.flush s.parts s.waiters]) :=
  time_aux c s now t hr ht hn

/-- non-vacuity: the premises of `C10_time` hold for the buffered state above (rows buffered since 7) and a tick
    at 107 = 7 + MaxBufferedTime; the tick flushes both partitions -/
example : nv_buffered.rows > 0 ∧ nv_buffered.t0 = some 7 ∧ 107 ≥ 7 + nv_cfg.maxTime ∧
    step nv_cfg nv_buffered (.tick 107) = ({}, [.flush [⟨"a", [1], 10⟩, ⟨"b", [2], 10⟩] [1]]) :=
  ⟨by decide, by decide, by decide, C10_time nv_cfg nv_buffered 107 7 (by decide) (by decide) (by decide)⟩

/-- Rows are buffered with a start time, so `C10_time` always applies to a non-empty buffer. -/
theorem buffered_has_start (c : ACfg) (hc : Positive c) (ms : List Msg) :
    (runMsgs c {} ms).1.rows > 0 → (runMsgs c {} ms).1.t0.isSome = true :=
  (under_limits_invariant c hc ms).2.2.2.1

/-- non-vacuity: both premises of `buffered_has_start` (positive config, rows buffered) hold for the message
    sequence behind `nv_buffered`, and the start time it yields is the batch's arrival time -/
example : Positive nv_cfg ∧
    (runMsgs nv_cfg {} [.bad 9, .batch 1 [⟨1, "a", 10⟩, ⟨2, "b", 10⟩] 7, .tick 50]).1.rows > 0 ∧
    (runMsgs nv_cfg {} [.bad 9, .batch 1 [⟨1, "a", 10⟩, ⟨2, "b", 10⟩] 7, .tick 50]).1.t0 = some 7 :=
  ⟨⟨by decide, by decide, by decide, by decide⟩, by decide, by decide⟩

/-- No row is lost or duplicated on the way to the flush worker. -/
theorem conservation (c : ACfg) (ms : List Msg) :
    (partIds (runMsgs c {} ms).1.parts ++ effIds (runMsgs c {} ms).2).Perm (msgIds ms) := by
  simpa [partIds] using conservation_aux c {} ms

/-- (C06) A batch with an unmarshalable row leaves no trace in the buffers. -/
theorem reject_leaves_no_trace (c : ACfg) (s : ASt) (w : Nat) : step c s (.bad w) = (s, [.ack w false]) :=
  bad_no_trace_aux c s w

/-- Non-vacuity: a batch crossing the partition row limit flushes both buffered partitions. -/
example :
    let c : ACfg := ⟨10, 1000, 2, 1000, 100⟩
    (runMsgs c {} [.batch 1 [⟨1, "a", 10⟩, ⟨2, "b", 10⟩] 0, .batch 2 [⟨3, "a", 10⟩] 5]).2 =
      [.flush [⟨"a", [1, 3], 20⟩, ⟨"b", [2], 10⟩] [1, 2]] := by decide

end BloomVerif.C10
