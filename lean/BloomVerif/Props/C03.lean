/-
  C03 — Returned rows faithfully reproduce the stored JSON and are independent.
  Value part: PARTIAL. The full statement ("equals the ingested row after a JSON round trip, for
  every row encoding/json can decode") is false of the unchanged code for rows that reach the engine
  through json.RawMessage with a duplicated object key (proved below with a witness, replayed on the
  implementation by the check, recorded as a known finding); it holds for rows without duplicated keys.
  Independence part: the model can only exhibit protocol order (no view or copy after the buffer is
  returned to the pool; deliveries come from copies); aliasing itself is a memory property, probed by
  the poisoned-pool run of the correspondence check.
-/
import BloomVerif.Lemmas.Value
namespace BloomVerif.C03
open BloomVerif

/-- The delivered value (gjson, first binding wins) equals the reference round trip (encoding/json,
    last binding wins) for every row in which no object repeats a key. -/
theorem C03_fidelity_partial (t : J) (h : NoDupKeys t) : valueFirst t = valueLast t :=
  value_agree_aux t h

/-- non-vacuity: a nested row (object in object, array of objects) without duplicated keys — "b" recurs only at different levels — is delivered as its round trip -/
example :
    let t : J := .obj [("a".toList, .obj [("b".toList, .num "1".toList), ("c".toList, .arr [.null, .obj [("b".toList, .bool true)]])]),
                       ("b".toList, .str "x".toList)]
    NoDupKeys t ∧ valueFirst t = valueLast t := by
  intro t
  have h : NoDupKeys t := by simp [t, NoDupKeys, NoDupKeysKV, NoDupKeysL]
  exact ⟨h, C03_fidelity_partial t h⟩

/-- The unguarded statement is false: a duplicated key is delivered with its first value while the
    JSON round trip yields the last. -/
theorem C03_fidelity_counterexample :
    ∃ t : J, valueFirst t ≠ valueLast t :=
  ⟨.obj [(['a'], .num ['1']), (['a'], .num ['2'])], dup_key_differs_aux⟩

/-- In every block scan no view or copy touches the buffer after it was returned to the pool … -/
theorem scan_no_use_after_put (b : Nat) (matched : Nat → Bool) (n : Nat) :
    NoUseAfterPut b (scanTrace b matched n) :=
  scan_no_use_after_put_aux b matched n

/-- … and every delivered row was built from a copy taken while the buffer was held. -/
theorem delivered_from_copy (b : Nat) (matched : Nat → Bool) (n : Nat) (r : Nat)
    (h : ScanOp.deliver r ∈ scanTrace b matched n) : ScanOp.copy b r ∈ scanTrace b matched n :=
  deliver_after_copy_aux b matched n r h

/-- non-vacuity: in a five-row scan on buffer 7 where the odd rows match, row 3 is delivered (and was copied) -/
example :
    ScanOp.deliver 3 ∈ scanTrace 7 (fun i => i % 2 == 1) 5 ∧ ScanOp.copy 7 3 ∈ scanTrace 7 (fun i => i % 2 == 1) 5 :=
  ⟨by decide, delivered_from_copy 7 _ 5 3 (by decide)⟩

/-- Non-vacuity: a nested row without duplicate keys. -/
example : NoDupKeys (.obj [(['a'], .obj [(['b'], .num ['1']), (['c'], .arr [.null])]), (['b'], .str ['x'])]) := by
  simp [NoDupKeys, NoDupKeysKV, NoDupKeysL]

end BloomVerif.C03
