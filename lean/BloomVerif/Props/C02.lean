/-
  C02 — Query results are exact at row level and block-granular for prefilters.
-/
import BloomVerif.Lemmas.Exact
namespace BloomVerif.C02
open BloomVerif

/-- Every returned row is a stored row that satisfies the bloom and regex expressions under the
    documented semantics: bloom false positives never leak (filters may be arbitrary here — no
    well-formedness is assumed). -/
theorem query_sound (s : Sem) (files : List FileM) (q : Query) (r : Row)
    (h : r ∈ query s files q) : r ∈ allRows files ∧ rowMatches s q r = true :=
  query_sound_aux s files q r h

/-- witness engine parameters: split-on-blank tokenizer, "pattern is a prefix of the text" as regex oracle,
    exact-membership filters -/
private def nv_sem : Sem := { tok := fieldsOn (fun c => c == ' '), re := fun p t => p.isPrefixOf t }
private def nv_build : List Str → (Str → Bool) := fun l x => l.contains x
/-- witness prefilter view of a row: partition `pid`, one indexed value under key "n" -/
private def nv_pre (pid : String) (v : NumVal) : RowPre :=
  { pid := pid, vals := fun f => if f = "n" then some v else none }
/-- witness rows: `{"a":{"b":"hello world","n":42}}` and `{"a":{"b":"bye world"}}` in p1, `{"a":"hello"}` in p2 -/
private def nv_r1 : Row :=
  { json := .obj [("a".toList, .obj [("b".toList, .str "hello world".toList), ("n".toList, .num "42".toList)])],
    pre := nv_pre "p1" (.int 42) }
private def nv_r2 : Row :=
  { json := .obj [("a".toList, .obj [("b".toList, .str "bye world".toList)])], pre := nv_pre "p1" (.int 7) }
private def nv_r3 : Row :=
  { json := .obj [("a".toList, .str "hello".toList)], pre := nv_pre "p2" (.int 45) }
/-- witness store: two flushed files; the second has two blocks (partitions p1 and p2) -/
private def nv_files : List FileM :=
  [flushFile nv_sem nv_build ["n"] [("p2", [nv_r3])],
   flushFile nv_sem nv_build ["n"] [("p1", [nv_r1, nv_r2]), ("p2", [nv_r3])]]
/-- witness query: partition = p1 AND n ≥ 5; token "world" under a.b; regex a.b ~ "hel" -/
private def nv_q : Query :=
  { pre := some (.mk "AND" none
      [.mk "CONDITION" (some { ConditionType := "PARTITION", PartitionCondition := some ({ Operator := "EQ", Value := "p1" } : StringCondition) }) [],
       .mk "CONDITION" (some { ConditionType := "MINMAX", MinMaxFieldName := "n", MinMaxCondition := some ({ Operator := "GTE", Value := 5 } : NumericCondition) }) []]),
    bloom := some (.mk "CONDITION" (some { Kind := "FIELD_TOKEN", Field := "a.b".toList, Token := "world".toList }) []),
    regex := some (.mk "OR" none [.mk "CONDITION" (some { Field := "a.b".toList, Pattern := "hel".toList }) []]) }

/-- non-vacuity: the three-part query over a two-file flushed store returns exactly the nested row (the other p1 row passes the bloom test but fails the regex) -/
example :
    nv_r1 ∈ query nv_sem nv_files nv_q ∧ query nv_sem nv_files nv_q = [nv_r1] ∧
    (nv_r1 ∈ allRows nv_files ∧ rowMatches nv_sem nv_q nv_r1 = true) := by
  have e : query nv_sem nv_files nv_q = [nv_r1] := by rfl
  have h : nv_r1 ∈ query nv_sem nv_files nv_q := by rw [e]; exact .head _
  exact ⟨h, e, query_sound nv_sem nv_files nv_q nv_r1 h⟩

/-- Each stored row is returned at most as many times as it was stored: the answer is a sublist
    of the stored rows. -/
theorem query_multiplicity (s : Sem) (files : List FileM) (q : Query) :
    (query s files q).Sublist (allRows files) :=
  query_sublist_aux s files q

/-- With a prefilter, the answer is exactly the matching rows of the blocks whose metadata
    satisfies the prefilter under strict leaf semantics. -/
theorem C02_block_granular (s : Sem) (reOK : Str → Bool) (files : List FileM) (q : Query)
    (hwf : ∀ f ∈ files, FileWF s f) (hv : q.Valid reOK) :
    query s files q = (selectedRows files q).filter (rowMatches s q) :=
  block_granular_aux s reOK files q hwf hv

/-- the witness store bundled with its certificate: both flushed files are index-covered -/
private def nv_store : { files : List FileM // ∀ f ∈ files, FileWF nv_sem f } := ⟨nv_files, by
  have hfc : ∀ l l' : List Str, (∀ x ∈ l', l.contains x = true) → FiltCoversList (some (nv_build l)) l' := by
    intro l l' h g hg; cases hg; exact h
  have hFC : ∀ all en : Entries, (∀ x ∈ en.fields, all.fields.contains x = true) →
      (∀ x ∈ en.tokens, all.tokens.contains x = true) →
      (∀ x ∈ en.fieldTokens, all.fieldTokens.contains x = true) → FiltCovers (buildFilt nv_build all) en :=
    fun _ _ h1 h2 h3 => ⟨hfc _ _ h1, hfc _ _ h2, hfc _ _ h3⟩
  have hCov : ∀ pid v (m : DataBlockMetadata) (mm : MinMaxIndex), m.PartitionID = pid →
      lookupMM "n" m.MinMaxIndexes = some mm → mm.Min ≤ (toRange v).1 → (toRange v).2 ≤ mm.Max →
      Covers m (nv_pre pid v) := by
    intro pid v m mm h1 h2 h3 h4
    refine ⟨h1, fun f w h => ?_⟩
    simp only [nv_pre] at h; split at h
    · subst f; cases h; exact ⟨mm, h2, h3, h4⟩
    · cases h
  intro f hf b hb
  simp only [nv_files, List.mem_cons, List.mem_nil_iff, or_false] at hf
  rcases hf with rfl | rfl <;>
    simp only [flushFile, List.map_cons, List.map_nil, List.mem_cons, List.mem_nil_iff, or_false] at hb
  · subst hb
    refine ⟨fun r hr => ?_, fun r hr => ?_⟩ <;>
      (simp only [mkBlock, List.mem_cons, List.mem_nil_iff, or_false] at hr; subst hr)
    · exact ⟨hCov _ _ _ ⟨45, 45⟩ rfl (by decide) (by decide) (by decide), hFC _ _ (by decide) (by decide) (by decide)⟩
    · exact hFC _ _ (by decide) (by decide) (by decide)
  · rcases hb with rfl | rfl
    · refine ⟨fun r hr => ?_, fun r hr => ?_⟩ <;>
        (simp only [mkBlock, List.mem_cons, List.mem_nil_iff, or_false] at hr; rcases hr with rfl | rfl)
      · exact ⟨hCov _ _ _ ⟨7, 42⟩ rfl (by decide) (by decide) (by decide), hFC _ _ (by decide) (by decide) (by decide)⟩
      · exact ⟨hCov _ _ _ ⟨7, 42⟩ rfl (by decide) (by decide) (by decide), hFC _ _ (by decide) (by decide) (by decide)⟩
      · exact hFC _ _ (by decide) (by decide) (by decide)
      · exact hFC _ _ (by decide) (by decide) (by decide)
    · refine ⟨fun r hr => ?_, fun r hr => ?_⟩ <;>
        (simp only [mkBlock, List.mem_cons, List.mem_nil_iff, or_false] at hr; subst hr)
      · exact ⟨hCov _ _ _ ⟨45, 45⟩ rfl (by decide) (by decide) (by decide), hFC _ _ (by decide) (by decide) (by decide)⟩
      · exact hFC _ _ (by decide) (by decide) (by decide)⟩

/-- non-vacuity: the flushed files are index-covered and the prefilter query compiles; the prefilter keeps one block (partition p1, two rows) -/
example :
    (∀ f ∈ nv_files, FileWF nv_sem f) ∧ nv_q.Valid (fun p => !p.isEmpty) ∧
    query nv_sem nv_files nv_q = (selectedRows nv_files nv_q).filter (rowMatches nv_sem nv_q) ∧
    selectedRows nv_files nv_q = [nv_r1, nv_r2] := by
  have hv : nv_q.Valid (fun p => !p.isEmpty) := by intro e he; cases he; decide
  exact ⟨nv_store.2, hv, C02_block_granular nv_sem _ nv_files nv_q nv_store.2 hv, by rfl⟩

/-- Without a prefilter the answer equals exactly the matching stored rows. -/
theorem C02_exact_no_prefilter (s : Sem) (reOK : Str → Bool) (files : List FileM) (q : Query)
    (hwf : ∀ f ∈ files, FileWF s f) (hv : q.Valid reOK) (hpre : q.pre = none) :
    query s files q = (allRows files).filter (rowMatches s q) :=
  exact_no_prefilter_aux s reOK files q hwf hv hpre

/-- non-vacuity: the same store and the query without its prefilter meet all three premises; the answer is the matching rows among the four stored rows -/
example :
    let q0 : Query := { nv_q with pre := none }
    (∀ f ∈ nv_files, FileWF nv_sem f) ∧ q0.Valid (fun p => !p.isEmpty) ∧ q0.pre = none ∧
    query nv_sem nv_files q0 = (allRows nv_files).filter (rowMatches nv_sem q0) ∧
    allRows nv_files = [nv_r3, nv_r1, nv_r2, nv_r3] := by
  intro q0
  have hv : q0.Valid (fun p => !p.isEmpty) := by intro e he; cases he; decide
  exact ⟨nv_store.2, hv, rfl, C02_exact_no_prefilter nv_sem _ nv_files q0 nv_store.2 hv rfl, by rfl⟩

/-- Strict leaves: a partition condition is false on a block without a partition ID … -/
theorem missing_partition_false (m : DataBlockMetadata) (c : PreCond) (sc : StringCondition)
    (hm : m.PartitionID = "") (ht : c.ConditionType = "PARTITION") (hc : c.PartitionCondition = some sc) :
    evalPreCond m c = false :=
  missing_partition_false_aux m c sc hm ht hc

/-- non-vacuity: a block with a minmax index but no partition ID, under `partition ≠ "x"` (true of the empty ID under plain string comparison) -/
example :
    let m : DataBlockMetadata := { Rows := 3, MinMaxIndexes := [("n", ⟨1, 9⟩)] }
    let sc : StringCondition := { Operator := "NE", Value := "x" }
    let c : PreCond := { ConditionType := "PARTITION", PartitionCondition := some sc }
    m.PartitionID = "" ∧ c.ConditionType = "PARTITION" ∧ c.PartitionCondition = some sc ∧
    evalString m.PartitionID sc = true ∧ evalPreCond m c = false := by
  intro m sc c
  exact ⟨rfl, rfl, rfl, by decide, missing_partition_false m c sc rfl rfl rfl⟩

/-- … and a minmax condition is false on a block that does not list the key. -/
theorem missing_minmax_false (m : DataBlockMetadata) (c : PreCond) (nc : NumericCondition)
    (hm : lookupMM c.MinMaxFieldName m.MinMaxIndexes = none) (ht : c.ConditionType = "MINMAX")
    (hc : c.MinMaxCondition = some nc) : evalPreCond m c = false :=
  missing_minmax_false_aux m c nc hm ht hc

/-- non-vacuity: a partitioned block listing only key "n", under `k NOT_IN [3]` (true of every listed range) -/
example :
    let m : DataBlockMetadata := { PartitionID := "p1", Rows := 3, MinMaxIndexes := [("n", ⟨1, 9⟩)] }
    let nc : NumericCondition := { Operator := "NOT_IN", Values := [3] }
    let c : PreCond := { ConditionType := "MINMAX", MinMaxFieldName := "k", MinMaxCondition := some nc }
    lookupMM c.MinMaxFieldName m.MinMaxIndexes = none ∧ c.ConditionType = "MINMAX" ∧
    c.MinMaxCondition = some nc ∧ evalPreCond m c = false := by
  intro m nc c
  exact ⟨by decide, rfl, rfl, missing_minmax_false m c nc (by decide) rfl rfl⟩

end BloomVerif.C02
