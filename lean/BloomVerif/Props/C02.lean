/-
  C02 — Query results are exact at row level and block-granular for prefilters.
-/
import BloomVerif.Lemmas.Exact
namespace BloomVerif.C02
open BloomVerif

/-- Every returned row is a stored row that satisfies the bloom and regex expressions under the
    documented semantics: bloom false positives never leak (filters may be arbitrary here — no
    well-formedness is assumed). -/
theorem query_sound (s : Sem) (files : List FileM) (q : Query) (r : Row)
    (h : r ∈ query s files q) : r ∈ allRows files ∧ rowMatches s q r = true :=
  query_sound_aux s files q r h

/-- Each stored row is returned at most as many times as it was stored: the answer is a sublist
    of the stored rows. -/
theorem query_multiplicity (s : Sem) (files : List FileM) (q : Query) :
    (query s files q).Sublist (allRows files) :=
  query_sublist_aux s files q

/-- With a prefilter, the answer is exactly the matching rows of the blocks whose metadata
    satisfies the prefilter under strict leaf semantics. -/
theorem C02_block_granular (s : Sem) (reOK : Str → Bool) (files : List FileM) (q : Query)
    (hwf : ∀ f ∈ files, FileWF s f) (hv : q.Valid reOK) :
    query s files q = (selectedRows files q).filter (rowMatches s q) :=
  block_granular_aux s reOK files q hwf hv

/-- Without a prefilter the answer equals exactly the matching stored rows. -/
theorem C02_exact_no_prefilter (s : Sem) (reOK : Str → Bool) (files : List FileM) (q : Query)
    (hwf : ∀ f ∈ files, FileWF s f) (hv : q.Valid reOK) (hpre : q.pre = none) :
    query s files q = (allRows files).filter (rowMatches s q) :=
  exact_no_prefilter_aux s reOK files q hwf hv hpre

/-- Strict leaves: a partition condition is false on a block without a partition ID … -/
theorem missing_partition_false (m : DataBlockMetadata) (c : PreCond) (sc : StringCondition)
    (hm : m.PartitionID = "") (ht : c.ConditionType = "PARTITION") (hc : c.PartitionCondition = some sc) :
    evalPreCond m c = false :=
  missing_partition_false_aux m c sc hm ht hc

/-- … and a minmax condition is false on a block that does not list the key. -/
theorem missing_minmax_false (m : DataBlockMetadata) (c : PreCond) (nc : NumericCondition)
    (hm : lookupMM c.MinMaxFieldName m.MinMaxIndexes = none) (ht : c.ConditionType = "MINMAX")
    (hc : c.MinMaxCondition = some nc) : evalPreCond m c = false :=
  missing_minmax_false_aux m c nc hm ht hc

end BloomVerif.C02
