/-
  C11 — Merging preserves stored content and query answers. Stated for *any* valid grouping of the
  source blocks (a partition into non-empty groups sharing partition ID and minmax key set), so the
  result does not depend on the greedy order the engine happens to use.
-/
import BloomVerif.Lemmas.Build
import BloomVerif.Props.C02
namespace BloomVerif.C11
open BloomVerif

/-- The stored rows are unchanged (as a list, hence as a multiset). -/
theorem C11_rows_preserved (s : Sem) (build : List Str → (Str → Bool))
    (groups : List (List Block)) (hg : ∀ g ∈ groups, g ≠ []) :
    allRows [mergeFile s build groups] = (groups.flatMap id).flatMap (·.rows) :=
  merge_rows_preserved_aux s build groups hg

/-- Every row stays in a block with its partition ID whose minmax ranges cover its values. -/
theorem C11_partition_minmax (s : Sem) (build : List Str → (Str → Bool)) (hb : SoundBuild build)
    (groups : List (List Block)) (hg : ∀ g ∈ groups, ValidGroup g)
    (hwf : ∀ g ∈ groups, ∀ b ∈ g, BlockWF s b) :
    ∀ b' ∈ (mergeFile s build groups).blocks, ∀ r ∈ b'.rows, Covers b'.md r.pre :=
  fun b' hb' r hr => ((merge_WF_aux s build hb groups hg hwf) b' hb').1 r hr |>.1

/-- A query without a prefilter returns exactly the matching rows of the unchanged row list —
    the same answer as before the merge (`C02_exact_no_prefilter` on both sides). -/
theorem C11_query_same (s : Sem) (build : List Str → (Str → Bool)) (hb : SoundBuild build)
    (reOK : Str → Bool) (groups : List (List Block)) (q : Query)
    (hg : ∀ g ∈ groups, ValidGroup g) (hwf : ∀ g ∈ groups, ∀ b ∈ g, BlockWF s b)
    (hv : q.Valid reOK) (hpre : q.pre = none) :
    query s [mergeFile s build groups] q = ((groups.flatMap id).flatMap (·.rows)).filter (rowMatches s q) := by
  rw [C02.C02_exact_no_prefilter s reOK _ q (by
        intro f hf; simp only [List.mem_singleton] at hf; subst hf
        exact merge_WF_aux s build hb groups hg hwf) hv hpre]
  rw [merge_rows_preserved_aux s build groups (fun g h => (hg g h).1)]

/-- A query with a prefilter returns a superset of its pre-merge answer … -/
theorem C11_query_superset (s : Sem) (build : List Str → (Str → Bool)) (hb : SoundBuild build)
    (reOK : Str → Bool) (groups : List (List Block)) (q : Query)
    (hg : ∀ g ∈ groups, ValidGroup g) (hwf : ∀ g ∈ groups, ∀ b ∈ g, BlockWF s b)
    (hmd : ∀ g ∈ groups, ∀ b ∈ g, MDWF b.md)
    (hpairs : ∀ g ∈ groups, ∀ b ∈ g, ∀ p ∈ b.md.MinMaxIndexes, InI64 p.2.Min ∧ InI64 p.2.Max)
    (hv : q.Valid reOK)
    (g : List Block) (b : Block) (r : Row) (hgm : g ∈ groups) (hbm : b ∈ g) (hr : r ∈ b.rows)
    (hpre : evalPre b.md q.pre = true) (hm : rowMatches s q r = true) :
    r ∈ query s [mergeFile s build groups] q :=
  merge_query_superset_aux s build hb reOK groups q hg hwf hmd hpairs hv g b r hgm hbm hr hpre hm

/-- … limited to rows that match its bloom and regex expression. -/
theorem C11_query_limited (s : Sem) (build : List Str → (Str → Bool)) (groups : List (List Block))
    (q : Query) (r : Row) (h : r ∈ query s [mergeFile s build groups] q) : rowMatches s q r = true :=
  (C02.query_sound s _ q r h).2

end BloomVerif.C11
