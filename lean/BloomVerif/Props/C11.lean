/-
  C11 — Merging preserves stored content and query answers. Stated for *any* valid grouping of the
  source blocks (a partition into non-empty groups sharing partition ID and minmax key set), so the
  result does not depend on the greedy order the engine happens to use.
-/
import BloomVerif.Lemmas.Build
import BloomVerif.Props.C02
namespace BloomVerif.C11
open BloomVerif

/-- The stored rows are unchanged (as a list, hence as a multiset). -/
theorem C11_rows_preserved (s : Sem) (build : List Str → (Str → Bool))
    (groups : List (List Block)) (hg : ∀ g ∈ groups, g ≠ []) :
    allRows [mergeFile s build groups] = (groups.flatMap id).flatMap (·.rows) :=
  merge_rows_preserved_aux s build groups hg

/-- witness engine parameters: split-on-blank tokenizer, "pattern is a prefix of the text" as regex oracle,
    exact-membership filters -/
private def nv_sem : Sem := { tok := fieldsOn (fun c => c == ' '), re := fun p t => p.isPrefixOf t }
private def nv_build : List Str → (Str → Bool) := fun l x => l.contains x
/-- witness prefilter view of a row: partition `pid`, one indexed value under key "n" -/
private def nv_pre (pid : String) (v : NumVal) : RowPre :=
  { pid := pid, vals := fun f => if f = "n" then some v else none }
private def nv_r1 : Row :=
  { json := .obj [("a".toList, .obj [("b".toList, .str "hello world".toList), ("n".toList, .num "42".toList)])],
    pre := nv_pre "p1" (.int 42) }
private def nv_r2 : Row :=
  { json := .obj [("a".toList, .obj [("b".toList, .str "bye world".toList)])], pre := nv_pre "p1" (.int 7) }
private def nv_r3 : Row :=
  { json := .obj [("a".toList, .str "hello".toList)], pre := nv_pre "p2" (.int 45) }
private def nv_r4 : Row :=
  { json := .obj [("a".toList, .obj [("b".toList, .str "help the world".toList)])], pre := nv_pre "p1" (.int 100) }
/-- witness source blocks as flush builds them: two blocks of partition p1 (ranges [7, 42] and [100, 100]), one of p2 -/
private def nv_b1 : Block := mkBlock nv_sem nv_build ["n"] "p1" [nv_r1, nv_r2]
private def nv_b2 : Block := mkBlock nv_sem nv_build ["n"] "p1" [nv_r4]
private def nv_b3 : Block := mkBlock nv_sem nv_build ["n"] "p2" [nv_r3]

/-- non-vacuity: a grouping with a two-block group and a singleton group; all four rows survive, in order -/
example :
    let groups := [[nv_b1, nv_b2], [nv_b3]]
    (∀ g ∈ groups, g ≠ []) ∧
    allRows [mergeFile nv_sem nv_build groups] = (groups.flatMap id).flatMap (·.rows) ∧
    (groups.flatMap id).flatMap (·.rows) = [nv_r1, nv_r2, nv_r4, nv_r3] := by
  intro groups
  have hg : ∀ g ∈ groups, g ≠ [] := by
    intro g hg
    simp only [groups, List.mem_cons, List.mem_nil_iff, or_false] at hg
    rcases hg with rfl | rfl <;> simp
  exact ⟨hg, C11_rows_preserved nv_sem nv_build groups hg, by rfl⟩

/-- Every row stays in a block with its partition ID whose minmax ranges cover its values. -/
theorem C11_partition_minmax (s : Sem) (build : List Str → (Str → Bool)) (hb : SoundBuild build)
    (groups : List (List Block)) (hg : ∀ g ∈ groups, ValidGroup g)
    (hwf : ∀ g ∈ groups, ∀ b ∈ g, BlockWF s b) :
    ∀ b' ∈ (mergeFile s build groups).blocks, ∀ r ∈ b'.rows, Covers b'.md r.pre :=
  fun b' hb' r hr => ((merge_WF_aux s build hb groups hg hwf) b' hb').1 r hr |>.1

/-- the witness grouping bundled with its certificates: valid groups (shared partition ID and key set), index-covered
    blocks, ordered in-range minmax entries -/
private def nv_groups : { groups : List (List Block) //
    (∀ g ∈ groups, ValidGroup g) ∧ (∀ g ∈ groups, ∀ b ∈ g, BlockWF nv_sem b) ∧
    (∀ g ∈ groups, ∀ b ∈ g, MDWF b.md) ∧
    (∀ g ∈ groups, ∀ b ∈ g, ∀ p ∈ b.md.MinMaxIndexes, InI64 p.2.Min ∧ InI64 p.2.Max) } :=
  ⟨[[nv_b1, nv_b2], [nv_b3]], by
    have hsb : SoundBuild nv_build := by intro l x h; simp [nv_build, h]
    have hvals : ∀ pid v f w, (nv_pre pid v).vals f = some w → f ∈ ["n"] := by
      intro pid v f w h; simp only [nv_pre] at h; split at h
      · simp [*]
      · cases h
    -- every block: its partition, its single-key minmax map, and the per-block certificates
    have hblk : ∀ (pid : String) (rows : List Row) (mm : MinMaxIndex),
        (∀ r ∈ rows, r.pre.pid = pid) → (∀ r ∈ rows, ∃ v, r.pre = nv_pre pid v) →
        blockMinMax ["n"] rows = [("n", mm)] → mm.Min ≤ mm.Max ∧ InI64 mm.Min ∧ InI64 mm.Max →
        let b := mkBlock nv_sem nv_build ["n"] pid rows
        b.md.PartitionID = pid ∧ (∀ k, (b.md.MinMaxIndexes.lookup k).isSome = (k == "n")) ∧
        BlockWF nv_sem b ∧ MDWF b.md ∧ ∀ p ∈ b.md.MinMaxIndexes, InI64 p.2.Min ∧ InI64 p.2.Max := by
      intro pid rows mm hp hv hmm hin b
      have e : b.md.MinMaxIndexes = [("n", mm)] := hmm
      refine ⟨rfl, ?_, ?_, ?_, ?_⟩
      · intro k; rw [e]; simp only [List.lookup_cons, List.lookup_nil]; cases (k == "n") <;> rfl
      · refine mkBlock_WF_aux nv_sem nv_build hsb _ _ _ hp ?_
        intro r hr f w h
        obtain ⟨v, hv'⟩ := hv r hr
        rw [hv'] at h; exact hvals _ _ f w h
      · intro k m hl
        unfold lookupMM at hl; rw [e] at hl
        simp only [List.lookup_cons, List.lookup_nil] at hl
        cases hk : (k == "n") <;> rw [hk] at hl <;> cases hl
        exact hin
      · intro p hp; rw [e] at hp
        simp only [List.mem_cons, List.mem_nil_iff, or_false] at hp; subst hp; exact hin.2
    have h1 := hblk "p1" [nv_r1, nv_r2] ⟨7, 42⟩ (by decide)
      (by intro r hr; simp only [List.mem_cons, List.mem_nil_iff, or_false] at hr
          rcases hr with rfl | rfl <;> exact ⟨_, rfl⟩) (by decide) (by decide)
    have h2 := hblk "p1" [nv_r4] ⟨100, 100⟩ (by decide)
      (by intro r hr; simp only [List.mem_cons, List.mem_nil_iff, or_false] at hr; subst hr; exact ⟨_, rfl⟩)
      (by decide) (by decide)
    have h3 := hblk "p2" [nv_r3] ⟨45, 45⟩ (by decide)
      (by intro r hr; simp only [List.mem_cons, List.mem_nil_iff, or_false] at hr; subst hr; exact ⟨_, rfl⟩)
      (by decide) (by decide)
    have hmem : ∀ g ∈ [[nv_b1, nv_b2], [nv_b3]], ∀ b ∈ g,
        (g = [nv_b1, nv_b2] ∧ (b = nv_b1 ∨ b = nv_b2)) ∨ (g = [nv_b3] ∧ b = nv_b3) := by
      intro g hg b hb
      simp only [List.mem_cons, List.mem_nil_iff, or_false] at hg
      rcases hg with rfl | rfl
      · left; exact ⟨rfl, by simpa using hb⟩
      · right; exact ⟨rfl, by simpa using hb⟩
    refine ⟨?_, ?_, ?_, ?_⟩
    · intro g hg
      refine ⟨?_, ?_⟩
      · simp only [List.mem_cons, List.mem_nil_iff, or_false] at hg
        rcases hg with rfl | rfl <;> simp
      · intro x hx y hy
        have hK : ∃ pid, ∀ b ∈ g, b.md.PartitionID = pid ∧ ∀ k, (b.md.MinMaxIndexes.lookup k).isSome = (k == "n") := by
          simp only [List.mem_cons, List.mem_nil_iff, or_false] at hg
          rcases hg with rfl | rfl
          · refine ⟨"p1", fun b hb => ?_⟩
            simp only [List.mem_cons, List.mem_nil_iff, or_false] at hb
            rcases hb with rfl | rfl
            · exact ⟨h1.1, h1.2.1⟩
            · exact ⟨h2.1, h2.2.1⟩
          · refine ⟨"p2", fun b hb => ?_⟩
            simp only [List.mem_cons, List.mem_nil_iff, or_false] at hb
            subst hb; exact ⟨h3.1, h3.2.1⟩
        obtain ⟨pid, hK⟩ := hK
        exact ⟨(hK x hx).1.trans (hK y hy).1.symm, fun k => ((hK x hx).2 k).trans ((hK y hy).2 k).symm⟩
    · intro g hg b hb
      rcases hmem g hg b hb with ⟨_, rfl | rfl⟩ | ⟨_, rfl⟩
      · exact h1.2.2.1
      · exact h2.2.2.1
      · exact h3.2.2.1
    · intro g hg b hb
      rcases hmem g hg b hb with ⟨_, rfl | rfl⟩ | ⟨_, rfl⟩
      · exact h1.2.2.2.1
      · exact h2.2.2.2.1
      · exact h3.2.2.2.1
    · intro g hg b hb
      rcases hmem g hg b hb with ⟨_, rfl | rfl⟩ | ⟨_, rfl⟩
      · exact h1.2.2.2.2
      · exact h2.2.2.2.2
      · exact h3.2.2.2.2⟩

/-- non-vacuity: sound builder, valid groups, index-covered source blocks; the merged p1 block (three rows, range [7, 100] for "n") covers each of its rows -/
example :
    SoundBuild nv_build ∧ (∀ g ∈ nv_groups.1, ValidGroup g) ∧ (∀ g ∈ nv_groups.1, ∀ b ∈ g, BlockWF nv_sem b) ∧
    (∀ b' ∈ (mergeFile nv_sem nv_build nv_groups.1).blocks, ∀ r ∈ b'.rows, Covers b'.md r.pre) ∧
    (mergeFile nv_sem nv_build nv_groups.1).blocks.map (fun b => (b.md.PartitionID, b.md.MinMaxIndexes, b.rows.length)) =
      [("p1", [("n", ⟨7, 100⟩)], 3), ("p2", [("n", ⟨45, 45⟩)], 1)] := by
  have hsb : SoundBuild nv_build := by intro l x h; simp [nv_build, h]
  exact ⟨hsb, nv_groups.2.1, nv_groups.2.2.1,
    C11_partition_minmax nv_sem nv_build hsb nv_groups.1 nv_groups.2.1 nv_groups.2.2.1, by decide⟩

/-- A query without a prefilter returns exactly the matching rows of the unchanged row list —
    the same answer as before the merge (`C02_exact_no_prefilter` on both sides). -/
theorem C11_query_same (s : Sem) (build : List Str → (Str → Bool)) (hb : SoundBuild build)
    (reOK : Str → Bool) (groups : List (List Block)) (q : Query)
    (hg : ∀ g ∈ groups, ValidGroup g) (hwf : ∀ g ∈ groups, ∀ b ∈ g, BlockWF s b)
    (hv : q.Valid reOK) (hpre : q.pre = none) :
    query s [mergeFile s build groups] q = ((groups.flatMap id).flatMap (·.rows)).filter (rowMatches s q) := by
  rw [C02.C02_exact_no_prefilter s reOK _ q (by
        intro f hf; simp only [List.mem_singleton] at hf; subst hf
        exact merge_WF_aux s build hb groups hg hwf) hv hpre]
  rw [merge_rows_preserved_aux s build groups (fun g h => (hg g h).1)]

/-- non-vacuity: a compiling bloom + regex query without prefilter over the merged file meets all six premises; it returns two of the four stored rows -/
example :
    let q : Query :=
      { bloom := some (.mk "CONDITION" (some { Kind := "FIELD_TOKEN", Field := "a.b".toList, Token := "world".toList }) []),
        regex := some (.mk "OR" none [.mk "CONDITION" (some { Field := "a.b".toList, Pattern := "hel".toList }) []]) }
    SoundBuild nv_build ∧ (∀ g ∈ nv_groups.1, ValidGroup g) ∧ (∀ g ∈ nv_groups.1, ∀ b ∈ g, BlockWF nv_sem b) ∧
    q.Valid (fun p => !p.isEmpty) ∧ q.pre = none ∧
    query nv_sem [mergeFile nv_sem nv_build nv_groups.1] q =
      ((nv_groups.1.flatMap id).flatMap (·.rows)).filter (rowMatches nv_sem q) ∧
    query nv_sem [mergeFile nv_sem nv_build nv_groups.1] q = [nv_r1, nv_r4] := by
  intro q
  have hsb : SoundBuild nv_build := by intro l x h; simp [nv_build, h]
  have hv : q.Valid (fun p => !p.isEmpty) := by intro e he; cases he; decide
  exact ⟨hsb, nv_groups.2.1, nv_groups.2.2.1, hv, rfl,
    C11_query_same nv_sem nv_build hsb _ nv_groups.1 q nv_groups.2.1 nv_groups.2.2.1 hv rfl, by rfl⟩

/-- A query with a prefilter returns a superset of its pre-merge answer … -/
theorem C11_query_superset (s : Sem) (build : List Str → (Str → Bool)) (hb : SoundBuild build)
    (reOK : Str → Bool) (groups : List (List Block)) (q : Query)
    (hg : ∀ g ∈ groups, ValidGroup g) (hwf : ∀ g ∈ groups, ∀ b ∈ g, BlockWF s b)
    (hmd : ∀ g ∈ groups, ∀ b ∈ g, MDWF b.md)
    (hpairs : ∀ g ∈ groups, ∀ b ∈ g, ∀ p ∈ b.md.MinMaxIndexes, InI64 p.2.Min ∧ InI64 p.2.Max)
    (hv : q.Valid reOK)
    (g : List Block) (b : Block) (r : Row) (hgm : g ∈ groups) (hbm : b ∈ g) (hr : r ∈ b.rows)
    (hpre : evalPre b.md q.pre = true) (hm : rowMatches s q r = true) :
    r ∈ query s [mergeFile s build groups] q :=
  merge_query_superset_aux s build hb reOK groups q hg hwf hmd hpairs hv g b r hgm hbm hr hpre hm

/-- witness prefilter query: partition = p1 AND n ≤ 42; token "world" under a.b; regex a.b ~ "hel" -/
private def nv_q : Query :=
  { pre := some (.mk "AND" none
      [.mk "CONDITION" (some { ConditionType := "PARTITION", PartitionCondition := some ({ Operator := "EQ", Value := "p1" } : StringCondition) }) [],
       .mk "CONDITION" (some { ConditionType := "MINMAX", MinMaxFieldName := "n", MinMaxCondition := some ({ Operator := "LTE", Value := 42 } : NumericCondition) }) []]),
    bloom := some (.mk "CONDITION" (some { Kind := "FIELD_TOKEN", Field := "a.b".toList, Token := "world".toList }) []),
    regex := some (.mk "OR" none [.mk "CONDITION" (some { Field := "a.b".toList, Pattern := "hel".toList }) []]) }

/-- non-vacuity: all thirteen premises hold for the prefilter query, the two-block group, its first block and the nested row; the superset is proper here (`nv_r4` is new) -/
example :
    SoundBuild nv_build ∧ (∀ g ∈ nv_groups.1, ValidGroup g) ∧ (∀ g ∈ nv_groups.1, ∀ b ∈ g, BlockWF nv_sem b) ∧
    (∀ g ∈ nv_groups.1, ∀ b ∈ g, MDWF b.md) ∧
    (∀ g ∈ nv_groups.1, ∀ b ∈ g, ∀ p ∈ b.md.MinMaxIndexes, InI64 p.2.Min ∧ InI64 p.2.Max) ∧
    nv_q.Valid (fun p => !p.isEmpty) ∧ [nv_b1, nv_b2] ∈ nv_groups.1 ∧ nv_b1 ∈ [nv_b1, nv_b2] ∧ nv_r1 ∈ nv_b1.rows ∧
    evalPre nv_b1.md nv_q.pre = true ∧ rowMatches nv_sem nv_q nv_r1 = true ∧
    nv_r1 ∈ query nv_sem [mergeFile nv_sem nv_build nv_groups.1] nv_q ∧
    evalPre nv_b2.md nv_q.pre = false ∧ query nv_sem [mergeFile nv_sem nv_build nv_groups.1] nv_q = [nv_r1, nv_r4] := by
  have hsb : SoundBuild nv_build := by intro l x h; simp [nv_build, h]
  have hv : nv_q.Valid (fun p => !p.isEmpty) := by intro e he; cases he; decide
  exact ⟨hsb, nv_groups.2.1, nv_groups.2.2.1, nv_groups.2.2.2.1, nv_groups.2.2.2.2, hv, .head _, .head _, .head _,
    by decide, by decide,
    C11_query_superset nv_sem nv_build hsb _ nv_groups.1 nv_q nv_groups.2.1 nv_groups.2.2.1 nv_groups.2.2.2.1
      nv_groups.2.2.2.2 hv [nv_b1, nv_b2] nv_b1 nv_r1 (.head _) (.head _) (.head _) (by decide) (by decide),
    by decide, by rfl⟩

/-- … limited to rows that match its bloom and regex expression. -/
theorem C11_query_limited (s : Sem) (build : List Str → (Str → Bool)) (groups : List (List Block))
    (q : Query) (r : Row) (h : r ∈ query s [mergeFile s build groups] q) : rowMatches s q r = true :=
  (C02.query_sound s _ q r h).2

/-- non-vacuity: the row returned after the merge although its source block was pruned before the merge does match the bloom and regex expressions -/
example :
    nv_r4 ∈ query nv_sem [mergeFile nv_sem nv_build nv_groups.1] nv_q ∧ rowMatches nv_sem nv_q nv_r4 = true := by
  have e : query nv_sem [mergeFile nv_sem nv_build nv_groups.1] nv_q = [nv_r1, nv_r4] := by rfl
  have h : nv_r4 ∈ query nv_sem [mergeFile nv_sem nv_build nv_groups.1] nv_q := by rw [e]; exact .tail _ (.head _)
  exact ⟨h, C11_query_limited nv_sem nv_build nv_groups.1 nv_q nv_r4 h⟩

end BloomVerif.C11
