/-
  C23 — Query statistics account for every evaluated block exactly once (model: failure-free,
  uncancelled runs; the failure and cancellation clauses are checked on the implementation).
-/
import BloomVerif.Model.ReadPlan
import BloomVerif.Lemmas.Stats
import BloomVerif.Bridge.StatsLoop
namespace BloomVerif.C23
open BloomVerif.ReadPlan

/-- Each evaluated block is listed at most once (blocks of a file have distinct offsets). -/
theorem stats_at_most_once (hb : Bool) (f : QFile) (h : (f.blocks.map (·.off)).Nodup) :
    ((filePlan hb f).stats.map (·.1)).Nodup := by
  unfold filePlan
  dsimp only
  split
  · simp
  · split
    · simp
    · simp only [List.map_map]
      have : ((kept f).map (·.off)).Nodup := by
        unfold kept
        exact List.Nodup.sublist (List.Sublist.map _ (List.filter_sublist)) h
      simpa [Function.comp_def] using this

/-- non-vacuity: the premise of `stats_at_most_once` holds for a three-block file (one block pruned by its filters, one scanned, one dropped by the prefilter), whose plan lists two blocks -/
example : ∃ f : QFile, (f.blocks.map (·.off)).Nodup ∧ f.blocks.length = 3 ∧
    (filePlan true f).stats = [(0, .skipped), (40, .processed)] :=
  ⟨⟨true, [⟨0, 5, true, false, 9⟩, ⟨40, 3, true, true, 9⟩, ⟨80, 1, false, true, 9⟩]⟩, by decide, by decide, by decide⟩

/-- All or none: a file lists either none of its prefilter-surviving blocks or all of them. -/
theorem all_or_none (hb : Bool) (f : QFile) :
    (filePlan hb f).stats = [] ∨ (filePlan hb f).stats.map (·.1) = (kept f).map (·.off) := by
  unfold filePlan
  dsimp only
  split
  · left; rfl
  · split
    · left; rfl
    · right; simp [List.map_map, Function.comp_def]

/-- A skipped block is one its own filters ruled out; nothing of it is read (it is not a row read). -/
theorem skipped_not_read (hb : Bool) (f : QFile) (o : Nat) (h : (o, BStat.skipped) ∈ (filePlan hb f).stats)
    (hn : (f.blocks.map (·.off)).Nodup) : o ∉ rowReads (filePlan hb f) := by
  intro hr
  unfold rowReads at hr
  simp only [List.mem_map, List.mem_filter] at hr
  obtain ⟨⟨o', st⟩, ⟨hm, hp⟩, ho⟩ := hr
  simp only at ho hp
  subst ho
  have hnd := stats_at_most_once hb f hn
  have : st = BStat.skipped := by
    -- two entries with the same offset in a list with distinct offsets are equal
    have key : ∀ (l : List (Nat × BStat)), (l.map (·.1)).Nodup → ∀ a x y, (a, x) ∈ l → (a, y) ∈ l → x = y := by
      intro l
      induction l with
      | nil => intro _ a x y hx; cases hx
      | cons hd tl ih =>
        intro hnd a x y hx hy
        simp only [List.map_cons, List.nodup_cons] at hnd
        rcases List.mem_cons.mp hx with hx | hx <;> rcases List.mem_cons.mp hy with hy | hy
        · rw [← hx] at hy; exact (Prod.mk.inj hy).2.symm ▸ rfl
        · exact absurd (List.mem_map.mpr ⟨(a, y), hy, rfl⟩) (by rw [← hx] at hnd; exact hnd.1)
        · exact absurd (List.mem_map.mpr ⟨(a, x), hx, rfl⟩) (by rw [← hy] at hnd; exact hnd.1)
        · exact ih hnd.2 a x y hx hy
    exact key _ hnd o' st BStat.skipped hm h
  subst this
  simp at hp

/-- non-vacuity: the premises of `skipped_not_read` hold for block 0 of a three-block file with distinct offsets, while another block (40) is read -/
example : ∃ (f : QFile) (o : Nat), (o, BStat.skipped) ∈ (filePlan true f).stats ∧ (f.blocks.map (·.off)).Nodup ∧
    rowReads (filePlan true f) = [40] :=
  ⟨⟨true, [⟨0, 5, true, false, 9⟩, ⟨40, 3, true, true, 9⟩, ⟨80, 1, false, true, 9⟩]⟩, 0, by decide, by decide, by decide⟩

/-! ### What the entries add up to (clean completion) -/
open BloomVerif.Stats

/-- witness file: block 0 is ruled out by its own filters, block 40 is scanned (rows 0 and 2 of 3 match),
    block 80 is dropped by the prefilter, block 120 is scanned without a match -/
private def nv_blocks : List SBlock :=
  [⟨⟨0, 5, true, false, 9⟩, 50, [1, 2]⟩, ⟨⟨40, 3, true, true, 9⟩, 33, [0, 2]⟩, ⟨⟨80, 1, false, true, 9⟩, 10, [0]⟩, ⟨⟨120, 2, true, true, 0⟩, 21, []⟩]

/-- A skipped block reports zero rows and zero bytes. -/
theorem skipped_reports_zero (hb : Bool) (bs : List SBlock) (e : Entry) (he : e ∈ entries hb bs)
    (hs : e.skipped = true) : e.rowsProcessed = 0 ∧ e.bytesProcessed = 0 := by
  unfold entries at he
  obtain ⟨b, _, rfl⟩ := List.mem_map.mp he
  unfold entryOf at hs ⊢
  cases h : blockStat hb b.q <;> simp [h] at hs ⊢

/-- non-vacuity: the witness file has a skipped entry (block 0), and it reports zeros -/
example : (⟨0, true, 0, 0⟩ : Entry) ∈ entries true nv_blocks ∧
    ((⟨0, true, 0, 0⟩ : Entry).rowsProcessed = 0 ∧ (⟨0, true, 0, 0⟩ : Entry).bytesProcessed = 0) :=
  ⟨by decide, skipped_reports_zero true nv_blocks _ (by decide) rfl⟩

/-- On clean completion a processed block's rows processed equal its row count. -/
theorem processed_reports_all_rows (hb : Bool) (bs : List SBlock) (e : Entry) (he : e ∈ entries hb bs)
    (hs : e.skipped = false) : ∃ b ∈ bs, b.q.pre = true ∧ e.off = b.q.off ∧ e.rowsProcessed = b.q.rows ∧ e.bytesProcessed = b.bytes := by
  unfold entries evaluated at he
  obtain ⟨b, hb', rfl⟩ := List.mem_map.mp he
  have hm := List.mem_filter.mp hb'
  refine ⟨b, hm.1, by simpa using hm.2, ?_⟩
  unfold entryOf at hs ⊢
  cases h : blockStat hb b.q <;> simp [h] at hs ⊢

/-- non-vacuity: block 40 of the witness file is processed with its 3 rows and 33 bytes -/
example : (⟨40, false, 3, 33⟩ : Entry) ∈ entries true nv_blocks ∧
    ∃ b ∈ nv_blocks, b.q.pre = true ∧ (40 : Nat) = b.q.off ∧ (3 : Nat) = b.q.rows ∧ (33 : Nat) = b.bytes :=
  ⟨by decide, processed_reports_all_rows true nv_blocks ⟨40, false, 3, 33⟩ (by decide) rfl⟩

/-- Every block that contained a returned row is listed, as processed. -/
theorem returned_row_block_processed (hb : Bool) (bs : List SBlock) (o i : Nat)
    (h : (o, i) ∈ returned hb bs) : ∃ e ∈ entries hb bs, e.off = o ∧ e.skipped = false := by
  unfold returned at h
  obtain ⟨b, hbm, hr⟩ := List.mem_flatMap.mp h
  refine ⟨entryOf hb b, List.mem_map.mpr ⟨b, hbm, rfl⟩, ?_⟩
  unfold entryOf
  cases hst : blockStat hb b.q with
  | skipped => simp [hst] at hr
  | processed =>
    simp only [hst, List.mem_map] at hr
    obtain ⟨_, _, heq⟩ := hr
    exact ⟨(Prod.mk.inj heq).1, rfl⟩

/-- non-vacuity: row 2 of block 40 is returned by the witness file's query -/
example : ((40, 2) : Nat × Nat) ∈ returned true nv_blocks ∧ ∃ e ∈ entries true nv_blocks, e.off = 40 ∧ e.skipped = false :=
  ⟨by decide, returned_row_block_processed true nv_blocks 40 2 (by decide)⟩

/-- The totals equal the per-block sums, and the block counters partition the entries. -/
theorem totals_are_sums (es : List Entry) :
    (totals es).rowsScanned = ((es.filter (!·.skipped)).map (·.rowsProcessed)).sum ∧
    (totals es).bytesScanned = ((es.filter (!·.skipped)).map (·.bytesProcessed)).sum ∧
    (totals es).blocksProcessed = (es.filter (!·.skipped)).length ∧
    (totals es).blocksSkipped = (es.filter (·.skipped)).length := by
  unfold totals
  rw [totals_eq_sums_aux]
  simp

/-- The totals do not depend on the order in which the workers finished their blocks. -/
theorem totals_order_independent (l1 l2 : List Entry) (h : l1.Perm l2) : totals l1 = totals l2 :=
  foldl_addEntry_perm l1 l2 h {}

/-- non-vacuity: the witness file's entries in file order and in another completion order -/
example : (entries true nv_blocks).Perm [⟨120, false, 2, 21⟩, ⟨0, true, 0, 0⟩, ⟨40, false, 3, 33⟩] ∧
    totals (entries true nv_blocks) = ⟨5, 54, 2, 1⟩ :=
  ⟨by decide, by decide⟩

/-- On clean completion `RowsMatched` equals the number of rows returned. -/
theorem rows_matched_is_rows_returned (hb : Bool) (bs : List SBlock) :
    (returned hb bs).length = rowsMatched hb bs :=
  returned_length hb bs

/-- **The totals as `Results.Stats` computes them** (its accumulation loop regenerated from the Go text on every
    run): for the entries of any query plan - where skipped entries report zero, `skipped_reports_zero` - the
    regenerated fold yields exactly the per-block sums and the two block counters, in whatever order the
    entries were recorded. -/
theorem totals_generated (hb : Bool) (bs : List SBlock) (es : List Entry) (hp : es.Perm (entries hb bs)) :
    Gen.statsTotals es =
      ((((entries hb bs).filter (!·.skipped)).map (·.rowsProcessed)).sum,
       (((entries hb bs).filter (!·.skipped)).map (·.bytesProcessed)).sum,
       ((entries hb bs).filter (!·.skipped)).length,
       ((entries hb bs).filter (·.skipped)).length) := by
  have hz : ∀ e ∈ es, e.skipped = true → e.rowsProcessed = 0 ∧ e.bytesProcessed = 0 :=
    fun e he hs => skipped_reports_zero hb bs e (hp.mem_iff.mp he) hs
  rw [Bridge.statsTotals_generated es hz, totals_order_independent es _ hp]
  obtain ⟨h1, h2, h3, h4⟩ := totals_are_sums (entries hb bs)
  simp [Bridge.tup, h1, h2, h3, h4]

/-- non-vacuity: the witness file's entries recorded in another completion order -/
example : Gen.statsTotals [⟨120, false, 2, 21⟩, ⟨0, true, 0, 0⟩, ⟨40, false, 3, 33⟩] = (5, 54, 2, 1) ∧
    ([⟨120, false, 2, 21⟩, ⟨0, true, 0, 0⟩, ⟨40, false, 3, 33⟩] : List Entry).Perm (entries true nv_blocks) :=
  ⟨by decide, by decide⟩

end BloomVerif.C23
