/-
  C23 — Query statistics account for every evaluated block exactly once (model: failure-free,
  uncancelled runs; the failure and cancellation clauses are checked on the implementation).
-/
import BloomVerif.Model.ReadPlan
namespace BloomVerif.C23
open BloomVerif.ReadPlan

/-- Each evaluated block is listed at most once (blocks of a file have distinct offsets). -/
theorem stats_at_most_once (hb : Bool) (f : QFile) (h : (f.blocks.map (·.off)).Nodup) :
    ((filePlan hb f).stats.map (·.1)).Nodup := by
  unfold filePlan
  dsimp only
  split
  · simp
  · split
    · simp
    · simp only [List.map_map]
      have : ((kept f).map (·.off)).Nodup := by
        unfold kept
        exact List.Nodup.sublist (List.Sublist.map _ (List.filter_sublist)) h
      simpa [Function.comp_def] using this

/-- non-vacuity: the premise of `stats_at_most_once` holds for a three-block file (one block pruned by its filters, one scanned, one dropped by the prefilter), whose plan lists two blocks -/
example : ∃ f : QFile, (f.blocks.map (·.off)).Nodup ∧ f.blocks.length = 3 ∧
    (filePlan true f).stats = [(0, .skipped), (40, .processed)] :=
  ⟨⟨true, [⟨0, 5, true, false, 9⟩, ⟨40, 3, true, true, 9⟩, ⟨80, 1, false, true, 9⟩]⟩, by decide, by decide, by decide⟩

/-- All or none: a file lists either none of its prefilter-surviving blocks or all of them. -/
theorem all_or_none (hb : Bool) (f : QFile) :
    (filePlan hb f).stats = [] ∨ (filePlan hb f).stats.map (·.1) = (kept f).map (·.off) := by
  unfold filePlan
  dsimp only
  split
  · left; rfl
  · split
    · left; rfl
    · right; simp [List.map_map, Function.comp_def]

/-- A skipped block is one its own filters ruled out; nothing of it is read (it is not a row read). -/
theorem skipped_not_read (hb : Bool) (f : QFile) (o : Nat) (h : (o, BStat.skipped) ∈ (filePlan hb f).stats)
    (hn : (f.blocks.map (·.off)).Nodup) : o ∉ rowReads (filePlan hb f) := by
  intro hr
  unfold rowReads at hr
  simp only [List.mem_map, List.mem_filter] at hr
  obtain ⟨⟨o', st⟩, ⟨hm, hp⟩, ho⟩ := hr
  simp only at ho hp
  subst ho
  have hnd := stats_at_most_once hb f hn
  have : st = BStat.skipped := by
    -- two entries with the same offset in a list with distinct offsets are equal
    have key : ∀ (l : List (Nat × BStat)), (l.map (·.1)).Nodup → ∀ a x y, (a, x) ∈ l → (a, y) ∈ l → x = y := by
      intro l
      induction l with
      | nil => intro _ a x y hx; cases hx
      | cons hd tl ih =>
        intro hnd a x y hx hy
        simp only [List.map_cons, List.nodup_cons] at hnd
        rcases List.mem_cons.mp hx with hx | hx <;> rcases List.mem_cons.mp hy with hy | hy
        · rw [← hx] at hy; exact (Prod.mk.inj hy).2.symm ▸ rfl
        · exact absurd (List.mem_map.mpr ⟨(a, y), hy, rfl⟩) (by rw [← hx] at hnd; exact hnd.1)
        · exact absurd (List.mem_map.mpr ⟨(a, x), hx, rfl⟩) (by rw [← hy] at hnd; exact hnd.1)
        · exact ih hnd.2 a x y hx hy
    exact key _ hnd o' st BStat.skipped hm h
  subst this
  simp at hp

/-- non-vacuity: the premises of `skipped_not_read` hold for block 0 of a three-block file with distinct offsets, while another block (40) is read -/
example : ∃ (f : QFile) (o : Nat), (o, BStat.skipped) ∈ (filePlan true f).stats ∧ (f.blocks.map (·.off)).Nodup ∧
    rowReads (filePlan true f) = [40] :=
  ⟨⟨true, [⟨0, 5, true, false, 9⟩, ⟨40, 3, true, true, 9⟩, ⟨80, 1, false, true, 9⟩]⟩, 0, by decide, by decide, by decide⟩

end BloomVerif.C23
