/-
  C17 — Every written file describes itself truthfully (framing and layout part; JSON metadata,
  codecs and CRC32C are opaque and covered by the correspondence check).
-/
import BloomVerif.Lemmas.Format
namespace BloomVerif.C17
open BloomVerif

/-- Reading what was written: the scanner returns exactly the rows that were length-prefixed. -/
theorem scan_encode (rs : List Bytes) (h : ∀ r ∈ rs, r.length < 4294967296) (fuel : Nat)
    (hf : rs.length ≤ fuel) : scanRows fuel (encodeRows rs) = .ok rs :=
  scan_encode_aux rs h fuel hf

/-- non-vacuity: three rows (one of them empty) within the uint32 length limit and enough fuel; the scanner returns them -/
example :
    let rs : List Bytes := [[1, 2, 3], [], [255, 0]]
    ((∀ r ∈ rs, r.length < 4294967296) ∧ rs.length ≤ 5) ∧ scanRows 5 (encodeRows rs) = .ok rs ∧
    encodeRows rs = [3, 0, 0, 0, 1, 2, 3, 0, 0, 0, 0, 2, 0, 0, 0, 255, 0] := by
  intro rs
  have h : (∀ r ∈ rs, r.length < 4294967296) ∧ rs.length ≤ 5 := by decide
  exact ⟨h, scan_encode rs h.1 5 h.2, by decide⟩

/-- … and nothing else scans successfully to those rows: the row section is determined by its rows. -/
theorem encode_scan (fuel : Nat) (bs : Bytes) (rs : List Bytes) (hf : bs.length < fuel)
    (h : scanRows fuel bs = .ok rs) : encodeRows rs = bs :=
  encode_scan_aux fuel bs rs hf h

/-- non-vacuity: a ten-byte section that scans successfully (a two-byte row, then an empty row) with fuel above its length -/
example :
    let bs : Bytes := [2, 0, 0, 0, 9, 8, 0, 0, 0, 0]
    let rs : List Bytes := [[9, 8], []]
    (bs.length < 11 ∧ scanRows 11 bs = .ok rs) ∧ encodeRows rs = bs := by
  intro bs rs
  have h : bs.length < 11 ∧ scanRows 11 bs = .ok rs := ⟨by decide, by rfl⟩
  exact ⟨h, encode_scan 11 bs rs h.1 h.2⟩

/-- Row data blocks are contiguous from offset 0 and the filter region follows them with each
    block's section in block order. -/
theorem layout_contiguous (bs : List BlockSize) :
    (layout bs).DataBlocks.length = bs.length ∧
    ∀ i (hi : i < bs.length) (hj : i < (layout bs).DataBlocks.length),
      ((layout bs).DataBlocks[i]).RowDataOffset = (sumRow (bs.take i) : Int) ∧
      ((layout bs).DataBlocks[i]).RowDataSize = (bs[i].rowData : Int) ∧
      ((layout bs).DataBlocks[i]).BloomFilterOffset = (sumRow bs + sumFilter (bs.take i) : Int) ∧
      ((layout bs).DataBlocks[i]).BloomFilterSize = (bs[i].filter : Int) :=
  layout_contiguous_aux bs

/-- A file laid out this way passes the reader's validation (the function regenerated from
    /repo's Go source) for any data area that holds it. -/
theorem layout_validates (bs : List BlockSize) (dataLimit : Int)
    (h : (sumRow bs + sumFilter bs : Int) ≤ dataLimit) (hd : InI64 dataLimit) :
    Gen.validate (layout bs) dataLimit = true := by
  have hv := layout_valid_aux bs dataLimit h
  rw [validate_bridge_aux _ _ (layout_I64_aux bs dataLimit h hd) hd]; exact hv

/-- non-vacuity: a three-block layout (one block without a filter section) in a data area of exactly its size, and in a larger one -/
example :
    let bs : List BlockSize := [⟨10, 3⟩, ⟨0, 0⟩, ⟨7, 5⟩]
    (((sumRow bs + sumFilter bs : Int) ≤ 25 ∧ InI64 25) ∧ Gen.validate (layout bs) 25 = true) ∧
    (((sumRow bs + sumFilter bs : Int) ≤ 4096 ∧ InI64 4096) ∧ Gen.validate (layout bs) 4096 = true) := by
  intro bs
  have h1 : (sumRow bs + sumFilter bs : Int) ≤ 25 ∧ InI64 25 := by decide
  have h2 : (sumRow bs + sumFilter bs : Int) ≤ 4096 ∧ InI64 4096 := by decide
  exact ⟨⟨h1, layout_validates bs 25 h1.1 h1.2⟩, ⟨h2, layout_validates bs 4096 h2.1 h2.2⟩⟩

/-- Non-vacuity: a three-block layout (one block without a filter section). -/
example : (layout [⟨10, 3⟩, ⟨0, 0⟩, ⟨7, 5⟩]).DataBlocks.map (fun b => (b.RowDataOffset, b.BloomFilterOffset)) =
    [(0, 17), (10, 20), (10, 20)] := by decide

end BloomVerif.C17
