/-
  C17 — Every written file describes itself truthfully (framing and layout part; JSON metadata,
  codecs and CRC32C are opaque and covered by the correspondence check).
-/
import BloomVerif.Lemmas.Format
namespace BloomVerif.C17
open BloomVerif

/-- Reading what was written: the scanner returns exactly the rows that were length-prefixed. -/
theorem scan_encode (rs : List Bytes) (h : ∀ r ∈ rs, r.length < 4294967296) (fuel : Nat)
    (hf : rs.length ≤ fuel) : scanRows fuel (encodeRows rs) = .ok rs :=
  scan_encode_aux rs h fuel hf

/-- … and nothing else scans successfully to those rows: the row section is determined by its rows. -/
theorem encode_scan (fuel : Nat) (bs : Bytes) (rs : List Bytes) (hf : bs.length < fuel)
    (h : scanRows fuel bs = .ok rs) : encodeRows rs = bs :=
  encode_scan_aux fuel bs rs hf h

/-- Row data blocks are contiguous from offset 0 and the filter region follows them with each
    block's section in block order. -/
theorem layout_contiguous (bs : List BlockSize) :
    (layout bs).DataBlocks.length = bs.length ∧
    ∀ i (hi : i < bs.length) (hj : i < (layout bs).DataBlocks.length),
      ((layout bs).DataBlocks[i]).RowDataOffset = (sumRow (bs.take i) : Int) ∧
      ((layout bs).DataBlocks[i]).RowDataSize = (bs[i].rowData : Int) ∧
      ((layout bs).DataBlocks[i]).BloomFilterOffset = (sumRow bs + sumFilter (bs.take i) : Int) ∧
      ((layout bs).DataBlocks[i]).BloomFilterSize = (bs[i].filter : Int) :=
  layout_contiguous_aux bs

/-- A file laid out this way passes the reader's validation (the function regenerated from
    /repo's Go source) for any data area that holds it. -/
theorem layout_validates (bs : List BlockSize) (dataLimit : Int)
    (h : (sumRow bs + sumFilter bs : Int) ≤ dataLimit) (hd : InI64 dataLimit) :
    Gen.validate (layout bs) dataLimit = true := by
  have hv := layout_valid_aux bs dataLimit h
  rw [validate_bridge_aux _ _ (layout_I64_aux bs dataLimit h hd) hd]; exact hv

/-- Non-vacuity: a three-block layout (one block without a filter section). -/
example : (layout [⟨10, 3⟩, ⟨0, 0⟩, ⟨7, 5⟩]).DataBlocks.map (fun b => (b.RowDataOffset, b.BloomFilterOffset)) =
    [(0, 17), (10, 20), (10, 20)] := by decide

end BloomVerif.C17
