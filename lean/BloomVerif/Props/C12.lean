/-
  C12 — Merge output respects the configured layout limits. Loop invariants over the greedy folds,
  for every block size/row distribution and every limit setting.
-/
import BloomVerif.Lemmas.MergePlan
import BloomVerif.Lemmas.MergeKey
namespace BloomVerif.C12
open BloomVerif

/-- A block produced by combining blocks holds at most MaxRowGroupRows rows and MaxRowGroupBytes
    uncompressed bytes (the cumulative check, not only the pairwise one). -/
theorem group_within_limits (cfg : EngineConfig) (blocks : List BShape) (g : List BShape)
    (hg : g ∈ blockGroups cfg blocks) (h2 : 2 ≤ g.length) :
    sumRows g ≤ cfg.MaxRowGroupRows ∧ sumSize g ≤ cfg.MaxRowGroupBytes :=
  group_within_limits_aux cfg blocks g hg h2

/-- non-vacuity: with limits 10 rows / 1000 bytes, three blocks share key "k" and pair with the seed but only two fit cumulatively: a two-block group within both limits -/
example :
    let cfg : EngineConfig := { MaxRowGroupRows := 10, MaxRowGroupBytes := 1000 }
    let blocks : List BShape := [⟨0, "k", 4, 10⟩, ⟨1, "k", 5, 10⟩, ⟨2, "k", 5, 10⟩, ⟨3, "j", 1, 1⟩]
    let g : List BShape := [⟨0, "k", 4, 10⟩, ⟨1, "k", 5, 10⟩]
    (g ∈ blockGroups cfg blocks ∧ 2 ≤ g.length) ∧
    (sumRows g ≤ cfg.MaxRowGroupRows ∧ sumSize g ≤ cfg.MaxRowGroupBytes) ∧ sumRows g = 9 ∧ sumSize g = 20 := by
  intro cfg blocks g
  have h : g ∈ blockGroups cfg blocks ∧ 2 ≤ g.length := by decide
  exact ⟨h, group_within_limits cfg blocks g h.1 h.2, by decide, by decide⟩

/-- It combines only blocks with one merge key (one partition, one minmax key set). -/
theorem group_same_key (cfg : EngineConfig) (blocks : List BShape) (g : List BShape)
    (hg : g ∈ blockGroups cfg blocks) : ∀ a ∈ g, ∀ b ∈ g, a.key = b.key :=
  group_same_key_aux cfg blocks g hg

/-- non-vacuity: a three-block group collected across an interleaved block of another key -/
example :
    let cfg : EngineConfig := { MaxRowGroupRows := 20, MaxRowGroupBytes := 1000 }
    let blocks : List BShape := [⟨0, "k", 4, 10⟩, ⟨1, "j", 5, 10⟩, ⟨2, "k", 5, 10⟩, ⟨3, "k", 6, 30⟩, ⟨4, "j", 30, 1⟩]
    let g : List BShape := [⟨0, "k", 4, 10⟩, ⟨2, "k", 5, 10⟩, ⟨3, "k", 6, 30⟩]
    g ∈ blockGroups cfg blocks ∧ (∀ a ∈ g, ∀ b ∈ g, a.key = b.key) := by
  intro cfg blocks g
  have h : g ∈ blockGroups cfg blocks := by decide
  exact ⟨h, group_same_key cfg blocks g h⟩

/-- The groups partition the blocks: nothing is dropped, nothing is duplicated (used by C11). -/
theorem groups_partition (cfg : EngineConfig) (blocks : List BShape) :
    ((blockGroups cfg blocks).flatMap id).Perm blocks ∧ ∀ g ∈ blockGroups cfg blocks, g ≠ [] :=
  ⟨groups_partition_aux cfg blocks, fun g hg => groups_nonempty_aux cfg blocks g hg⟩

/-- One Merge call removes at most MaxFilesToMergePerOperation source files … -/
theorem file_groups_count (cfg : EngineConfig) (cands : List Cand) :
    (((fileGroups cfg cands).map List.length).sum : Int) ≤ max cfg.MaxFilesToMergePerOperation 0 :=
  file_groups_count_aux cfg cands

/-- … every group has at least two files and the files merged into one output total at most
    MaxFileSize bytes (size as recorded in metadata). -/
theorem file_group_size (cfg : EngineConfig) (cands : List Cand) (g : List Cand)
    (hg : g ∈ fileGroups cfg cands) : 2 ≤ g.length ∧ sumTotal g ≤ cfg.MaxFileSize :=
  file_group_size_aux cfg cands g hg

/-- non-vacuity: five candidates, MaxFileSize 100, at most 3 files per operation: file 1 is too large, file 3 has no mergeable pair, files 0, 2, 4 form the one group -/
example :
    let cfg : EngineConfig := { MaxRowGroupRows := 10, MaxRowGroupBytes := 1000, MaxFileSize := 100, MaxFilesToMergePerOperation := 3 }
    let c0 : Cand := ⟨0, 40, [⟨0, "k", 4, 10⟩, ⟨1, "j", 9, 10⟩]⟩
    let c1 : Cand := ⟨1, 70, [⟨2, "k", 5, 10⟩]⟩
    let c2 : Cand := ⟨2, 50, [⟨3, "k", 5, 10⟩]⟩
    let c3 : Cand := ⟨3, 5, [⟨4, "j", 2, 1⟩]⟩
    let c4 : Cand := ⟨4, 5, [⟨5, "k", 1, 1⟩]⟩
    [c0, c2, c4] ∈ fileGroups cfg [c0, c1, c2, c3, c4] ∧ fileGroups cfg [c0, c1, c2, c3, c4] = [[c0, c2, c4]] ∧
    (2 ≤ [c0, c2, c4].length ∧ sumTotal [c0, c2, c4] ≤ cfg.MaxFileSize) := by
  intro cfg c0 c1 c2 c3 c4
  have e : fileGroups cfg [c0, c1, c2, c3, c4] = [[c0, c2, c4]] := by rfl
  have h : [c0, c2, c4] ∈ fileGroups cfg [c0, c1, c2, c3, c4] := by rw [e]; exact .head _
  exact ⟨h, e, file_group_size cfg _ _ h⟩

/-- No candidate is used twice: the grouped files are (a permutation of) a sublist of the candidates. -/
theorem file_groups_members (cfg : EngineConfig) (cands : List Cand) :
    ((fileGroups cfg cands).flatMap id).Sublist cands ∨
    ∃ l, ((fileGroups cfg cands).flatMap id).Perm l ∧ l.Sublist cands :=
  file_groups_members_aux cfg cands

/-- The limit check regenerated from /repo's Go source is the model's, absent overflow. -/
theorem within_generated (cfg : EngineConfig) (a b : BShape)
    (ha : InI64 (a.rows + b.rows)) (hb : InI64 (a.size + b.size)) :
    Gen.blocksWithinMergeLimits ⟨cfg⟩ ⟨a.rows, a.size⟩ ⟨b.rows, b.size⟩ = within cfg a b :=
  within_bridge_aux cfg a b ha hb

/-- non-vacuity: two large blocks whose row and byte sums stay inside int64 (rows sum to exactly 2^63 - 1) -/
example :
    let cfg : EngineConfig := { MaxRowGroupRows := maxInt64, MaxRowGroupBytes := 1000 }
    let a : BShape := ⟨0, "k", 4611686018427387904, 600⟩
    let b : BShape := ⟨1, "k", 4611686018427387903, 500⟩
    (InI64 (a.rows + b.rows) ∧ InI64 (a.size + b.size)) ∧
    Gen.blocksWithinMergeLimits ⟨cfg⟩ ⟨a.rows, a.size⟩ ⟨b.rows, b.size⟩ = within cfg a b ∧ within cfg a b = false := by
  intro cfg a b
  have h : InI64 (a.rows + b.rows) ∧ InI64 (a.size + b.size) := by decide
  exact ⟨h, within_generated cfg a b h.1 h.2, by decide⟩

/-- Non-vacuity: three blocks that pair with the seed but only two fit cumulatively. -/
example :
    let cfg : EngineConfig := { MaxRowGroupRows := 10, MaxRowGroupBytes := 1000 }
    blockGroups cfg [⟨0, "k", 4, 10⟩, ⟨1, "k", 5, 10⟩, ⟨2, "k", 5, 10⟩, ⟨3, "j", 1, 1⟩] =
      [[⟨0, "k", 4, 10⟩, ⟨1, "k", 5, 10⟩], [⟨2, "k", 5, 10⟩], [⟨3, "j", 1, 1⟩]] := by decide

/-- The bucket key the planner groups by (`blockMergeKey`: uvarint-length-prefixed partition id, then the
    sorted minmax key names, each length-prefixed) identifies exactly the pair (partition, key set):
    two blocks get the same key bytes iff their partitions are equal and their key-name lists are
    permutations of each other - for every partition id and every set of names, whatever bytes they
    contain (separators, prefixes of one another, names of 128 bytes and more). With
    `group_same_key`, a merged block therefore never mixes partitions or minmax key sets. -/
theorem merge_key_exact (p p' : List Nat) (ks ks' : List (List Nat)) :
    MergeKey.blockMergeKey p ks = MergeKey.blockMergeKey p' ks' ↔ p = p' ∧ ks.Perm ks' :=
  MergeKey.blockMergeKey_eq_iff_aux p p' ks ks'

/-- The encoding itself is uniquely decodable (no sortedness needed). -/
theorem merge_key_encoding_injective (p p' : List Nat) (ks ks' : List (List Nat))
    (h : MergeKey.encodeKey p ks = MergeKey.encodeKey p' ks') : p = p' ∧ ks = ks' :=
  MergeKey.encodeKey_inj_aux p p' ks ks' h

/-- non-vacuity: key sets {x, yy} and {xy, y} concatenate to the same name bytes "xyy" but get different
    keys, and the iteration order of the map does not matter ("x"=120, "y"=121) -/
example :
    MergeKey.blockMergeKey [112] [[120], [121, 121]] ≠ MergeKey.blockMergeKey [112] [[120, 121], [121]] ∧
    MergeKey.blockMergeKey [112] [[121, 121], [120]] = MergeKey.blockMergeKey [112] [[120], [121, 121]] := by
  constructor
  · intro h
    have := ((merge_key_exact _ _ _ _).mp h).2
    revert this; decide
  · exact (merge_key_exact _ _ _ _).mpr ⟨rfl, by decide⟩

/-- non-vacuity of the injectivity premise: the partition/keys boundary cannot be shifted
    (partition "ab", no keys vs partition "a", key "b" would need equal encodings) -/
example : MergeKey.encodeKey [97, 98] [] ≠ MergeKey.encodeKey [97] [[98]] := by
  intro h
  have := (merge_key_encoding_injective _ _ _ _ h).1
  revert this; decide

end BloomVerif.C12
