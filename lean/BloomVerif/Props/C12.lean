/-
  C12 — Merge output respects the configured layout limits. Loop invariants over the greedy folds,
  for every block size/row distribution and every limit setting.
-/
import BloomVerif.Lemmas.MergePlan
namespace BloomVerif.C12
open BloomVerif

/-- A block produced by combining blocks holds at most MaxRowGroupRows rows and MaxRowGroupBytes
    uncompressed bytes (the cumulative check, not only the pairwise one). -/
theorem group_within_limits (cfg : EngineConfig) (blocks : List BShape) (g : List BShape)
    (hg : g ∈ blockGroups cfg blocks) (h2 : 2 ≤ g.length) :
    sumRows g ≤ cfg.MaxRowGroupRows ∧ sumSize g ≤ cfg.MaxRowGroupBytes :=
  group_within_limits_aux cfg blocks g hg h2

/-- It combines only blocks with one merge key (one partition, one minmax key set). -/
theorem group_same_key (cfg : EngineConfig) (blocks : List BShape) (g : List BShape)
    (hg : g ∈ blockGroups cfg blocks) : ∀ a ∈ g, ∀ b ∈ g, a.key = b.key :=
  group_same_key_aux cfg blocks g hg

/-- The groups partition the blocks: nothing is dropped, nothing is duplicated (used by C11). -/
theorem groups_partition (cfg : EngineConfig) (blocks : List BShape) :
    ((blockGroups cfg blocks).flatMap id).Perm blocks ∧ ∀ g ∈ blockGroups cfg blocks, g ≠ [] :=
  ⟨groups_partition_aux cfg blocks, fun g hg => groups_nonempty_aux cfg blocks g hg⟩

/-- One Merge call removes at most MaxFilesToMergePerOperation source files … -/
theorem file_groups_count (cfg : EngineConfig) (cands : List Cand) :
    (((fileGroups cfg cands).map List.length).sum : Int) ≤ max cfg.MaxFilesToMergePerOperation 0 :=
  file_groups_count_aux cfg cands

/-- … every group has at least two files and the files merged into one output total at most
    MaxFileSize bytes (size as recorded in metadata). -/
theorem file_group_size (cfg : EngineConfig) (cands : List Cand) (g : List Cand)
    (hg : g ∈ fileGroups cfg cands) : 2 ≤ g.length ∧ sumTotal g ≤ cfg.MaxFileSize :=
  file_group_size_aux cfg cands g hg

/-- No candidate is used twice: the grouped files are (a permutation of) a sublist of the candidates. -/
theorem file_groups_members (cfg : EngineConfig) (cands : List Cand) :
    ((fileGroups cfg cands).flatMap id).Sublist cands ∨
    ∃ l, ((fileGroups cfg cands).flatMap id).Perm l ∧ l.Sublist cands :=
  file_groups_members_aux cfg cands

/-- The limit check regenerated from /repo's Go source is the model's, absent overflow. -/
theorem within_generated (cfg : EngineConfig) (a b : BShape)
    (ha : InI64 (a.rows + b.rows)) (hb : InI64 (a.size + b.size)) :
    Gen.blocksWithinMergeLimits ⟨cfg⟩ ⟨a.rows, a.size⟩ ⟨b.rows, b.size⟩ = within cfg a b :=
  within_bridge_aux cfg a b ha hb

/-- Non-vacuity: three blocks that pair with the seed but only two fit cumulatively. -/
example :
    let cfg : EngineConfig := { MaxRowGroupRows := 10, MaxRowGroupBytes := 1000 }
    blockGroups cfg [⟨0, "k", 4, 10⟩, ⟨1, "k", 5, 10⟩, ⟨2, "k", 5, 10⟩, ⟨3, "j", 1, 1⟩] =
      [[⟨0, "k", 4, 10⟩, ⟨1, "k", 5, 10⟩], [⟨2, "k", 5, 10⟩], [⟨3, "j", 1, 1⟩]] := by decide

end BloomVerif.C12
