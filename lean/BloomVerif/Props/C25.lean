/-
  C25 — Query expression trees mean what they say and survive serialization.
-/
import BloomVerif.Lemmas.ExprJson
namespace BloomVerif.C25
open BloomVerif

/-- `And(...)` (all three kinds), including its flattening: the conjunction of the arguments. -/
theorem and_flatten {C : Type} (leaf : C → Bool) (es : List (Expr C)) :
    Expr.eval leaf (mkAnd es) = es.all (Expr.eval leaf) :=
  eval_mkAnd leaf es

/-- `Or(...)` (all three kinds), including its flattening: the disjunction of the arguments. -/
theorem or_flatten {C : Type} (leaf : C → Bool) (es : List (Expr C)) :
    Expr.eval leaf (mkOr es) = es.any (Expr.eval leaf) :=
  eval_mkOr_aux leaf es

/-- Builder chains: any call sequence evaluates as the fold "simple calls conjoin, Match assigns". -/
theorem builder_bloom_meaning (leaf : BloomCond → Bool) (ops : List BOp) :
    Expr.evalOpt leaf (builderQuery ops).2.1 = bloomMeaning leaf ops :=
  builder_bloom_aux leaf ops

theorem builder_regex_meaning (leaf : RegexCond → Bool) (ops : List BOp) :
    Expr.evalOpt leaf (builderQuery ops).2.2 = regexMeaning leaf ops :=
  builder_regex_aux leaf ops

theorem builder_prefilter_meaning (leaf : PreCond → Bool) (ops : List BOp) :
    Expr.evalOpt leaf (builderQuery ops).1 = preMeaning leaf ops :=
  builder_pre_aux leaf ops

/-- For regex trees built with the constructors, the engine's compile step preserves meaning. -/
theorem regex_compile_preserves (leaf : RegexCond → Bool) (e : RegexExpr) (h : Expr.Proper e) :
    Expr.evalOpt leaf (compileRx e) = Expr.eval leaf e :=
  compileRx_eval_aux leaf e h

/-- non-vacuity: the premise of `regex_compile_preserves` holds for a constructor-built tree (an AND of a condition and an OR of two conditions), and the theorem applies to it -/
example :
    let e : RegexExpr := .mk "AND" none [.mk "CONDITION" (some ⟨['a'], ['x', '+']⟩) [],
      .mk "OR" none [.mk "CONDITION" (some ⟨['b'], ['y']⟩) [], .mk "CONDITION" (some ⟨['c', '.', 'd'], []⟩) []]]
    Expr.Proper e ∧ ∀ leaf, Expr.evalOpt leaf (compileRx e) = Expr.eval leaf e := by
  intro e
  have h : Expr.Proper e := by simp [e, Expr.Proper, Expr.ProperL]
  exact ⟨h, fun leaf => regex_compile_preserves leaf e h⟩

/-- JSON round trip of every bloom / regex / prefilter expression: the decoded tree *is* the
    original tree (hence identical evaluation and identical query results), for all trees including
    empty, nil-condition and unknown nodes, zero-valued operands and nil-vs-empty children. -/
theorem json_roundtrip_bloom (e : BloomExpr) (fuel : Nat) (hf : Expr.depth e ≤ fuel) :
    decExpr decBloomCond fuel (encExpr encBloomCond e) = some e :=
  roundtrip_expr_aux encBloomCond decBloomCond roundtrip_bloomCond_aux (fun _ => ⟨_, rfl⟩) e fuel hf

/-- non-vacuity: the premise of `json_roundtrip_bloom` holds for a depth-3 tree (conditions of all three kinds, an empty AND, a nil condition) with fuel 4, and the theorem applies to it -/
example :
    let e : BloomExpr := .mk "OR" none [.mk "CONDITION" (some ⟨"FIELD", ['a', '.', 'b'], []⟩) [],
      .mk "AND" none [.mk "CONDITION" (some ⟨"TOKEN", [], ['t']⟩) [], .mk "CONDITION" (some ⟨"FIELD_TOKEN", ['k'], ['v']⟩) [],
        .mk "AND" none [], .mk "CONDITION" none []]]
    Expr.depth e = 3 ∧ Expr.depth e ≤ 4 ∧ decExpr decBloomCond 4 (encExpr encBloomCond e) = some e := by
  intro e; exact ⟨by decide, by decide, json_roundtrip_bloom e 4 (by decide)⟩

theorem json_roundtrip_regex (e : RegexExpr) (fuel : Nat) (hf : Expr.depth e ≤ fuel) :
    decExpr decRegexCond fuel (encExpr encRegexCond e) = some e :=
  roundtrip_expr_aux encRegexCond decRegexCond roundtrip_regexCond_aux (fun _ => ⟨_, rfl⟩) e fuel hf

/-- non-vacuity: the premise of `json_roundtrip_regex` holds for a depth-3 tree (two conditions, a nested OR, a nil condition) with fuel exactly its depth, and the theorem applies to it -/
example :
    let e : RegexExpr := .mk "AND" none [.mk "CONDITION" (some ⟨['a'], ['x', '+']⟩) [],
      .mk "OR" none [.mk "CONDITION" (some ⟨['b'], ['y']⟩) [], .mk "CONDITION" none []]]
    Expr.depth e = 3 ∧ Expr.depth e ≤ 3 ∧ decExpr decRegexCond 3 (encExpr encRegexCond e) = some e := by
  intro e; exact ⟨by decide, by decide, json_roundtrip_regex e 3 (by decide)⟩

theorem json_roundtrip_prefilter (e : PreExpr) (fuel : Nat) (hf : Expr.depth e ≤ fuel) :
    decExpr decPreCond fuel (encExpr encPreCond e) = some e :=
  roundtrip_expr_aux encPreCond decPreCond roundtrip_preCond_aux (fun _ => ⟨_, rfl⟩) e fuel hf

/-- Non-vacuity: a nested tree with an empty Or, a nil condition, an unknown node and zero operands. -/
example :
    let e : PreExpr := .mk "AND" none [.mk "OR" none [], .mk "CONDITION" none [], .mk "XOR" none [],
      .mk "CONDITION" (some { ConditionType := "MINMAX", MinMaxFieldName := "k", MinMaxCondition := some ({ Operator := "EQ" } : NumericCondition) }) []]
    decExpr decPreCond 5 (encExpr encPreCond e) = some e := by
  intro e; exact json_roundtrip_prefilter e 5 (by decide)

end BloomVerif.C25
