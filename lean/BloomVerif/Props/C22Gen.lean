/-
  C22 on the code as regenerated from `query_results.go` (T-gen, `Bridge/Slot`): the semaphore slot's methods and
  the script of `Results.deliver`. `C22_bound` (Props/C22) is about worker phases; these theorems say that the
  real slot code makes the phases mean what the model takes them to mean.
-/
import BloomVerif.Props.C22
import BloomVerif.Bridge.Slot
namespace BloomVerif.C22
open BloomVerif BloomVerif.Bridge

/-- **Occupancy toggles, never nests (regenerated code)**: after any sequence of `acquire` / `release` calls on
    a slot, with any outcome of every wait, the slot has exactly one token in the semaphore if it is held and
    none otherwise. -/
theorem slot_tokens_generated (ops : List SlotOp) :
    (ops.foldl slotStep (false, 0)).2 = tok (ops.foldl slotStep (false, 0)).1 :=
  slot_conserves ops

/-- a sequence with a repeated acquire, a cancelled wait and a repeated release: the slot ends unheld with no
    token left behind, and in between (after the first two calls) it holds exactly one -/
example : ([.acquire .send, .acquire .send, .release, .release, .acquire .ctxDone] : List SlotOp).foldl slotStep (false, 0) = (false, 0) ∧
    ([.acquire .send, .acquire .send] : List SlotOp).foldl slotStep (false, 0) = (true, 1) := by
  decide

/-- **The bound on the regenerated code**: the semaphore is a channel of capacity `cap`, so the tokens in it
    never exceed `cap` (Go's channel semantics, trusted); every slot contributes `tok held` by
    `slot_tokens_generated`; hence at most `cap` slots are held at any time - and only a worker holding its
    slot reads from the DataStore (`C22_bound`). -/
theorem C22_bound_generated (slots : List (List SlotOp)) (cap : Nat)
    (hchan : ((slots.map (fun ops => (ops.foldl slotStep (false, 0)).2)).sum ≤ (cap : Int))) :
    ((slots.map (fun ops => (ops.foldl slotStep (false, 0)).1)).filter id).length ≤ cap := by
  apply held_le_cap
  have : (slots.map (fun ops => (ops.foldl slotStep (false, 0)).1)).map tok =
      slots.map (fun ops => (ops.foldl slotStep (false, 0)).2) := by
    simp only [List.map_map]
    apply List.map_congr_left
    intro ops _
    exact (slot_conserves ops).symm
  rw [this]
  exact hchan

/-- non-vacuity: the premise of `C22_bound_generated` holds for three slots on a two-slot semaphore, two of which
    got in while the third's wait was cancelled; the bound is attained -/
example :
    let slots : List (List SlotOp) := [[.acquire .send], [.acquire .send, .release, .acquire .send], [.acquire .ctxDone]]
    (slots.map (fun ops => (ops.foldl slotStep (false, 0)).2)).sum ≤ ((2 : Nat) : Int) ∧
    ((slots.map (fun ops => (ops.foldl slotStep (false, 0)).1)).filter id).length = 2 := by
  decide

/-- **A worker blocked on a slow consumer holds no slot (regenerated code)**: on its slow path `deliver` blocks
    on the row channel once, after `release`, and returns nil only with the slot re-acquired; its net effect on
    the semaphore is zero. -/
theorem deliver_blocks_unheld_generated :
    runDeliver Gen.deliverScript (true, 1) [] = ((true, 1), [false]) :=
  deliver_blocks_unheld

/-- `acquire` returns true exactly when the caller holds the slot afterwards, so a worker that proceeds to read
    holds one. -/
theorem acquire_true_iff_held_generated (held : Bool) (tokens : Int) (c : Gen.SelCase) :
    (Gen.slotAcquire held tokens c).2.2 = (Gen.slotAcquire held tokens c).1 :=
  acquire_result_is_held held tokens c

end BloomVerif.C22
