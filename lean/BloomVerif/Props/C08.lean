/-
  C08 — Stop honours its contract: refuses new work, drains, and obeys its deadline
  (safety part; the wall-clock clause is monitored on the implementation).
-/
import BloomVerif.Lemmas.Pipeline
namespace BloomVerif.C08
open BloomVerif.Pipeline

/-- Once Stop has begun no request is accepted. -/
theorem stop_refuses (c : Cfg) (s : St) (r : Req) (h : s.stopped = true) : step c s (.accept r) = none := by
  simp [step, h]

/-- … and it stays that way in every continuation. -/
theorem stop_refuses_forever (c : Cfg) (s : St) (tr : List Ev) (s' : St) (r : Req)
    (h : s.stopped = true) (hr : run c s tr = some s') : step c s' (.accept r) = none :=
  stop_refuses c s' r (stopped_stable_aux c s tr s' h hr)

/-- Stop returns nil only after every accepted batch has been answered. -/
theorem stop_nil_means_drained (c : Cfg) (hc : 0 < c.maxRows) (s : St) (hr : Reachable c s)
    (h : s.stopReturned = some true) : ∀ a ∈ s.accepted, a ∈ answeredIds s :=
  graceful_stop_aux c hc s hr h

/-- **No work after the deadline error**: in every reachable state where Stop has returned the
    deadline error the flush context is cancelled, and in every continuation no flush request begins
    store work (every later request is abandoned and its reachable waiters get an error). -/
theorem C08_no_work_after_deadline (c : Cfg) (hc : 0 < c.maxRows) (s : St) (hr : Reachable c s)
    (h : s.stopReturned = some false) (tr : List Ev) (s' : St) (hrun : run c s tr = some s') :
    Ev.flushBegin ∉ tr :=
  (no_begin_after_cancel_aux c s tr s' ((reachable_inv_aux c hc s hr).2.2.2.2.2.1 h) hrun).2

/-- Non-vacuity: a wedged flush, deadline, Stop returns the error; the queued request is abandoned. -/
example : ∃ s, run ⟨4, 1⟩ init
    [.start, .accept ⟨1, .rows 1⟩, .actorRecv 1, .flushTrigger, .enqueued, .workerTake, .flushBegin,
     .accept ⟨2, .rows 1⟩, .actorRecv 2, .flushTrigger, .enqueued, .stopBegin, .stopCall, .deadline, .stopRet false,
     .flushDone false, .workerTake, .flushAbandon] = some s ∧ s.stopReturned = some false := by
  refine ⟨_, rfl, rfl⟩

end BloomVerif.C08
