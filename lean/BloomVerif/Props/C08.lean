/-
  C08 — Stop honours its contract: refuses new work, drains, and obeys its deadline
  (safety part; the wall-clock clause is monitored on the implementation).
-/
import BloomVerif.Lemmas.Pipeline
namespace BloomVerif.C08
open BloomVerif.Pipeline

/-- Once Stop has begun no request is accepted. -/
theorem stop_refuses (c : Cfg) (s : St) (r : Req) (h : s.stopped = true) : step c s (.accept r) = none := by
  simp [step, h]

/-- Witness state for the non-vacuity examples: Stop was called on a running engine with one batch buffered and
    one still in the ingest channel (room left in the channel). -/
private def nv_stopped : St :=
  (run ⟨4, 3⟩ init [.start, .accept ⟨1, .rows 1⟩, .accept ⟨2, .force⟩, .actorRecv 1, .stopBegin, .stopCall]).getD init

/-- non-vacuity: the premise of `stop_refuses` holds in that state (six real events); a new batch is refused
    although the ingest channel has room -/
example : run ⟨4, 3⟩ init [.start, .accept ⟨1, .rows 1⟩, .accept ⟨2, .force⟩, .actorRecv 1, .stopBegin, .stopCall]
      = some nv_stopped ∧ nv_stopped.stopped = true ∧ nv_stopped.ingestQ.length = 1 ∧ nv_stopped.buffered = [1] ∧
    step ⟨4, 3⟩ nv_stopped (.accept ⟨3, .rows 1⟩) = none :=
  ⟨rfl, rfl, rfl, rfl, stop_refuses ⟨4, 3⟩ nv_stopped ⟨3, .rows 1⟩ rfl⟩

/-- … and it stays that way in every continuation. -/
theorem stop_refuses_forever (c : Cfg) (s : St) (tr : List Ev) (s' : St) (r : Req)
    (h : s.stopped = true) (hr : run c s tr = some s') : step c s' (.accept r) = none :=
  stop_refuses c s' r (stopped_stable_aux c s tr s' h hr)

/-- Witness continuation: drains `nv_stopped` (flush, exits, Stop returns nil). -/
private def nv_drain : List Ev :=
  [.actorRecv 2, .flushTrigger, .enqueued, .workerTake, .flushBegin, .flushDone true, .actorExit, .workerExit, .stopRet true]

/-- non-vacuity: the premises of `stop_refuses_forever` hold for that stopped state and the nine-event
    continuation that drains it; a new batch is still refused at the end -/
example : ∃ s', nv_stopped.stopped = true ∧ run ⟨4, 3⟩ nv_stopped nv_drain = some s' ∧
    s'.answered = [(1, true), (2, true)] ∧ s'.stopReturned = some true ∧
    step ⟨4, 3⟩ s' (.accept ⟨3, .rows 1⟩) = none :=
  ⟨(run ⟨4, 3⟩ nv_stopped nv_drain).getD init, rfl, rfl, rfl, rfl,
   stop_refuses_forever ⟨4, 3⟩ nv_stopped nv_drain _ ⟨3, .rows 1⟩ rfl rfl⟩

/-- Stop returns nil only after every accepted batch has been answered. -/
theorem stop_nil_means_drained (c : Cfg) (hc : 0 < c.maxRows) (s : St) (hr : Reachable c s)
    (h : s.stopReturned = some true) : ∀ a ∈ s.accepted, a ∈ answeredIds s :=
  graceful_stop_aux c hc s hr h

/-- non-vacuity: the premises of `stop_nil_means_drained` hold for a running engine whose only flush failed
    (Stop still returns nil; the three batches were answered with an error, nil and a rejection) -/
example : ∃ s, 0 < (⟨4, 3⟩ : Cfg).maxRows ∧ Reachable ⟨4, 3⟩ s ∧ s.stopReturned = some true ∧
    s.accepted = [1, 2, 3] ∧ s.answered = [(2, true), (3, false), (1, false)] :=
  ⟨_, by decide,
   ⟨[.start, .accept ⟨1, .rows 2⟩, .accept ⟨2, .empty⟩, .accept ⟨3, .bad⟩, .actorRecv 1, .stopBegin, .stopCall,
     .actorRecv 2, .actorRecv 3, .flushTrigger, .enqueued, .workerTake, .flushBegin, .flushDone false, .actorExit,
     .workerExit, .stopRet true], rfl⟩, rfl, rfl, rfl⟩

/-- non-vacuity: … and for an engine that was never started: Stop drains the two queued batches with an error -/
example : ∃ s, 0 < (⟨4, 3⟩ : Cfg).maxRows ∧ Reachable ⟨4, 3⟩ s ∧ s.stopReturned = some true ∧
    s.accepted = [1, 2] ∧ s.answered = [(1, false), (2, false)] :=
  ⟨_, by decide,
   ⟨[.accept ⟨1, .rows 2⟩, .accept ⟨2, .force⟩, .stopBegin, .stopCall, .stopDrain, .stopRet true], rfl⟩, rfl, rfl, rfl⟩

/-- **No work after the deadline error**: in every reachable state where Stop has returned the
    deadline error the flush context is cancelled, and in every continuation no flush request begins
    store work (every later request is abandoned and its reachable waiters get an error). -/
theorem C08_no_work_after_deadline (c : Cfg) (hc : 0 < c.maxRows) (s : St) (hr : Reachable c s)
    (h : s.stopReturned = some false) (tr : List Ev) (s' : St) (hrun : run c s tr = some s') :
    Ev.flushBegin ∉ tr :=
  (no_begin_after_cancel_aux c s tr s' ((reachable_inv_aux c hc s hr).2.2.2.2.2.1 h) hrun).2

/-- non-vacuity: all premises of `C08_no_work_after_deadline` hold together: Stop returned the deadline error
    while a flush was wedged and a second request queued, and the state has a non-empty continuation `tr`
    (the wedged flush fails, the queued request is taken and abandoned) -/
example : ∃ s tr s', 0 < (⟨4, 1⟩ : Cfg).maxRows ∧ Reachable ⟨4, 1⟩ s ∧ s.stopReturned = some false ∧
    run ⟨4, 1⟩ s tr = some s' ∧ tr = [.flushDone false, .workerTake, .flushAbandon] ∧
    s'.answered = [(1, false), (2, false)] :=
  ⟨_, _, _, by decide,
   ⟨[.start, .accept ⟨1, .rows 1⟩, .actorRecv 1, .flushTrigger, .enqueued, .workerTake, .flushBegin,
     .accept ⟨2, .rows 1⟩, .actorRecv 2, .flushTrigger, .enqueued, .stopBegin, .stopCall, .deadline, .stopRet false], rfl⟩,
   rfl, rfl, rfl, rfl⟩

/-- Non-vacuity: a wedged flush, deadline, Stop returns the error; the queued request is abandoned. -/
example : ∃ s, run ⟨4, 1⟩ init
    [.start, .accept ⟨1, .rows 1⟩, .actorRecv 1, .flushTrigger, .enqueued, .workerTake, .flushBegin,
     .accept ⟨2, .rows 1⟩, .actorRecv 2, .flushTrigger, .enqueued, .stopBegin, .stopCall, .deadline, .stopRet false,
     .flushDone false, .workerTake, .flushAbandon] = some s ∧ s.stopReturned = some false := by
  refine ⟨_, rfl, rfl⟩

end BloomVerif.C08
