/-
  C05 — Every accepted batch is answered exactly once (safety part; the "caller keeps receiving"
  clause is liveness and is monitored on the implementation, see DESIGN.md).
  Quantifies over every event sequence of the pipeline LTS: any interleaving of callers, the ingest
  actor, the flush worker, store outcomes, Start and Stop with or without deadline.
-/
import BloomVerif.Lemmas.Pipeline
namespace BloomVerif.C05
open BloomVerif.Pipeline

/-- Conservation: in every reachable state each accepted batch is either answered or sits in
    exactly one place of the pipeline; nothing is silently dropped. -/
theorem conservation (c : Cfg) (hc : 0 < c.maxRows) (s : St) (hr : Reachable c s) :
    chain s = unanswered s ∧ (chain s).Nodup := by
  have h := reachable_inv_aux c hc s hr
  exact ⟨h.1, chain_nodup_aux c hc s hr⟩

/-- Witness trace for the non-vacuity examples: seven accepted batches (rows, bad, force, empty); one
    answered by the actor, the others spread over the worker, the flush channel, the parked request
    and the ingest channel. -/
private def nv_busy : List Ev :=
  [.accept ⟨1, .rows 1⟩, .start, .accept ⟨2, .bad⟩, .actorRecv 1, .actorRecv 2, .accept ⟨3, .rows 1⟩, .actorRecv 3,
   .flushTrigger, .enqueued, .workerTake, .flushBegin, .accept ⟨4, .force⟩, .actorRecv 4, .flushTrigger, .enqueued,
   .accept ⟨5, .force⟩, .actorRecv 5, .flushTrigger, .accept ⟨6, .rows 3⟩, .accept ⟨7, .empty⟩]

/-- non-vacuity: the premises of `conservation` hold for a mid-flight state (20 events, 7 batches, 6 unanswered) -/
example : ∃ s, 0 < (⟨2, 2⟩ : Cfg).maxRows ∧ Reachable ⟨2, 2⟩ s ∧
    s.accepted = [1, 2, 3, 4, 5, 6, 7] ∧ answeredIds s = [2] ∧ chain s = [1, 3, 4, 5, 6, 7] :=
  ⟨_, by decide, ⟨nv_busy, rfl⟩, rfl, rfl, rfl⟩

/-- non-vacuity: `conservation` applied to that state; its unanswered batches are exactly the six in the chain -/
example : ∃ s, Reachable ⟨2, 2⟩ s ∧ unanswered s = [1, 3, 4, 5, 6, 7] ∧ (chain s = unanswered s ∧ (chain s).Nodup) :=
  ⟨_, ⟨nv_busy, rfl⟩, by decide, conservation ⟨2, 2⟩ (by decide) _ ⟨nv_busy, rfl⟩⟩

/-- No batch is answered twice, and only accepted batches are answered. -/
theorem answered_at_most_once (c : Cfg) (hc : 0 < c.maxRows) (s : St) (hr : Reachable c s) :
    (answeredIds s).Nodup ∧ ∀ a ∈ answeredIds s, a ∈ s.accepted :=
  (reachable_inv_aux c hc s hr).2.1.2

/-- non-vacuity: the premises of `answered_at_most_once` hold after a flush answered two batches and the actor a third -/
example : ∃ s, 0 < (⟨2, 2⟩ : Cfg).maxRows ∧ Reachable ⟨2, 2⟩ s ∧
    s.answered = [(2, false), (1, true), (3, true)] ∧ s.accepted = [1, 2, 3, 4, 5, 6, 7] :=
  ⟨_, by decide, ⟨nv_busy ++ [.flushDone true], rfl⟩, rfl, rfl⟩

/-- non-vacuity: `answered_at_most_once` applied to that state -/
example : ∃ s, answeredIds s = [2, 1, 3] ∧ ((answeredIds s).Nodup ∧ ∀ a ∈ answeredIds s, a ∈ s.accepted) :=
  ⟨_, rfl, answered_at_most_once ⟨2, 2⟩ (by decide) _ ⟨nv_busy ++ [.flushDone true], rfl⟩⟩

/-- **Graceful stop**: if Stop returned nil, every accepted batch has been answered — including
    batches accepted before Start, racing with Stop, empty batches and rejected batches, and
    including an engine that was never started. -/
theorem C05_graceful_stop (c : Cfg) (hc : 0 < c.maxRows) (s : St) (hr : Reachable c s)
    (h : s.stopReturned = some true) : ∀ a ∈ s.accepted, a ∈ answeredIds s :=
  graceful_stop_aux c hc s hr h

/-- non-vacuity: the premises of `C05_graceful_stop` hold when the busy state above is drained (one flush
    fails, one is ack-only) and Stop returns nil; every one of the seven batches has an answer -/
example : ∃ s, 0 < (⟨2, 2⟩ : Cfg).maxRows ∧ Reachable ⟨2, 2⟩ s ∧ s.stopReturned = some true ∧
    s.accepted = [1, 2, 3, 4, 5, 6, 7] ∧
    s.answered = [(2, false), (1, false), (3, false), (4, true), (5, true), (7, true), (6, true)] :=
  ⟨_, by decide,
   ⟨nv_busy ++ [.stopBegin, .flushDone false, .workerTake, .enqueued, .stopCall, .flushBegin, .flushDone true,
      .workerTake, .flushBegin, .flushDone true, .actorRecv 6, .flushTrigger, .enqueued, .actorRecv 7, .workerTake,
      .flushBegin, .flushDone true, .actorExit, .workerExit, .stopRet true], rfl⟩, rfl, rfl, rfl⟩

/-- Non-vacuity: accept three batches (one bad, one empty), flush, stop gracefully. -/
example : ∃ s, run ⟨2, 2⟩ init
    [.accept ⟨1, .rows 1⟩, .start, .accept ⟨2, .bad⟩, .actorRecv 1, .actorRecv 2, .accept ⟨3, .empty⟩,
     .stopBegin, .stopCall, .actorRecv 3, .flushTrigger, .enqueued, .workerTake, .flushBegin, .flushDone true,
     .actorExit, .workerExit, .stopRet true] = some s ∧ s.stopReturned = some true ∧ s.accepted = [1, 2, 3] := by
  refine ⟨_, rfl, rfl, rfl⟩

end BloomVerif.C05
