/-
  C05 — Every accepted batch is answered exactly once (safety part; the "caller keeps receiving"
  clause is liveness and is monitored on the implementation, see DESIGN.md).
  Quantifies over every event sequence of the pipeline LTS: any interleaving of callers, the ingest
  actor, the flush worker, store outcomes, Start and Stop with or without deadline.
-/
import BloomVerif.Lemmas.Pipeline
namespace BloomVerif.C05
open BloomVerif.Pipeline

/-- Conservation: in every reachable state each accepted batch is either answered or sits in
    exactly one place of the pipeline; nothing is silently dropped. -/
theorem conservation (c : Cfg) (hc : 0 < c.maxRows) (s : St) (hr : Reachable c s) :
    chain s = unanswered s ∧ (chain s).Nodup := by
  have h := reachable_inv_aux c hc s hr
  exact ⟨h.1, chain_nodup_aux c hc s hr⟩

/-- No batch is answered twice, and only accepted batches are answered. -/
theorem answered_at_most_once (c : Cfg) (hc : 0 < c.maxRows) (s : St) (hr : Reachable c s) :
    (answeredIds s).Nodup ∧ ∀ a ∈ answeredIds s, a ∈ s.accepted :=
  (reachable_inv_aux c hc s hr).2.1.2

/-- **Graceful stop**: if Stop returned nil, every accepted batch has been answered — including
    batches accepted before Start, racing with Stop, empty batches and rejected batches, and
    including an engine that was never started. -/
theorem C05_graceful_stop (c : Cfg) (hc : 0 < c.maxRows) (s : St) (hr : Reachable c s)
    (h : s.stopReturned = some true) : ∀ a ∈ s.accepted, a ∈ answeredIds s :=
  graceful_stop_aux c hc s hr h

/-- Non-vacuity: accept three batches (one bad, one empty), flush, stop gracefully. -/
example : ∃ s, run ⟨2, 2⟩ init
    [.accept ⟨1, .rows 1⟩, .start, .accept ⟨2, .bad⟩, .actorRecv 1, .actorRecv 2, .accept ⟨3, .empty⟩,
     .stopBegin, .stopCall, .actorRecv 3, .flushTrigger, .enqueued, .workerTake, .flushBegin, .flushDone true,
     .actorExit, .workerExit, .stopRet true] = some s ∧ s.stopReturned = some true ∧ s.accepted = [1, 2, 3] := by
  refine ⟨_, rfl, rfl, rfl⟩

end BloomVerif.C05
