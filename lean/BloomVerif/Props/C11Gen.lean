/-
  C11 on the code as regenerated from `merge.go` (T-gen, `Bridge/MergeMM`): the union of two blocks' minmax maps
  that the merge executor computes. `C11_partition_minmax` (Props/C11) is about the model's `mergeMM`; these
  theorems say that the real function is that one, and state the covering fact on it directly.
-/
import BloomVerif.Props.C11
import BloomVerif.Bridge.MergeMM
namespace BloomVerif.C11
open BloomVerif BloomVerif.Bridge

/-- The regenerated `mergeMinMaxIndexes` is the model's `mergeMM` (a Go map's keys are distinct). -/
theorem merge_minmax_is_model_generated (a b : List (String × MinMaxIndex)) (hnd : (a.map (·.1)).Nodup) :
    Gen.mergeMinMaxIndexes a b = mergeMM a b :=
  mergeMM_generated a b hnd

/-- **Merged ranges cover both sources (regenerated code)**: every key of either block's minmax map is a key of
    the merged map, and its merged range contains the source's range - so a row whose value lay inside its
    block's range before the merge lies inside its block's range afterwards. -/
theorem C11_minmax_merge_generated (a b : List (String × MinMaxIndex)) (hnd : (a.map (·.1)).Nodup) :
    MMLe a (Gen.mergeMinMaxIndexes a b) ∧
    ∀ k mm, (k, mm) ∈ b →
      ∃ mm', List.lookup k (Gen.mergeMinMaxIndexes a b) = some mm' ∧ mm'.Min ≤ mm.Min ∧ mm.Max ≤ mm'.Max := by
  rw [mergeMM_generated a b hnd]
  exact ⟨mergeMM_le a b, fun k mm h => mergeMM_covers a b k mm h⟩

/-- non-vacuity: the premise holds for a one-key map, and the second block's range [5,30] strictly contains the
    first's [10,20] on both ends (the shape on which a one-sided update loses the upper bound); a key only the
    second block has is added -/
example : ((([("n", ⟨10, 20⟩)] : List (String × MinMaxIndex)).map (·.1)).Nodup) ∧
    Gen.mergeMinMaxIndexes [("n", ⟨10, 20⟩)] [("n", ⟨5, 30⟩), ("m", ⟨1, 1⟩)] = [("n", ⟨5, 30⟩), ("m", ⟨1, 1⟩)] := by
  decide

end BloomVerif.C11
