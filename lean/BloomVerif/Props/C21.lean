/-
  C21 — Queries release every resource they acquire (handle-pool part; goroutine exit and the
  MetaStore iterator's return are runtime facts, monitored on the implementation).
-/
import BloomVerif.Lemmas.Cursor
namespace BloomVerif.C21
open BloomVerif BloomVerif.Pool

/-- The pool invariant holds after any sequence of operations that obeys the reader discipline. -/
theorem pool_inv (ops : List Op) :
    ∀ s, Pool.Inv s → (∀ (pre : List Op) (op : Op) (post : List Op), ops = pre ++ op :: post →
        Allowed (pre.foldl (fun st o => (step st o).1) s) op) →
      Pool.Inv (ops.foldl (fun st o => (step st o).1) s) := by
  induction ops with
  | nil => intro s h _; exact h
  | cons op rest ih =>
    intro s h hall
    have h1 : Pool.Inv (step s op).1 := inv_step_aux s op h (hall [] op rest rfl)
    apply ih _ h1
    intro pre o post heq
    have := hall (op :: pre) o post (by rw [heq]; rfl)
    simpa using this

/-- No handle is lent to two holders. -/
theorem acquire_exclusive (s : St) (p h : Nat) (hi : Pool.Inv s) (ha : (step s (.acquire p)).2 = some h) :
    (s.status.lookup h = some .idle ∨ (h = s.next ∧ s.status.lookup h = none)) ∧
    (step s (.acquire p)).1.status.lookup h = some .lent :=
  acquire_exclusive_aux s p h hi ha

/-- No handle is closed (or lent again) while a reader holds it. -/
theorem lent_untouched (s : St) (op : Op) (h : Nat) (hi : Pool.Inv s) (hl : s.status.lookup h = some .lent)
    (hop : op ≠ .discard h ∧ ∀ p, op ≠ .put p h) : (step s op).1.status.lookup h = some .lent :=
  lent_untouched_aux s op h hi hl hop

/-- After teardown every opened handle has been closed exactly once. -/
theorem closed_exactly_once (s : St) (hi : Pool.Inv s) (hc : s.closed = true)
    (hl : ∀ h, s.status.lookup h ≠ some .lent) :
    ∀ h, h < s.next → s.status.lookup h = some (.closed 1) ∨ s.status.lookup h = none :=
  closed_exactly_once_aux s hi hc hl

end BloomVerif.C21
