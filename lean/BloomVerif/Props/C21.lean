/-
  C21 — Queries release every resource they acquire (handle-pool part; goroutine exit and the
  MetaStore iterator's return are runtime facts, monitored on the implementation).
-/
import BloomVerif.Lemmas.Cursor
namespace BloomVerif.C21
open BloomVerif BloomVerif.Pool

/-- The pool invariant holds after any sequence of operations that obeys the reader discipline. -/
theorem pool_inv (ops : List Op) :
    ∀ s, Pool.Inv s → (∀ (pre : List Op) (op : Op) (post : List Op), ops = pre ++ op :: post →
        Allowed (pre.foldl (fun st o => (step st o).1) s) op) →
      Pool.Inv (ops.foldl (fun st o => (step st o).1) s) := by
  induction ops with
  | nil => intro s h _; exact h
  | cons op rest ih =>
    intro s h hall
    have h1 : Pool.Inv (step s op).1 := inv_step_aux s op h (hall [] op rest rfl)
    apply ih _ h1
    intro pre o post heq
    have := hall (op :: pre) o post (by rw [heq]; rfl)
    simpa using this

/-- witness helper: the pool state after a sequence of operations from the empty pool -/
private def nv_run (ops : List Op) : St := ops.foldl (fun st o => (step st o).1) {}

/-- non-vacuity: the premises of `pool_inv` hold from a pool with one retained file and one lent handle, for a disciplined sequence (open a second handle, put the first back, discard the second, tear down) -/
example : ∃ (s : St) (ops : List Op), s.next = 1 ∧ s.status.lookup 0 = some .lent ∧ ops.length = 4 ∧ Pool.Inv s ∧
    (∀ (pre : List Op) (op : Op) (post : List Op), ops = pre ++ op :: post →
      Allowed (pre.foldl (fun st o => (step st o).1) s) op) := by
  refine ⟨nv_run [.retain 7, .acquire 7], [.acquire 7, .put 7 0, .discard 1, .closeAll], rfl, rfl, rfl,
    inv_step_aux _ _ (inv_step_aux _ _ inv_init_aux trivial) trivial, ?_⟩
  intro pre op post h
  rcases pre with _ | ⟨a, _ | ⟨b, _ | ⟨c, _ | ⟨d, pre⟩⟩⟩⟩ <;>
    simp only [List.cons_append, List.nil_append, List.cons.injEq] at h
  · obtain ⟨rfl, _⟩ := h; trivial
  · obtain ⟨rfl, rfl, _⟩ := h; exact (rfl : _ = _)
  · obtain ⟨rfl, rfl, rfl, _⟩ := h; exact (rfl : _ = _)
  · obtain ⟨rfl, rfl, rfl, rfl, _⟩ := h; trivial
  · obtain ⟨_, _, _, _, h⟩ := h; simp at h

/-- No handle is lent to two holders. -/
theorem acquire_exclusive (s : St) (p h : Nat) (hi : Pool.Inv s) (ha : (step s (.acquire p)).2 = some h) :
    (s.status.lookup h = some .idle ∨ (h = s.next ∧ s.status.lookup h = none)) ∧
    (step s (.acquire p)).1.status.lookup h = some .lent :=
  acquire_exclusive_aux s p h hi ha

/-- non-vacuity: the premises of `acquire_exclusive` hold when an idle handle is lent again (two handles opened, handle 0 put back, then acquire) -/
example : ∃ (s : St) (p h : Nat), Pool.Inv s ∧ (step s (.acquire p)).2 = some h ∧
    s.status.lookup h = some .idle ∧ s.next = 2 :=
  ⟨nv_run [.retain 7, .acquire 7, .acquire 7, .put 7 0], 7, 0,
    inv_step_aux _ _ (inv_step_aux _ _ (inv_step_aux _ _ (inv_step_aux _ _ inv_init_aux trivial) trivial) trivial)
      (rfl : _ = _),
    rfl, rfl, rfl⟩

/-- non-vacuity: the premises of `acquire_exclusive` also hold when a new handle is opened while another is lent (the second disjunct of the conclusion) -/
example : ∃ (s : St) (p h : Nat), Pool.Inv s ∧ (step s (.acquire p)).2 = some h ∧
    h = s.next ∧ s.status.lookup h = none ∧ s.status.lookup 0 = some .lent :=
  ⟨nv_run [.retain 7, .acquire 7], 7, 1,
    inv_step_aux _ _ (inv_step_aux _ _ inv_init_aux trivial) trivial, rfl, rfl, rfl, rfl⟩

/-- No handle is closed (or lent again) while a reader holds it. -/
theorem lent_untouched (s : St) (op : Op) (h : Nat) (hi : Pool.Inv s) (hl : s.status.lookup h = some .lent)
    (hop : op ≠ .discard h ∧ ∀ p, op ≠ .put p h) : (step s op).1.status.lookup h = some .lent :=
  lent_untouched_aux s op h hi hl hop

/-- non-vacuity: the premises of `lent_untouched` hold for two lent handles, where the other reader discards its handle 1 while handle 0 stays lent -/
example : ∃ (s : St) (op : Op) (h : Nat), Pool.Inv s ∧ s.status.lookup h = some .lent ∧
    (op ≠ .discard h ∧ ∀ p, op ≠ .put p h) ∧ op = .discard 1 ∧ s.status.lookup 1 = some .lent :=
  ⟨nv_run [.retain 7, .acquire 7, .acquire 7], .discard 1, 0,
    inv_step_aux _ _ (inv_step_aux _ _ (inv_step_aux _ _ inv_init_aux trivial) trivial) trivial,
    rfl, ⟨by decide, fun p h => by cases h⟩, rfl, rfl⟩

/-- After teardown every opened handle has been closed exactly once. -/
theorem closed_exactly_once (s : St) (hi : Pool.Inv s) (hc : s.closed = true)
    (hl : ∀ h, s.status.lookup h ≠ some .lent) :
    ∀ h, h < s.next → s.status.lookup h = some (.closed 1) ∨ s.status.lookup h = none :=
  closed_exactly_once_aux s hi hc hl

/-- non-vacuity: the premises of `closed_exactly_once` hold after a real teardown (two handles opened, one put back idle, one discarded, then closeAll): both handles end closed exactly once -/
example : ∃ s : St, Pool.Inv s ∧ s.closed = true ∧ (∀ h, s.status.lookup h ≠ some .lent) ∧
    s.next = 2 ∧ s.status = [(0, .closed 1), (1, .closed 1)] := by
  refine ⟨nv_run [.retain 7, .acquire 7, .acquire 7, .put 7 0, .discard 1, .closeAll],
    inv_step_aux _ _ (inv_step_aux _ _ (inv_step_aux _ _ (inv_step_aux _ _ (inv_step_aux _ _
      (inv_step_aux _ _ inv_init_aux trivial) trivial) trivial) (rfl : _ = _)) (rfl : _ = _)) trivial,
    rfl, ?_, rfl, rfl⟩
  intro h
  show List.lookup h [(0, HStatus.closed 1), (1, HStatus.closed 1)] ≠ some HStatus.lent
  simp only [List.lookup]
  split
  · simp
  · split <;> simp

end BloomVerif.C21
