/-
  C08 / C09 on the code as regenerated from `ingest.go` (T-gen, `Generated/Accept`): how `IngestRows` and `Flush`
  accept a request. The pipeline LTS (Props/C05, C08, C09) takes "accept = the request is on the ingest channel,
  and only while the engine is not stopped" as a step; these theorems say the real entry points do exactly that.
-/
import BloomVerif.Props.C08
import BloomVerif.Generated.Accept
namespace BloomVerif.C08
open BloomVerif

/-- **Accepted iff queued (regenerated code)**: `IngestRows` returns nil exactly when it has put the request on
    the ingest channel, and it puts at most one; there is no path that reports acceptance without queueing (the
    bounded backlog of C09 counts queued requests) and none that queues but reports a failure. -/
theorem ingest_nil_iff_queued_generated (stopped : Bool) (w : Gen.AcceptCase) :
    (Gen.ingestRows stopped w).queued ≤ 1 ∧
    ((Gen.ingestRows stopped w).ret = .nil ↔ (Gen.ingestRows stopped w).queued = 1) := by
  cases stopped <;> cases w <;> decide

/-- **Stop refuses (regenerated code)**: once the stopped flag is set, `IngestRows` and `Flush` return
    `ErrEngineStopped` and queue nothing, whatever the channel or the caller's context would have allowed. -/
theorem stopped_refuses_generated (w : Gen.AcceptCase) :
    (Gen.ingestRows true w).ret = .stopped ∧ (Gen.ingestRows true w).queued = 0 ∧
    (Gen.flushCall true w).ret = .stopped ∧ (Gen.flushCall true w).queued = 0 := by
  cases w <;> decide

/-- **The flag and the send are under the state lock (regenerated code)**: on every path the stopped flag is
    read, and the request queued, while the read lock is held - so `Stop`, which sets the flag under the write
    lock, cannot miss a request that was accepted - and the lock is released when the call returns. -/
theorem accept_under_lock_generated (stopped : Bool) (w : Gen.AcceptCase) :
    (Gen.ingestRows stopped w).stoppedReadLocked = true ∧ (Gen.ingestRows stopped w).sendLocked = true ∧
    (Gen.ingestRows stopped w).lockedAfter = false ∧
    (Gen.flushCall stopped w).stoppedReadLocked = true ∧ (Gen.flushCall stopped w).sendLocked = true ∧
    (Gen.flushCall stopped w).lockedAfter = false := by
  cases stopped <;> cases w <;> decide

/-- `Flush` waits for its acknowledgement exactly when its request was queued; otherwise it reports why not. -/
theorem flush_waits_iff_queued_generated (stopped : Bool) (w : Gen.AcceptCase) :
    (Gen.flushCall stopped w).queued ≤ 1 ∧
    ((Gen.flushCall stopped w).ret = .ack ↔ (Gen.flushCall stopped w).queued = 1) := by
  cases stopped <;> cases w <;> decide

end BloomVerif.C08
