/-
  C10 on the code as regenerated from `ingest.go` (T-gen, `Bridge/Trigger`): the flush decisions of
  `processIngestRequest` and `ingestWorker`. Kept apart from `Props/C10` so that only C10's check depends on the
  trigger bridge (C06 uses the actor's rejection lemma of `Props/C10`).
-/
import BloomVerif.Props.C10
import BloomVerif.Bridge.Trigger
namespace BloomVerif.C10
open BloomVerif.Actor

/-- Witness config: all limits positive (10 rows, 1000 bytes, 2 rows and 1000 bytes per partition, 100 time units). -/
private def nv_cfg : ACfg := ⟨10, 1000, 2, 1000, 100⟩

/-- Witness state: the actor after a rejected batch, a two-row batch for two partitions at time 7, and a quiet tick. -/
private def nv_buffered : ASt :=
  (runMsgs nv_cfg {} [.bad 9, .batch 1 [⟨1, "a", 10⟩, ⟨2, "b", 10⟩] 7, .tick 50]).1

/-- **Immediately, on the regenerated code**: whenever a limit is reached by a batch, the decision
    `processIngestRequest` takes as regenerated from the Go text (per-partition check folded over the touched
    partitions, then the buffer check) is "flush", whatever the clock says. -/
theorem C10_limits_fire_generated (c : ACfg) (s : ASt) (rows : List RowIn) (since : Nat)
    (h : reaches c s rows = true) :
    Bridge.batchDecision c rows (addRows rows s.parts) (s.rows + rows.length) (s.bytes + sumSize rows) since = true := by
  have := Bridge.batchDecision_eq c rows (addRows rows s.parts) (s.rows + rows.length) (s.bytes + sumSize rows) 0 since
  simp only [Nat.sub_zero] at this
  rw [this]
  unfold reaches at h
  simp only [Bool.or_eq_true] at h ⊢
  rcases h with (h | h) | h
  · exact Or.inl (Or.inl (Or.inl h))
  · exact Or.inl (Or.inl (Or.inr h))
  · exact Or.inl (Or.inr h)

/-- non-vacuity: the premise of `C10_limits_fire_generated` holds for the buffered state above and the batch that
    brings partition "a" to its row-group limit; the regenerated decision evaluates to "flush" -/
example : reaches nv_cfg nv_buffered [⟨3, "a", 10⟩] = true ∧
    Bridge.batchDecision nv_cfg [⟨3, "a", 10⟩] (addRows [⟨3, "a", 10⟩] nv_buffered.parts) 3 30 53 = true :=
  ⟨by decide, by decide⟩

/-- The model's step on a non-empty batch *is* the regenerated decision: it flushes everything and empties the
    buffer when the decision is true, and only buffers otherwise. -/
theorem C10_step_is_generated (c : ACfg) (s : ASt) (w : Nat) (rows : List RowIn) (now : Nat) (hne : rows ≠ []) :
    step c s (.batch w rows now) =
      if Bridge.batchDecision c rows (addRows rows s.parts) (s.rows + rows.length) (s.bytes + sumSize rows)
          (now - Bridge.startOf s now)
      then ({}, [.flush (addRows rows s.parts) (s.waiters ++ [w])])
      else ({ parts := addRows rows s.parts, waiters := s.waiters ++ [w], rows := s.rows + rows.length,
              bytes := s.bytes + sumSize rows, t0 := some (Bridge.startOf s now) }, []) :=
  Bridge.step_batch_generated c s w rows now hne

/-- non-vacuity: the premise of `C10_step_is_generated` holds for a one-row batch that stays under every limit, and
    the regenerated decision for it is "keep buffering" (so both branches of the statement are inhabited, the
    other one by the example above) -/
example : ([⟨3, "c", 10⟩] : List RowIn) ≠ [] ∧
    Bridge.batchDecision nv_cfg [⟨3, "c", 10⟩] (addRows [⟨3, "c", 10⟩] nv_buffered.parts) 3 30 (60 - Bridge.startOf nv_buffered 60) = false :=
  ⟨by decide, by decide⟩

/-- **By time, on the regenerated code**: with rows buffered since `t`, the ticker condition regenerated from
    `ingestWorker` holds at every tick at or after `t + MaxBufferedTime`. -/
theorem C10_time_generated (c : ACfg) (s : ASt) (now t : Nat) (hr : s.rows > 0) (ht : s.t0 = some t)
    (hn : now ≥ t + c.maxTime) :
    Gen.tickTrigger (s.rows : Int) s.t0.isSome ((now - t : Nat) : Int) (c.maxTime : Int) = true := by
  rw [Bridge.tickTrigger_eq, ht]
  have e1 : decide ((s.rows : Int) > 0) = true := by apply decide_eq_true; omega
  have e3 : decide (((now - t : Nat) : Int) ≥ (c.maxTime : Int)) = true := by apply decide_eq_true; omega
  rw [e1, e3]; rfl

/-- non-vacuity: the premises of `C10_time_generated` hold for the buffered state above at tick 107, and the
    regenerated condition is false one time unit earlier (the condition is not constantly true) -/
example : nv_buffered.rows > 0 ∧ nv_buffered.t0 = some 7 ∧ 107 ≥ 7 + nv_cfg.maxTime ∧
    Gen.tickTrigger (nv_buffered.rows : Int) nv_buffered.t0.isSome ((106 - 7 : Nat) : Int) (nv_cfg.maxTime : Int) = false :=
  ⟨by decide, by decide, by decide, by decide⟩

/-- The limits are judged in uncompressed bytes: as regenerated, one buffered row of marshaled length `len` adds
    `len + LengthPrefixSize` to its partition's and to the buffer's byte counter and one to both row counters. -/
theorem C10_accounting_generated (us rc bb br len : Int) :
    Gen.rowAccount us rc bb br len = (us + (len + 4), rc + 1, bb + (len + 4), br + 1) := by
  rw [Bridge.rowAccount_eq]; rfl

end BloomVerif.C10
