/-
  C07 — Acknowledgements respect acceptance order (Flush is a durability barrier).
-/
import BloomVerif.Lemmas.Pipeline
namespace BloomVerif.C07
open BloomVerif.Pipeline

/-- FIFO chain: the request being written holds the oldest unanswered batches; what is queued
    behind it follows in acceptance order (this is `conservation` read as an order statement). -/
theorem fifo_chain (c : Cfg) (hc : 0 < c.maxRows) (s : St) (hr : Reachable c s)
    (r : FlushReq) (b : Bool) (hw : s.worker = some (r, b)) :
    ∃ post, unanswered s = r.waiters ++ post :=
  worker_prefix_aux c hc s hr r b hw

/-- Witness trace for the non-vacuity examples: seven accepted batches; batch 2 was rejected by the actor,
    batches 1 and 3 are being written, 4 is in the flush channel, 5 is parked, 6 and 7 wait in the ingest channel. -/
private def nv_busy : List Ev :=
  [.accept ⟨1, .rows 1⟩, .start, .accept ⟨2, .bad⟩, .actorRecv 1, .actorRecv 2, .accept ⟨3, .rows 1⟩, .actorRecv 3,
   .flushTrigger, .enqueued, .workerTake, .flushBegin, .accept ⟨4, .force⟩, .actorRecv 4, .flushTrigger, .enqueued,
   .accept ⟨5, .force⟩, .actorRecv 5, .flushTrigger, .accept ⟨6, .rows 3⟩, .accept ⟨7, .empty⟩]

/-- non-vacuity: the premises of `fifo_chain` hold for a reachable state whose worker writes a two-waiter request
    while four more batches are queued behind it; the unanswered list starts with those two waiters -/
example : ∃ s r b, 0 < (⟨2, 2⟩ : Cfg).maxRows ∧ Reachable ⟨2, 2⟩ s ∧ s.worker = some (r, b) ∧
    r.waiters = [1, 3] ∧ unanswered s = [1, 3] ++ [4, 5, 6, 7] :=
  ⟨_, _, _, by decide, ⟨nv_busy, rfl⟩, rfl, rfl, by decide⟩

/-- non-vacuity: `fifo_chain` applied to that state -/
example : ∃ s, Reachable ⟨2, 2⟩ s ∧ ∃ post, unanswered s = [1, 3] ++ post :=
  ⟨_, ⟨nv_busy, rfl⟩, fifo_chain ⟨2, 2⟩ (by decide) _ ⟨nv_busy, rfl⟩ ⟨[1, 3], true⟩ true rfl⟩

/-- **C07**: when the flush worker answers a request (with nil or with an error), every batch
    accepted before any of its waiters has been answered by the end of that step; waiters of the same
    request are answered in acceptance order. A `Flush` call is one of the waiters, so it is a barrier
    for everything accepted before it, including flushes queued or in flight when it was called. -/
theorem C07_order (c : Cfg) (hc : 0 < c.maxRows) (s s' : St) (ok : Bool) (hr : Reachable c s)
    (hs : step c s (.flushDone ok) = some s') :
    ∀ r b, s.worker = some (r, b) → ∀ w ∈ r.waiters, ∀ pre post, s.accepted = pre ++ w :: post →
      ∀ a ∈ pre, a ∈ answeredIds s' :=
  flushDone_order_aux c hc s s' ok hr hs

/-- non-vacuity: all premises of `C07_order` (outer and inner) hold together: in the state above the worker
    finishes with nil, waiter 3 was accepted after batches 1 and 2 (`pre = [1, 2]`), and both are answered afterwards -/
example : ∃ s s' r b w pre post a, 0 < (⟨2, 2⟩ : Cfg).maxRows ∧ Reachable ⟨2, 2⟩ s ∧
    step ⟨2, 2⟩ s (.flushDone true) = some s' ∧ s.worker = some (r, b) ∧ w ∈ r.waiters ∧
    s.accepted = pre ++ w :: post ∧ a ∈ pre ∧ pre = [1, 2] ∧ answeredIds s' = [2, 1, 3] :=
  ⟨_, _, ⟨[1, 3], true⟩, true, 3, [1, 2], [4, 5, 6, 7], 1, by decide, ⟨nv_busy, rfl⟩, rfl, rfl, by decide, rfl,
   by decide, rfl, rfl⟩

/-- non-vacuity: `C07_order` applied to that step with an error outcome: batch 2 (answered earlier by the actor)
    and batch 1 (answered in this step) precede waiter 3 and are answered -/
example : ∃ s s', Reachable ⟨2, 2⟩ s ∧ step ⟨2, 2⟩ s (.flushDone false) = some s' ∧
    1 ∈ answeredIds s' ∧ 2 ∈ answeredIds s' :=
  ⟨_, _, ⟨nv_busy, rfl⟩, rfl,
   C07_order ⟨2, 2⟩ (by decide) _ _ false ⟨nv_busy, rfl⟩ rfl ⟨[1, 3], true⟩ true rfl 3 (by decide) [1, 2] [4, 5, 6, 7] rfl
     1 (by decide),
   C07_order ⟨2, 2⟩ (by decide) _ _ false ⟨nv_busy, rfl⟩ rfl ⟨[1, 3], true⟩ true rfl 3 (by decide) [1, 2] [4, 5, 6, 7] rfl
     2 (by decide)⟩

end BloomVerif.C07
