/-
  C07 — Acknowledgements respect acceptance order (Flush is a durability barrier).
-/
import BloomVerif.Lemmas.Pipeline
namespace BloomVerif.C07
open BloomVerif.Pipeline

/-- FIFO chain: the request being written holds the oldest unanswered batches; what is queued
    behind it follows in acceptance order (this is `conservation` read as an order statement). -/
theorem fifo_chain (c : Cfg) (hc : 0 < c.maxRows) (s : St) (hr : Reachable c s)
    (r : FlushReq) (b : Bool) (hw : s.worker = some (r, b)) :
    ∃ post, unanswered s = r.waiters ++ post :=
  worker_prefix_aux c hc s hr r b hw

/-- **C07**: when the flush worker answers a request (with nil or with an error), every batch
    accepted before any of its waiters has been answered by the end of that step; waiters of the same
    request are answered in acceptance order. A `Flush` call is one of the waiters, so it is a barrier
    for everything accepted before it, including flushes queued or in flight when it was called. -/
theorem C07_order (c : Cfg) (hc : 0 < c.maxRows) (s s' : St) (ok : Bool) (hr : Reachable c s)
    (hs : step c s (.flushDone ok) = some s') :
    ∀ r b, s.worker = some (r, b) → ∀ w ∈ r.waiters, ∀ pre post, s.accepted = pre ++ w :: post →
      ∀ a ∈ pre, a ∈ answeredIds s' :=
  flushDone_order_aux c hc s s' ok hr hs

end BloomVerif.C07
