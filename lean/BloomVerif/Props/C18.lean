/-
  C18 — Indexes cover their data at every level of the hierarchy.
-/
import BloomVerif.Lemmas.Build
namespace BloomVerif.C18
open BloomVerif

/-- A block built by flush from the rows buffered for one partition is index-covered: its filters
    contain every field path, token and field::token pair of every row, its minmax ranges cover
    every indexed value, and its partition ID is each row's. -/
theorem block_WF (s : Sem) (build : List Str → (Str → Bool)) (hb : SoundBuild build)
    (keys : List String) (pid : String) (rows : List Row)
    (hp : ∀ r ∈ rows, r.pre.pid = pid)
    (hk : ∀ r ∈ rows, ∀ f v, r.pre.vals f = some v → f ∈ keys) :
    BlockWF s (mkBlock s build keys pid rows) :=
  mkBlock_WF_aux s build hb keys pid rows hp hk

/-- A flushed file is index-covered at both levels. -/
theorem flush_WF (s : Sem) (build : List Str → (Str → Bool)) (hb : SoundBuild build)
    (keys : List String) (parts : List (String × List Row))
    (hp : ∀ p ∈ parts, ∀ r ∈ p.2, r.pre.pid = p.1)
    (hk : ∀ p ∈ parts, ∀ r ∈ p.2, ∀ f v, r.pre.vals f = some v → f ∈ keys) :
    FileWF s (flushFile s build keys parts) :=
  flush_WF_aux s build hb keys parts hp hk

/-- A block lists exactly the indexed keys its rows provided as (non-NaN) numbers. -/
theorem minmax_keys_exact (keys : List String) (rows : List Row) (k : String) :
    ((blockMinMax keys rows).lookup k).isSome = true ↔
      (k ∈ keys ∧ ∃ r ∈ rows, (r.pre.vals k).isSome = true) :=
  minmax_keys_exact_aux keys rows k

/-- Merged *and* copied blocks stay index-covered. -/
theorem mergeGroup_WF (s : Sem) (build : List Str → (Str → Bool)) (hb : SoundBuild build)
    (g : List Block) (b' : Block) (hg : ValidGroup g) (hwf : ∀ b ∈ g, BlockWF s b)
    (h : mergeGroup s build g = some b') : BlockWF s b' :=
  mergeGroup_WF_aux s build hb g b' hg hwf h

/-- A merge output file is index-covered at both levels, for any valid grouping. -/
theorem merge_WF (s : Sem) (build : List Str → (Str → Bool)) (hb : SoundBuild build)
    (groups : List (List Block)) (hg : ∀ g ∈ groups, ValidGroup g)
    (hwf : ∀ g ∈ groups, ∀ b ∈ g, BlockWF s b) :
    FileWF s (mergeFile s build groups) :=
  merge_WF_aux s build hb groups hg hwf

end BloomVerif.C18
