/-
  C18 — Indexes cover their data at every level of the hierarchy.
-/
import BloomVerif.Lemmas.Build
namespace BloomVerif.C18
open BloomVerif

/-- A block built by flush from the rows buffered for one partition is index-covered: its filters
    contain every field path, token and field::token pair of every row, its minmax ranges cover
    every indexed value, and its partition ID is each row's. -/
theorem block_WF (s : Sem) (build : List Str → (Str → Bool)) (hb : SoundBuild build)
    (keys : List String) (pid : String) (rows : List Row)
    (hp : ∀ r ∈ rows, r.pre.pid = pid)
    (hk : ∀ r ∈ rows, ∀ f v, r.pre.vals f = some v → f ∈ keys) :
    BlockWF s (mkBlock s build keys pid rows) :=
  mkBlock_WF_aux s build hb keys pid rows hp hk

/-- witness engine parameters: a tokenizer that splits off the first character, a membership-test filter builder -/
private def nv_sem : Sem := { tok := fun x => [x, x.take 1], re := fun _ _ => true }
private def nv_build : List Str → (Str → Bool) := fun l x => l.contains x
/-- witness rows: JSON objects with an indexed numeric key `k`, in partitions `p`, `p`, `q` -/
private def nv_row (pid : String) (n : Int) (msg : String) : Row :=
  { json := .obj [("k".toList, .num (toString n).toList), ("msg".toList, .str msg.toList)],
    pre := { pid := pid, vals := fun f => if f = "k" then some (.int n) else none } }
private def nv_r1 : Row := nv_row "p" 5 "hello world"
private def nv_r2 : Row := nv_row "p" (-3) "bye"
private def nv_r3 : Row := nv_row "q" 40 "other"

/-- non-vacuity: the premises of `block_WF` hold for a sound builder and two JSON rows of partition `p` carrying the indexed key `k`; the theorem applies -/
example : SoundBuild nv_build ∧ (∀ r ∈ [nv_r1, nv_r2], r.pre.pid = "p") ∧
    (∀ r ∈ [nv_r1, nv_r2], ∀ f v, r.pre.vals f = some v → f ∈ ["k"]) ∧
    BlockWF nv_sem (mkBlock nv_sem nv_build ["k"] "p" [nv_r1, nv_r2]) := by
  have hb : SoundBuild nv_build := by intro l x h; simp [nv_build, h]
  have hp : ∀ r ∈ [nv_r1, nv_r2], r.pre.pid = "p" := by
    intro r hr
    simp only [List.mem_cons, List.not_mem_nil, or_false] at hr
    rcases hr with rfl | rfl <;> rfl
  have hk : ∀ r ∈ [nv_r1, nv_r2], ∀ f v, r.pre.vals f = some v → f ∈ ["k"] := by
    intro r hr f v hv
    simp only [List.mem_cons, List.not_mem_nil, or_false] at hr
    rcases hr with rfl | rfl <;>
      (simp only [nv_r1, nv_r2, nv_row] at hv; split at hv <;> simp_all)
  exact ⟨hb, hp, hk, block_WF nv_sem nv_build hb ["k"] "p" _ hp hk⟩

/-- A flushed file is index-covered at both levels. -/
theorem flush_WF (s : Sem) (build : List Str → (Str → Bool)) (hb : SoundBuild build)
    (keys : List String) (parts : List (String × List Row))
    (hp : ∀ p ∈ parts, ∀ r ∈ p.2, r.pre.pid = p.1)
    (hk : ∀ p ∈ parts, ∀ r ∈ p.2, ∀ f v, r.pre.vals f = some v → f ∈ keys) :
    FileWF s (flushFile s build keys parts) :=
  flush_WF_aux s build hb keys parts hp hk

/-- non-vacuity: the premises of `flush_WF` hold for two partition buffers (two rows and one row); the theorem applies -/
example : SoundBuild nv_build ∧
    (∀ p ∈ [("p", [nv_r1, nv_r2]), ("q", [nv_r3])], ∀ r ∈ p.2, r.pre.pid = p.1) ∧
    (∀ p ∈ [("p", [nv_r1, nv_r2]), ("q", [nv_r3])], ∀ r ∈ p.2, ∀ f v, r.pre.vals f = some v → f ∈ ["k"]) ∧
    FileWF nv_sem (flushFile nv_sem nv_build ["k"] [("p", [nv_r1, nv_r2]), ("q", [nv_r3])]) := by
  have hb : SoundBuild nv_build := by intro l x h; simp [nv_build, h]
  have hp : ∀ p ∈ [("p", [nv_r1, nv_r2]), ("q", [nv_r3])], ∀ r ∈ p.2, r.pre.pid = p.1 := by
    intro p hp r hr
    simp only [List.mem_cons, List.not_mem_nil, or_false] at hp
    rcases hp with rfl | rfl <;> simp only [List.mem_cons, List.not_mem_nil, or_false] at hr
    · rcases hr with rfl | rfl <;> rfl
    · subst hr; rfl
  have hk : ∀ p ∈ [("p", [nv_r1, nv_r2]), ("q", [nv_r3])], ∀ r ∈ p.2, ∀ f v, r.pre.vals f = some v → f ∈ ["k"] := by
    intro p hp r hr f v hv
    have hf : f = "k" := by
      simp only [List.mem_cons, List.not_mem_nil, or_false] at hp
      rcases hp with rfl | rfl <;> simp only [List.mem_cons, List.not_mem_nil, or_false] at hr
      · rcases hr with rfl | rfl <;>
          (simp only [nv_r1, nv_r2, nv_row] at hv; split at hv <;> simp_all)
      · subst hr; simp only [nv_r3, nv_row] at hv; split at hv <;> simp_all
    simp [hf]
  exact ⟨hb, hp, hk, flush_WF nv_sem nv_build hb ["k"] _ hp hk⟩

/-- A block lists exactly the indexed keys its rows provided as (non-NaN) numbers. -/
theorem minmax_keys_exact (keys : List String) (rows : List Row) (k : String) :
    ((blockMinMax keys rows).lookup k).isSome = true ↔
      (k ∈ keys ∧ ∃ r ∈ rows, (r.pre.vals k).isSome = true) :=
  minmax_keys_exact_aux keys rows k

/-- Merged *and* copied blocks stay index-covered. -/
theorem mergeGroup_WF (s : Sem) (build : List Str → (Str → Bool)) (hb : SoundBuild build)
    (g : List Block) (b' : Block) (hg : ValidGroup g) (hwf : ∀ b ∈ g, BlockWF s b)
    (h : mergeGroup s build g = some b') : BlockWF s b' :=
  mergeGroup_WF_aux s build hb g b' hg hwf h

/-- witness blocks: three flushed single-row blocks, two of partition `p`, one of `q` -/
private def nv_bA : Block := mkBlock nv_sem nv_build ["k"] "p" [nv_r1]
private def nv_bB : Block := mkBlock nv_sem nv_build ["k"] "p" [nv_r2]
private def nv_bC : Block := mkBlock nv_sem nv_build ["k"] "q" [nv_r3]

/-- non-vacuity: the premises of `mergeGroup_WF` hold for a group of two flushed blocks of the same partition and key set (ranges [5,5] and [-3,-3]); the merged block spans [-3,5], holds both rows, and the theorem applies -/
example : ∃ b', SoundBuild nv_build ∧ ValidGroup [nv_bA, nv_bB] ∧ (∀ b ∈ [nv_bA, nv_bB], BlockWF nv_sem b) ∧
    mergeGroup nv_sem nv_build [nv_bA, nv_bB] = some b' ∧ b'.md.MinMaxIndexes = [("k", ⟨-3, 5⟩)] ∧
    b'.rows.length = 2 ∧ BlockWF nv_sem b' := by
  have hb : SoundBuild nv_build := by intro l x h; simp [nv_build, h]
  have hrow : ∀ (pid : String) (n : Int) (msg : String),
      BlockWF nv_sem (mkBlock nv_sem nv_build ["k"] pid [nv_row pid n msg]) := by
    intro pid n msg
    refine block_WF nv_sem nv_build hb ["k"] pid _ ?_ ?_
    · intro r hr; simp only [List.mem_cons, List.not_mem_nil, or_false] at hr; subst hr; rfl
    · intro r hr f v hv
      simp only [List.mem_cons, List.not_mem_nil, or_false] at hr; subst hr
      simp only [nv_row] at hv; split at hv <;> simp_all
  have hg : ValidGroup [nv_bA, nv_bB] := by
    refine ⟨by simp, ?_⟩
    have key : sameKeys nv_bA.md.MinMaxIndexes nv_bB.md.MinMaxIndexes := by
      intro k
      have eA : nv_bA.md.MinMaxIndexes = [("k", ⟨5, 5⟩)] := by decide
      have eB : nv_bB.md.MinMaxIndexes = [("k", ⟨-3, -3⟩)] := by decide
      rw [eA, eB]
      simp only [List.lookup_cons, List.lookup_nil]
      cases (k == "k") <;> rfl
    intro x hx y hy
    simp only [List.mem_cons, List.not_mem_nil, or_false] at hx hy
    rcases hx with rfl | rfl <;> rcases hy with rfl | rfl
    · exact ⟨rfl, fun _ => rfl⟩
    · exact ⟨rfl, key⟩
    · exact ⟨rfl, fun k => (key k).symm⟩
    · exact ⟨rfl, fun _ => rfl⟩
  have hwf : ∀ b ∈ [nv_bA, nv_bB], BlockWF nv_sem b := by
    intro b hbm
    simp only [List.mem_cons, List.not_mem_nil, or_false] at hbm
    rcases hbm with rfl | rfl
    · exact hrow "p" 5 "hello world"
    · exact hrow "p" (-3) "bye"
  exact ⟨_, hb, hg, hwf, rfl, by decide, rfl, mergeGroup_WF nv_sem nv_build hb _ _ hg hwf rfl⟩

/-- A merge output file is index-covered at both levels, for any valid grouping. -/
theorem merge_WF (s : Sem) (build : List Str → (Str → Bool)) (hb : SoundBuild build)
    (groups : List (List Block)) (hg : ∀ g ∈ groups, ValidGroup g)
    (hwf : ∀ g ∈ groups, ∀ b ∈ g, BlockWF s b) :
    FileWF s (mergeFile s build groups) :=
  merge_WF_aux s build hb groups hg hwf

/-- non-vacuity: the premises of `merge_WF` hold for a grouping with one merged pair and one copied singleton block; the theorem applies -/
example : SoundBuild nv_build ∧ (∀ g ∈ [[nv_bA, nv_bB], [nv_bC]], ValidGroup g) ∧
    (∀ g ∈ [[nv_bA, nv_bB], [nv_bC]], ∀ b ∈ g, BlockWF nv_sem b) ∧
    (mergeFile nv_sem nv_build [[nv_bA, nv_bB], [nv_bC]]).blocks.length = 2 ∧
    FileWF nv_sem (mergeFile nv_sem nv_build [[nv_bA, nv_bB], [nv_bC]]) := by
  have hb : SoundBuild nv_build := by intro l x h; simp [nv_build, h]
  have hrow : ∀ (pid : String) (n : Int) (msg : String),
      BlockWF nv_sem (mkBlock nv_sem nv_build ["k"] pid [nv_row pid n msg]) := by
    intro pid n msg
    refine block_WF nv_sem nv_build hb ["k"] pid _ ?_ ?_
    · intro r hr; simp only [List.mem_cons, List.not_mem_nil, or_false] at hr; subst hr; rfl
    · intro r hr f v hv
      simp only [List.mem_cons, List.not_mem_nil, or_false] at hr; subst hr
      simp only [nv_row] at hv; split at hv <;> simp_all
  have hg : ValidGroup [nv_bA, nv_bB] := by
    refine ⟨by simp, ?_⟩
    have key : sameKeys nv_bA.md.MinMaxIndexes nv_bB.md.MinMaxIndexes := by
      intro k
      have eA : nv_bA.md.MinMaxIndexes = [("k", ⟨5, 5⟩)] := by decide
      have eB : nv_bB.md.MinMaxIndexes = [("k", ⟨-3, -3⟩)] := by decide
      rw [eA, eB]
      simp only [List.lookup_cons, List.lookup_nil]
      cases (k == "k") <;> rfl
    intro x hx y hy
    simp only [List.mem_cons, List.not_mem_nil, or_false] at hx hy
    rcases hx with rfl | rfl <;> rcases hy with rfl | rfl
    · exact ⟨rfl, fun _ => rfl⟩
    · exact ⟨rfl, key⟩
    · exact ⟨rfl, fun k => (key k).symm⟩
    · exact ⟨rfl, fun _ => rfl⟩
  have hwf : ∀ b ∈ [nv_bA, nv_bB], BlockWF nv_sem b := by
    intro b hbm
    simp only [List.mem_cons, List.not_mem_nil, or_false] at hbm
    rcases hbm with rfl | rfl
    · exact hrow "p" 5 "hello world"
    · exact hrow "p" (-3) "bye"
  have hgs : ∀ g ∈ [[nv_bA, nv_bB], [nv_bC]], ValidGroup g := by
    intro g hgm
    simp only [List.mem_cons, List.not_mem_nil, or_false] at hgm
    rcases hgm with rfl | rfl
    · exact hg
    · refine ⟨by simp, ?_⟩
      intro x hx y hy
      simp only [List.mem_cons, List.not_mem_nil, or_false] at hx hy
      subst hx; subst hy
      exact ⟨rfl, fun _ => rfl⟩
  have hwfs : ∀ g ∈ [[nv_bA, nv_bB], [nv_bC]], ∀ b ∈ g, BlockWF nv_sem b := by
    intro g hgm
    simp only [List.mem_cons, List.not_mem_nil, or_false] at hgm
    rcases hgm with rfl | rfl
    · exact hwf
    · intro b hbm
      simp only [List.mem_cons, List.not_mem_nil, or_false] at hbm
      subst hbm
      exact hrow "q" 40 "other"
  exact ⟨hb, hgs, hwfs, rfl, merge_WF nv_sem nv_build hb _ hgs hwfs⟩

end BloomVerif.C18
