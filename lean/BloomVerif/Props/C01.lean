/-
  C01 — Queries never miss a stored matching row (no false negatives).
  Property theorems only. Quantifies over every JSON tree, tokenizer function, bloom/regex/prefilter
  tree (nil, empty, unknown nodes included), every split of rows into blocks and files, and every
  sound filter construction.
-/
import BloomVerif.Model.Content
import BloomVerif.Lemmas.Guard
import BloomVerif.Lemmas.Tokenizer
import BloomVerif.Lemmas.Content
import BloomVerif.Props.C04
namespace BloomVerif.C01
open BloomVerif

/-- Direct (path, token) equality implies membership of the joined `path::token` key. -/
theorem fieldToken_direct_implies_joined (tok : Str → List Str) (row : J) (c : BloomCond)
    (h : matchBloomCond tok (emissions row) c = true) : entryCond (rowEntries tok row) c = true :=
  bloomCond_entries tok (emissions row) c h

/-- A regex tree that is true of a row implies its Field guard on the row's own entries. -/
theorem guard_sound (tok : Str → List Str) (re : Str → Str → Bool) (reOK : Str → Bool) (row : J)
    (rx : RegexExpr) (hv : rxValid reOK rx = true)
    (h : matchRegex re (emissions row) (some rx) = true) :
    Expr.evalOpt (entryCond (rowEntries tok row)) (guardOf rx) = true :=
  guard_sound_aux tok re reOK row rx hv h

/-- The fast tokenizer path is the reference tokenizer, on the regenerated Unicode tables. -/
theorem fast_tokenizer_default (s : Str) : defaultTokFast s = defaultTok s :=
  defaultTokFast_eq s

/-- A row that matches the query satisfies the prune query on its own entries. -/
theorem match_implies_entries (s : Sem) (reOK : Str → Bool) (q : Query) (r : Row)
    (hv : q.Valid reOK) (h : rowMatches s q r = true) :
    Expr.evalOpt (entryCond (rowEntries s.tok r.json)) q.prune = true :=
  match_entries s reOK q r hv h

/-- Filters that contain the entries dominate exact-set evaluation (absent filter ⇒ true). -/
theorem filters_ge_exact (f : Filt) (en : Entries) (p : Option BloomExpr) (hc : FiltCovers f en)
    (h : Expr.evalOpt (entryCond en) p = true) : evalFilt f p = true :=
  filt_ge_entries f en p hc h

/-- **C01**: whatever produced the files, if they are index-covered (`FileWF`, established by
    flush and merge: C18), every stored row that matches the bloom and regex expressions under the
    documented semantics and whose own partition ID / indexed values satisfy the prefilter is
    returned. -/
theorem C01_no_false_negatives (s : Sem) (reOK : Str → Bool) (files : List FileM) (q : Query)
    (f : FileM) (b : Block) (r : Row)
    (hwf : ∀ f ∈ files, FileWF s f) (hf : f ∈ files) (hb : b ∈ f.blocks) (hr : r ∈ b.rows)
    (hv : q.Valid reOK) (hpre : Expr.ForallOpt PreCond.WF q.pre)
    (hm : rowMatches s q r = true) (hp : rowSatPre r.pre q.pre = true) :
    r ∈ query s files q :=
  no_false_negatives s reOK files q f b r hwf hf hb hr hv hpre hm hp

end BloomVerif.C01
