/-
  C01 — Queries never miss a stored matching row (no false negatives).
  Property theorems only. Quantifies over every JSON tree, tokenizer function, bloom/regex/prefilter
  tree (nil, empty, unknown nodes included), every split of rows into blocks and files, and every
  sound filter construction.
-/
import BloomVerif.Model.Content
import BloomVerif.Lemmas.Guard
import BloomVerif.Lemmas.Tokenizer
import BloomVerif.Lemmas.Content
import BloomVerif.Props.C04
import BloomVerif.Bridge.TreeBloom
import BloomVerif.Bridge.Guard
namespace BloomVerif.C01
open BloomVerif

/-- Direct (path, token) equality implies membership of the joined `path::token` key. -/
theorem fieldToken_direct_implies_joined (tok : Str → List Str) (row : J) (c : BloomCond)
    (h : matchBloomCond tok (emissions row) c = true) : entryCond (rowEntries tok row) c = true :=
  bloomCond_entries tok (emissions row) c h

/-- witness tokenizer: split on blanks (the reference splitter with a one-character separator set) -/
private def nv_tok : Str → List Str := fieldsOn (fun c => c == ' ')
/-- witness row `{"a":{"b":"hello world","n":42},"c.d":[true,null]}` -/
private def nv_json : J :=
  .obj [("a".toList, .obj [("b".toList, .str "hello world".toList), ("n".toList, .num "42".toList)]),
        ("c.d".toList, .arr [.bool true, .null])]

/-- non-vacuity: a FIELD_TOKEN condition on a nested path holds of a two-level row (second token of the leaf) -/
example :
    matchBloomCond nv_tok (emissions nv_json) { Kind := "FIELD_TOKEN", Field := "a.b".toList, Token := "world".toList } = true ∧
    entryCond (rowEntries nv_tok nv_json) { Kind := "FIELD_TOKEN", Field := "a.b".toList, Token := "world".toList } = true :=
  ⟨by decide, fieldToken_direct_implies_joined nv_tok nv_json _ (by decide)⟩

/-- A regex tree that is true of a row implies its Field guard on the row's own entries. -/
theorem guard_sound (tok : Str → List Str) (re : Str → Str → Bool) (reOK : Str → Bool) (row : J)
    (rx : RegexExpr) (hv : rxValid reOK rx = true)
    (h : matchRegex re (emissions row) (some rx) = true) :
    Expr.evalOpt (entryCond (rowEntries tok row)) (guardOf rx) = true :=
  guard_sound_aux tok re reOK row rx hv h

/-- witness regex oracle: "pattern is a prefix of the text" -/
private def nv_re : Str → Str → Bool := fun p t => p.isPrefixOf t
/-- witness regex tree: AND [ a.b ~ "hel", OR [ zz ~ "q", a ~ "4" ], CONDITION nil ] -/
private def nv_rx : RegexExpr :=
  .mk "AND" none
    [.mk "CONDITION" (some { Field := "a.b".toList, Pattern := "hel".toList }) [],
     .mk "OR" none [.mk "CONDITION" (some { Field := "zz".toList, Pattern := "q".toList }) [],
                    .mk "CONDITION" (some { Field := "a".toList, Pattern := "4".toList }) []],
     .mk "CONDITION" none []]

/-- non-vacuity: a three-level regex tree (AND / OR / nil condition) that compiles and is true of the nested row -/
example :
    rxValid (fun p => !p.isEmpty) nv_rx = true ∧ matchRegex nv_re (emissions nv_json) (some nv_rx) = true ∧
    Expr.evalOpt (entryCond (rowEntries nv_tok nv_json)) (guardOf nv_rx) = true :=
  ⟨by decide, by decide, guard_sound nv_tok nv_re (fun p => !p.isEmpty) nv_json nv_rx (by decide) (by decide)⟩

/-- The fast tokenizer path is the reference tokenizer, on the regenerated Unicode tables. -/
theorem fast_tokenizer_default (s : Str) : defaultTokFast s = defaultTok s :=
  defaultTokFast_eq s

/-- A row that matches the query satisfies the prune query on its own entries. -/
theorem match_implies_entries (s : Sem) (reOK : Str → Bool) (q : Query) (r : Row)
    (hv : q.Valid reOK) (h : rowMatches s q r = true) :
    Expr.evalOpt (entryCond (rowEntries s.tok r.json)) q.prune = true :=
  match_entries s reOK q r hv h

private def nv_sem : Sem := { tok := nv_tok, re := nv_re }
/-- witness prefilter view of a row: partition `pid`, one indexed value under key "n" -/
private def nv_pre (pid : String) (v : NumVal) : RowPre :=
  { pid := pid, vals := fun f => if f = "n" then some v else none }
private def nv_r1 : Row := { json := nv_json, pre := nv_pre "p1" (.int 42) }
private def nv_r2 : Row :=
  { json := .obj [("a".toList, .obj [("b".toList, .str "bye".toList)])], pre := nv_pre "p1" (.int 7) }
private def nv_r3 : Row :=
  { json := .obj [("a".toList, .str "hello".toList)], pre := nv_pre "p2" (.int 45) }
/-- witness query: partition = p1 AND n BETWEEN 40 AND 50; token "world" under a.b; the regex tree above -/
private def nv_q : Query :=
  { pre := some (.mk "AND" none
      [.mk "CONDITION" (some { ConditionType := "PARTITION", PartitionCondition := some ({ Operator := "EQ", Value := "p1" } : StringCondition) }) [],
       .mk "CONDITION" (some { ConditionType := "MINMAX", MinMaxFieldName := "n", MinMaxCondition := some ({ Operator := "BETWEEN", Min := 40, Max := 50 } : NumericCondition) }) []]),
    bloom := some (.mk "CONDITION" (some { Kind := "FIELD_TOKEN", Field := "a.b".toList, Token := "world".toList }) []),
    regex := some nv_rx }

/-- non-vacuity: a valid bloom + regex query matched by the nested row -/
example :
    nv_q.Valid (fun p => !p.isEmpty) ∧ rowMatches nv_sem nv_q nv_r1 = true ∧
    Expr.evalOpt (entryCond (rowEntries nv_sem.tok nv_r1.json)) nv_q.prune = true := by
  have hv : nv_q.Valid (fun p => !p.isEmpty) := by
    intro e he; cases he; decide
  exact ⟨hv, by decide, match_implies_entries nv_sem _ nv_q nv_r1 hv (by decide)⟩

/-- Filters that contain the entries dominate exact-set evaluation (absent filter ⇒ true). -/
theorem filters_ge_exact (f : Filt) (en : Entries) (p : Option BloomExpr) (hc : FiltCovers f en)
    (h : Expr.evalOpt (entryCond en) p = true) : evalFilt f p = true :=
  filt_ge_entries f en p hc h

/-- witness filter builder: exact membership (a bloom filter without false positives) -/
private def nv_build : List Str → (Str → Bool) := fun l x => l.contains x

/-- non-vacuity: filters built from the row's own entries cover them, and the prune query holds on the entries -/
example :
    FiltCovers (buildFilt nv_build (rowEntries nv_tok nv_json)) (rowEntries nv_tok nv_json) ∧
    Expr.evalOpt (entryCond (rowEntries nv_tok nv_json)) nv_q.prune = true ∧
    evalFilt (buildFilt nv_build (rowEntries nv_tok nv_json)) nv_q.prune = true := by
  have hc : FiltCovers (buildFilt nv_build (rowEntries nv_tok nv_json)) (rowEntries nv_tok nv_json) := by
    refine ⟨?_, ?_, ?_⟩ <;> (intro g hg; cases hg; decide)
  exact ⟨hc, by decide, filters_ge_exact _ _ _ hc (by decide)⟩

/-- The same for the filter-test tree walk re-translated from `evaluateBloomExpression` (query_exec.go) on
    every run: filters that contain a row's entries are never ruled out by the regenerated evaluator. -/
theorem filters_ge_exact_generated (f : Filt) (en : Entries) (p : Option BloomExpr) (hc : FiltCovers f en)
    (h : Expr.evalOpt (entryCond en) p = true) : Gen.evaluateBloomExpressionPtr (filtCond f) p = true := by
  rw [Bridge.evalFilt_generated]; exact filters_ge_exact f en p hc h

/-- non-vacuity: the same covering filters and prune query meet the premises of `filters_ge_exact_generated` -/
example : Gen.evaluateBloomExpressionPtr (filtCond (buildFilt nv_build (rowEntries nv_tok nv_json))) nv_q.prune = true :=
  filters_ge_exact_generated _ (rowEntries nv_tok nv_json) _
    (by refine ⟨?_, ?_, ?_⟩ <;> (intro g hg; cases hg; decide)) (by decide)

/-- `guard_sound` for the guard re-translated from `regexExpressionToBloomFieldExpression` (query.go) on every
    run, evaluated by the re-translated filter-test tree walk: a row whose regex tree holds is never ruled
    out by filters containing the row's entries. -/
theorem guard_sound_generated (tok : Str → List Str) (re : Str → Str → Bool) (reOK : Str → Bool) (row : J)
    (rx : RegexExpr) (hv : rxValid reOK rx = true)
    (h : matchRegex re (emissions row) (some rx) = true) (f : Filt) (hc : FiltCovers f (rowEntries tok row)) :
    Gen.evaluateBloomExpressionPtr (filtCond f) (Gen.regexExpressionToBloomFieldExpressionPtr (some rx)) = true := by
  rw [Bridge.guardPtr_eq]
  exact filters_ge_exact_generated f (rowEntries tok row) _ hc (guard_sound tok re reOK row rx hv h)

/-- non-vacuity: the three-level regex tree, the nested row and filters built from the row's own entries meet the premises of `guard_sound_generated` -/
example : Gen.evaluateBloomExpressionPtr (filtCond (buildFilt nv_build (rowEntries nv_tok nv_json)))
    (Gen.regexExpressionToBloomFieldExpressionPtr (some nv_rx)) = true :=
  guard_sound_generated nv_tok nv_re (fun p => !p.isEmpty) nv_json nv_rx (by decide) (by decide) _
    (by refine ⟨?_, ?_, ?_⟩ <;> (intro g hg; cases hg; decide))

/-- **C01**: whatever produced the files, if they are index-covered (`FileWF`, established by
    flush and merge: C18), every stored row that matches the bloom and regex expressions under the
    documented semantics and whose own partition ID / indexed values satisfy the prefilter is
    returned. -/
theorem C01_no_false_negatives (s : Sem) (reOK : Str → Bool) (files : List FileM) (q : Query)
    (f : FileM) (b : Block) (r : Row)
    (hwf : ∀ f ∈ files, FileWF s f) (hf : f ∈ files) (hb : b ∈ f.blocks) (hr : r ∈ b.rows)
    (hv : q.Valid reOK) (hpre : Expr.ForallOpt PreCond.WF q.pre)
    (hm : rowMatches s q r = true) (hp : rowSatPre r.pre q.pre = true) :
    r ∈ query s files q :=
  no_false_negatives s reOK files q f b r hwf hf hb hr hv hpre hm hp

/-- witness file: a flush of two partition buffers (two rows in p1, one in p2), minmax key "n" -/
private def nv_parts : List (String × List Row) := [("p1", [nv_r1, nv_r2]), ("p2", [nv_r3])]
private def nv_file : FileM := flushFile nv_sem nv_build ["n"] nv_parts

/-- non-vacuity: the premises of `C01_no_false_negatives` hold for a two-file flushed store, a three-part query and the nested row of a two-row block; it is returned -/
example :
    let files := [flushFile nv_sem nv_build ["n"] [("p2", [nv_r3])], nv_file]
    let b := mkBlock nv_sem nv_build ["n"] "p1" [nv_r1, nv_r2]
    (∀ f ∈ files, FileWF nv_sem f) ∧ nv_file ∈ files ∧ b ∈ nv_file.blocks ∧ nv_r1 ∈ b.rows ∧
    nv_q.Valid (fun p => !p.isEmpty) ∧ Expr.ForallOpt PreCond.WF nv_q.pre ∧
    rowMatches nv_sem nv_q nv_r1 = true ∧ rowSatPre nv_r1.pre nv_q.pre = true ∧
    nv_r1 ∈ query nv_sem files nv_q := by
  intro files b
  have hfc : ∀ l l' : List Str, (∀ x ∈ l', l.contains x = true) → FiltCoversList (some (nv_build l)) l' := by
    intro l l' h g hg; cases hg; exact h
  have hFC : ∀ all en : Entries, (∀ x ∈ en.fields, all.fields.contains x = true) →
      (∀ x ∈ en.tokens, all.tokens.contains x = true) →
      (∀ x ∈ en.fieldTokens, all.fieldTokens.contains x = true) → FiltCovers (buildFilt nv_build all) en :=
    fun _ _ h1 h2 h3 => ⟨hfc _ _ h1, hfc _ _ h2, hfc _ _ h3⟩
  have hCov : ∀ pid v (m : DataBlockMetadata) (mm : MinMaxIndex), m.PartitionID = pid →
      lookupMM "n" m.MinMaxIndexes = some mm → mm.Min ≤ (toRange v).1 → (toRange v).2 ≤ mm.Max →
      Covers m (nv_pre pid v) := by
    intro pid v m mm h1 h2 h3 h4
    refine ⟨h1, fun f w h => ?_⟩
    simp only [nv_pre] at h; split at h
    · subst f; cases h; exact ⟨mm, h2, h3, h4⟩
    · cases h
  have hwf : ∀ f ∈ files, FileWF nv_sem f := by
    intro f hf b hb
    simp only [files, List.mem_cons, List.mem_nil_iff, or_false] at hf
    rcases hf with rfl | rfl
    · simp only [flushFile, List.map_cons, List.map_nil, List.mem_cons, List.mem_nil_iff, or_false] at hb
      subst hb
      refine ⟨fun r hr => ?_, fun r hr => ?_⟩ <;>
        (simp only [mkBlock, List.mem_cons, List.mem_nil_iff, or_false] at hr; subst hr)
      · exact ⟨hCov _ _ _ ⟨45, 45⟩ rfl (by decide) (by decide) (by decide), hFC _ _ (by decide) (by decide) (by decide)⟩
      · exact hFC _ _ (by decide) (by decide) (by decide)
    · simp only [nv_file, nv_parts, flushFile, List.map_cons, List.map_nil, List.mem_cons, List.mem_nil_iff, or_false] at hb
      rcases hb with rfl | rfl
      · refine ⟨fun r hr => ?_, fun r hr => ?_⟩ <;>
          (simp only [mkBlock, List.mem_cons, List.mem_nil_iff, or_false] at hr; rcases hr with rfl | rfl)
        · exact ⟨hCov _ _ _ ⟨7, 42⟩ rfl (by decide) (by decide) (by decide), hFC _ _ (by decide) (by decide) (by decide)⟩
        · exact ⟨hCov _ _ _ ⟨7, 42⟩ rfl (by decide) (by decide) (by decide), hFC _ _ (by decide) (by decide) (by decide)⟩
        · exact hFC _ _ (by decide) (by decide) (by decide)
        · exact hFC _ _ (by decide) (by decide) (by decide)
      · refine ⟨fun r hr => ?_, fun r hr => ?_⟩ <;>
          (simp only [mkBlock, List.mem_cons, List.mem_nil_iff, or_false] at hr; subst hr)
        · exact ⟨hCov _ _ _ ⟨45, 45⟩ rfl (by decide) (by decide) (by decide), hFC _ _ (by decide) (by decide) (by decide)⟩
        · exact hFC _ _ (by decide) (by decide) (by decide)
  have hf : nv_file ∈ files := .tail _ (.head _)
  have hb : b ∈ nv_file.blocks := .head _
  have hr : nv_r1 ∈ b.rows := .head _
  have hv : nv_q.Valid (fun p => !p.isEmpty) := by intro e he; cases he; decide
  have hpre : Expr.ForallOpt PreCond.WF nv_q.pre := by
    simp [nv_q, Expr.ForallOpt, Expr.Forall, Expr.ForallL, PreCond.WF, NumericCondition.WF]
    decide
  exact ⟨hwf, hf, hb, hr, hv, hpre, by decide, by decide,
    C01_no_false_negatives nv_sem _ files nv_q nv_file b nv_r1 hwf hf hb hr hv hpre (by decide) (by decide)⟩

end BloomVerif.C01
