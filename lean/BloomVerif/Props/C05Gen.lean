/-
  C05 / C07 on the code as regenerated from `chan_helpers.go` (T-gen, `Bridge/ChanHelpers`): how one
  acknowledgement reaches one done channel, and how a flush's verdict reaches all of its waiters. The pipeline LTS
  (Props/C05) takes "the worker offers the verdict to each waiter of the request once" as a step; these theorems
  say that the real senders do exactly that.
-/
import BloomVerif.Props.C05
import BloomVerif.Bridge.ChanHelpers
namespace BloomVerif.C05
open BloomVerif BloomVerif.Bridge

/-- **At most once, and truthfully (regenerated code)**: one call of `sendWithContext` puts the value on the
    channel at most once, and returns nil exactly when it did - whatever the channel and the context do. -/
theorem send_once_generated (ready : Bool) (w : Gen.WaitCase) :
    (Gen.sendWithContext ready w).1 ≤ 1 ∧
    ((Gen.sendWithContext ready w).2 = true ↔ (Gen.sendWithContext ready w).1 = 1) :=
  ⟨send_at_most_once ready w, send_nil_iff_sent ready w⟩

/-- **A ready channel always receives (regenerated code)**: a buffered channel with room, or an unbuffered one
    whose receiver is waiting, gets its value even when the context has already ended (Stop's deadline passed). -/
theorem ready_channel_receives_generated (w : Gen.WaitCase) : Gen.sendWithContext true w = (1, true) :=
  ready_always_receives w

/-- **Every waiter of a flush is offered the verdict exactly once (regenerated code)**: the fan-out makes one
    attempt per channel, in order, none skipped after an earlier failure; each attempt sends at most once; a
    waiter whose channel is ready receives whatever happened to the others. -/
theorem fanout_generated (chs : List Waiter) :
    (Gen.sendToChannelsWithContext chs).1.length = chs.length ∧
    (∀ n ∈ (Gen.sendToChannelsWithContext chs).1, n ≤ 1) ∧
    (∀ i (h : i < chs.length), chs[i].1 = false → chs[i].2.1 = true →
      (Gen.sendToChannelsWithContext chs).1[i]? = some 1) ∧
    (Gen.sendToChannelsWithContext chs).2 = (chs.filter (fun c => !(attempt c).2)).length := by
  rw [fanout_spec]
  refine ⟨by simp, ?_, ?_, rfl⟩
  · intro n hn
    simp only [List.mem_map] at hn
    obtain ⟨c, _, rfl⟩ := hn
    exact attempt_at_most_once c
  · intro i h hn hr
    simp only [List.getElem?_map, List.getElem?_eq_getElem h, Option.map_some]
    rw [attempt_ready chs[i] hn hr]

/-- three waiters: a blocked one whose context ends, a nil channel, a ready one - the first failure does not keep
    the third from receiving; one error is collected -/
example :
    Gen.sendToChannelsWithContext [(false, false, .ctxDone), (true, false, .ctxDone), (false, true, .ctxDone)] = ([0, 0, 1], 1) := by
  decide

end BloomVerif.C05
