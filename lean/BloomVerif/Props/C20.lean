/-
  C20 — The Results cursor always reaches a correct terminal state (safety part; "Next eventually
  returns false" is liveness: every terminating path of the LTS is enabled once the pipeline has
  exited, which the bounded wind-down of C21 gives; it is monitored on the implementation).
-/
import BloomVerif.Lemmas.Cursor
namespace BloomVerif.C20
open BloomVerif.Cursor

/-- Next keeps returning false once it has returned false. -/
theorem next_false_stable (s : St) (tr : List Ev) (s' : St) (h : s.iterDone = true) (hr : run s tr = some s') :
    s'.iterDone = true ∧ Ev.nextRow ∉ tr ∧ Ev.nextBatch ∉ tr :=
  next_false_stable_aux s tr s' h hr

/-- non-vacuity: the premises of `next_false_stable` hold for a cursor that drained a delivered batch, saw the closed channel (iteration ended) and is then called again, closed and canceled -/
example : ∃ s s', run {} [.deliver 2, .workersDone, .nextEnter, .nextBatch, .nextEnter, .nextRow, .nextEnter, .nextFalseClean] = some s ∧
    s.iterDone = true ∧ run s [.nextEnter, .nextFalseDone, .close, .cancelCaller, .nextEnter, .nextFalseDone] = some s' ∧
    s'.iterDone = true ∧ s'.nextFalse = 3 :=
  ⟨_, _, rfl, rfl, rfl, rfl, rfl⟩

/-- Close (and anything else) does not change an already-decided terminal state. -/
theorem finalized_immutable (s : St) (tr : List Ev) (s' : St) (h : s.finalized = true) (hr : run s tr = some s') :
    s'.finalized = true ∧ s'.err = s.err :=
  finalized_immutable_aux s tr s' h hr

/-- non-vacuity: the premises of `finalized_immutable` hold for a cursor closed after two recorded failures; a later cancel, terminating Next and second Close leave `failures 2` in place -/
example : ∃ s s', run {} [.record, .deliver 1, .record, .workersDone, .close] = some s ∧ s.finalized = true ∧
    run s [.cancelCaller, .nextEnter, .nextFalseTerm, .close] = some s' ∧ s.err = .failures 2 ∧ s'.err = .failures 2 :=
  ⟨_, _, rfl, rfl, rfl, rfl, rfl⟩

/-- **Err is correct** at the step that decides it, from any reachable state: nil only if nothing
    failed; the context error if the Query context was canceled when Close / the terminating Next ran;
    every recorded failure otherwise; and the pipeline has exited (so no failure is recorded later). -/
theorem C20_err_correct (s s' : St) (e : Ev) (hr : Reachable s) (hf : s.finalized = false)
    (hs : step s e = some s') (hf' : s'.finalized = true) :
    (s'.err = .clean → s'.recorded = 0) ∧
    (e = .close → s.callerCanceled = true → s'.err = .canceled) ∧
    (e = .nextFalseTerm → s.callerCanceled = true → s'.err = .canceled) ∧
    (s.callerCanceled = false → s'.err = joined s'.recorded) ∧
    s'.workersDone = true :=
  err_correct_step_aux s s' e (inv_reachable_aux s hr) hf hs hf'

/-- non-vacuity: the premises of `C20_err_correct` hold for Close on a reachable, undecided state (a batch delivered, a failure recorded, the caller canceled, the pipeline exited); the decided error is the context error -/
example : ∃ s s' e, Reachable s ∧ s.finalized = false ∧ step s e = some s' ∧ s'.finalized = true ∧
    e = .close ∧ s.callerCanceled = true ∧ s.recorded = 1 ∧ s'.err = .canceled :=
  ⟨_, _, .close, ⟨[.deliver 3, .record, .cancelCaller, .workersDone], rfl⟩, rfl, rfl, rfl, rfl, rfl, rfl, rfl⟩

/-- non-vacuity: the premises of `C20_err_correct` also hold for an uncancelled terminating Next (clean end of a run with two recorded failures); the decided error joins both failures -/
example : ∃ s s', Reachable s ∧ s.finalized = false ∧ step s .nextFalseClean = some s' ∧ s'.finalized = true ∧
    s.callerCanceled = false ∧ s'.err = .failures 2 :=
  ⟨_, _, ⟨[.record, .deliver 2, .record, .workersDone, .nextEnter, .nextBatch, .nextEnter, .nextRow, .nextEnter], rfl⟩, rfl, rfl, rfl, rfl, rfl⟩

/-- non-vacuity of the model itself: `nextRow` is live - a batch of three rows is handed out by one
    `nextBatch` (its first row) and two `nextRow`s, and only then may Next observe the end. -/
example : ∃ s, run {} [.deliver 3, .workersDone, .nextEnter, .nextBatch, .nextEnter, .nextRow, .nextEnter, .nextRow,
      .nextEnter, .nextFalseClean] = some s ∧ s.err = .clean ∧ s.nextFalse = 1 ∧
    run {} [.deliver 3, .workersDone, .nextEnter, .nextBatch, .nextEnter, .nextFalseClean] = none :=
  ⟨_, rfl, rfl, rfl, rfl⟩

/-- A Next that began after the Query context had ended - whether or not the cancellation has reached the
    cursor's derived context yet (asynchronous propagation for non-standard Context types) - never decides
    "complete": the state it decides is the context error. -/
theorem C20_canceled_before_next (s s' : St) (e : Ev) (hr : Reachable s) (hin : s.inNext = true)
    (hc : s.canceledAtEntry = true) (hf : s.finalized = false) (hs : step s e = some s') (hf' : s'.finalized = true)
    (he : e ≠ .close) : s'.err = .canceled :=
  canceled_before_next_aux s s' e hr hin hc hf hs hf' he

/-- non-vacuity: the context ends, nothing has propagated to the internal context, all rows are ready and the
    pipeline has exited; the next Next still decides "canceled" -/
example : ∃ s s', Reachable s ∧ s.inNext = true ∧ s.canceledAtEntry = true ∧ s.finalized = false ∧
    step s .nextFalseTerm = some s' ∧ s'.err = .canceled ∧ step s .nextFalseClean = none :=
  ⟨_, _, ⟨[.deliver 1, .workersDone, .nextEnter, .nextBatch, .cancelCaller, .nextEnter], rfl⟩, rfl, rfl, rfl, rfl, rfl, rfl⟩

theorem close_idempotent (s s' s'' : St) (h1 : step s .close = some s') (h2 : step s' .close = some s'') :
    s''.err = s'.err ∧ s''.finalized = s'.finalized ∧ s''.iterDone = s'.iterDone :=
  close_idempotent_aux s s' s'' h1 h2

/-- non-vacuity: the premises of `close_idempotent` hold for two Close calls on a state reached by a delivery, a recorded failure and the pipeline's exit -/
example : ∃ s s' s'', run {} [.deliver 2, .record, .workersDone] = some s ∧ step s .close = some s' ∧
    step s' .close = some s'' ∧ s'.err = .failures 1 ∧ s''.closeCalls = 2 :=
  ⟨_, _, _, rfl, rfl, rfl, rfl, rfl⟩

/-- Non-vacuity: cancel, then Close, then Next: the terminal state is the context error. -/
example : ∃ s, run {} [.deliver 3, .cancelCaller, .workersDone, .close, .nextEnter, .nextFalseTerm] = some s ∧ s.err = .canceled ∧ s.iterDone = true := by
  refine ⟨_, rfl, rfl, rfl⟩

end BloomVerif.C20
