/-
  C20 — The Results cursor always reaches a correct terminal state (safety part; "Next eventually
  returns false" is liveness: every terminating path of the LTS is enabled once the pipeline has
  exited, which the bounded wind-down of C21 gives; it is monitored on the implementation).
-/
import BloomVerif.Lemmas.Cursor
namespace BloomVerif.C20
open BloomVerif.Cursor

/-- Next keeps returning false once it has returned false. -/
theorem next_false_stable (s : St) (tr : List Ev) (s' : St) (h : s.iterDone = true) (hr : run s tr = some s') :
    s'.iterDone = true ∧ Ev.nextRow ∉ tr ∧ Ev.nextBatch ∉ tr :=
  next_false_stable_aux s tr s' h hr

/-- Close (and anything else) does not change an already-decided terminal state. -/
theorem finalized_immutable (s : St) (tr : List Ev) (s' : St) (h : s.finalized = true) (hr : run s tr = some s') :
    s'.finalized = true ∧ s'.err = s.err :=
  finalized_immutable_aux s tr s' h hr

/-- **Err is correct** at the step that decides it, from any reachable state: nil only if nothing
    failed; the context error if the Query context was canceled when Close / the terminating Next ran;
    every recorded failure otherwise; and the pipeline has exited (so no failure is recorded later). -/
theorem C20_err_correct (s s' : St) (e : Ev) (hr : Reachable s) (hf : s.finalized = false)
    (hs : step s e = some s') (hf' : s'.finalized = true) :
    (s'.err = .clean → s'.recorded = 0) ∧
    (e = .close → s.callerCanceled = true → s'.err = .canceled) ∧
    (e = .nextFalseTerm → s.callerCanceled = true → s'.err = .canceled) ∧
    (s.callerCanceled = false → s'.err = joined s'.recorded) ∧
    s'.workersDone = true :=
  err_correct_step_aux s s' e (inv_reachable_aux s hr) hf hs hf'

theorem close_idempotent (s s' s'' : St) (h1 : step s .close = some s') (h2 : step s' .close = some s'') :
    s''.err = s'.err ∧ s''.finalized = s'.finalized ∧ s''.iterDone = s'.iterDone :=
  close_idempotent_aux s s' s'' h1 h2

/-- Non-vacuity: cancel, then Close, then Next: the terminal state is the context error. -/
example : ∃ s, run {} [.deliver 3, .cancelCaller, .workersDone, .close, .nextEnter, .nextFalseTerm] = some s ∧ s.err = .canceled ∧ s.iterDone = true := by
  refine ⟨_, rfl, rfl, rfl⟩

end BloomVerif.C20
