/-
  C16 — FileSystemDataStore behaves like its specification. PARTIAL: the refinement is proved for
  callers that do not tombstone a pointer while its writer is open (and abort at most once); at the
  excluded point the unchanged code publishes another writer's partial bytes (witness proved below,
  replayed on the implementation by the check, recorded as a known finding).
-/
import BloomVerif.Lemmas.FSStore
namespace BloomVerif.C16
open BloomVerif.FSStore

/-- No CreateFile ever overwrites or exposes another file: the name it settles on was free (both
    the final name and the temp name), and every existing path keeps its inode and its bytes —
    whatever collisions the draw sequence produces. -/
theorem create_never_clobbers (fs fs' : FS) (draws : List String) (b : String) (i : Nat)
    (h : createLoop fs draws = some (fs', b, i)) :
    fs.lookup (dat b) = none ∧ fs.lookup (tmp b) = none ∧
    (∀ p j, fs.lookup p = some j → fs'.lookup p = some j ∧ fs'.data j = fs.data j) :=
  createLoop_frame_aux fs fs' draws b i h

/-- witness directory: a published file `a.dat` and an orphaned `b.tmp` left by a crashed writer -/
private def nv_fs : FS := { names := [("a.dat", 0), ("b.tmp", 1)], inodes := [(0, [1]), (1, [2])], next := 2 }

/-- non-vacuity: the premise of `create_never_clobbers` holds for a draw sequence that collides with a published file, then with an orphaned temp file, and settles on the third name; the theorem applies -/
example : ∃ fs' i, createLoop nv_fs ["a", "b", "c"] = some (fs', "c", i) ∧
    fs'.lookup "a.dat" = some 0 ∧ fs'.lookup "b.tmp" = some 1 ∧ fs'.lookup "b.dat" = none :=
  have h : createLoop nv_fs ["a", "b", "c"] =
      some (⟨[("a.dat", 0), ("b.tmp", 1), ("c.dat", 3), ("c.tmp", 4)],
             [(0, [1]), (1, [2]), (2, []), (3, []), (4, [])], 5⟩, "c", 4) := by decide
  ⟨_, _, h, ((create_never_clobbers _ _ _ _ _ h).2.2 "a.dat" 0 (by decide)).1,
    ((create_never_clobbers _ _ _ _ _ h).2.2 "b.tmp" 1 (by decide)).1, by decide⟩

/-- TombstoneFile removes every artifact of its pointer and touches nothing else. -/
theorem tombstone_removes_all (s : St) (b : String) :
    (step s (.tombstone b)).1.fs.lookup (dat b) = none ∧ (step s (.tombstone b)).1.fs.lookup (tmp b) = none ∧
    (∀ p, p ≠ dat b → p ≠ tmp b → (step s (.tombstone b)).1.fs.lookup p = s.fs.lookup p) :=
  tombstone_removes_all_aux s b

/-- **Refinement step** (C16_scan_exact, partial): every allowed operation keeps the directory an
    implementation of the specification — a pointer's final name holds exactly the bytes its writer
    wrote once Close succeeded, an unfinished write is an empty reservation plus an invisible temp
    file, an aborted or tombstoned pointer leaves nothing. Iterating over any allowed call sequence
    from the empty directory gives the statement for every reachable state. -/
theorem C16_refinement_partial (s : St) (spec : String → PStatus) (op : Op)
    (hbase : ∀ b1 b2 : String, (dat b1 = dat b2 → b1 = b2) ∧ (tmp b1 = tmp b2 → b1 = b2) ∧ dat b1 ≠ tmp b2)
    (hr : Refines s spec) (hw : FSWF s.fs) (hwr : ∀ w ∈ s.writers, w.ino < s.fs.next) (ha : Allowed s op) :
    Refines (step s op).1 (specStep spec s op (step s op).2) ∧ FSWF (step s op).1.fs ∧
    (∀ w ∈ (step s op).1.writers, w.ino < (step s op).1.fs.next) :=
  refines_step_aux s spec op hbase hr hw hwr ha

/-- The side condition of `C16_refinement_partial` is a fact about string append: `base ↦ base.dat` and
    `base ↦ base.tmp` are injective and their images are disjoint. -/
theorem names_distinct (b1 b2 : String) :
    (dat b1 = dat b2 → b1 = b2) ∧ (tmp b1 = tmp b2 → b1 = b2) ∧ dat b1 ≠ tmp b2 := by
  refine ⟨fun h => (String.append_left_inj ".dat").mp h, fun h => (String.append_left_inj ".tmp").mp h, ?_⟩
  intro h
  have h' := congrArg (fun s => s.toList.getLast?) h
  simp [dat, tmp, String.toList_append] at h'

/-- The refinement step with that side condition discharged. -/
theorem C16_refinement_step_partial (s : St) (spec : String → PStatus) (op : Op)
    (hr : Refines s spec) (hw : FSWF s.fs) (hwr : ∀ w ∈ s.writers, w.ino < s.fs.next) (ha : Allowed s op) :
    Refines (step s op).1 (specStep spec s op (step s op).2) ∧ FSWF (step s op).1.fs ∧
    (∀ w ∈ (step s op).1.writers, w.ino < (step s op).1.fs.next) :=
  C16_refinement_partial s spec op names_distinct hr hw hwr ha

/-- witness history: one pointer written and published, a second one (drawn after a name collision) still being written -/
private def nv_ops : List Op := [.create ["x"], .write 0 [1, 1], .create ["x", "y"], .write 1 [9], .close 0]
private def nv_s : St := (runOps {} nv_ops).1

/-- non-vacuity: the premises of `C16_refinement_partial` hold jointly — `hbase` is a theorem about string append, and `Refines`/`FSWF`/the inode bound hold of the state reached by five real operations (obtained from the base case `refines_init_aux` by iterating the theorem itself), where tombstoning the published pointer is `Allowed`; the theorem applies once more -/
example : ∃ (s : St) (spec : String → PStatus) (op : Op),
    (∀ b1 b2 : String, (dat b1 = dat b2 → b1 = b2) ∧ (tmp b1 = tmp b2 → b1 = b2) ∧ dat b1 ≠ tmp b2) ∧
    Refines s spec ∧ FSWF s.fs ∧ (∀ w ∈ s.writers, w.ino < s.fs.next) ∧ Allowed s op ∧
    s = nv_s ∧ s.writers.length = 2 ∧ spec "x" = .published [1, 1] ∧ spec "y" = .writing [9] ∧
    op = .tombstone "x" ∧ Refines (step s op).1 (specStep spec s op (step s op).2) := by
  have hbase : ∀ b1 b2 : String, (dat b1 = dat b2 → b1 = b2) ∧ (tmp b1 = tmp b2 → b1 = b2) ∧ dat b1 ≠ tmp b2 := by
    intro b1 b2
    refine ⟨fun h => (String.append_left_inj ".dat").mp h, fun h => (String.append_left_inj ".tmp").mp h, ?_⟩
    intro h
    have h' := congrArg (fun s => s.toList.getLast?) h
    simp [dat, tmp, String.toList_append] at h'
  have h0 := refines_init_aux
  have h1 := C16_refinement_partial {} _ (.create ["x"]) hbase h0.1 h0.2 (by intro w hw; cases hw) trivial
  have h2 := C16_refinement_partial _ _ (.write 0 [1, 1]) hbase h1.1 h1.2.1 h1.2.2 trivial
  have h3 := C16_refinement_partial _ _ (.create ["x", "y"]) hbase h2.1 h2.2.1 h2.2.2 trivial
  have h4 := C16_refinement_partial _ _ (.write 1 [9]) hbase h3.1 h3.2.1 h3.2.2 trivial
  have h5 := C16_refinement_partial _ _ (.close 0) hbase h4.1 h4.2.1 h4.2.2 trivial
  have ha : Allowed nv_s (.tombstone "x") := by
    show ∀ w ∈ nv_s.writers, w.base = "x" → w.closed = true
    decide
  exact ⟨_, _, .tombstone "x", hbase, h5.1, h5.2.1, h5.2.2, ha, rfl, by decide, by decide, by decide, rfl,
    (C16_refinement_partial _ _ _ hbase h5.1 h5.2.1 h5.2.2 ha).1⟩

/-- non-vacuity: in the same state, aborting the still-open writer is `Allowed` too (the guard of `.abort`) -/
example : Allowed nv_s (.abort 1) := by
  show ∀ w, nv_s.writers[1]? = some w → (w.closed = false ∨ w.published = true)
  intro w hw
  have e : nv_s.writers[1]? = some ⟨"y", 3, false, false⟩ := by decide
  rw [e] at hw; cases hw; exact Or.inl rfl

theorem refinement_base : Refines {} (fun _ => .gone) ∧ FSWF ({} : St).fs := refines_init_aux

/-- The specification run alongside the implementation over a call sequence. -/
def runSpec : (String → PStatus) → St → List Op → (String → PStatus) × St
  | spec, s, [] => (spec, s)
  | spec, s, op :: ops => runSpec (specStep spec s op (step s op).2) (step s op).1 ops

/-- Every call of the sequence is allowed in the state it is made in (the discipline of the partial
    statement: tombstone only finished pointers; Abort only an open or a published writer). -/
def AllowedAll : St → List Op → Prop
  | _, [] => True
  | s, op :: ops => Allowed s op ∧ AllowedAll (step s op).1 ops

/-- **C16 over whole call sequences** (partial by the discipline only): after ANY allowed sequence of
    CreateFile (any draw scripts), Write, Close, Abort, TombstoneFile and OpenFile calls from the empty
    directory, the directory implements the specification state computed alongside. -/
theorem C16_refinement_history_partial (ops : List Op) (h : AllowedAll {} ops) :
    Refines (runSpec (fun _ => .gone) {} ops).2 (runSpec (fun _ => .gone) {} ops).1 := by
  suffices H : ∀ (ops : List Op) (s : St) (spec : String → PStatus), Refines s spec → FSWF s.fs →
      (∀ w ∈ s.writers, w.ino < s.fs.next) → AllowedAll s ops → Refines (runSpec spec s ops).2 (runSpec spec s ops).1 by
    exact H ops {} _ refinement_base.1 refinement_base.2 (by intro w hw; cases hw) h
  intro ops
  induction ops with
  | nil => intro s spec hr _ _ _; exact hr
  | cons op ops ih =>
    intro s spec hr hw hwr ha
    obtain ⟨h1, h2, h3⟩ := C16_refinement_step_partial s spec op hr hw hwr ha.1
    exact ih _ _ h1 h2 h3 ha.2

/-- non-vacuity: a disciplined sequence with a publish, a tombstone of the finished pointer and a reuse of
    its name by a new writer -/
example : AllowedAll {} [.create ["x"], .write 0 [1, 1], .close 0, .tombstone "x", .create ["x"], .write 1 [9], .close 1, .open_ "x"] := by
  refine ⟨trivial, trivial, trivial, ?_, trivial, trivial, trivial, trivial, trivial⟩
  show ∀ w : Writer, w ∈ _ → w.base = "x" → w.closed = true
  decide

/-- The unguarded statement is false of the unchanged code. -/
theorem C16_counterexample :
    let ops : List Op := [.create ["x"], .write 0 [1, 1], .tombstone "x", .create ["x"], .write 1 [9], .close 0, .open_ "x"]
    (runOps {} ops).2 = [.created "x", .ok, .ok, .created "x", .ok, .ok, .data [9]] :=
  tombstone_while_open_exposes_aux

end BloomVerif.C16
