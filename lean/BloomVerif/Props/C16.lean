/-
  C16 — FileSystemDataStore behaves like its specification. PARTIAL: the refinement is proved for
  callers that do not tombstone a pointer while its writer is open (and abort at most once); at the
  excluded point the unchanged code publishes another writer's partial bytes (witness proved below,
  replayed on the implementation by the check, recorded as a known finding).
-/
import BloomVerif.Lemmas.FSStore
namespace BloomVerif.C16
open BloomVerif.FSStore

/-- No CreateFile ever overwrites or exposes another file: the name it settles on was free (both
    the final name and the temp name), and every existing path keeps its inode and its bytes —
    whatever collisions the draw sequence produces. -/
theorem create_never_clobbers (fs fs' : FS) (draws : List String) (b : String) (i : Nat)
    (h : createLoop fs draws = some (fs', b, i)) :
    fs.lookup (dat b) = none ∧ fs.lookup (tmp b) = none ∧
    (∀ p j, fs.lookup p = some j → fs'.lookup p = some j ∧ fs'.data j = fs.data j) :=
  createLoop_frame_aux fs fs' draws b i h

/-- TombstoneFile removes every artifact of its pointer and touches nothing else. -/
theorem tombstone_removes_all (s : St) (b : String) :
    (step s (.tombstone b)).1.fs.lookup (dat b) = none ∧ (step s (.tombstone b)).1.fs.lookup (tmp b) = none ∧
    (∀ p, p ≠ dat b → p ≠ tmp b → (step s (.tombstone b)).1.fs.lookup p = s.fs.lookup p) :=
  tombstone_removes_all_aux s b

/-- **Refinement step** (C16_scan_exact, partial): every allowed operation keeps the directory an
    implementation of the specification — a pointer's final name holds exactly the bytes its writer
    wrote once Close succeeded, an unfinished write is an empty reservation plus an invisible temp
    file, an aborted or tombstoned pointer leaves nothing. Iterating over any allowed call sequence
    from the empty directory gives the statement for every reachable state. -/
theorem C16_refinement_partial (s : St) (spec : String → PStatus) (op : Op)
    (hbase : ∀ b1 b2 : String, (dat b1 = dat b2 → b1 = b2) ∧ (tmp b1 = tmp b2 → b1 = b2) ∧ dat b1 ≠ tmp b2)
    (hr : Refines s spec) (hw : FSWF s.fs) (hwr : ∀ w ∈ s.writers, w.ino < s.fs.next) (ha : Allowed s op) :
    Refines (step s op).1 (specStep spec s op (step s op).2) ∧ FSWF (step s op).1.fs ∧
    (∀ w ∈ (step s op).1.writers, w.ino < (step s op).1.fs.next) :=
  refines_step_aux s spec op hbase hr hw hwr ha

theorem refinement_base : Refines {} (fun _ => .gone) ∧ FSWF ({} : St).fs := refines_init_aux

/-- The unguarded statement is false of the unchanged code. -/
theorem C16_counterexample :
    let ops : List Op := [.create ["x"], .write 0 [1, 1], .tombstone "x", .create ["x"], .write 1 [9], .close 0, .open_ "x"]
    (runOps {} ops).2 = [.created "x", .ok, .ok, .created "x", .ok, .ok, .data [9]] :=
  tombstone_while_open_exposes_aux

end BloomVerif.C16
