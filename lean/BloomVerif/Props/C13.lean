/-
  C13 — Merge is all-or-nothing and commits only durable output. For a failure at every position
  of every store call kind of a multi-group merge (`fail` is an arbitrary predicate on positions).
-/
import BloomVerif.Lemmas.Proto
namespace BloomVerif.C13
open BloomVerif.Proto

/-- **C13**: either the merge committed (outputs referenced, sources unreferenced, every source
    tombstone issued — after the commit — and no output tombstoned) or nothing changed in the
    MetaStore and no source was touched. -/
theorem C13_atomic (p : MergePlanCalls) (fail : Nat → Bool) :
    ((merge p fail).committed = true ∧ (merge p fail).outputsTombstoned = 0 ∧
      (merge p fail).sourcesTombstoneCalls = p.sources ∧ (merge p fail).result ≠ .err) ∨
    ((merge p fail).committed = false ∧ (merge p fail).sourcesTombstoneCalls = 0 ∧
      ((merge p fail).result = .err ∨ (p.groups = [] ∧ (merge p fail).result = .ok))) :=
  merge_atomic_aux p fail

/-- Merge returns a nil error (with work to do) only when it committed and every source tombstone
    succeeded. -/
theorem return_nil_iff_committed_clean (p : MergePlanCalls) (fail : Nat → Bool) (hg : p.groups ≠ []) :
    (merge p fail).result = .ok ↔
      ((merge p fail).committed = true ∧
       (List.range p.sources).all (fun j => !fail (1 + totalCalls p.groups + 1 + j)) = true) :=
  merge_ok_iff_aux p fail hg

/-- ErrPostCommitCleanup (with stats) exactly when it committed but a source tombstone failed. -/
theorem postcommit_err_iff (p : MergePlanCalls) (fail : Nat → Bool) :
    (merge p fail).result = .postCommitErr ↔
      ((merge p fail).committed = true ∧
       (List.range p.sources).any (fun j => fail (1 + totalCalls p.groups + 1 + j)) = true) :=
  merge_postcommit_iff_aux p fail

/-- When it does not commit, no more outputs are tombstoned than were created. -/
theorem orphans_bounded (p : MergePlanCalls) (fail : Nat → Bool) (h : (merge p fail).committed = false) :
    (merge p fail).outputsTombstoned ≤ p.groups.length :=
  merge_orphans_aux p fail h

/-- Non-vacuity: a fault-free two-group merge commits. -/
example : (merge ⟨[[.create, .openR, .read, .closeR, .write, .close], [.create, .write, .close]], 4⟩ (fun _ => false)).committed = true := by
  decide

/-- Non-vacuity: a read failure in the second group leaves one orphan output tombstoned plus the group's own. -/
example : merge ⟨[[.create, .write, .close], [.create, .openR, .read, .closeR, .write, .close]], 4⟩ (fun k => k == 6) =
    { result := .err, committed := false, outputsTombstoned := 2, sourcesTombstoneCalls := 0 } := by decide

end BloomVerif.C13
