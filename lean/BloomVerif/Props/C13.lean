/-
  C13 — Merge is all-or-nothing and commits only durable output. For a failure at every position
  of every store call kind of a multi-group merge (`fail` is an arbitrary predicate on positions).
-/
import BloomVerif.Lemmas.Proto
namespace BloomVerif.C13
open BloomVerif.Proto

/-- **C13**: either the merge committed (outputs referenced, sources unreferenced, every source
    tombstone issued — after the commit — and no output tombstoned) or nothing changed in the
    MetaStore and no source was touched. -/
theorem C13_atomic (p : MergePlanCalls) (fail : Nat → Bool) :
    ((merge p fail).committed = true ∧ (merge p fail).outputsTombstoned = 0 ∧
      (merge p fail).sourcesTombstoneCalls = p.sources ∧ (merge p fail).result ≠ .err) ∨
    ((merge p fail).committed = false ∧ (merge p fail).sourcesTombstoneCalls = 0 ∧
      ((merge p fail).result = .err ∨ (p.groups = [] ∧ (merge p fail).result = .ok))) :=
  merge_atomic_aux p fail

/-- Merge returns a nil error (with work to do) only when it committed and every source tombstone
    succeeded. -/
theorem return_nil_iff_committed_clean (p : MergePlanCalls) (fail : Nat → Bool) (hg : p.groups ≠ []) :
    (merge p fail).result = .ok ↔
      ((merge p fail).committed = true ∧
       (List.range p.sources).all (fun j => !fail (1 + totalCalls p.groups + 1 + j)) = true) :=
  merge_ok_iff_aux p fail hg

/-- Witness plan for the non-vacuity examples: two groups (one reading a source, 6 + 3 calls) and four sources. -/
private def nv_plan : MergePlanCalls :=
  ⟨[[.create, .openR, .read, .closeR, .write, .close], [.create, .write, .close]], 4⟩

/-- non-vacuity: the premise of `return_nil_iff_committed_clean` holds for that plan, and both sides of the
    equivalence are true for a run whose only fault is an (ignored) reader Close error -/
example : nv_plan.groups ≠ [] ∧ (merge nv_plan (fun k => k == 4)).result = .ok ∧
    (merge nv_plan (fun k => k == 4)).committed = true :=
  ⟨by decide, by decide, ((return_nil_iff_committed_clean nv_plan (fun k => k == 4) (by decide)).1 (by decide)).1⟩

/-- non-vacuity: … and both sides are false when the third source tombstone (call 1 + 9 + 1 + 2) fails -/
example : nv_plan.groups ≠ [] ∧ (merge nv_plan (fun k => k == 13)).result = .postCommitErr ∧
    (List.range nv_plan.sources).all (fun j => !(fun k => k == 13) (1 + totalCalls nv_plan.groups + 1 + j)) = false :=
  ⟨by decide, by decide, by decide⟩

/-- ErrPostCommitCleanup (with stats) exactly when it committed but a source tombstone failed. -/
theorem postcommit_err_iff (p : MergePlanCalls) (fail : Nat → Bool) :
    (merge p fail).result = .postCommitErr ↔
      ((merge p fail).committed = true ∧
       (List.range p.sources).any (fun j => fail (1 + totalCalls p.groups + 1 + j)) = true) :=
  merge_postcommit_iff_aux p fail

/-- When it does not commit, no more outputs are tombstoned than were created. -/
theorem orphans_bounded (p : MergePlanCalls) (fail : Nat → Bool) (h : (merge p fail).committed = false) :
    (merge p fail).outputsTombstoned ≤ p.groups.length :=
  merge_orphans_aux p fail h

/-- non-vacuity: the premise of `orphans_bounded` holds for the two-group plan when the second group's write
    (call 8) fails: nothing is committed, both outputs are tombstoned, and 2 ≤ 2 groups -/
example : (merge nv_plan (fun k => k == 8)).committed = false ∧ (merge nv_plan (fun k => k == 8)).outputsTombstoned = 2 ∧
    (merge nv_plan (fun k => k == 8)).outputsTombstoned ≤ nv_plan.groups.length :=
  ⟨by decide, by decide, orphans_bounded nv_plan (fun k => k == 8) (by decide)⟩

/-- Non-vacuity: a fault-free two-group merge commits. -/
example : (merge ⟨[[.create, .openR, .read, .closeR, .write, .close], [.create, .write, .close]], 4⟩ (fun _ => false)).committed = true := by
  decide

/-- Non-vacuity: a read failure in the second group leaves one orphan output tombstoned plus the group's own. -/
example : merge ⟨[[.create, .write, .close], [.create, .openR, .read, .closeR, .write, .close]], 4⟩ (fun k => k == 6) =
    { result := .err, committed := false, outputsTombstoned := 2, sourcesTombstoneCalls := 0 } := by decide

end BloomVerif.C13
