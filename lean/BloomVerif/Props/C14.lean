/-
  C14 — Queries concurrent with flushes and merges see a consistent snapshot. Machine-checked for
  MemoryMetaStore; for FileSystemDataStore used as MetaStore the statement is false of the unchanged
  code (two witnesses below, replayed on the implementation by the check; known findings); what is
  proved for it is the merge-free part.
-/
import BloomVerif.Lemmas.Snapshot
namespace BloomVerif.C14
open BloomVerif.Snapshot

/-- MemoryMetaStore, every interleaving of publishes, flush commits, merge commits, tombstones and the
    steps of a query: a query that finishes with a nil error returns no row twice, returns every
    matching row acknowledged before it started, and returns only acknowledged (ingested) matching rows. -/
theorem C14_memory (m : Row → Bool) (evs : List Ev) (s : St) (q : Query)
    (hrun : Mem.run m {} evs = some s) (hq : finishedOk s = some q) :
    q.got.Nodup ∧
    (∀ r, r ∈ q.ackedAtStart → m r = true → r ∈ q.got) ∧
    (∀ r, r ∈ q.got → r ∈ s.acked ∧ m r = true) :=
  mem_snapshot_consistent_aux m evs s q hrun hq

/-- The hypotheses are satisfiable by a history with a merge between snapshot and reads … -/
example : ∃ s q, Mem.run (fun _ => true) {}
    [.publish 1 [10], .commitFlush 1, .publish 2 [20], .commitFlush 2, .qBegin,
     .publish 3 [10, 20], .commitMerge [3] [1, 2], .qSnap, .qOpen 3, .tombstone 1, .tombstone 2] = some s ∧
    finishedOk s = some q ∧ q.got = [10, 20] := mem_same_schedules_aux.2

/-- … and where the merge removes a file the query still needed, the query reports an error. -/
example : ∃ s q, Mem.run (fun _ => true) {}
    [.publish 1 [10], .commitFlush 1, .publish 2 [20], .commitFlush 2, .qBegin, .qSnap,
     .publish 3 [10, 20], .commitMerge [3] [1, 2], .tombstone 1, .tombstone 2, .qOpen 1, .qOpen 2] = some s ∧
    s.q = some q ∧ q.err = true := mem_same_schedules_aux.1

private def nv_memEvs : List Ev :=
  [.publish 1 [10, 11], .commitFlush 1, .publish 2 [20], .commitFlush 2, .qBegin,
   .publish 3 [10, 11, 20], .commitMerge [3] [1, 2], .qSnap, .tombstone 1, .qOpen 3]

/-- non-vacuity: the premises of `C14_memory` hold for a ten-event history (two flushes, a merge committed between the query's start and its snapshot, a tombstone before the read) with a selective predicate, and the theorem applies to it -/
example : ∃ s q, Mem.run (fun r => r != 20) {} nv_memEvs = some s ∧
    finishedOk s = some q ∧ q.ackedAtStart = [10, 11, 20] ∧ q.got = [10, 11] ∧
    (q.got.Nodup ∧ (∀ r, r ∈ q.ackedAtStart → (r != 20) = true → r ∈ q.got) ∧
      (∀ r, r ∈ q.got → r ∈ s.acked ∧ (r != 20) = true)) :=
  ⟨_, _, rfl, rfl, rfl, rfl, C14_memory (fun r => r != 20) nv_memEvs _ _ rfl rfl⟩

/-- Directory as MetaStore, histories without removals: nothing acknowledged before the query is omitted. -/
theorem C14_directory_partial (m : Row → Bool) (evs : List Ev) (s : St) (q : Query)
    (hnorm : ∀ e ∈ evs, (∀ f, e ≠ .tombstone f))
    (hrun : Dir.run m {} evs = some s) (hq : finishedOk s = some q) :
    (∀ r, r ∈ q.ackedAtStart → m r = true → r ∈ q.got) :=
  dir_no_removal_consistent_aux m evs s q hnorm hrun hq

private def nv_dirEvs : List Ev :=
  [.publish 1 [10, 11], .commitFlush 1, .publish 2 [20], .commitFlush 2, .qBegin,
   .publish 3 [30], .commitFlush 3, .qSnap, .publish 4 [10, 11, 20], .commitMerge [4] [1, 2],
   .qOpen 1, .qOpen 2, .qOpen 3]

/-- non-vacuity: the premises of `C14_directory_partial` hold for a removal-free history with two flushes before the query, a third flush and a merge publication during it; the theorem applies to it -/
example : ∃ s q, (∀ e ∈ nv_dirEvs, (∀ f, e ≠ Ev.tombstone f)) ∧ Dir.run (fun r => r != 20) {} nv_dirEvs = some s ∧
    finishedOk s = some q ∧ q.ackedAtStart = [10, 11, 20] ∧ q.got = [10, 11, 30] ∧
    (∀ r, r ∈ q.ackedAtStart → (r != 20) = true → r ∈ q.got) :=
  have hn : ∀ e ∈ nv_dirEvs, (∀ f, e ≠ Ev.tombstone f) := by
    intro e he f; simp [nv_dirEvs] at he
    rcases he with h | h | h | h | h | h | h | h | h | h | h | h | h <;> subst h <;> simp
  ⟨_, _, hn, rfl, rfl, rfl, rfl, C14_directory_partial (fun r => r != 20) nv_dirEvs _ _ hn rfl rfl⟩

/-- The full statement is false for the directory discipline: silent omission … -/
theorem C14_directory_omission :
    let evs : List Ev := [.publish 1 [10], .commitFlush 1, .publish 2 [20], .commitFlush 2, .qBegin, .qSnap,
      .publish 3 [10, 20], .commitMerge [3] [1, 2], .tombstone 1, .tombstone 2, .qOpen 1, .qOpen 2]
    ∃ s q, Dir.run (fun _ => true) {} evs = some s ∧ finishedOk s = some q ∧ q.ackedAtStart = [10, 20] ∧ q.got = [] :=
  dir_omission_aux

/-- … and silent duplication. -/
theorem C14_directory_duplication :
    let evs : List Ev := [.publish 1 [10], .commitFlush 1, .publish 2 [20], .commitFlush 2, .qBegin,
      .publish 3 [10, 20], .commitMerge [3] [1, 2], .qSnap, .qOpen 1, .qOpen 2, .qOpen 3, .tombstone 1, .tombstone 2]
    ∃ s q, Dir.run (fun _ => true) {} evs = some s ∧ finishedOk s = some q ∧ q.got = [10, 20, 10, 20] :=
  dir_duplication_aux

end BloomVerif.C14
